package common

// C05 - record framing survives any TCP segmentation and concurrent writers.
//
// c05Pipe / c05Conn: an in-memory net.Conn whose write side appends to a byte queue and whose read
// side hands out exactly the segments the harness decides (grant horizon, cut positions, seeded
// random segment sizes).  A writer can be parked at the entry of its n-th underlying Write so that
// an implementation issuing several underlying Writes per message interleaves deterministically.
//
// B1  TestVerifC05Replay: behaviours exported by TLC from spec/RecordLayerGen.tla ([W / C(n) / R])
//     are stepped through a real TLSConn pair; every value returned by TLSConn.Read is compared with
//     the R step of the model.  Several concretisations per behaviour (how the 5 real header bytes
//     and the real body bytes are grouped into the model's bytes, real lengths, real buffer).
//     TestVerifC05Sweep: concretisation sweeps beyond the model's small lengths (every cut position
//     and every pair of cut positions for exchanges <= 64 bytes, seeded multi-cuts for long ones) for
//     TLSConn and WebSocketConn; the expectation function used there (c05Expect) is cross-checked
//     against every TLC behaviour in the replay.
// B2  TestVerifC05Conc: k goroutines write self-describing messages through ONE TLSConn /
//     WebSocketConn (segmenting conn, loopback TCP); a tap re-parses the raw byte stream on its own
//     and emits W events in wire order, the reader emits R events; TLC validates the recording
//     against spec/RecordLayerTrace.tla.  A second, direct formulation of the oracle runs in Go.

import (
	"bufio"
	"bytes"
	"encoding/binary"
	"encoding/json"
	"errors"
	"fmt"
	"io"
	"net"
	"net/http"
	"net/url"
	"os"
	"regexp"
	"sort"
	"strconv"
	"strings"
	"sync"
	"sync/atomic"
	"testing"
	"time"

	kit "github.com/cbeuw/Cloak/internal/verifkit"
	"github.com/gorilla/websocket"
)

// ------------------------------------------------------------------------------------ the seg conn

type c05RR struct { // what one Read call of the conn under test returned
	N     int    `json:"n"`
	Err   string `json:"err,omitempty"`
	Panic string `json:"panic,omitempty"`
	EOF   bool   `json:"eof,omitempty"`
	Data  []byte `json:"-"`
}

type c05Pipe struct {
	mu      sync.Mutex
	cond    *sync.Cond
	buf     []byte // bytes from absolute offset base on
	base    int64
	rdOff   int64
	wrOff   int64
	limit   int64   // bytes released to the reader so far (gated mode); -1 = everything written
	cuts    []int64 // ascending absolute offsets no single Read crosses
	rng     *kit.Rng
	maxSeg  int // > 0: every Read is additionally limited to a seeded random size 1..maxSeg
	wclosed bool
	rclosed bool
	waiting bool // the reader is blocked with nothing released to it
	reads   int64
	writes  int64
	// parking of a writer at the entry of the parkAt-th underlying Write since arm()
	parkAt  int
	wcalls  int
	parked  bool
	release bool
	tap     func(p []byte) // called under mu with every appended slice, in wire order
	// flow control: stallAfter >= 0 = the peer's window takes that many more bytes, then Writes block
	// until the write deadline (wdl) expires -> (bytes accepted, timeout), as net.Conn permits
	stallAfter int64
	wdl        time.Time
	// reader goroutine -> harness
	results []c05RR
	rdone   bool
	ticks   int
	flagA   bool
	flagB   bool
}

func c05NewPipe() *c05Pipe {
	q := &c05Pipe{limit: -1, stallAfter: -1}
	q.cond = sync.NewCond(&q.mu)
	return q
}

func (q *c05Pipe) horizon() int64 {
	if q.limit >= 0 && q.limit < q.wrOff {
		return q.limit
	}
	return q.wrOff
}

func (q *c05Pipe) Read(p []byte) (int, error) {
	if len(p) == 0 {
		return 0, nil
	}
	q.mu.Lock()
	defer q.mu.Unlock()
	for {
		if q.rclosed {
			return 0, io.ErrClosedPipe
		}
		if avail := q.horizon() - q.rdOff; avail > 0 {
			n := int64(len(p))
			if n > avail {
				n = avail
			}
			for len(q.cuts) > 0 && q.cuts[0] <= q.rdOff {
				q.cuts = q.cuts[1:]
			}
			if len(q.cuts) > 0 && q.cuts[0]-q.rdOff < n {
				n = q.cuts[0] - q.rdOff
			}
			if q.maxSeg > 0 {
				if s := int64(1 + q.rng.Intn(q.maxSeg)); s < n {
					n = s
				}
			}
			copy(p, q.buf[q.rdOff-q.base:q.rdOff-q.base+n])
			q.rdOff += n
			q.reads++
			if q.rdOff-q.base > 1<<20 {
				q.buf = append([]byte(nil), q.buf[q.rdOff-q.base:]...)
				q.base = q.rdOff
			}
			q.cond.Broadcast()
			return int(n), nil
		}
		if q.wclosed && q.rdOff == q.wrOff {
			return 0, io.EOF
		}
		q.waiting = true
		q.cond.Broadcast()
		q.cond.Wait()
		q.waiting = false
	}
}

func (q *c05Pipe) Write(p []byte) (int, error) {
	q.mu.Lock()
	defer q.mu.Unlock()
	if q.parkAt > 0 {
		q.wcalls++
		if q.wcalls == q.parkAt {
			q.parked = true
			q.cond.Broadcast()
			for !q.release {
				q.cond.Wait()
			}
			q.parked = false
		}
	}
	if q.wclosed {
		return 0, io.ErrClosedPipe
	}
	accepted := 0
	for q.stallAfter >= 0 && len(p) > 0 {
		if room := q.stallAfter; room > 0 {
			take := int64(len(p))
			if take > room {
				take = room
			}
			q.appendLocked(p[:take])
			q.stallAfter -= take
			accepted += int(take)
			p = p[take:]
			continue
		}
		if !q.wdl.IsZero() {
			d := time.Until(q.wdl)
			if d <= 0 {
				return accepted, c05Timeout{}
			}
			time.AfterFunc(d+time.Millisecond, func() { q.mu.Lock(); q.cond.Broadcast(); q.mu.Unlock() })
		}
		q.cond.Wait()
		if q.wclosed {
			return accepted, io.ErrClosedPipe
		}
	}
	q.appendLocked(p)
	q.writes++
	return accepted + len(p), nil
}

func (q *c05Pipe) appendLocked(p []byte) {
	q.buf = append(q.buf, p...)
	q.wrOff += int64(len(p))
	if q.tap != nil && len(p) > 0 {
		q.tap(p)
	}
	q.cond.Broadcast()
}

type c05Timeout struct{}

func (c05Timeout) Error() string   { return "c05: write deadline exceeded" }
func (c05Timeout) Timeout() bool   { return true }
func (c05Timeout) Temporary() bool { return true }
func (c05Timeout) Is(t error) bool { return t == os.ErrDeadlineExceeded }

// stall arms the flow control: the next n bytes are accepted, then the window is full (n < 0: off)
func (q *c05Pipe) stall(n int64) {
	q.mu.Lock()
	q.stallAfter = n
	q.cond.Broadcast()
	q.mu.Unlock()
}

func (q *c05Pipe) closeWrite() {
	q.mu.Lock()
	q.wclosed = true
	q.cond.Broadcast()
	q.mu.Unlock()
}

func (q *c05Pipe) closeRead() {
	q.mu.Lock()
	q.rclosed = true
	q.cond.Broadcast()
	q.mu.Unlock()
}

// grant releases n more bytes to the reader (gated mode).
func (q *c05Pipe) grant(n int64) {
	q.mu.Lock()
	q.limit += n
	q.cond.Broadcast()
	q.mu.Unlock()
}

// settle waits until the reader has taken everything released to it and is blocked again (or is
// gone). false = the harness watchdog fired.
func (q *c05Pipe) settle() bool {
	q.mu.Lock()
	defer q.mu.Unlock()
	t0 := q.ticks
	for !(q.rdone || (q.waiting && q.rdOff == q.horizon())) {
		if q.ticks-t0 > 100 {
			return false
		}
		q.cond.Wait()
	}
	return true
}

func (q *c05Pipe) popResult() (c05RR, bool) {
	q.mu.Lock()
	defer q.mu.Unlock()
	if len(q.results) == 0 {
		return c05RR{}, false
	}
	r := q.results[0]
	q.results = q.results[1:]
	return r, true
}

var c05Cur atomic.Pointer[c05Pipe]
var c05WatchOnce sync.Once

// the watchdog only wakes waiters so that settle() can give up; it never decides anything
func c05Watch(q *c05Pipe) {
	c05Cur.Store(q)
	c05WatchOnce.Do(func() {
		go func() {
			for {
				time.Sleep(100 * time.Millisecond)
				if p := c05Cur.Load(); p != nil {
					p.mu.Lock()
					p.ticks++
					p.cond.Broadcast()
					p.mu.Unlock()
				}
			}
		}()
	})
}

type c05Addr struct{}

func (c05Addr) Network() string { return "c05" }
func (c05Addr) String() string  { return "c05" }

type c05Conn struct{ rd, wr *c05Pipe }

func (c *c05Conn) Read(p []byte) (int, error)  { return c.rd.Read(p) }
func (c *c05Conn) Write(p []byte) (int, error) { return c.wr.Write(p) }
func (c *c05Conn) Close() error {
	if c.wr != nil {
		c.wr.closeWrite()
	}
	if c.rd != nil {
		c.rd.closeRead()
	}
	return nil
}
func (c *c05Conn) LocalAddr() net.Addr             { return c05Addr{} }
func (c *c05Conn) RemoteAddr() net.Addr            { return c05Addr{} }
func (c *c05Conn) SetDeadline(t time.Time) error   { return c.SetWriteDeadline(t) }
func (c *c05Conn) SetReadDeadline(time.Time) error { return nil }
func (c *c05Conn) SetWriteDeadline(t time.Time) error {
	if c.wr != nil {
		c.wr.mu.Lock()
		c.wr.wdl = t
		c.wr.cond.Broadcast()
		c.wr.mu.Unlock()
	}
	return nil
}

// c05FailWrite makes the next Write on the TLSConn time out after the transport accepted `accept`
// bytes: the peer's window is full and the write deadline has already expired.
func c05FailWrite(wr *TLSConn, q *c05Pipe, accept int64, msg []byte) (n int, err error, pan string) {
	q.stall(accept)
	wr.SetWriteDeadline(time.Now().Add(-time.Second))
	n, err, pan = c05SafeWrite(wr, msg)
	q.stall(-1)
	wr.SetWriteDeadline(time.Time{})
	return
}

func c05NewPair() (a, b *c05Conn, ab, ba *c05Pipe) {
	ab, ba = c05NewPipe(), c05NewPipe()
	return &c05Conn{rd: ba, wr: ab}, &c05Conn{rd: ab, wr: ba}, ab, ba
}

func c05SafeRead(r io.Reader, buf []byte) (rr c05RR) {
	defer func() {
		if p := recover(); p != nil {
			rr.Panic = fmt.Sprint(p)
		}
	}()
	n, err := r.Read(buf)
	rr.N = n
	if err != nil {
		rr.Err = err.Error()
		var ce *websocket.CloseError
		rr.EOF = errors.Is(err, io.EOF) || errors.Is(err, io.ErrUnexpectedEOF) || errors.Is(err, io.ErrClosedPipe) || errors.As(err, &ce)
	}
	m := n
	if m > cap(buf) {
		m = cap(buf)
	}
	if m < 0 {
		m = 0
	}
	rr.Data = append([]byte(nil), buf[:m]...)
	return
}

func c05SafeWrite(w io.Writer, p []byte) (n int, err error, pan string) {
	defer func() {
		if r := recover(); r != nil {
			pan = fmt.Sprint(r)
		}
	}()
	n, err = w.Write(p)
	return
}

// c05ReaderLoop is the receiving application: Read into a buffer of bufLen bytes, report, repeat.
func c05ReaderLoop(q *c05Pipe, r io.Reader, bufLen, spare int) {
	buf := make([]byte, bufLen, bufLen+spare)
	for {
		rr := c05SafeRead(r, buf)
		stop := rr.Err != "" || rr.Panic != ""
		q.mu.Lock()
		q.results = append(q.results, rr)
		if stop {
			q.rdone = true
		}
		q.cond.Broadcast()
		q.mu.Unlock()
		if stop {
			return
		}
	}
}

// the multiplexer's receive buffer (switchboard.deplex): read from the code under test
func c05CodeBuf() (int, bool) {
	raw, err := os.ReadFile("../multiplex/session.go")
	if err == nil {
		if m := regexp.MustCompile(`connReceiveBufferSize\s*=\s*(\d+)`).FindSubmatch(raw); m != nil {
			if v, err := strconv.Atoi(string(m[1])); err == nil && v >= 64 && v <= 65535 {
				return v, true
			}
		}
	}
	return 20480, false
}

const c05MaxTLSWrite = 1<<14 + 256 // TLSConn.Write refuses more (allowed by the statement)

func c05RawRecord(body []byte) []byte {
	out := make([]byte, 5+len(body))
	out[0], out[1], out[2] = 23, 3, 3
	binary.BigEndian.PutUint16(out[3:5], uint16(len(body)))
	copy(out[5:], body)
	return out
}

// ------------------------------------------------------------------------------------- the oracle

type c05Exp struct {
	Err bool
	Len int
	Tok uint64
}

// c05Expect is the Return rule of spec/RecordLayer.tla (Expected(i), ErrIsFinal) in Go; it is
// cross-checked against the R steps of every TLC behaviour (stat model_drift).
func c05Expect(lens []int, buf int, tokBase uint64) []c05Exp {
	var out []c05Exp
	for i, l := range lens {
		if l > buf {
			return append(out, c05Exp{Err: true})
		}
		out = append(out, c05Exp{Len: l, Tok: tokBase + uint64(i)})
	}
	return out
}

// c05Judge compares one returned value with the expected one. want = the whole expected message
// (for an expected error: the oversize record's body).
func c05Judge(exp c05Exp, want []byte, got c05RR) (key, what string) {
	if got.Panic != "" {
		return "read-panic", "Read panicked: " + got.Panic
	}
	if exp.Err {
		if got.Err != "" {
			return "", ""
		}
		if got.N < len(want) && bytes.Equal(got.Data, want[:len(got.Data)]) {
			return "oversize-truncated", fmt.Sprintf("a record of %d bytes was delivered as a %d-byte message without error", len(want), got.N)
		}
		return "oversize-no-error", fmt.Sprintf("a record of %d bytes larger than the buffer produced %d bytes and no error", len(want), got.N)
	}
	if got.Err != "" {
		return "spurious-error", fmt.Sprintf("Read failed with %q where a %d-byte message was due", got.Err, len(want))
	}
	if got.N == len(want) && bytes.Equal(got.Data, want) {
		return "", ""
	}
	if got.N < len(want) && got.N == len(got.Data) && bytes.Equal(got.Data, want[:got.N]) {
		return "short-message", fmt.Sprintf("Read returned the first %d bytes of a %d-byte message", got.N, len(want))
	}
	return "wrong-message", fmt.Sprintf("Read returned %d bytes that are not the %d-byte message due next", got.N, len(want))
}

// ------------------------------------------------------------------------- B1: behaviour replay

type c05Step struct {
	A    string `json:"a"`
	W    int    `json:"w"`
	K    int    `json:"k"`
	Len  int    `json:"len"`
	Rec  int    `json:"rec"`
	N    int    `json:"n"`
	Err  bool   `json:"err"`
	Sent int    `json:"sent"`
}

type c05Behaviour struct {
	H     int       `json:"h"`
	Buf   int       `json:"buf"`
	Steps []c05Step `json:"steps"`
}

// c05Conc maps the model's bytes onto real bytes: model header byte i = Hdr[i] real header bytes,
// a model body of L bytes = a real body of Lens[L] bytes cut into L non-empty groups.
type c05Conc struct {
	Hdr   []int  `json:"hdr"`
	Lens  []int  `json:"lens"`
	Buf   int    `json:"buf"`
	Split string `json:"split"`
	Spare int    `json:"spare"`
	Tok   uint64 `json:"tok"`
}

func c05Compositions(total, parts int) [][]int {
	if parts == 1 {
		return [][]int{{total}}
	}
	var out [][]int
	for first := 1; first <= total-parts+1; first++ {
		for _, rest := range c05Compositions(total-first, parts-1) {
			out = append(out, append([]int{first}, rest...))
		}
	}
	return out
}

func c05Groups(total, parts int, how string) []int {
	g := make([]int, parts)
	switch how {
	case "front":
		for i := range g {
			g[i] = 1
		}
		g[parts-1] = total - (parts - 1)
	case "back":
		for i := range g {
			g[i] = 1
		}
		g[0] = total - (parts - 1)
	default:
		for i := range g {
			g[i] = total / parts
		}
		g[parts-1] += total % parts
	}
	return g
}

func c05Concs(b *c05Behaviour, idx, count, codeBuf int) []c05Conc {
	maxL := b.Buf + 1
	for _, s := range b.Steps {
		if s.A == "W" && s.Len > maxL {
			maxL = s.Len
		}
	}
	hdrs := c05Compositions(5, b.H)
	bufs := []int{5, 6, 7, 64, 1460, 16384, 16401, c05MaxTLSWrite, codeBuf - 1, codeBuf, codeBuf + 1, 65534}
	var out []c05Conc
	for j := 0; j < count; j++ {
		v := idx*7 + j*13
		rb := bufs[(idx+j*5)%len(bufs)]
		if rb < b.Buf {
			rb = b.Buf + 5
		}
		lens := make([]int, maxL+1)
		top := rb // real length of a model body of Buf bytes
		if v%5 == 3 && rb-1 >= b.Buf && rb-1 >= 1 {
			top = rb - 1
		}
		for L := 1; L <= b.Buf; L++ {
			if v%3 == 0 {
				lens[L] = L // shortest
			} else {
				lens[L] = top - (b.Buf - L) // just below the buffer
			}
		}
		if b.Buf >= 1 {
			lens[b.Buf] = top
		}
		over := rb + 1
		switch v % 4 {
		case 1:
			over = rb + 300
		case 2:
			over = 65535 - (maxL - b.Buf - 1)
		}
		if over+(maxL-b.Buf-1) > 65535 {
			over = 65535 - (maxL - b.Buf - 1)
		}
		for L := b.Buf + 1; L <= maxL; L++ {
			lens[L] = over + (L - b.Buf - 1)
		}
		out = append(out, c05Conc{Hdr: hdrs[v%len(hdrs)], Lens: lens, Buf: rb,
			Split: []string{"even", "front", "back"}[v%3], Spare: []int{0, 0, 4096}[j%3], Tok: uint64(1000 * (v%50 + 1))})
	}
	return out
}

// c05RunBehaviour steps one TLC behaviour through a fresh TLSConn pair.
func c05RunBehaviour(b *c05Behaviour, c c05Conc) (key, what string, table []string) {
	a, bEnd, q, _ := c05NewPair()
	c05Watch(q)
	q.limit = 0
	wr, rd := NewTLSConn(a), NewTLSConn(bEnd)
	go c05ReaderLoop(q, rd, c.Buf, c.Spare)
	defer func() {
		q.closeWrite()
		q.mu.Lock()
		q.limit = -1
		q.cond.Broadcast()
		for !q.rdone {
			q.cond.Wait()
		}
		q.mu.Unlock()
	}()
	var groups []int // real size of every model byte in flight
	lens := map[int]int{}
	for si, st := range b.Steps {
		switch st.A {
		case "W":
			rl := c.Lens[st.Len]
			lens[st.Rec] = rl
			msg := kit.TokenBytes(c.Tok+uint64(st.Rec), rl)
			if rl <= c05MaxTLSWrite {
				n, err, pan := c05SafeWrite(wr, msg)
				table = append(table, fmt.Sprintf("step %d W(rec %d, %d bytes): Write returned n=%d err=%v panic=%q", si, st.Rec, rl, n, err, pan))
				if pan != "" {
					return "write-panic", "TLSConn.Write panicked: " + pan, table
				}
				if err != nil {
					return "write-error", fmt.Sprintf("TLSConn.Write of %d bytes failed: %v", rl, err), table
				}
			} else { // a peer's record beyond what TLSConn.Write accepts
				a.Write(c05RawRecord(msg))
				table = append(table, fmt.Sprintf("step %d W(rec %d, %d bytes): raw record", si, st.Rec, rl))
			}
			groups = append(groups, c.Hdr...)
			if st.Len > 0 {
				groups = append(groups, c05Groups(rl, st.Len, c.Split)...)
			}
		case "F": // the transport fails this Write after st.Sent model bytes
			rl := c.Lens[st.Len]
			tok := c.Tok + 500 + uint64(si)
			if st.Sent > 0 {
				tok = c.Tok + uint64(st.Rec)
				lens[st.Rec] = rl
			}
			msg := kit.TokenBytes(tok, rl)
			recGroups := append([]int(nil), c.Hdr...)
			if st.Len > 0 {
				recGroups = append(recGroups, c05Groups(rl, st.Len, c.Split)...)
			}
			var accept int64
			for _, g := range recGroups[:st.Sent] {
				accept += int64(g)
			}
			if rl <= c05MaxTLSWrite {
				n, err, pan := c05FailWrite(wr, q, accept, msg)
				table = append(table, fmt.Sprintf("step %d F(%d bytes, transport accepts %d): Write returned n=%d err=%v panic=%q", si, rl, accept, n, err, pan))
				if pan != "" {
					return "write-panic", "TLSConn.Write panicked: " + pan, table
				}
				if err == nil {
					return "failed-write-reported-ok", fmt.Sprintf("the transport failed the Write of a %d-byte message after %d bytes but TLSConn.Write returned nil", rl, accept), table
				}
			} else { // a peer's oversize record, torn
				a.Write(c05RawRecord(msg)[:accept])
				table = append(table, fmt.Sprintf("step %d F(%d bytes): %d raw bytes of a torn record", si, rl, accept))
			}
			groups = append(groups, recGroups[:st.Sent]...)
		case "C":
			var real int64
			for _, g := range groups[:st.N] {
				real += int64(g)
			}
			groups = groups[st.N:]
			q.grant(real)
			if !q.settle() {
				return "harness-stuck", "reader did not settle", table
			}
			table = append(table, fmt.Sprintf("step %d C(%d) = %d real bytes", si, st.N, real))
		case "R":
			if !q.settle() {
				return "harness-stuck", "reader did not settle", table
			}
			got, ok := q.popResult()
			exp := c05Exp{Err: st.Err, Len: lens[st.Rec], Tok: c.Tok + uint64(st.Rec)}
			want := kit.TokenBytes(exp.Tok, lens[st.Rec])
			if !ok {
				table = append(table, fmt.Sprintf("step %d R(rec %d): expected err=%v len=%d, Read has not returned", si, st.Rec, st.Err, lens[st.Rec]))
				return "no-return", fmt.Sprintf("record %d is complete on the wire (or oversize) but Read has not returned", st.Rec), table
			}
			k, w := c05Judge(exp, want, got)
			table = append(table, fmt.Sprintf("step %d R(rec %d): expected err=%v len=%d observed n=%d err=%q verdict=%q", si, st.Rec, st.Err, lens[st.Rec], got.N, got.Err, k))
			if k != "" {
				return k, w, table
			}
		}
	}
	if !q.settle() {
		return "harness-stuck", "reader did not settle", table
	}
	if got, ok := q.popResult(); ok {
		table = append(table, fmt.Sprintf("end: surplus return n=%d err=%q", got.N, got.Err))
		return "surplus-return", "Read returned although the model has no further Return", table
	}
	return "", "", table
}

// c05Drift: the Go expectation function and the TLC behaviour must agree on every R step
func c05Drift(b *c05Behaviour) bool {
	var lens []int
	for _, s := range b.Steps {
		if s.A == "W" {
			lens = append(lens, s.Len)
		}
		if s.A == "F" && s.Sent > 0 { // a torn record: never a message; an error iff its header is whole and oversize
			if s.Sent >= b.H && s.Len > b.Buf {
				lens = append(lens, s.Len)
			}
		}
	}
	exp := c05Expect(lens, b.Buf, 1)
	i := 0
	for _, s := range b.Steps {
		if s.A != "R" {
			continue
		}
		if i >= len(exp) || s.Rec != i+1 || s.Err != exp[i].Err || (!s.Err && s.Len != exp[i].Len) {
			return true
		}
		i++
	}
	return i != len(exp)
}

func c05NontrivialBehaviour(b *c05Behaviour) bool {
	// non-trivial: some record does not arrive as exactly one header chunk + one body chunk
	chunks, rets := 0, 0
	nz := 0
	for _, s := range b.Steps {
		switch s.A {
		case "C":
			chunks++
		case "R":
			rets++
		case "W":
			if s.Len > 0 && s.Len <= b.Buf {
				nz++
			}
		}
	}
	return chunks > rets+nz
}

func TestVerifC05Replay(t *testing.T) {
	res := kit.NewResult()
	defer func() { res.Save(true) }()
	if rp := kit.Env("VERIF_REPLAY", ""); rp != "" {
		c05ReplayFile(t, rp)
		return
	}
	codeBuf, fromCode := c05CodeBuf()
	if !fromCode {
		res.Note("connReceiveBufferSize not found in ../multiplex/session.go; using 20480")
	}
	corrupt := kit.Env("VERIF_C05_CORRUPT", "") != "" // binding demonstration: flip one expected observation
	per := 2
	if kit.Thorough() {
		per = 4
	}
	idx := 0
	err := kit.ReadLines(kit.Env("VERIF_IN", ""), func(line []byte) error {
		var b c05Behaviour
		if err := json.Unmarshal(line, &b); err != nil {
			return err
		}
		idx++
		if c05Drift(&b) {
			res.Stat("model_drift", 1)
			res.Note("c05Expect disagrees with TLC on %s", string(line))
		}
		if corrupt && idx == 7 {
			for i := range b.Steps {
				if b.Steps[i].A == "R" {
					b.Steps[i].Err = !b.Steps[i].Err
					break
				}
			}
		}
		if res.NumViolations() > 20 {
			return nil
		}
		nt := c05NontrivialBehaviour(&b)
		for _, c := range c05Concs(&b, idx, per, codeBuf) {
			key, what, table := c05RunBehaviour(&b, c)
			res.Count(string(line), nt)
			if key == "harness-stuck" {
				res.Stat("harness_stuck", 1)
				res.Note("stuck on %s", string(line))
				continue
			}
			if key != "" {
				res.Violate("tls:"+key, what, map[string]any{"kind": "behaviour", "behaviour": b, "concretisation": c, "table": table})
			}
		}
		if idx%1499 == 1 {
			res.Sample(map[string]any{"behaviour": json.RawMessage(append([]byte{}, line...)), "concretisations": c05Concs(&b, idx, per, codeBuf)}, 3)
		}
		return nil
	})
	if err != nil {
		t.Fatal(err)
	}
	res.Stat("behaviours", int64(idx))
	res.Stat("code_buf", int64(codeBuf))
}

// ------------------------------------------------------------------ B1b: concretisation sweeps

type c05Case struct {
	Target string  `json:"target"` // "tls" | "ws-c2s" | "ws-s2c"
	Lens   []int   `json:"lens"`
	Buf    int     `json:"buf"`
	Spare  int     `json:"spare"`
	Cuts   []int64 `json:"cuts,omitempty"`   // relative to the start of the exchange
	MaxSeg int     `json:"maxSeg,omitempty"` // seeded random segment sizes 1..MaxSeg
	Seed   int64   `json:"seed,omitempty"`
}

func c05BuildTLSStream(lens []int, tokBase uint64) ([]byte, [][]byte, error) {
	a, _, q, _ := c05NewPair()
	wr := NewTLSConn(a)
	var msgs [][]byte
	for i, l := range lens {
		msg := kit.TokenBytes(tokBase+uint64(i), l)
		msgs = append(msgs, msg)
		if l <= c05MaxTLSWrite {
			if _, err := wr.Write(msg); err != nil {
				return nil, nil, err
			}
		} else {
			a.Write(c05RawRecord(msg))
		}
	}
	return q.buf, msgs, nil
}

// c05SweepTLS runs one exchange over a preloaded pipe, synchronously (everything is in flight, so no
// Read ever blocks: the pipe returns EOF at the end of the stream).
func c05SweepTLS(q *c05Pipe, rd *TLSConn, stream []byte, msgs [][]byte, exp []c05Exp, buf []byte, cs *c05Case) (key, what string) {
	q.buf, q.base, q.rdOff, q.wrOff, q.wclosed = stream, 0, 0, int64(len(stream)), true
	q.cuts, q.maxSeg = cs.Cuts, cs.MaxSeg
	if cs.MaxSeg > 0 {
		q.rng = kit.NewRng(cs.Seed)
	}
	for i, e := range exp {
		got := c05SafeRead(rd, buf)
		if k, w := c05Judge(e, msgs[i], got); k != "" {
			return k, fmt.Sprintf("message %d: %s", i, w)
		}
	}
	if len(exp) == len(msgs) && !exp[len(exp)-1].Err {
		got := c05SafeRead(rd, buf)
		if got.Err == "" && got.Panic == "" {
			return "surplus-return", fmt.Sprintf("Read returned %d bytes after the last message", got.N)
		}
	}
	return "", ""
}

func c05CutsInside(cuts []int64, lens []int, hdr int) bool {
	// does some cut fall strictly inside a record (not on a record boundary)?
	bounds := map[int64]bool{}
	var off int64
	for _, l := range lens {
		off += int64(hdr + l)
		bounds[off] = true
	}
	for _, c := range cuts {
		if !bounds[c] {
			return true
		}
	}
	return false
}

func c05Exchanges(alphabet []int, maxRecs, maxTotal, hdr int) [][]int {
	var out [][]int
	var rec func(cur []int, total int)
	rec = func(cur []int, total int) {
		if len(cur) > 0 {
			out = append(out, append([]int(nil), cur...))
		}
		if len(cur) == maxRecs {
			return
		}
		for _, l := range alphabet {
			if total+hdr+l <= maxTotal {
				rec(append(cur, l), total+hdr+l)
			}
		}
	}
	rec(nil, 0)
	return out
}

func c05SweepAllCuts(n int64, triples bool, fn func(cuts []int64) bool) {
	if !fn(nil) {
		return
	}
	for a := int64(1); a < n; a++ {
		if !fn([]int64{a}) {
			return
		}
		for b := a + 1; b < n; b++ {
			if !fn([]int64{a, b}) {
				return
			}
			if triples {
				for c := b + 1; c < n; c++ {
					if !fn([]int64{a, b, c}) {
						return
					}
				}
			}
		}
	}
}

func c05BufsFor(lens []int, codeBuf int) []int {
	set := map[int]bool{codeBuf: true}
	for _, l := range lens {
		for _, b := range []int{l - 1, l, l + 1} {
			if b >= 5 {
				set[b] = true
			}
		}
	}
	set[5] = true
	var out []int
	for b := range set {
		out = append(out, b)
	}
	sort.Ints(out)
	return out
}

func c05LongCases(target string, lens []int, buf int, streamLen int64, hdr int, rng *kit.Rng, nRandom int) []c05Case {
	var out []c05Case
	mk := func(c c05Case) {
		c.Target, c.Lens, c.Buf = target, lens, buf
		out = append(out, c)
	}
	mk(c05Case{})                   // coalesced: everything available at once
	mk(c05Case{MaxSeg: 1, Seed: 1}) // 1-byte drip
	mk(c05Case{MaxSeg: 2, Seed: int64(rng.Intn(1 << 30))})
	mk(c05Case{MaxSeg: 7, Seed: int64(rng.Intn(1 << 30))})
	mk(c05Case{MaxSeg: 1460, Seed: int64(rng.Intn(1 << 30))})
	mk(c05Case{MaxSeg: 65536, Seed: int64(rng.Intn(1 << 30)), Spare: 4096})
	// cuts hugging every record boundary and every header end
	var near []int64
	var off int64
	for _, l := range lens {
		for _, d := range []int64{-2, -1, 0, 1, 2, int64(hdr) - 1, int64(hdr), int64(hdr) + 1} {
			if p := off + d; p > 0 && p < streamLen {
				near = append(near, p)
			}
		}
		off += int64(hdr + l)
	}
	sort.Slice(near, func(i, j int) bool { return near[i] < near[j] })
	var uniq []int64
	for i, p := range near {
		if i == 0 || p != near[i-1] {
			uniq = append(uniq, p)
		}
	}
	mk(c05Case{Cuts: uniq})
	for i := range uniq {
		mk(c05Case{Cuts: []int64{uniq[i]}})
		if i+1 < len(uniq) {
			mk(c05Case{Cuts: []int64{uniq[i], uniq[i+1]}})
		}
	}
	for r := 0; r < nRandom; r++ { // seeded multi-cuts
		k := 1 + rng.Intn(12)
		set := map[int64]bool{}
		for j := 0; j < k; j++ {
			set[1+int64(rng.Intn(int(streamLen-1)))] = true
		}
		var cuts []int64
		for p := range set {
			cuts = append(cuts, p)
		}
		sort.Slice(cuts, func(i, j int) bool { return cuts[i] < cuts[j] })
		mk(c05Case{Cuts: cuts})
	}
	return out
}

func c05LongExchanges(codeBuf int) (out []c05Case) {
	add := func(buf int, lens ...int) { out = append(out, c05Case{Lens: lens, Buf: buf}) }
	for _, l := range []int{16384, 16401, c05MaxTLSWrite} {
		for _, b := range []int{l - 1, l, l + 1, codeBuf} {
			add(b, l)
			add(b, 0, l, 1)
			add(b, l, l)
		}
	}
	add(codeBuf, 16384, 16401, c05MaxTLSWrite, 0, 1, 4, 5, 6)
	add(codeBuf, codeBuf-1, codeBuf, 6, codeBuf+1) // raw records: a peer may send up to 65535
	add(codeBuf, codeBuf+1)
	add(codeBuf, codeBuf, codeBuf)
	add(codeBuf, 5, 65535)
	add(codeBuf-1, codeBuf-1, codeBuf)
	add(codeBuf+1, codeBuf+1, codeBuf+2)
	add(65535, 65535, 0, 65535)
	add(16384, 1, 4, 5, 6, 16384, 16385)
	return
}

func TestVerifC05Sweep(t *testing.T) {
	res := kit.NewResult()
	defer func() { res.Save(true) }()
	if rp := kit.Env("VERIF_REPLAY", ""); rp != "" {
		c05ReplayFile(t, rp)
		return
	}
	c05SweepBody(res)
}

// TestVerifC05Live = the sweeps followed by the concurrent-writer recordings, in one test binary run
func TestVerifC05Live(t *testing.T) {
	res := kit.NewResult()
	defer func() { res.Save(true) }()
	tw := kit.NewTraceWriter("trace.ndjson")
	defer tw.Close()
	c05SweepBody(res)
	c05ConcBody(res, tw)
	c05FaultBody(res, tw)
	c05BoundaryBody(res, tw)
}

// TestVerifC05Fault = failing-write scenarios and the Write-size boundary sweep alone (replays)
func TestVerifC05Fault(t *testing.T) {
	res := kit.NewResult()
	defer func() { res.Save(true) }()
	if rp := kit.Env("VERIF_REPLAY", ""); rp != "" {
		c05ReplayFile(t, rp)
		return
	}
	tw := kit.NewTraceWriter("trace.ndjson")
	defer tw.Close()
	c05FaultBody(res, tw)
	c05BoundaryBody(res, tw)
}

func c05SweepBody(res *kit.Result) {
	codeBuf, _ := c05CodeBuf()
	rng := kit.NewRng(kit.Seed())
	thorough := kit.Thorough()
	t0 := time.Now()

	// ---- TLSConn, exchanges of <= 64 bytes: every cut position and every pair of cut positions
	alphabet, maxRecs := []int{0, 1, 4, 5, 6}, 3
	if thorough {
		alphabet, maxRecs = []int{0, 1, 4, 5, 6, 7}, 4
	}
	q := c05NewPipe()
	rd := NewTLSConn(&c05Conn{rd: q})
	sampleN := 0
	for xi, lens := range c05Exchanges(alphabet, maxRecs, 64, 5) {
		if res.NumViolations() > 20 {
			break
		}
		stream, msgs, err := c05BuildTLSStream(lens, 500)
		if err != nil {
			res.Violate("tls:write-error", fmt.Sprintf("TLSConn.Write failed for lengths %v: %v", lens, err), map[string]any{"kind": "sweep", "case": c05Case{Target: "tls", Lens: lens}})
			continue
		}
		bufs := []int{5, 6, codeBuf}
		if thorough { // buffers hugging the lengths in play: len-1 (oversize), len, len+1
			bufs = c05BufsFor(lens, codeBuf)
			if len(lens) == 4 && len(bufs) > 3 {
				bufs = []int{bufs[xi%(len(bufs)-1)], bufs[(xi+1)%(len(bufs)-1)], codeBuf}
			}
		}
		for bi, bl := range bufs {
			exp := c05Expect(lens, bl, 500)
			spare := []int{0, 64}[(xi+bi)%2]
			buf := make([]byte, bl, bl+spare)
			triples := thorough && len(stream) <= 24
			c05SweepAllCuts(int64(len(stream)), triples, func(cuts []int64) bool {
				cs := c05Case{Target: "tls", Lens: lens, Buf: bl, Spare: spare, Cuts: cuts}
				key, what := c05SweepTLS(q, rd, stream, msgs, exp, buf, &cs)
				res.Count(fmt.Sprint("tls", lens, bl, cuts), c05CutsInside(cuts, lens, 5))
				if key != "" {
					res.Violate("tls:"+key, what, map[string]any{"kind": "sweep", "case": cs})
					return false
				}
				return true
			})
			res.Stat("tls_short_exchanges", 1)
			if sampleN < 2 && len(lens) == 3 {
				sampleN++
				res.Sample(map[string]any{"target": "tls", "lens": lens, "buf": bl, "cuts": "every single cut and every pair of cuts of the " + strconv.Itoa(len(stream)) + "-byte stream"}, 8)
			}
		}
	}
	res.Stat("tls_short_ms", time.Since(t0).Milliseconds())

	// ---- TLSConn, long exchanges: seeded multi-cuts, 1-byte drip, coalesced, boundary-hugging cuts
	t1 := time.Now()
	for _, ex := range c05LongExchanges(codeBuf) {
		if res.NumViolations() > 20 {
			break
		}
		stream, msgs, err := c05BuildTLSStream(ex.Lens, 900)
		if err != nil {
			res.Violate("tls:write-error", fmt.Sprintf("TLSConn.Write failed for lengths %v: %v", ex.Lens, err), map[string]any{"kind": "sweep", "case": ex})
			continue
		}
		exp := c05Expect(ex.Lens, ex.Buf, 900)
		nr := 6
		if thorough {
			nr = 60
		}
		for ci, cs := range c05LongCases("tls", ex.Lens, ex.Buf, int64(len(stream)), 5, rng, nr) {
			if thorough && ci%2 == 1 {
				cs.Spare = 4096
			}
			buf := make([]byte, cs.Buf, cs.Buf+cs.Spare)
			key, what := c05SweepTLS(q, rd, stream, msgs, exp, buf, &cs)
			res.Count(fmt.Sprint("tls", cs.Lens, cs.Buf, cs.Cuts, cs.MaxSeg, cs.Seed), len(cs.Cuts) > 0 || cs.MaxSeg > 0)
			if key != "" {
				res.Violate("tls:"+key, what, map[string]any{"kind": "sweep", "case": cs})
				break
			}
			if ci == 3 && len(ex.Lens) > 3 {
				res.Sample(cs, 8)
			}
		}
		res.Stat("tls_long_exchanges", 1)
	}
	res.Stat("tls_long_ms", time.Since(t1).Milliseconds())

	// ---- WebSocketConn, both directions
	t2 := time.Now()
	c05SweepWS(res, rng, codeBuf, thorough)
	res.Stat("ws_ms", time.Since(t2).Milliseconds())
}

// ---------------------------------------------------------------------------------- WebSocketConn

type c05Hijack struct {
	conn net.Conn
	brw  *bufio.ReadWriter
	hdr  http.Header
}

func (h *c05Hijack) Header() http.Header         { return h.hdr }
func (h *c05Hijack) Write(p []byte) (int, error) { return h.brw.Write(p) }
func (h *c05Hijack) WriteHeader(int)             {}
func (h *c05Hijack) Hijack() (net.Conn, *bufio.ReadWriter, error) {
	return h.conn, h.brw, nil
}

type c05WSPair struct {
	cli, srv *WebSocketConn
	c2s, s2c *c05Pipe
	a, b     *c05Conn
}

// c05NewWSPair builds a gorilla client/server pair the way Cloak does (client: websocket.NewClient
// with 16480-byte buffers, internal/client/websocket.go; server: websocket.Upgrader{}.Upgrade of the
// hijacked connection with net/http's 4096-byte bufio pair, internal/server/websocketAux.go) over
// the segmenting conn, and wraps both ends in common.WebSocketConn.
func c05NewWSPair() (*c05WSPair, error) {
	a, b, ab, ba := c05NewPair()
	type sr struct {
		c   *websocket.Conn
		err error
	}
	ch := make(chan sr, 1)
	go func() {
		br := bufio.NewReaderSize(b, 4096)
		req, err := http.ReadRequest(br)
		if err != nil {
			ch <- sr{nil, err}
			return
		}
		rw := &c05Hijack{conn: b, brw: bufio.NewReadWriter(br, bufio.NewWriterSize(b, 4096)), hdr: http.Header{}}
		up := websocket.Upgrader{}
		c, err := up.Upgrade(rw, req, nil)
		ch <- sr{c, err}
	}()
	u, _ := url.Parse("ws://c05.invalid/")
	cc, _, err := websocket.NewClient(a, u, http.Header{}, 16480, 16480)
	if err != nil {
		a.Close()
		b.Close()
		return nil, fmt.Errorf("client handshake: %w", err)
	}
	s := <-ch
	if s.err != nil {
		a.Close()
		b.Close()
		return nil, fmt.Errorf("server upgrade: %w", s.err)
	}
	return &c05WSPair{cli: &WebSocketConn{Conn: cc}, srv: &WebSocketConn{Conn: s.c}, c2s: ab, s2c: ba, a: a, b: b}, nil
}

func (p *c05WSPair) dir(target string) (w, r *WebSocketConn, q *c05Pipe) {
	if target == "ws-s2c" {
		return p.srv, p.cli, p.s2c
	}
	return p.cli, p.srv, p.c2s
}

func (p *c05WSPair) close() {
	p.a.Close()
	p.b.Close()
}

// c05WSRig: one pair, one direction, a persistent reader goroutine with a fixed buffer length.
type c05WSRig struct {
	pair *c05WSPair
	w    *WebSocketConn
	q    *c05Pipe
}

func c05NewWSRig(target string, bufLen, spare int) (*c05WSRig, error) {
	p, err := c05NewWSPair()
	if err != nil {
		return nil, err
	}
	w, r, q := p.dir(target)
	c05Watch(q)
	go c05ReaderLoop(q, r, bufLen, spare)
	rig := &c05WSRig{pair: p, w: w, q: q}
	if !q.settle() {
		return nil, errors.New("ws reader did not settle")
	}
	return rig, nil
}

func (rig *c05WSRig) close() {
	rig.q.mu.Lock()
	rig.q.limit = -1
	rig.q.cuts, rig.q.maxSeg = nil, 0
	rig.q.mu.Unlock()
	rig.pair.close()
	rig.q.mu.Lock()
	for !rig.q.rdone {
		rig.q.cond.Wait()
	}
	rig.q.mu.Unlock()
}

// run writes the exchange while the pipe holds everything back, installs the segmentation, lets go
// and compares what the reader got. dead = the rig must not be reused (an error was returned).
func (rig *c05WSRig) run(cs *c05Case, msgs [][]byte, exp []c05Exp) (key, what string, dead bool) {
	q := rig.q
	q.mu.Lock()
	start := q.wrOff
	q.limit = start
	q.mu.Unlock()
	for i, m := range msgs {
		n, err, pan := c05SafeWrite(rig.w, m)
		if pan != "" {
			return "write-panic", fmt.Sprintf("WebSocketConn.Write panicked on message %d: %s", i, pan), true
		}
		if err != nil || n != len(m) {
			return "write-error", fmt.Sprintf("WebSocketConn.Write of %d bytes returned n=%d err=%v", len(m), n, err), true
		}
	}
	q.mu.Lock()
	q.cuts = q.cuts[:0]
	for _, c := range cs.Cuts {
		q.cuts = append(q.cuts, start+c)
	}
	q.maxSeg = cs.MaxSeg
	if cs.MaxSeg > 0 {
		q.rng = kit.NewRng(cs.Seed)
	}
	q.limit = -1
	q.cond.Broadcast()
	q.mu.Unlock()
	if !q.settle() {
		return "harness-stuck", "ws reader did not settle", true
	}
	for i, e := range exp {
		got, ok := q.popResult()
		if !ok {
			return "no-return", fmt.Sprintf("message %d was written and is fully in flight but Read has not returned", i), true
		}
		if k, w := c05Judge(e, msgs[i], got); k != "" {
			return k, fmt.Sprintf("message %d: %s", i, w), true
		}
		if got.Err != "" {
			dead = true
		}
	}
	if !dead {
		if got, ok := q.popResult(); ok {
			return "surplus-return", fmt.Sprintf("Read returned (n=%d err=%q) beyond the messages written", got.N, got.Err), true
		}
	}
	return "", "", dead
}

func c05SweepWS(res *kit.Result, rng *kit.Rng, codeBuf int, thorough bool) {
	for _, target := range []string{"ws-c2s", "ws-s2c"} {
		// short exchanges: every cut position and every pair of cut positions of the frame stream
		alphabet, maxRecs := []int{0, 1, 5, 6}, 3
		if thorough {
			alphabet = []int{0, 1, 5, 6, 7}
		}
		exs := c05Exchanges(alphabet, maxRecs, 48, 6)
		if !thorough { // a third of them per seed
			var sel [][]int
			off := int(kit.Seed() % 3)
			for i, e := range exs {
				if i%3 == off || len(e) == 1 {
					sel = append(sel, e)
				}
			}
			exs = sel
		}
		for xi, lens := range exs {
			if res.NumViolations() > 20 {
				return
			}
			var msgs [][]byte
			for i, l := range lens {
				msgs = append(msgs, kit.TokenBytes(700+uint64(i), l))
			}
			for _, bl := range []int{5, 6, codeBuf}[xi%2:] {
				exp := c05Expect(lens, bl, 700)
				if bl < codeBuf && !exp[len(exp)-1].Err && xi%4 != 0 {
					continue // small buffers matter when something is oversize
				}
				var rig *c05WSRig
				var streamLen int64
				fn := func(cuts []int64) bool {
					if rig == nil {
						var err error
						if rig, err = c05NewWSRig(target, bl, (xi%2)*64); err != nil {
							res.Stat("ws_setup_failed", 1)
							res.Note("ws pair: %v", err)
							return false
						}
					}
					cs := c05Case{Target: target, Lens: lens, Buf: bl, Spare: (xi % 2) * 64, Cuts: cuts}
					before := rig.q.wrOff
					key, what, dead := rig.run(&cs, msgs, exp)
					streamLen = rig.q.wrOff - before
					res.Count(fmt.Sprint(target, lens, bl, cuts), len(cuts) > 0)
					if dead {
						rig.close()
						rig = nil
					}
					if key == "harness-stuck" {
						res.Stat("harness_stuck", 1)
						return false
					}
					if key != "" {
						res.Violate(target+":"+key, what, map[string]any{"kind": "sweep", "case": cs})
						return false
					}
					return true
				}
				if !fn(nil) {
					continue
				}
				c05SweepAllCuts(streamLen, false, func(cuts []int64) bool {
					if cuts == nil {
						return true
					}
					return fn(cuts)
				})
				if rig != nil {
					rig.close()
				}
				res.Stat("ws_short_exchanges", 1)
			}
		}
		// long exchanges (fragmented client messages > 16480, two-buffer server writes)
		var long []c05Case
		add := func(buf int, lens ...int) { long = append(long, c05Case{Lens: lens, Buf: buf}) }
		add(codeBuf, 16384, 16401, c05MaxTLSWrite, 0, 1, 125, 126, 127)
		add(codeBuf, codeBuf-1, codeBuf, 6, codeBuf+1)
		add(codeBuf, codeBuf, codeBuf)
		add(16401, 16401, 16402)
		add(16384, 16385)
		add(65536, 65535, 65536, 65537)
		add(4096, 4095, 4096, 4097)
		add(126, 125, 126, 127)
		for _, ex := range long {
			if res.NumViolations() > 20 {
				return
			}
			var msgs [][]byte
			for i, l := range ex.Lens {
				msgs = append(msgs, kit.TokenBytes(800+uint64(i), l))
			}
			exp := c05Expect(ex.Lens, ex.Buf, 800)
			// learn the stream length of this exchange from a first, uncut run
			var rig *c05WSRig
			var streamLen int64
			runOne := func(cs c05Case) bool {
				if rig == nil {
					var err error
					if rig, err = c05NewWSRig(target, ex.Buf, 0); err != nil {
						res.Stat("ws_setup_failed", 1)
						res.Note("ws pair: %v", err)
						return false
					}
				}
				before := rig.q.wrOff
				key, what, dead := rig.run(&cs, msgs, exp)
				streamLen = rig.q.wrOff - before
				res.Count(fmt.Sprint(target, cs.Lens, cs.Buf, cs.Cuts, cs.MaxSeg, cs.Seed), len(cs.Cuts) > 0 || cs.MaxSeg > 0)
				if dead {
					rig.close()
					rig = nil
				}
				if key == "harness-stuck" {
					res.Stat("harness_stuck", 1)
					return false
				}
				if key != "" {
					res.Violate(target+":"+key, what, map[string]any{"kind": "sweep", "case": cs})
					return false
				}
				return true
			}
			if runOne(c05Case{Target: target, Lens: ex.Lens, Buf: ex.Buf}) {
				nr := 4
				if thorough {
					nr = 40
				}
				// frame headers are 2..14 bytes: hug the boundaries with the smallest header length
				for _, cs := range c05LongCases(target, ex.Lens, ex.Buf, streamLen, 2, rng, nr) {
					if !runOne(cs) {
						break
					}
				}
			}
			if rig != nil {
				rig.close()
			}
			res.Stat("ws_long_exchanges", 1)
		}
	}
}

// ------------------------------------------------------------ B2: concurrent writers, recorded

// a self-describing message (>= 4 bytes): writer (1 byte), id (2 bytes), then token bytes of (writer, id)
func c05Msg(w, id, n int) []byte {
	out := make([]byte, n)
	out[0], out[1], out[2] = byte(w), byte(id>>8), byte(id)
	kit.FillToken(out[3:], uint64(w)<<32|uint64(id))
	return out
}

func c05Decode(p []byte) (w, id int, ok bool) {
	if len(p) < 4 {
		return 0, 0, false
	}
	w, id = int(p[0]), int(p[1])<<8|int(p[2])
	return w, id, bytes.Equal(p, c05Msg(w, id, len(p)))
}

// c05TLSTap re-parses a raw byte stream as 5-byte-header records, independently of TLSConn.
type c05TLSTap struct {
	acc  []byte
	emit func(body []byte)
}

func (t *c05TLSTap) feed(p []byte) {
	t.acc = append(t.acc, p...)
	for len(t.acc) >= 5 {
		l := int(binary.BigEndian.Uint16(t.acc[3:5]))
		if len(t.acc) < 5+l {
			return
		}
		t.emit(t.acc[5 : 5+l])
		t.acc = t.acc[5+l:]
	}
}

// c05WSTap re-parses a raw byte stream as RFC 6455 frames and reassembles data messages.
type c05WSTap struct {
	acc   []byte
	msg   []byte
	inMsg bool
	emit  func(body []byte, ok bool)
}

func (t *c05WSTap) feed(p []byte) {
	t.acc = append(t.acc, p...)
	for {
		if len(t.acc) < 2 {
			return
		}
		fin, op := t.acc[0]&0x80 != 0, t.acc[0]&0x0f
		masked := t.acc[1]&0x80 != 0
		l := int(t.acc[1] & 0x7f)
		pos := 2
		switch l {
		case 126:
			if len(t.acc) < 4 {
				return
			}
			l = int(binary.BigEndian.Uint16(t.acc[2:4]))
			pos = 4
		case 127:
			if len(t.acc) < 10 {
				return
			}
			l = int(binary.BigEndian.Uint64(t.acc[2:10]))
			pos = 10
		}
		var key [4]byte
		if masked {
			if len(t.acc) < pos+4 {
				return
			}
			copy(key[:], t.acc[pos:pos+4])
			pos += 4
		}
		if len(t.acc) < pos+l {
			return
		}
		payload := append([]byte(nil), t.acc[pos:pos+l]...)
		if masked {
			for i := range payload {
				payload[i] ^= key[i&3]
			}
		}
		t.acc = t.acc[pos+l:]
		switch {
		case op >= 8: // control frame
		case op == 0: // continuation
			if !t.inMsg {
				t.emit(payload, false)
				continue
			}
			t.msg = append(t.msg, payload...)
			if fin {
				t.emit(t.msg, true)
				t.msg, t.inMsg = nil, false
			}
		default:
			if t.inMsg { // a new message starts inside another one: interleaved
				t.emit(t.msg, false)
			}
			t.msg, t.inMsg = payload, true
			if fin {
				t.emit(t.msg, true)
				t.msg, t.inMsg = nil, false
			}
		}
	}
}

type c05ReadTap struct { // receiving side of a TCP socket: taps exactly what the kernel delivered
	net.Conn
	tap *c05TLSTap
}

func (c *c05ReadTap) Read(p []byte) (int, error) {
	n, err := c.Conn.Read(p)
	if n > 0 {
		c.tap.feed(p[:n])
	}
	return n, err
}

type c05ConcRun struct {
	Kind   string `json:"kind"` // tls-seg | tls-tcp | ws-c2s | ws-s2c
	K      int    `json:"k"`
	Per    int    `json:"per"`
	Buf    int    `json:"buf"`
	Lens   []int  `json:"lens"`
	MaxSeg int    `json:"maxSeg"`
	ParkAt int    `json:"parkAt,omitempty"` // > 0: the deterministic two-writer schedule
	LateMs int    `json:"lateMs,omitempty"` // the receiving application starts reading this late: the writers queue up on a full socket
	Seed   int64  `json:"seed"`
}

var c05TCPSkipped atomic.Bool

func c05RunConc(res *kit.Result, tw *kit.TraceWriter, run c05ConcRun) {
	rng := kit.NewRng(run.Seed)
	var wr io.Writer
	var rd io.Reader
	var closeWrite, closeAll func()
	drain := func() {}
	var q *c05Pipe
	nW := int64(0)
	emitW := func(body []byte, whole bool) {
		w, id, ok := c05Decode(body)
		if !ok || !whole {
			w, id = 0, 0
		}
		atomic.AddInt64(&nW, 1)
		tw.Emit(map[string]any{"ev": "W", "w": w, "id": id, "len": len(body), "ok": ok && whole})
	}
	tlsTap := &c05TLSTap{emit: func(b []byte) { emitW(b, true) }}
	switch run.Kind {
	case "tls-seg":
		a, b, ab, _ := c05NewPair()
		q = ab
		ab.tap = tlsTap.feed
		ab.maxSeg, ab.rng = run.MaxSeg, kit.NewRng(run.Seed+1)
		wr, rd = NewTLSConn(a), NewTLSConn(b)
		closeWrite, closeAll = ab.closeWrite, func() { a.Close(); b.Close() }
	case "tls-tcp":
		ln, err := net.Listen("tcp", "127.0.0.1:0")
		if err != nil {
			c05TCPSkipped.Store(true)
			return
		}
		defer ln.Close()
		type ar struct {
			c   net.Conn
			err error
		}
		ch := make(chan ar, 1)
		go func() { c, err := ln.Accept(); ch <- ar{c, err} }()
		cl, err := net.Dial("tcp", ln.Addr().String())
		if err != nil {
			c05TCPSkipped.Store(true)
			return
		}
		acc := <-ch
		if acc.err != nil {
			cl.Close()
			c05TCPSkipped.Store(true)
			return
		}
		rt := &c05ReadTap{Conn: acc.c, tap: tlsTap}
		wr, rd = NewTLSConn(cl), NewTLSConn(rt)
		// the tap sits on the receiving side: when the reader stops early, the rest of the stream is
		// pulled through the tap so that every record on the wire is recorded before the verdict
		drain = func() { io.Copy(io.Discard, rt) }
		closeWrite = func() { cl.(*net.TCPConn).CloseWrite() }
		closeAll = func() { cl.Close(); acc.c.Close() }
	default:
		p, err := c05NewWSPair()
		if err != nil {
			res.Stat("ws_setup_failed", 1)
			res.Note("ws pair: %v", err)
			return
		}
		w, r, pq := p.dir(run.Kind)
		q = pq
		wsTap := &c05WSTap{emit: emitW}
		pq.mu.Lock()
		pq.tap = wsTap.feed
		pq.maxSeg, pq.rng = run.MaxSeg, kit.NewRng(run.Seed+1)
		pq.mu.Unlock()
		wr, rd = w, r
		closeWrite, closeAll = pq.closeWrite, p.close
	}
	defer closeAll()
	tw.Emit(map[string]any{"ev": "Reset", "buf": run.Buf, "kind": run.Kind, "k": run.K})

	// plan: lengths per (writer, id)
	plan := make([][]int, run.K)
	total := 0
	for w := range plan {
		for i := 0; i < run.Per; i++ {
			plan[w] = append(plan[w], run.Lens[rng.Intn(len(run.Lens))])
			total++
		}
	}
	var writersDone atomic.Bool
	type rdSummary struct {
		got    int
		bad    string
		badKey string
		sawErr bool
	}
	rch := make(chan rdSummary, 1)
	go func() { // the receiving application
		var s rdSummary
		if run.LateMs > 0 {
			time.Sleep(time.Duration(run.LateMs) * time.Millisecond)
		}
		buf := make([]byte, run.Buf)
		last := make([]int, run.K+1)
		for s.got < total {
			rr := c05SafeRead(rd, buf)
			if rr.Panic != "" {
				s.badKey, s.bad = "read-panic", "Read panicked: "+rr.Panic
				break
			}
			if rr.Err != "" {
				if rr.EOF && writersDone.Load() {
					break // end of stream after the write side was closed
				}
				drain()
				tw.Emit(map[string]any{"ev": "R", "w": 0, "id": 0, "len": 0, "err": true, "msg": rr.Err})
				s.sawErr = true
				break
			}
			w, id, ok := c05Decode(rr.Data)
			if !ok || rr.N != len(rr.Data) || w < 1 || w > run.K {
				w, id = 0, 0
			}
			tw.Emit(map[string]any{"ev": "R", "w": w, "id": id, "len": rr.N, "err": false})
			s.got++
			// second, direct formulation of the oracle
			switch {
			case w == 0:
				s.badKey, s.bad = "wrong-message", fmt.Sprintf("Read %d returned %d bytes that are not one whole written message", s.got, rr.N)
			case id != last[w]+1:
				s.badKey, s.bad = "order", fmt.Sprintf("writer %d: message %d delivered after message %d", w, id, last[w])
			case id <= len(plan[w-1]) && rr.N < plan[w-1][id-1]:
				s.badKey, s.bad = "short-message", fmt.Sprintf("writer %d message %d: %d of %d bytes delivered", w, id, rr.N, plan[w-1][id-1])
			case id <= len(plan[w-1]) && plan[w-1][id-1] > run.Buf:
				s.badKey, s.bad = "oversize-no-error", fmt.Sprintf("a %d-byte message was delivered into a %d-byte buffer", plan[w-1][id-1], run.Buf)
			}
			if s.badKey != "" {
				drain()
				break
			}
			last[w] = id
		}
		rch <- s
	}()

	cnt := make([]int, run.K)
	var panics []string
	var mu sync.Mutex
	writer := func(w int, from, to int) {
		for i := from; i < to; i++ {
			_, err, pan := c05SafeWrite(wr, c05Msg(w+1, i+1, plan[w][i]))
			mu.Lock()
			if pan != "" {
				panics = append(panics, fmt.Sprintf("writer %d message %d: %s", w+1, i+1, pan))
				mu.Unlock()
				return
			}
			if err == nil {
				cnt[w]++
			}
			mu.Unlock()
			if err != nil {
				return
			}
		}
	}
	if run.ParkAt > 0 && q != nil {
		// writer 1 is parked at the entry of its ParkAt-th underlying Write; writer 2 runs meanwhile
		c05Watch(q)
		q.mu.Lock()
		q.parkAt, q.wcalls, q.release = run.ParkAt, 0, false
		q.mu.Unlock()
		go func() {
			writer(0, 0, 1)
			q.mu.Lock()
			q.flagA = true
			q.cond.Broadcast()
			q.mu.Unlock()
		}()
		q.mu.Lock()
		for !q.parked && !q.flagA {
			q.cond.Wait()
		}
		q.parkAt = 0
		wasParked := q.parked
		q.mu.Unlock()
		go func() {
			writer(1, 0, 1)
			q.mu.Lock()
			q.flagB = true
			q.cond.Broadcast()
			q.mu.Unlock()
		}()
		q.mu.Lock()
		t0 := q.ticks
		for !q.flagB && !(wasParked && q.ticks-t0 >= 1) { // a mutex-protected writer waits for the parked one
			q.cond.Wait()
		}
		q.release = true
		q.cond.Broadcast()
		for !q.flagA || !q.flagB {
			q.cond.Wait()
		}
		q.mu.Unlock()
		if wasParked {
			res.Stat("parked_runs", 1)
		}
		var wg sync.WaitGroup
		for w := 0; w < run.K; w++ {
			wg.Add(1)
			go func(w int) { defer wg.Done(); writer(w, 1, run.Per) }(w)
		}
		wg.Wait()
	} else {
		var wg sync.WaitGroup
		start := make(chan struct{})
		for w := 0; w < run.K; w++ {
			wg.Add(1)
			go func(w int) { defer wg.Done(); <-start; writer(w, 0, run.Per) }(w)
		}
		close(start)
		wg.Wait()
	}
	writersDone.Store(true)
	closeWrite()
	var s rdSummary
	select {
	case s = <-rch:
	case <-time.After(20 * time.Second):
		res.Stat("harness_stuck", 1)
		res.Note("conc reader stuck: %+v", run)
		return
	}
	tw.Emit(map[string]any{"ev": "End", "cnt": cnt})
	sum := 0
	for _, c := range cnt {
		sum += c
	}
	res.Count(fmt.Sprintf("%+v", run), run.K > 1)
	res.Stat("conc_runs", 1)
	res.Stat("conc_messages_written", int64(sum))
	res.Stat("conc_messages_read", int64(s.got))
	for _, p := range panics {
		res.Violate(strings.SplitN(run.Kind, "-", 2)[0]+":write-panic", "Write panicked under concurrent writers: "+p, map[string]any{"kind": "conc", "run": run})
	}
	if s.badKey != "" {
		res.Violate(strings.SplitN(run.Kind, "-", 2)[0]+":conc-"+s.badKey, s.bad, map[string]any{"kind": "conc", "run": run})
	} else if !s.sawErr && len(panics) == 0 && s.got != sum {
		res.Violate(strings.SplitN(run.Kind, "-", 2)[0]+":conc-lost", fmt.Sprintf("%d messages written successfully, %d delivered before end of stream", sum, s.got), map[string]any{"kind": "conc", "run": run})
	}
}

func TestVerifC05Conc(t *testing.T) {
	res := kit.NewResult()
	defer func() { res.Save(true) }()
	if rp := kit.Env("VERIF_REPLAY", ""); rp != "" {
		c05ReplayFile(t, rp)
		return
	}
	tw := kit.NewTraceWriter("trace.ndjson")
	defer tw.Close()
	c05ConcBody(res, tw)
}

func c05ConcBody(res *kit.Result, tw *kit.TraceWriter) {
	codeBuf, _ := c05CodeBuf()
	rng := kit.NewRng(kit.Seed() + 77)
	thorough := kit.Thorough()
	small := []int{4, 5, 6, 7, 9, 16, 100, 1000, 1460}
	big := []int{4, 5, 64, 1460, 16384, 16401, c05MaxTLSWrite}
	wsBig := []int{4, 125, 126, 4096, 16384, 16480, c05MaxTLSWrite, 20000, codeBuf}
	rounds := 1
	if thorough {
		rounds = 6
	}
	sampled := 0
	for r := 0; r < rounds; r++ {
		for _, kind := range []string{"tls-seg", "tls-tcp", "ws-c2s", "ws-s2c"} {
			// the deterministic schedule: a writer parked inside / between its underlying Writes
			if kind != "tls-tcp" {
				for _, parkAt := range []int{1, 2} {
					for _, lens := range [][]int{{4, 7}, {1460, 5}, {16384, 16401}} {
						if kind != "tls-seg" && (r > 0 || parkAt == 2 && lens[0] < 16384) {
							continue // every parked WebSocket run costs a 100 ms wait
						}
						c05RunConc(res, tw, c05ConcRun{Kind: kind, K: 2, Per: 2, Buf: codeBuf, Lens: lens, ParkAt: parkAt, Seed: int64(rng.Intn(1 << 30))})
					}
				}
			}
			for _, k := range []int{2, 8, 32} {
				per := map[int]int{2: 40, 8: 14, 32: 5}[k]
				if thorough {
					per *= 3
				}
				lens := small
				if strings.HasPrefix(kind, "ws") {
					lens = append(append([]int{}, small...), wsBig...)
				} else if k <= 8 || thorough {
					lens = append(append([]int{}, small...), big...)
				}
				// segment sizes of the transport: small for few writers, whole writes for many
				maxSeg := map[int]int{2: 7, 8: 1460, 32: []int{0, 65536, 1, 300}[rng.Intn(4)]}[k]
				run := c05ConcRun{Kind: kind, K: k, Per: per, Buf: codeBuf, Lens: lens, MaxSeg: maxSeg, Seed: int64(rng.Intn(1 << 30))}
				c05RunConc(res, tw, run)
				if sampled < 3 && k == 8 {
					sampled++
					res.Sample(run, 8)
				}
				// a small reader buffer: some messages are oversize, the reader must stop with an error
				c05RunConc(res, tw, c05ConcRun{Kind: kind, K: k, Per: per, Buf: 1000, Lens: []int{4, 5, 999, 1000, 1000, 100, 7, 1001}, MaxSeg: maxSeg, Seed: int64(rng.Intn(1 << 30))})
			}
			if kind == "tls-tcp" {
				// a real socket with a late reader: the send buffer fills, the writers queue up inside conn.Write; only
				// large messages of pairwise different lengths (whatever a writer prepares outside the socket's write
				// lock is exposed to the others for as long as it waits)
				large := []int{4096, 4097, 5000, 8192, 12000, 16384, 16401, c05MaxTLSWrite}
				for _, k := range []int{4, 8, 16} {
					c05RunConc(res, tw, c05ConcRun{Kind: kind, K: k, Per: 12, Buf: codeBuf, Lens: large, LateMs: 30, Seed: int64(rng.Intn(1 << 30))})
				}
			}
			if res.NumViolations() > 10 {
				break
			}
		}
	}
	if c05TCPSkipped.Load() {
		res.Note("loopback TCP not available: tls-tcp runs skipped")
		res.Stat("tcp_skipped", 1)
	}
	res.Stat("trace_events", tw.Events())
}

// ------------------------------------------------- failing writes (WriteFail of RecordLayer.tla)

type c05Op struct {
	Len  int    `json:"len"`
	Fail string `json:"fail,omitempty"` // "" = the Write succeeds, "zero" = times out with nothing sent, "part" = after Sent bytes
	Sent int    `json:"sent,omitempty"`
}

type c05FaultCase struct {
	Conn string  `json:"conn"` // "seg" | "pipe" (net.Pipe)
	Ops  []c05Op `json:"ops"`
	Hold bool    `json:"hold"` // seg: the reader gets nothing until all writes are done (coalesced)
	Wait bool    `json:"wait"` // pipe: the deadline lies 2 ms ahead (the writer really waits) instead of in the past
}

// what the receiving side must see: exactly the messages whose Write succeeded, whole, in order
func c05FaultJudge(ops []c05Op, msgs [][]byte, i int, okIdx []int, got c05RR) (key, what string) {
	if i >= len(okIdx) {
		if got.Err != "" || got.Panic != "" {
			return "", ""
		}
		for j, op := range ops {
			if op.Fail != "" && bytes.Equal(got.Data, msgs[j]) {
				return "failed-write-delivered", fmt.Sprintf("message %d (%d bytes), whose Write reported failure, was delivered", j, op.Len)
			}
		}
		return "surplus-return", fmt.Sprintf("Read returned %d bytes beyond the messages written successfully", got.N)
	}
	want := msgs[okIdx[i]]
	k, w := c05Judge(c05Exp{Len: len(want)}, want, got)
	if k != "" && got.Err == "" {
		for j, op := range ops {
			if op.Fail != "" && bytes.Equal(got.Data, msgs[j]) {
				return "failed-write-delivered", fmt.Sprintf("message %d (%d bytes), whose Write reported failure%s, was delivered in place of message %d",
					j, op.Len, map[bool]string{true: " with nothing sent", false: ""}[op.Fail == "zero"], okIdx[i])
			}
		}
	}
	return k, w
}

func c05FaultPlan(ops []c05Op) (msgs [][]byte, okIdx []int) {
	for i, op := range ops {
		msgs = append(msgs, c05Msg(1, i+1, op.Len))
		if op.Fail == "" {
			okIdx = append(okIdx, i)
		}
	}
	return
}

// c05FaultSeg: one TLSConn over the segmenting conn; failing Writes = full window + expired deadline.
func c05FaultSeg(tw *kit.TraceWriter, fc c05FaultCase, bufLen int) (key, what string) {
	a, b, q, _ := c05NewPair()
	c05Watch(q)
	tap := &c05TLSTap{emit: func(body []byte) {
		w, id, ok := c05Decode(body)
		if !ok {
			w, id = 0, 0
		}
		if tw != nil {
			tw.Emit(map[string]any{"ev": "W", "w": w, "id": id, "len": len(body), "ok": ok})
		}
	}}
	q.tap = tap.feed
	if fc.Hold {
		q.limit = 0
	}
	wr, rd := NewTLSConn(a), NewTLSConn(b)
	go c05ReaderLoop(q, rd, bufLen, 0)
	defer func() {
		q.closeWrite()
		q.mu.Lock()
		q.limit = -1
		q.cond.Broadcast()
		for !q.rdone {
			q.cond.Wait()
		}
		q.mu.Unlock()
	}()
	if tw != nil {
		tw.Emit(map[string]any{"ev": "Reset", "buf": bufLen, "kind": "fault-seg", "k": 1})
	}
	msgs, okIdx := c05FaultPlan(fc.Ops)
	calls, torn := 0, false
	for i, op := range fc.Ops {
		switch op.Fail {
		case "":
			n, err, pan := c05SafeWrite(wr, msgs[i])
			if pan != "" {
				return "write-panic", fmt.Sprintf("op %d: Write panicked: %s", i, pan)
			}
			if err != nil {
				return "write-error", fmt.Sprintf("op %d: Write of %d bytes on a healthy connection returned n=%d err=%v", i, op.Len, n, err)
			}
		default:
			accept := int64(0)
			if op.Fail == "part" {
				accept = int64(op.Sent)
			}
			_, err, pan := c05FailWrite(wr, q, accept, msgs[i])
			if pan != "" {
				return "write-panic", fmt.Sprintf("op %d: Write panicked: %s", i, pan)
			}
			if err == nil {
				return "failed-write-reported-ok", fmt.Sprintf("op %d: the transport timed the Write out after %d bytes but TLSConn.Write returned nil", i, accept)
			}
			if op.Fail == "zero" && tw != nil {
				tw.Emit(map[string]any{"ev": "WF", "w": 1, "id": i + 1, "len": op.Len, "sent": 0})
			}
			torn = op.Fail == "part"
		}
		calls++
		if torn {
			break
		}
	}
	q.mu.Lock()
	q.limit = -1
	q.cond.Broadcast()
	q.mu.Unlock()
	if !q.settle() {
		return "harness-stuck", "reader did not settle"
	}
	for i := 0; ; i++ {
		got, ok := q.popResult()
		if !ok {
			if i < len(okIdx) && !(torn && okIdx[i] >= calls) {
				return "no-return", fmt.Sprintf("message %d was written successfully and is whole on the wire but was not delivered", okIdx[i])
			}
			break
		}
		if tw != nil && got.Panic == "" {
			w, id, dok := c05Decode(got.Data)
			if !dok || got.Err != "" {
				w, id = 0, 0
			}
			tw.Emit(map[string]any{"ev": "R", "w": w, "id": id, "len": got.N, "err": got.Err != ""})
		}
		if k, w := c05FaultJudge(fc.Ops, msgs, i, okIdx, got); k != "" {
			return k, w
		}
	}
	if tw != nil && !torn {
		tw.Emit(map[string]any{"ev": "End", "cnt": []int{calls}})
	}
	return "", ""
}

type c05LimitConn struct { // lets `budget` bytes through, then blocks until closed (a peer that stops reading)
	net.Conn
	budget int
	done   chan struct{}
}

func (c *c05LimitConn) Read(p []byte) (int, error) {
	if c.budget <= 0 {
		<-c.done
		return 0, io.EOF
	}
	if len(p) > c.budget {
		p = p[:c.budget]
	}
	n, err := c.Conn.Read(p)
	c.budget -= n
	return n, err
}

// c05FaultNetPipe: the same over net.Pipe (synchronous, honours deadlines itself): a Write succeeds while
// the peer is reading; with the peer not reading it times out with zero bytes sent.
func c05FaultNetPipe(fc c05FaultCase, bufLen int) (key, what string) {
	p1, p2 := net.Pipe()
	defer p1.Close()
	defer p2.Close()
	lim := &c05LimitConn{Conn: p2, budget: 1 << 40, done: make(chan struct{})}
	wr, rd := NewTLSConn(p1), NewTLSConn(lim)
	readCh, resCh := make(chan struct{}), make(chan c05RR, 1)
	go func() {
		buf := make([]byte, bufLen)
		for range readCh {
			resCh <- c05SafeRead(rd, buf)
		}
	}()
	defer close(readCh)
	msgs, okIdx := c05FaultPlan(fc.Ops)
	nOK := 0
	for i, op := range fc.Ops {
		switch op.Fail {
		case "":
			readCh <- struct{}{}
			wr.SetWriteDeadline(time.Now().Add(500 * time.Millisecond))
			n, err, pan := c05SafeWrite(wr, msgs[i])
			if pan != "" {
				return "write-panic", fmt.Sprintf("op %d: Write panicked: %s", i, pan)
			}
			var got c05RR
			select {
			case got = <-resCh:
			case <-time.After(3 * time.Second):
				return "no-return", fmt.Sprintf("op %d: Write returned n=%d err=%v but the peer's Read did not return", i, n, err)
			}
			if k, w := c05FaultJudge(fc.Ops, msgs, nOK, okIdx, got); k != "" {
				return k, fmt.Sprintf("op %d: %s", i, w)
			}
			if err != nil {
				return "write-error", fmt.Sprintf("op %d: the peer read the whole message but Write returned n=%d err=%v", i, n, err)
			}
			nOK++
		case "zero":
			d := -time.Second
			if fc.Wait {
				d = 2 * time.Millisecond
			}
			wr.SetWriteDeadline(time.Now().Add(d))
			_, err, pan := c05SafeWrite(wr, msgs[i])
			if pan != "" {
				return "write-panic", fmt.Sprintf("op %d: Write panicked: %s", i, pan)
			}
			if err == nil {
				return "failed-write-reported-ok", fmt.Sprintf("op %d: nobody read, the deadline expired, yet Write returned nil", i)
			}
		case "part": // the peer takes Sent bytes and stops; the Write times out; the connection is closed
			lim.budget = op.Sent
			readCh <- struct{}{}
			wr.SetWriteDeadline(time.Now().Add(20 * time.Millisecond))
			_, err, pan := c05SafeWrite(wr, msgs[i])
			if pan != "" {
				return "write-panic", fmt.Sprintf("op %d: Write panicked: %s", i, pan)
			}
			if err == nil {
				return "failed-write-reported-ok", fmt.Sprintf("op %d: the peer took %d bytes only, the deadline expired, yet Write returned nil", i, op.Sent)
			}
			p1.Close()
			close(lim.done)
			select {
			case got := <-resCh:
				if got.Err == "" && got.Panic == "" {
					return "torn-delivered", fmt.Sprintf("op %d: %d bytes of a record were sent, the Read returned %d bytes as a message", i, op.Sent, got.N)
				}
			case <-time.After(3 * time.Second):
				return "harness-stuck", "reader of the torn record did not return after close"
			}
			return "", ""
		}
	}
	return "", ""
}

func c05FaultCases(maxLen int) (out [][]c05Op) {
	alphabet := []c05Op{{Len: 5}, {Len: 300}, {Len: 7, Fail: "zero"}, {Len: 1000, Fail: "zero"}}
	var rec func(cur []c05Op)
	rec = func(cur []c05Op) {
		if len(cur) > 0 {
			hasFail := false
			for _, o := range cur {
				hasFail = hasFail || o.Fail != ""
			}
			if hasFail {
				out = append(out, append([]c05Op(nil), cur...))
				for _, sent := range []int{1, 5, 6} { // ... and a torn record at the very end
					out = append(out, append(append([]c05Op(nil), cur...), c05Op{Len: 64, Fail: "part", Sent: sent}))
				}
			}
		}
		if len(cur) == maxLen {
			return
		}
		for _, o := range alphabet {
			rec(append(cur, o))
		}
	}
	rec(nil)
	out = append(out, []c05Op{{Len: 9}, {Len: 64, Fail: "part", Sent: 3}}, []c05Op{{Len: 64, Fail: "part", Sent: 68}},
		[]c05Op{{Len: 16384, Fail: "zero"}, {Len: 16384}, {Len: 4}}, []c05Op{{Len: 4, Fail: "zero"}, {Len: 16640}, {Len: 4, Fail: "zero"}, {Len: 4}})
	return
}

func c05FaultBody(res *kit.Result, tw *kit.TraceWriter) {
	codeBuf, _ := c05CodeBuf()
	t0 := time.Now()
	maxLen := 3
	if kit.Thorough() {
		maxLen = 4
	}
	pipeViol := 0
	for ci, ops := range c05FaultCases(maxLen) {
		if res.NumViolations() > 30 {
			break
		}
		fc := c05FaultCase{Conn: "seg", Ops: ops, Hold: ci%2 == 1}
		rec := tw
		if ops[len(ops)-1].Fail == "part" {
			rec = nil // a torn record ends the connection: judged here, not recorded for TLC
		}
		key, what := c05FaultSeg(rec, fc, codeBuf)
		res.Count(fmt.Sprintf("%+v", fc), true)
		res.Stat("fault_seg_cases", 1)
		if key == "harness-stuck" {
			res.Stat("harness_stuck", 1)
		} else if key != "" {
			res.Violate("tls:"+key, what, map[string]any{"kind": "fault", "case": fc})
		}
		// net.Pipe: every case up to 3 ops (each torn case costs a 20 ms deadline)
		if (len(ops) <= 3 || kit.Thorough()) && pipeViol < 3 && (ops[len(ops)-1].Fail != "part" || ci%4 == 0) {
			fc := c05FaultCase{Conn: "pipe", Ops: ops, Wait: ci%8 == 2}
			key, what := c05FaultNetPipe(fc, codeBuf)
			res.Count(fmt.Sprintf("%+v", fc), true)
			res.Stat("fault_netpipe_cases", 1)
			if key == "harness-stuck" {
				res.Stat("harness_stuck", 1)
			} else if key != "" {
				pipeViol++
				res.Violate("tls:"+key, what, map[string]any{"kind": "fault", "case": fc})
			}
			if ci == 5 {
				res.Sample(fc, 12)
			}
		}
	}
	res.Stat("fault_ms", time.Since(t0).Milliseconds())
}

// --------------------------------------------- Write-size boundary sweep (Fits of RecordLayer.tla)

// c05BoundaryLens: around every power of two the 16-bit length field knows, around 2^14+256, and beyond.
// Nothing here assumes where Write draws its line: whatever Write ACCEPTS must arrive whole.
func c05BoundaryLens() []int {
	set := map[int]bool{}
	for k := 0; k <= 17; k++ {
		for d := -1; d <= 1; d++ {
			if v := 1<<k + d; v >= 0 {
				set[v] = true
			}
		}
	}
	for _, v := range []int{1<<14 + 255, 1<<14 + 256, 1<<14 + 257, 65534, 65535, 65536, 65537, 70000, 131072, 131072 + 5, 196608, 1 << 18} {
		set[v] = true
	}
	var out []int
	for v := range set {
		out = append(out, v)
	}
	sort.Ints(out)
	return out
}

type c05BoundaryCase struct {
	Len    int     `json:"len"`
	Cuts   []int64 `json:"cuts,omitempty"`
	MaxSeg int     `json:"maxSeg,omitempty"`
	Seed   int64   `json:"seed,omitempty"`
}

func c05Boundary(tw *kit.TraceWriter, bc c05BoundaryCase) (key, what string, accepted bool) {
	const bufLen = 1<<18 + 64 // large enough for everything tried
	a, _, q, _ := c05NewPair()
	rec := tw != nil && bc.Len >= 4
	if rec {
		tw.Emit(map[string]any{"ev": "Reset", "buf": bufLen, "kind": "boundary", "k": 1})
		tap := &c05TLSTap{emit: func(body []byte) {
			w, id, ok := c05Decode(body)
			if !ok {
				w, id = 0, 0
			}
			tw.Emit(map[string]any{"ev": "W", "w": w, "id": id, "len": len(body), "ok": ok})
		}}
		q.tap = tap.feed
	}
	wr := NewTLSConn(a)
	var msg []byte
	if bc.Len >= 4 {
		msg = c05Msg(1, 1, bc.Len)
	} else {
		msg = kit.TokenBytes(77, bc.Len)
	}
	sentinel := c05Msg(1, 2, 9)
	n, err, pan := c05SafeWrite(wr, msg)
	if pan != "" {
		return "write-panic", fmt.Sprintf("Write of %d bytes panicked: %s", bc.Len, pan), false
	}
	accepted = err == nil
	if !accepted && rec {
		tw.Emit(map[string]any{"ev": "WX", "w": 1, "id": 1, "len": bc.Len})
	}
	if _, err2, pan2 := c05SafeWrite(wr, sentinel); err2 != nil || pan2 != "" {
		return "write-error", fmt.Sprintf("after a Write of %d bytes (n=%d err=%v) the next 9-byte Write failed: %v %s", bc.Len, n, err, err2, pan2), accepted
	}
	var want [][]byte
	if accepted {
		want = append(want, msg)
	}
	want = append(want, sentinel)
	q2 := c05NewPipe()
	q2.buf, q2.wrOff, q2.wclosed = q.buf, int64(len(q.buf)), true
	q2.cuts, q2.maxSeg = bc.Cuts, bc.MaxSeg
	if bc.MaxSeg > 0 {
		q2.rng = kit.NewRng(bc.Seed)
	}
	rd := NewTLSConn(&c05Conn{rd: q2})
	buf := make([]byte, bufLen)
	for i := 0; i <= len(want); i++ {
		got := c05SafeRead(rd, buf)
		if rec && got.Panic == "" && !(i == len(want) && got.Err != "") {
			w, id, dok := c05Decode(got.Data)
			if !dok || got.Err != "" {
				w, id = 0, 0
			}
			tw.Emit(map[string]any{"ev": "R", "w": w, "id": id, "len": got.N, "err": got.Err != ""})
		}
		if i == len(want) {
			if got.Err == "" && got.Panic == "" {
				return "surplus-return", fmt.Sprintf("length %d (accepted=%v): Read returned %d more bytes after the sentinel", bc.Len, accepted, got.N), accepted
			}
			break
		}
		if k, w := c05Judge(c05Exp{Len: len(want[i])}, want[i], got); k != "" {
			if accepted && i == 0 {
				return "accepted-" + k, fmt.Sprintf("Write accepted a %d-byte message (n=%d, err=nil) but the Read that should deliver it: %s", bc.Len, n, w), accepted
			}
			return "sentinel-" + k, fmt.Sprintf("length %d (accepted=%v): the record that follows it: %s", bc.Len, accepted, w), accepted
		}
	}
	if rec {
		tw.Emit(map[string]any{"ev": "End", "cnt": []int{2}})
	}
	return "", "", accepted
}

func c05BoundaryBody(res *kit.Result, tw *kit.TraceWriter) {
	t0 := time.Now()
	rng := kit.NewRng(kit.Seed() + 5)
	maxAccepted := -1
	for _, l := range c05BoundaryLens() {
		cases := []c05BoundaryCase{{Len: l}, {Len: l, MaxSeg: 1460, Seed: int64(rng.Intn(1 << 30))},
			{Len: l, Cuts: []int64{3, 5, int64(5 + l/2), int64(5 + l), int64(5 + l + 2)}}}
		if kit.Thorough() {
			cases = append(cases, c05BoundaryCase{Len: l, MaxSeg: 7, Seed: int64(rng.Intn(1 << 30))}, c05BoundaryCase{Len: l, MaxSeg: 65536, Seed: int64(rng.Intn(1 << 30))})
		}
		for ci, bc := range cases {
			rec := tw
			if ci > 0 {
				rec = nil
			}
			key, what, acc := c05Boundary(rec, bc)
			res.Count(fmt.Sprintf("boundary %+v", bc), true)
			if acc && l > maxAccepted {
				maxAccepted = l
			}
			if key != "" {
				res.Violate("tls:boundary-"+key, what, map[string]any{"kind": "boundary", "case": bc})
				break
			}
		}
	}
	res.Stat("boundary_lengths", int64(len(c05BoundaryLens())))
	res.Stat("boundary_max_accepted", int64(maxAccepted))
	res.Stat("boundary_ms", time.Since(t0).Milliseconds())
}

// ------------------------------------------------------------------------------------------ replay

func c05ReplayFile(t *testing.T, path string) {
	var rf struct {
		Key    string `json:"key"`
		Replay struct {
			Kind           string          `json:"kind"`
			Behaviour      c05Behaviour    `json:"behaviour"`
			Concretisation c05Conc         `json:"concretisation"`
			Case           json.RawMessage `json:"case"`
			Run            c05ConcRun      `json:"run"`
		} `json:"replay"`
	}
	raw, err := os.ReadFile(path)
	if err != nil {
		t.Fatal(err)
	}
	if err := json.Unmarshal(raw, &rf); err != nil {
		t.Fatal(err)
	}
	switch rf.Replay.Kind {
	case "behaviour":
		key, what, table := c05RunBehaviour(&rf.Replay.Behaviour, rf.Replay.Concretisation)
		for _, l := range table {
			fmt.Println(l)
		}
		fmt.Printf("REPLAY-RESULT key=%q what=%q\n", key, what)
	case "sweep":
		var cs c05Case
		if err := json.Unmarshal(rf.Replay.Case, &cs); err != nil {
			t.Fatal(err)
		}
		var key, what string
		if cs.Target == "tls" {
			stream, msgs, err := c05BuildTLSStream(cs.Lens, 500)
			if err != nil {
				t.Fatal(err)
			}
			q := c05NewPipe()
			key, what = c05SweepTLS(q, NewTLSConn(&c05Conn{rd: q}), stream, msgs, c05Expect(cs.Lens, cs.Buf, 500), make([]byte, cs.Buf, cs.Buf+cs.Spare), &cs)
		} else {
			rig, err := c05NewWSRig(cs.Target, cs.Buf, cs.Spare)
			if err != nil {
				t.Fatal(err)
			}
			var msgs [][]byte
			for i, l := range cs.Lens {
				msgs = append(msgs, kit.TokenBytes(700+uint64(i), l))
			}
			key, what, _ = rig.run(&cs, msgs, c05Expect(cs.Lens, cs.Buf, 700))
		}
		fmt.Printf("case %+v\nREPLAY-RESULT key=%q what=%q\n", cs, key, what)
	case "fault":
		var fc c05FaultCase
		if err := json.Unmarshal(rf.Replay.Case, &fc); err != nil {
			t.Fatal(err)
		}
		codeBuf, _ := c05CodeBuf()
		var key, what string
		if fc.Conn == "pipe" {
			key, what = c05FaultNetPipe(fc, codeBuf)
		} else {
			key, what = c05FaultSeg(nil, fc, codeBuf)
		}
		fmt.Printf("case %+v\nREPLAY-RESULT key=%q what=%q\n", fc, key, what)
	case "boundary":
		var bc c05BoundaryCase
		if err := json.Unmarshal(rf.Replay.Case, &bc); err != nil {
			t.Fatal(err)
		}
		key, what, acc := c05Boundary(nil, bc)
		fmt.Printf("case %+v accepted=%v\nREPLAY-RESULT key=%q what=%q\n", bc, acc, key, what)
	case "conc":
		res := kit.NewResult()
		tw := kit.NewTraceWriter("trace.ndjson")
		c05RunConc(res, tw, rf.Replay.Run)
		tw.Close()
		b, _ := json.Marshal(res)
		fmt.Printf("run %+v\nREPLAY-RESULT %s\n", rf.Replay.Run, b)
	default:
		fmt.Printf("REPLAY-RESULT unsupported replay kind %q (trace rejections: re-run the check with the recorded seed)\n", rf.Replay.Kind)
	}
}
