package server

// C06 - client and server agree on identity, options and session key after the handshake.
//
// TestVerifC06Replay: every abstract case exported by TLC from spec/HandshakeGen.tla (Scope = "agree": honest
// network, right server key, timestamp strictly inside the window, authorised user, served method; the spec's
// Agreement invariant says: accepted, server's view = configuration, one key) is run for real N times with
// fresh ephemeral keys / nonces / uTLS extension orders:
//   client.RawConfig -> ProcessRawConfig -> Transport.CreateTransport().Handshake(vnet conn, authInfo)
//   against the real dispatchConnection reading from the other end of the vnet link (CDN: behind a throw-away
//   crypto/tls terminator), hand-built State, real userPanel over a real LocalManager.
// Observed: Handshake's return value (client key) vs Session.GetSessionKey of the session the user joined;
// ClientInfo returned by the real AuthFirstPacket on the very bytes dispatchConnection read; for a share of the
// runs (always for admin sessions) a request sent over a client-side session built from the returned key must
// come back from the proxy target of the configured method (resp. from the admin API).
// Oracle (= the statement): the client is not accepted, or UID / proxy method / encryption method / session id /
// unordered flag / session key differ.

import (
	"bytes"
	"encoding/json"
	"errors"
	"fmt"
	"os"
	"runtime"
	"strings"
	"sync"
	"sync/atomic"
	"testing"
	"time"

	"github.com/cbeuw/Cloak/internal/client"
	mux "github.com/cbeuw/Cloak/internal/multiplex"
	kit "github.com/cbeuw/Cloak/internal/verifkit"
)

type c06Run struct {
	Key   string   `json:"key"`
	What  string   `json:"what"`
	Table []string `json:"table"`
}

func c06TransportOf(pkt []byte) Transport {
	if len(pkt) > 0 && pkt[0] == 0x16 {
		return TLS{}
	}
	return WebSocket{}
}

// runAgree performs one real handshake for the abstract case and compares both ends.
func (r *c06Rig) runAgree(cs *c06Case, c c06Conc, probe bool) (out c06Run) {
	fail := func(key, format string, a ...any) c06Run {
		out.Key, out.What = key, fmt.Sprintf(format, a...)
		return out
	}
	row := func(format string, a ...any) { out.Table = append(out.Table, fmt.Sprintf(format, a...)) }
	remote, auth, err := r.clientSetup(cs, c)
	if err != nil {
		return fail("harness:config", "ProcessRawConfig refused the configuration: %v", err)
	}
	uid := r.uids[c.Label]
	admin := c.Label == "admin" && c.Sid == 0
	cdn := strings.EqualFold(c.Tr, "cdn")
	link := r.vn.NewLink(false, false)
	rec := &c06RecConn{Conn: r.serverConn(link, cdn)}
	r.takeRedirect()
	done := r.serve(rec)
	tr := remote.Transport.CreateTransport()
	if tr == nil {
		return fail("harness:config", "no transport for %q", c.Tr)
	}
	link.End(0).SetReadDeadline(time.Now().Add(15 * time.Second))
	ckey, herr := tr.Handshake(link.End(0), auth)
	link.End(0).SetReadDeadline(time.Time{})
	cleanup := func() {
		func() {
			defer func() { recover() }() // Close on a transport whose handshake never created its conn
			tr.Close()
		}()
		link.End(0).Close()
		r.waitDone(done, 5*time.Second)
	}
	row("configured: uid=%x method=%q enc=%d(%s) sid=%d unordered=%v transport=%s sig=%s sni=%q server-minus-stamp=%v",
		uid, c.Method, auth.EncryptionMethod, c.EncName, c.Sid, cs.Unord, c.Tr, c.Sig, c.SNI, time.Duration(c.OffNs))
	if herr != nil {
		redirected := r.takeRedirect() != nil
		row("expected: handshake completes; observed: client error %q, connection relayed to the redirect target: %v", herr, redirected)
		cleanup()
		return fail("not-accepted:"+strings.ToLower(c.Tr), "a correctly configured client (%s, %s, stamp %v from the server clock) was not accepted: %v (relayed to the redirect target: %v)",
			c.Tr, c.Sig, time.Duration(-c.OffNs), herr, redirected)
	}
	// 1. what the server made of the first packet: the real AuthFirstPacket on the bytes dispatchConnection read
	pkt := rec.firstPacket()
	if pkt == nil {
		cleanup()
		return fail("harness:capture", "the first packet could not be cut out of what the server read")
	}
	ci, _, aerr := AuthFirstPacket(pkt, c06TransportOf(pkt), r.freshCacheState())
	if aerr != nil {
		row("AuthFirstPacket on the recorded first packet: %v", aerr)
		cleanup()
		return fail("not-accepted:auth", "the handshake completed but AuthFirstPacket refuses the recorded first packet: %v", aerr)
	}
	wantSid := c.Sid
	if kit.Env("VERIF_C06_CORRUPT", "") == "sid" { // self-test of the binding: a corrupted expectation must show up
		wantSid ^= 1
	}
	row("server ClientInfo: uid=%x method=%q enc=%d sid=%d unordered=%v", ci.UID, ci.ProxyMethod, ci.EncryptionMethod, ci.SessionId, ci.Unordered)
	switch {
	case !bytes.Equal(ci.UID, uid):
		out.Key, out.What = "field:uid", fmt.Sprintf("server recovered UID %x, client was configured with %x", ci.UID, uid)
	case ci.ProxyMethod != c.Method:
		out.Key, out.What = "field:method", fmt.Sprintf("server recovered proxy method %q, client was configured with %q (%d bytes)", ci.ProxyMethod, c.Method, len(c.Method))
	case ci.EncryptionMethod != auth.EncryptionMethod || ci.EncryptionMethod != c06EncByte[cs.Enc]:
		out.Key, out.What = "field:enc", fmt.Sprintf("server recovered encryption method %d, client was configured with %q = %d", ci.EncryptionMethod, c.EncName, c06EncByte[cs.Enc])
	case ci.SessionId != wantSid:
		out.Key, out.What = "field:sid", fmt.Sprintf("server recovered session id %#x, client used %#x", ci.SessionId, wantSid)
	case ci.Unordered != cs.Unord:
		out.Key, out.What = "field:unordered", fmt.Sprintf("server recovered unordered=%v, client was configured with %v", ci.Unordered, cs.Unord)
	}
	if out.Key != "" {
		cleanup()
		return out
	}
	// 2. the session this connection joined, and its key
	if !admin {
		sesh := r.serverSession(uid, c.Sid)
		if sesh == nil {
			row("no session %d registered for user %x", c.Sid, uid)
			cleanup()
			return fail("session-missing", "the handshake completed but the server has no session %#x for UID %x", c.Sid, uid)
		}
		skey := sesh.GetSessionKey()
		row("client key %x, server session key %x, server session unordered=%v", ckey[:6], skey[:6], sesh.Unordered)
		if skey != ckey {
			cleanup()
			return fail("key-differs", "client derived session key %x, the server's session holds %x", ckey, skey)
		}
		if sesh.Unordered != cs.Unord {
			cleanup()
			return fail("field:unordered", "server session is unordered=%v, client was configured with %v", sesh.Unordered, cs.Unord)
		}
	}
	// 3. end to end: data flows only if key, cipher and method agree
	if probe || admin {
		resp, perr := c06Probe(tr, auth.EncryptionMethod, ckey, c.Sid, cs.Unord)
		want := c06ProxyMarker + c.Method + "\n"
		row("probe over a client session built from the returned key: %q (err %v)", resp, perr)
		link.End(0).Close()
		r.waitDone(done, 5*time.Second)
		switch {
		case admin && !strings.HasPrefix(resp, "HTTP/1.1 200"):
			return fail("e2e:admin", "admin session (admin UID, session id 0): the API did not answer over the agreed key: %q %v", resp, perr)
		case !admin && resp != want:
			return fail("e2e:proxy", "request sent with the agreed key did not come back from the proxy target of %q: %q %v", c.Method, resp, perr)
		}
		return out
	}
	cleanup()
	return out
}

// ------------------------------------------------------------------------------------ multi-connection start

type c06MultiCase struct {
	K     int    `json:"k"`
	Tr    string `json:"tr"`
	Sig   string `json:"sig"`
	User  string `json:"user"`
	Enc   string `json:"enc"`
	Unord bool   `json:"unord"`
	N     int    `json:"n"`
}

func (m *c06MultiCase) sig() string {
	return fmt.Sprintf("k%d/%s/%s/%s/%s/%v", m.K, m.Tr, m.Sig, m.User, m.Enc, m.Unord)
}

type c06MultiRun struct {
	c06Run
	Parked int
}

var c06MultiSid atomic.Uint32

// runMulti: the k connections of one new client session (same AuthInfo: UID, session id) perform their handshakes
// at the same time against k dispatchConnection goroutines, as client.MakeSession does with NumConn = k.
func (r *c06Rig) runMulti(m *c06MultiCase, rng *kit.Rng) (out c06MultiRun) {
	fail := func(key, format string, a ...any) c06MultiRun {
		out.Key, out.What = key, fmt.Sprintf(format, a...)
		return out
	}
	row := func(format string, a ...any) { out.Table = append(out.Table, fmt.Sprintf(format, a...)) }
	us, uidn := m.User, "u1"
	if i := strings.Index(m.User, ":"); i > 0 {
		us, uidn = m.User[:i], m.User[i+1:]
	}
	cs := &c06Case{Scope: "multi", W: 2, UID: uidn, MLen: []int{1, 11, 12}[m.N%3], Served: true, Enc: m.Enc, Sid: "mid", Unord: m.Unord,
		Sig: m.Sig, Tr: m.Tr, Sni: "fixed", UState: us, Off: 0, RightKey: true, K: m.K}
	c := r.concretise(cs, m.N, rng)
	c.NumConn = m.K
	c.OffNs = int64(time.Duration(rng.Intn(120)-60) * time.Second)
	c.Sid = 0x6d000000 + c06MultiSid.Add(1)
	remote, auth, err := r.clientSetup(cs, c)
	if err != nil {
		return fail("harness:config", "ProcessRawConfig: %v", err)
	}
	uid := r.uids[c.Label]
	cdn := strings.EqualFold(c.Tr, "cdn")
	k := m.K
	links := make([]*kit.VLink, k)
	dones := make([]chan struct{}, k)
	trs := make([]client.Transport, k)
	keys := make([][32]byte, k)
	errs := make([]error, k)
	r.park.arm(uid, k, 150*time.Millisecond)
	r.takeRedirect()
	start := make(chan struct{})
	var wg sync.WaitGroup
	for i := 0; i < k; i++ {
		links[i] = r.vn.NewLink(false, false)
		dones[i] = r.serve(r.serverConn(links[i], cdn))
		trs[i] = remote.Transport.CreateTransport()
		links[i].End(0).SetReadDeadline(time.Now().Add(20 * time.Second))
		wg.Add(1)
		go func(i int) {
			defer wg.Done()
			<-start
			keys[i], errs[i] = trs[i].Handshake(links[i].End(0), auth)
		}(i)
	}
	close(start)
	wg.Wait()
	out.Parked = r.park.disarm()
	for i := 0; i < k; i++ {
		links[i].End(0).SetReadDeadline(time.Time{})
	}
	cleanup := func() {
		for i := 0; i < k; i++ {
			func() {
				defer func() { recover() }()
				trs[i].Close()
			}()
			links[i].End(0).Close()
		}
		for i := 0; i < k; i++ {
			r.waitDone(dones[i], 5*time.Second)
		}
		r.purgeUsers()
	}
	row("one session, %d connections together: uid=%x sid=%#x method=%q enc=%s transport=%s sig=%s; authorisations in flight at once: %d", k, uid, c.Sid, c.Method, c.EncName, c.Tr, c.Sig, out.Parked)
	for i := 0; i < k; i++ {
		row("connection %d: key %x err %v", i, keys[i][:8], errs[i])
	}
	for i := 0; i < k; i++ {
		if errs[i] != nil {
			cleanup()
			return fail("multi:not-accepted", "connection %d of %d of a correctly configured client's new session was not accepted: %v", i, k, errs[i])
		}
	}
	for i := 1; i < k; i++ {
		if keys[i] != keys[0] {
			cleanup()
			return fail("multi:keys-differ", "the %d connections of one session (uid %x, session id %#x) arriving together were sent different session keys: connection 0 got %x..., connection %d got %x...",
				k, uid, c.Sid, keys[0][:8], i, keys[i][:8])
		}
	}
	sesh := r.serverSession(uid, c.Sid)
	if sesh == nil {
		cleanup()
		return fail("multi:session-missing", "all %d handshakes completed but the server has no session %#x for uid %x", k, c.Sid, uid)
	}
	if sk := sesh.GetSessionKey(); sk != keys[0] {
		cleanup()
		return fail("multi:key-not-of-served-session", "the clients were sent key %x..., the session the server serves holds %x...", keys[0][:8], sk[:8])
	}
	// an echo through the connections: one client session over all k connections; requests are sent until every
	// connection has carried client data (the switchboard assigns a connection per stream), every one must be answered
	obf, err := mux.MakeObfuscator(auth.EncryptionMethod, keys[0])
	if err != nil {
		cleanup()
		return fail("harness:obfuscator", "%v", err)
	}
	csess := mux.MakeSession(c.Sid, mux.SessionConfig{Obfuscator: obf, Unordered: cs.Unord, MsgOnWireSizeLimit: appDataMaxLength})
	base := make([]int64, k)
	for i := 0; i < k; i++ {
		base[i], _ = links[i].Stats(0)
		csess.AddConnection(trs[i])
	}
	want := c06ProxyMarker + c.Method + "\n"
	used := 0
	for p := 0; p < 16*k && used < k; p++ {
		resp, perr := c06ProbeOn(csess)
		if resp != want {
			row("request %d: %q %v", p, resp, perr)
			csess.Close()
			cleanup()
			return fail("multi:echo-failed", "request %d over the %d-connection session did not come back from the proxy target of %q: %q %v", p, k, c.Method, resp, perr)
		}
		used = 0
		for i := 0; i < k; i++ {
			if b, _ := links[i].Stats(0); b > base[i] {
				used++
			}
		}
	}
	row("echo: every request answered; %d of %d connections carried client data", used, k)
	csess.Close()
	cleanup()
	return out
}

// c06ProbeOn sends one request on a new stream of an established client session.
func c06ProbeOn(cs *mux.Session) (string, error) {
	st, err := cs.OpenStream()
	if err != nil {
		return "", err
	}
	defer st.Close()
	if _, err := st.Write([]byte("GET /admin/users HTTP/1.1\r\nHost: verif\r\n\r\n")); err != nil {
		return "", err
	}
	type rr struct {
		s   string
		err error
	}
	ch := make(chan rr, 1)
	go func() {
		buf := make([]byte, 4096)
		n, err := st.Read(buf)
		ch <- rr{string(buf[:n]), err}
	}()
	select {
	case x := <-ch:
		return x.s, x.err
	case <-time.After(10 * time.Second):
		return "", errors.New("no answer on the stream within 10 s")
	}
}

func c06Workers() int {
	w := runtime.GOMAXPROCS(0)
	if w > 12 {
		w = 12
	}
	return kit.EnvInt("VERIF_HS_WORKERS", w)
}

func TestVerifC06Replay(t *testing.T) {
	c06Quiet()
	res := kit.NewResult()
	defer func() { res.Save(true) }()
	dir := t.TempDir()
	if rp := kit.Env("VERIF_REPLAY", ""); rp != "" {
		c06ReplayFile(t, rp, dir)
		return
	}
	if !c06WaitInput(kit.Env("VERIF_IN", "")) {
		res.Note("aborted by the driver before any case was run")
		return
	}
	var cases, multi []*c06Case
	err := kit.ReadLines(kit.Env("VERIF_IN", ""), func(line []byte) error {
		var c c06Case
		if err := json.Unmarshal(line, &c); err != nil {
			return err
		}
		if c.Scope == "multi" {
			multi = append(multi, &c)
			return nil
		}
		cases = append(cases, &c)
		return nil
	})
	if err != nil {
		t.Fatal(err)
	}
	// draws per abstract case: the chrome signature shuffles its extensions, so the positions of session id and
	// key share differ from hello to hello; the other layouts are fixed per signature and get fewer draws.
	// Round A gives every case its first draws, rounds B (chrome/direct) and C (the rest) add the remainder
	// and are cut, case by case, if the wall budget runs out (reported, never silently).
	nChrome, nFixed, first := 20, 2, 2
	budgetS := 90
	if kit.Thorough() {
		nChrome, nFixed, first = 500, 40, 4
		budgetS = 780
	}
	nChrome = kit.EnvInt("VERIF_C06_N", nChrome)
	nFixed = kit.EnvInt("VERIF_C06_N_FIXED", nFixed)
	if first > nFixed {
		first = nFixed
	}
	probeEvery := kit.EnvInt("VERIF_C06_PROBE_EVERY", 10)
	budget := time.Duration(kit.EnvInt("VERIF_C06_BUDGET_S", budgetS)) * time.Second
	t0 := time.Now()
	type job struct {
		cs     *c06Case
		i      int
		k0, k1 int
		round  int
		multi  *c06MultiCase
	}
	jobs := make(chan job, 64)
	var wg sync.WaitGroup
	var harnessErr, cut atomic.Int64
	done := make([]atomic.Int32, len(cases))
	workers := c06Workers()
	for w := 0; w < workers; w++ {
		rng := kit.NewRng(kit.Seed()*1000 + int64(w))
		rig, err := c06NewRig(w, rng, dir)
		if err != nil {
			t.Fatal(err)
		}
		wg.Add(1)
		go func() {
			defer wg.Done()
			defer rig.close()
			for j := range jobs {
				if j.multi != nil {
					if res.NumViolations() > 60 {
						continue
					}
					o := rig.runMulti(j.multi, rng)
					res.Count("multi|"+j.multi.sig(), true)
					res.Stat("multi_starts", 1)
					res.Stat(fmt.Sprintf("multi_connections_k%d", j.multi.K), int64(j.multi.K))
					if o.Parked > 1 {
						res.Stat("multi_starts_with_several_authorisations_in_flight", 1)
					}
					if strings.HasPrefix(o.Key, "harness:") {
						harnessErr.Add(1)
						res.Note("harness problem on %s: %s", j.multi.sig(), o.What)
					} else if o.Key != "" {
						res.Violate(o.Key, o.What, map[string]any{"kind": "multi", "multi": j.multi, "table": o.Table})
					}
					continue
				}
				cs := j.cs
				for k := j.k0; k < j.k1; k++ {
					if res.NumViolations() > 60 {
						break
					}
					if j.round > 0 && time.Since(t0) > budget {
						cut.Add(int64(j.k1 - k))
						break
					}
					c := rig.concretise(cs, j.i*7+k, rng)
					probe := (j.i+k)%probeEvery == 0
					o := rig.runAgree(cs, c, probe)
					done[j.i].Add(1)
					res.Count(cs.sig(), true)
					res.Stat("handshakes:"+cs.Tr, 1)
					if probe || c.Label == "admin" {
						res.Stat("probes", 1)
					}
					if strings.HasPrefix(o.Key, "harness:") {
						harnessErr.Add(1)
						res.Note("harness problem on %s: %s", cs.sig(), o.What)
						continue
					}
					if o.Key != "" {
						res.Violate(o.Key, o.What, map[string]any{"case": cs, "conc": c, "table": o.Table})
					}
				}
				if j.round == 0 && j.i%1291 == 3 {
					res.Sample(map[string]any{"case": cs, "example_concretisation": rig.concretise(cs, j.i*7, rng)}, 4)
				}
			}
			res.Stat("dispatch_stuck", rig.stuck.Load())
			res.Stat("dispatch_panics", rig.panics.Load())
		}()
	}
	shuffled := func(c *c06Case) bool { return c.Tr == "direct" && c.Sig == "chrome" }
	for i, cs := range cases {
		jobs <- job{cs: cs, i: i, k0: 0, k1: first, round: 0}
	}
	for i, cs := range cases {
		if shuffled(cs) && nChrome > first {
			jobs <- job{cs: cs, i: i, k0: first, k1: nChrome, round: 1}
		}
	}
	for i, cs := range cases {
		if !shuffled(cs) && nFixed > first {
			jobs <- job{cs: cs, i: i, k0: first, k1: nFixed, round: 2}
		}
	}
	// multi-connection starts: k connections of ONE new session arrive together (spec/HandshakeMulti.tla: one key, the
	// key of the registered session)
	mdraws := 2
	if kit.Thorough() {
		mdraws = 20
	}
	mn := 0
	for _, mc := range multi {
		if mc.K < 2 {
			continue
		}
		for d := 0; d < mdraws; d++ {
			for _, ts := range [][2]string{{"direct", "chrome"}, {"direct", "firefox"}, {"direct", "safari"}, {"cdn", "chrome"}} {
				for _, user := range []string{"dbok:u1", "dbok:u2", "bypass:u1"} {
					mn++
					jobs <- job{multi: &c06MultiCase{K: mc.K, Tr: ts[0], Sig: ts[1], User: user, N: mn, Enc: []string{"plain", "aes256gcm", "aes128gcm", "chacha20"}[mn%4], Unord: mn%5 == 0}}
				}
			}
		}
	}
	if len(multi) == 0 {
		res.Note("no multi-connection cases in the input")
	}
	close(jobs)
	wg.Wait()
	minS, minF := int32(1<<30), int32(1<<30)
	for i, cs := range cases {
		d := done[i].Load()
		if shuffled(cs) {
			if d < minS {
				minS = d
			}
		} else if d < minF {
			minF = d
		}
	}
	res.Stat("abstract_cases", int64(len(cases)))
	res.Stat("draws_target_chrome_direct", int64(nChrome))
	res.Stat("draws_target_fixed_layout", int64(nFixed))
	res.Stat("draws_min_chrome_direct", int64(minS))
	res.Stat("draws_min_fixed_layout", int64(minF))
	res.Stat("draws_cut_by_budget", cut.Load())
	res.Stat("replay_wall_ms", time.Since(t0).Milliseconds())
	if harnessErr.Load() > 0 {
		t.Fatalf("%d harness errors", harnessErr.Load())
	}
}

func c06ReplayFile(t *testing.T, path, dir string) {
	var rf struct {
		Replay struct {
			Kind  string        `json:"kind"`
			Multi *c06MultiCase `json:"multi"`
			Case  c06Case       `json:"case"`
			Conc  c06Conc       `json:"conc"`
		} `json:"replay"`
	}
	raw, err := os.ReadFile(path)
	if err != nil {
		t.Fatal(err)
	}
	if err := json.Unmarshal(raw, &rf); err != nil {
		t.Fatal(err)
	}
	rng := kit.NewRng(kit.Seed())
	rig, err := c06NewRig(0, rng, dir)
	if err != nil {
		t.Fatal(err)
	}
	defer rig.close()
	if rf.Replay.Kind == "multi" && rf.Replay.Multi != nil {
		for i := 0; i < 5; i++ {
			o := rig.runMulti(rf.Replay.Multi, rng)
			for _, l := range o.Table {
				fmt.Println(l)
			}
			fmt.Printf("REPLAY-RESULT key=%q what=%q\n", o.Key, o.What)
		}
		return
	}
	// the ephemeral key, nonce and extension order are drawn afresh each time: show a few
	for i := 0; i < 5; i++ {
		c := rf.Replay.Conc
		c.ClientNs = rig.base.UnixNano() + int64(i)*int64(time.Second)
		o := rig.runAgree(&rf.Replay.Case, c, true)
		for _, l := range o.Table {
			fmt.Println(l)
		}
		fmt.Printf("REPLAY-RESULT key=%q what=%q\n", o.Key, o.What)
	}
}

var _ = client.AuthInfo{}
