package server

// C06 - client and server agree on identity, options and session key after the handshake.
//
// TestVerifC06Replay: every abstract case exported by TLC from spec/HandshakeGen.tla (Scope = "agree": honest
// network, right server key, timestamp strictly inside the window, authorised user, served method; the spec's
// Agreement invariant says: accepted, server's view = configuration, one key) is run for real N times with
// fresh ephemeral keys / nonces / uTLS extension orders:
//   client.RawConfig -> ProcessRawConfig -> Transport.CreateTransport().Handshake(vnet conn, authInfo)
//   against the real dispatchConnection reading from the other end of the vnet link (CDN: behind a throw-away
//   crypto/tls terminator), hand-built State, real userPanel over a real LocalManager.
// Observed: Handshake's return value (client key) vs Session.GetSessionKey of the session the user joined;
// ClientInfo returned by the real AuthFirstPacket on the very bytes dispatchConnection read; for a share of the
// runs (always for admin sessions) a request sent over a client-side session built from the returned key must
// come back from the proxy target of the configured method (resp. from the admin API).
// Oracle (= the statement): the client is not accepted, or UID / proxy method / encryption method / session id /
// unordered flag / session key differ.

import (
	"bytes"
	"encoding/json"
	"fmt"
	"os"
	"runtime"
	"strings"
	"sync"
	"sync/atomic"
	"testing"
	"time"

	"github.com/cbeuw/Cloak/internal/client"
	kit "github.com/cbeuw/Cloak/internal/verifkit"
)

type c06Run struct {
	Key   string   `json:"key"`
	What  string   `json:"what"`
	Table []string `json:"table"`
}

func c06TransportOf(pkt []byte) Transport {
	if len(pkt) > 0 && pkt[0] == 0x16 {
		return TLS{}
	}
	return WebSocket{}
}

// runAgree performs one real handshake for the abstract case and compares both ends.
func (r *c06Rig) runAgree(cs *c06Case, c c06Conc, probe bool) (out c06Run) {
	fail := func(key, format string, a ...any) c06Run {
		out.Key, out.What = key, fmt.Sprintf(format, a...)
		return out
	}
	row := func(format string, a ...any) { out.Table = append(out.Table, fmt.Sprintf(format, a...)) }
	remote, auth, err := r.clientSetup(cs, c)
	if err != nil {
		return fail("harness:config", "ProcessRawConfig refused the configuration: %v", err)
	}
	uid := r.uids[c.Label]
	admin := c.Label == "admin" && c.Sid == 0
	cdn := strings.EqualFold(c.Tr, "cdn")
	link := r.vn.NewLink(false, false)
	rec := &c06RecConn{Conn: r.serverConn(link, cdn)}
	r.takeRedirect()
	done := r.serve(rec)
	tr := remote.Transport.CreateTransport()
	if tr == nil {
		return fail("harness:config", "no transport for %q", c.Tr)
	}
	link.End(0).SetReadDeadline(time.Now().Add(15 * time.Second))
	ckey, herr := tr.Handshake(link.End(0), auth)
	link.End(0).SetReadDeadline(time.Time{})
	cleanup := func() {
		func() {
			defer func() { recover() }() // Close on a transport whose handshake never created its conn
			tr.Close()
		}()
		link.End(0).Close()
		r.waitDone(done, 5*time.Second)
	}
	row("configured: uid=%x method=%q enc=%d(%s) sid=%d unordered=%v transport=%s sig=%s sni=%q server-minus-stamp=%v",
		uid, c.Method, auth.EncryptionMethod, c.EncName, c.Sid, cs.Unord, c.Tr, c.Sig, c.SNI, time.Duration(c.OffNs))
	if herr != nil {
		redirected := r.takeRedirect() != nil
		row("expected: handshake completes; observed: client error %q, connection relayed to the redirect target: %v", herr, redirected)
		cleanup()
		return fail("not-accepted:"+strings.ToLower(c.Tr), "a correctly configured client (%s, %s, stamp %v from the server clock) was not accepted: %v (relayed to the redirect target: %v)",
			c.Tr, c.Sig, time.Duration(-c.OffNs), herr, redirected)
	}
	// 1. what the server made of the first packet: the real AuthFirstPacket on the bytes dispatchConnection read
	pkt := rec.firstPacket()
	if pkt == nil {
		cleanup()
		return fail("harness:capture", "the first packet could not be cut out of what the server read")
	}
	ci, _, aerr := AuthFirstPacket(pkt, c06TransportOf(pkt), r.freshCacheState())
	if aerr != nil {
		row("AuthFirstPacket on the recorded first packet: %v", aerr)
		cleanup()
		return fail("not-accepted:auth", "the handshake completed but AuthFirstPacket refuses the recorded first packet: %v", aerr)
	}
	wantSid := c.Sid
	if kit.Env("VERIF_C06_CORRUPT", "") == "sid" { // self-test of the binding: a corrupted expectation must show up
		wantSid ^= 1
	}
	row("server ClientInfo: uid=%x method=%q enc=%d sid=%d unordered=%v", ci.UID, ci.ProxyMethod, ci.EncryptionMethod, ci.SessionId, ci.Unordered)
	switch {
	case !bytes.Equal(ci.UID, uid):
		out.Key, out.What = "field:uid", fmt.Sprintf("server recovered UID %x, client was configured with %x", ci.UID, uid)
	case ci.ProxyMethod != c.Method:
		out.Key, out.What = "field:method", fmt.Sprintf("server recovered proxy method %q, client was configured with %q (%d bytes)", ci.ProxyMethod, c.Method, len(c.Method))
	case ci.EncryptionMethod != auth.EncryptionMethod || ci.EncryptionMethod != c06EncByte[cs.Enc]:
		out.Key, out.What = "field:enc", fmt.Sprintf("server recovered encryption method %d, client was configured with %q = %d", ci.EncryptionMethod, c.EncName, c06EncByte[cs.Enc])
	case ci.SessionId != wantSid:
		out.Key, out.What = "field:sid", fmt.Sprintf("server recovered session id %#x, client used %#x", ci.SessionId, wantSid)
	case ci.Unordered != cs.Unord:
		out.Key, out.What = "field:unordered", fmt.Sprintf("server recovered unordered=%v, client was configured with %v", ci.Unordered, cs.Unord)
	}
	if out.Key != "" {
		cleanup()
		return out
	}
	// 2. the session this connection joined, and its key
	if !admin {
		sesh := r.serverSession(uid, c.Sid)
		if sesh == nil {
			row("no session %d registered for user %x", c.Sid, uid)
			cleanup()
			return fail("session-missing", "the handshake completed but the server has no session %#x for UID %x", c.Sid, uid)
		}
		skey := sesh.GetSessionKey()
		row("client key %x, server session key %x, server session unordered=%v", ckey[:6], skey[:6], sesh.Unordered)
		if skey != ckey {
			cleanup()
			return fail("key-differs", "client derived session key %x, the server's session holds %x", ckey, skey)
		}
		if sesh.Unordered != cs.Unord {
			cleanup()
			return fail("field:unordered", "server session is unordered=%v, client was configured with %v", sesh.Unordered, cs.Unord)
		}
	}
	// 3. end to end: data flows only if key, cipher and method agree
	if probe || admin {
		resp, perr := c06Probe(tr, auth.EncryptionMethod, ckey, c.Sid, cs.Unord)
		want := c06ProxyMarker + c.Method + "\n"
		row("probe over a client session built from the returned key: %q (err %v)", resp, perr)
		link.End(0).Close()
		r.waitDone(done, 5*time.Second)
		switch {
		case admin && !strings.HasPrefix(resp, "HTTP/1.1 200"):
			return fail("e2e:admin", "admin session (admin UID, session id 0): the API did not answer over the agreed key: %q %v", resp, perr)
		case !admin && resp != want:
			return fail("e2e:proxy", "request sent with the agreed key did not come back from the proxy target of %q: %q %v", c.Method, resp, perr)
		}
		return out
	}
	cleanup()
	return out
}

func c06Workers() int {
	w := runtime.GOMAXPROCS(0)
	if w > 12 {
		w = 12
	}
	return kit.EnvInt("VERIF_HS_WORKERS", w)
}

func TestVerifC06Replay(t *testing.T) {
	c06Quiet()
	res := kit.NewResult()
	defer func() { res.Save(true) }()
	dir := t.TempDir()
	if rp := kit.Env("VERIF_REPLAY", ""); rp != "" {
		c06ReplayFile(t, rp, dir)
		return
	}
	if !c06WaitInput(kit.Env("VERIF_IN", "")) {
		res.Note("aborted by the driver before any case was run")
		return
	}
	var cases []*c06Case
	err := kit.ReadLines(kit.Env("VERIF_IN", ""), func(line []byte) error {
		var c c06Case
		if err := json.Unmarshal(line, &c); err != nil {
			return err
		}
		cases = append(cases, &c)
		return nil
	})
	if err != nil {
		t.Fatal(err)
	}
	// draws per abstract case: the chrome signature shuffles its extensions, so the positions of session id and
	// key share differ from hello to hello; the other layouts are fixed per signature and get fewer draws.
	// Round A gives every case its first draws, rounds B (chrome/direct) and C (the rest) add the remainder
	// and are cut, case by case, if the wall budget runs out (reported, never silently).
	nChrome, nFixed, first := 20, 2, 2
	budgetS := 90
	if kit.Thorough() {
		nChrome, nFixed, first = 500, 40, 4
		budgetS = 780
	}
	nChrome = kit.EnvInt("VERIF_C06_N", nChrome)
	nFixed = kit.EnvInt("VERIF_C06_N_FIXED", nFixed)
	if first > nFixed {
		first = nFixed
	}
	probeEvery := kit.EnvInt("VERIF_C06_PROBE_EVERY", 10)
	budget := time.Duration(kit.EnvInt("VERIF_C06_BUDGET_S", budgetS)) * time.Second
	t0 := time.Now()
	type job struct {
		cs     *c06Case
		i      int
		k0, k1 int
		round  int
	}
	jobs := make(chan job, 64)
	var wg sync.WaitGroup
	var harnessErr, cut atomic.Int64
	done := make([]atomic.Int32, len(cases))
	workers := c06Workers()
	for w := 0; w < workers; w++ {
		rng := kit.NewRng(kit.Seed()*1000 + int64(w))
		rig, err := c06NewRig(w, rng, dir)
		if err != nil {
			t.Fatal(err)
		}
		wg.Add(1)
		go func() {
			defer wg.Done()
			defer rig.close()
			for j := range jobs {
				cs := j.cs
				for k := j.k0; k < j.k1; k++ {
					if res.NumViolations() > 60 {
						break
					}
					if j.round > 0 && time.Since(t0) > budget {
						cut.Add(int64(j.k1 - k))
						break
					}
					c := rig.concretise(cs, j.i*7+k, rng)
					probe := (j.i+k)%probeEvery == 0
					o := rig.runAgree(cs, c, probe)
					done[j.i].Add(1)
					res.Count(cs.sig(), true)
					res.Stat("handshakes:"+cs.Tr, 1)
					if probe || c.Label == "admin" {
						res.Stat("probes", 1)
					}
					if strings.HasPrefix(o.Key, "harness:") {
						harnessErr.Add(1)
						res.Note("harness problem on %s: %s", cs.sig(), o.What)
						continue
					}
					if o.Key != "" {
						res.Violate(o.Key, o.What, map[string]any{"case": cs, "conc": c, "table": o.Table})
					}
				}
				if j.round == 0 && j.i%1291 == 3 {
					res.Sample(map[string]any{"case": cs, "example_concretisation": rig.concretise(cs, j.i*7, rng)}, 4)
				}
			}
			res.Stat("dispatch_stuck", rig.stuck.Load())
			res.Stat("dispatch_panics", rig.panics.Load())
		}()
	}
	shuffled := func(c *c06Case) bool { return c.Tr == "direct" && c.Sig == "chrome" }
	for i, cs := range cases {
		jobs <- job{cs, i, 0, first, 0}
	}
	for i, cs := range cases {
		if shuffled(cs) && nChrome > first {
			jobs <- job{cs, i, first, nChrome, 1}
		}
	}
	for i, cs := range cases {
		if !shuffled(cs) && nFixed > first {
			jobs <- job{cs, i, first, nFixed, 2}
		}
	}
	close(jobs)
	wg.Wait()
	minS, minF := int32(1<<30), int32(1<<30)
	for i, cs := range cases {
		d := done[i].Load()
		if shuffled(cs) {
			if d < minS {
				minS = d
			}
		} else if d < minF {
			minF = d
		}
	}
	res.Stat("abstract_cases", int64(len(cases)))
	res.Stat("draws_target_chrome_direct", int64(nChrome))
	res.Stat("draws_target_fixed_layout", int64(nFixed))
	res.Stat("draws_min_chrome_direct", int64(minS))
	res.Stat("draws_min_fixed_layout", int64(minF))
	res.Stat("draws_cut_by_budget", cut.Load())
	res.Stat("replay_wall_ms", time.Since(t0).Milliseconds())
	if harnessErr.Load() > 0 {
		t.Fatalf("%d harness errors", harnessErr.Load())
	}
}

func c06ReplayFile(t *testing.T, path, dir string) {
	var rf struct {
		Replay struct {
			Case c06Case `json:"case"`
			Conc c06Conc `json:"conc"`
		} `json:"replay"`
	}
	raw, err := os.ReadFile(path)
	if err != nil {
		t.Fatal(err)
	}
	if err := json.Unmarshal(raw, &rf); err != nil {
		t.Fatal(err)
	}
	rng := kit.NewRng(kit.Seed())
	rig, err := c06NewRig(0, rng, dir)
	if err != nil {
		t.Fatal(err)
	}
	defer rig.close()
	// the ephemeral key, nonce and extension order are drawn afresh each time: show a few
	for i := 0; i < 5; i++ {
		c := rf.Replay.Conc
		c.ClientNs = rig.base.UnixNano() + int64(i)*int64(time.Second)
		o := rig.runAgree(&rf.Replay.Case, c, true)
		for _, l := range o.Table {
			fmt.Println(l)
		}
		fmt.Printf("REPLAY-RESULT key=%q what=%q\n", o.Key, o.What)
	}
}

var _ = client.AuthInfo{}
