package server

// C10 - everything on the wire in direct mode is a well-formed TLS record stream.
//
// TestVerifC10Rig  the RIG: the real client (client.RawConfig.ProcessRawConfig -> client.MakeSession -> streams) and
//                  the real server (dispatchConnection per accepted connection, serveSession, proxy target = an echo
//                  server) run in one process over an in-memory network (kit.VNet, auto delivery) inside a
//                  testing/synctest bubble (the 30 s inactivity timers cost nothing).  VNet.Tap records every byte
//                  of both directions of every client<->server link.  After each scenario the two byte streams of
//                  every link are cut into records by the independent parser harness/kit/tlsparse.go and
//                    (a) written as abstract events to trace_NNN.ndjson, which TLC validates against
//                        spec/WireTLSTrace.tla (the observer of spec/WireTLS.tla);
//                    (b) judged by c10Observer below, a second formulation of the same grammar over the parser's
//                        structures (not over the events).
// Oracle (both formulations): a record or hello field outside the grammar of the statement.  Keys: record:type,
// record:truncated, record:version, record:length, clienthello:handshake-type, clienthello:lengths,
// clienthello:session-id, clienthello:sni, clienthello:key-share, serverhello:before-clienthello,
// serverhello:handshake-type, serverhello:lengths, serverhello:session-id-echo.
// Everything else (hello sizes, legacy versions, cipher suite, CCS body, counts) is logged, never decides.

import (
	"bytes"
	"crypto/rand"
	"encoding/hex"
	"encoding/json"
	"fmt"
	"io"
	"net"
	"os"
	"runtime"
	"sort"
	"strings"
	"sync"
	"sync/atomic"
	"testing"
	"testing/synctest"
	"time"

	"github.com/cbeuw/Cloak/internal/client"
	"github.com/cbeuw/Cloak/internal/common"
	"github.com/cbeuw/Cloak/internal/ecdh"
	mux "github.com/cbeuw/Cloak/internal/multiplex"
	"github.com/cbeuw/Cloak/internal/server/usermanager"
	kit "github.com/cbeuw/Cloak/internal/verifkit"
	log "github.com/sirupsen/logrus"
)

// ------------------------------------------------------------------------------------------ scenarios

type c10Scenario struct {
	ID      int    `json:"id"`
	Browser string `json:"browser"`
	Name    string `json:"server_name"`
	// AlternativeNames of the client configuration.  As in cmd/ck-client (seshMaker) the name of a session is drawn
	// from AlternativeNames + ServerName (LocalConnConfig.MockDomainList) and handed over in AuthInfo.MockDomain.
	Alt       []string `json:"alternative_names"`
	Drawn     string   `json:"drawn_name"` // filled in by the run: the name drawn for this session
	Enc       string   `json:"encryption"`
	NumConn   int      `json:"num_conn"` // 0 = singleplex (one connection, one stream)
	Unordered bool     `json:"unordered"`
	Pattern   string   `json:"pattern"`
	Seed      int64    `json:"seed"`
}

var c10Browsers = []string{"chrome", "firefox", "safari"}
var c10Encs = []string{"plain", "aes-256-gcm", "aes-128-gcm", "chacha20-poly1305"}

type c10NameCfg struct {
	Name string
	Alt  []string
}

// server-name configurations: ServerName alone (a host name, the keyword in several capitalisations) and together
// with AlternativeNames (one, several, containing the keyword, containing an empty entry that the client drops)
var c10Names = []c10NameCfg{
	{"www.bing.com", nil}, {"random", nil}, {"RANDOM", nil}, {"a-1.b2.example.org", nil}, {"Random", nil}, {"xn--bcher-kva.example", nil},
	{"random", []string{"cloudflare.com", "github.com"}},
	{"www.bing.com", []string{"random"}},
	{"RANDOM", []string{"www.example.org"}},
	{"www.bing.com", []string{"Random", "cdn.example.net", "static.example.net"}},
	{"rAnDoM", []string{"random", "a.b.example"}},
	{"www.bing.com", []string{"github.com"}},
	{"one.example", []string{"two.example", "", "three.example", "four.example"}},
}
var c10NumConns = []int{1, 2, 4}
var c10Patterns = []string{"small", "multiframe", "manystreams", "target-closes", "banner", "server-close", "inactivity",
	"idle", "fault", "abrupt", "pipelined", "empty-from-target", "empty-from-app", "bulk-starts"}

func (s c10Scenario) sig() string {
	n := s.Name
	if strings.EqualFold(n, "random") {
		n = "random"
	}
	kw := 0
	for _, a := range s.Alt {
		if strings.EqualFold(a, "random") {
			kw++
		}
	}
	return fmt.Sprintf("%s/%s+%dalt(%dkw)/%s/%d/%v/%s", s.Browser, n, len(s.Alt), kw, s.Enc, s.NumConn, s.Unordered, s.Pattern)
}

func c10Scenarios(rng *kit.Rng, thorough bool) []c10Scenario {
	var out []c10Scenario
	add := func(b string, n c10NameCfg, e string, nc int, un bool, p string) {
		out = append(out, c10Scenario{ID: len(out), Browser: b, Name: n.Name, Alt: n.Alt, Enc: e, NumConn: nc, Unordered: un, Pattern: p,
			Seed: int64(rng.Uint64() >> 1)})
	}
	rounds := 2
	if thorough {
		rounds = 40
	}
	for round := 0; round < rounds; round++ {
		k := rng.Intn(1000)
		for _, p := range c10Patterns {
			for _, b := range c10Browsers {
				for _, e := range c10Encs {
					for _, nc := range c10NumConns {
						k++
						add(b, c10Names[k%len(c10Names)], e, nc, false, p)
					}
				}
			}
		}
		// singleplex and unordered sessions
		for i, p := range []string{"small", "multiframe", "target-closes", "server-close", "inactivity", "abrupt", "empty-from-target", "empty-from-app", "bulk-starts"} {
			for j, b := range c10Browsers {
				add(b, c10Names[(i+j+round)%len(c10Names)], c10Encs[(i+j+round)%4], 0, false, p)
				add(b, c10Names[(i+2*j+round)%len(c10Names)], c10Encs[(i+j+1+round)%4], c10NumConns[(i+j)%3], true, p)
			}
		}
	}
	return out
}

// ---------------------------------------------------------------------------------------------- the tap

type c10Chunk struct {
	end int   // cumulative length after this write
	seq int64 // global order of the write
}

type c10LinkTap struct {
	data   [2][]byte
	chunks [2][]c10Chunk
	closes []string
}

type c10Tap struct {
	mu    sync.Mutex
	links map[int]*c10LinkTap
}

func (tp *c10Tap) on(ev kit.TapEvent) {
	tp.mu.Lock()
	defer tp.mu.Unlock()
	lt := tp.links[ev.Link]
	if lt == nil {
		lt = &c10LinkTap{}
		tp.links[ev.Link] = lt
	}
	switch ev.Kind {
	case "w":
		lt.data[ev.From] = append(lt.data[ev.From], ev.Data...)
		lt.chunks[ev.From] = append(lt.chunks[ev.From], c10Chunk{end: len(lt.data[ev.From]), seq: ev.Seq})
	default:
		lt.closes = append(lt.closes, fmt.Sprintf("%s:%d", ev.Kind, ev.From))
	}
}

func (lt *c10LinkTap) seqOf(dir, endOff int) int64 {
	ch := lt.chunks[dir]
	i := sort.Search(len(ch), func(i int) bool { return ch[i].end >= endOff })
	if i < len(ch) {
		return ch[i].seq
	}
	return 1 << 62
}

// ------------------------------------------------------------------- second formulation of the grammar

// c10Observer is the Go formulation of the two automata (spec/WireTLS.tla is the other one).
type c10Observer struct {
	cfgName   string
	cfgRandom bool
	client    int // 0 = nothing seen, 1 = ClientHello seen
	server    int // 0 = nothing, 1 = ServerHello, 2 = ChangeCipherSpec, 3 = application data
	chSid     []byte
}

func c10Common(r *kit.TLSRecord, typ int) string {
	switch {
	case r.Type != typ:
		return "record:type"
	case !r.Complete:
		return "record:truncated"
	case r.Version>>8 != 3:
		return "record:version"
	}
	return ""
}

func c10AppData(r *kit.TLSRecord) string {
	if k := c10Common(r, kit.TLSRecApplicationData); k != "" {
		return k
	}
	if r.Version != 0x0303 {
		return "record:version"
	}
	if r.Length <= 0 || r.Length > kit.TLSMaxCiphertext || len(r.Body) != r.Length {
		return "record:length"
	}
	return ""
}

// judge returns "" if the record is what the grammar allows next in its direction (0 = client->server).
func (o *c10Observer) judge(dir int, r *kit.TLSRecord) string {
	if dir == 0 {
		if o.client == 1 {
			return c10AppData(r)
		}
		if k := c10Common(r, kit.TLSRecHandshake); k != "" {
			return k
		}
		h := r.Hello
		switch {
		case h == nil || h.HandshakeType != kit.TLSHsClientHello:
			return "clienthello:handshake-type"
		case !h.Consistent || !h.HasExtensions || !h.ExtensionsOK || h.DeclaredLen != r.Length-4:
			return "clienthello:lengths"
		case !h.SessionIDOK || len(h.SessionID) != 32:
			return "clienthello:session-id"
		case !h.HasSNI || !h.SNIOK:
			return "clienthello:sni"
		case o.cfgRandom && !kit.TLSValidHostName(h.SNI):
			return "clienthello:sni"
		case !o.cfgRandom && h.SNI != o.cfgName:
			return "clienthello:sni"
		}
		if l, n := h.X25519Len(); !h.HasKeyShare || !h.KeyShareOK || n < 1 || l != 32 {
			return "clienthello:key-share"
		}
		o.client = 1
		o.chSid = h.SessionID
		return ""
	}
	if o.client == 0 {
		return "serverhello:before-clienthello"
	}
	switch o.server {
	case 0:
		if k := c10Common(r, kit.TLSRecHandshake); k != "" {
			return k
		}
		h := r.Hello
		switch {
		case h == nil || h.HandshakeType != kit.TLSHsServerHello:
			return "serverhello:handshake-type"
		case !h.Consistent:
			return "serverhello:lengths"
		case !h.SessionIDOK || !bytes.Equal(h.SessionID, o.chSid):
			return "serverhello:session-id-echo"
		}
		o.server = 1
	case 1:
		if k := c10Common(r, kit.TLSRecChangeCipherSpec); k != "" {
			return k
		}
		o.server = 2
	default:
		if k := c10AppData(r); k != "" {
			return k
		}
		o.server = 3
	}
	return ""
}

// ------------------------------------------------------------------------------------------- the rig

type c10Addr string

func (a c10Addr) Network() string { return "vnet" }
func (a c10Addr) String() string  { return string(a) }

var c10KeyOnce sync.Once
var c10Pv, c10Pub interface{}
var c10UID = []byte("verif-c10-uid-16")
var c10SessionIds atomic.Uint32

func c10Keys() {
	c10KeyOnce.Do(func() {
		pv, pub, err := ecdh.GenerateKey(rand.Reader)
		if err != nil {
			panic(err)
		}
		c10Pv, c10Pub = pv, pub
	})
}

func c10NewState(proxy, redir common.Dialer) *State {
	c10Keys()
	var arr [16]byte
	copy(arr[:], c10UID)
	return &State{
		ProxyBook:   map[string]net.Addr{"echo": c10Addr("echo")},
		ProxyDialer: proxy,
		WorldState:  common.WorldState{Rand: rand.Reader, Now: time.Now},
		BypassUID:   map[[16]byte]struct{}{arr: {}},
		StaticPv:    c10Pv,
		RedirHost:   &net.IPAddr{IP: net.IPv4(127, 0, 0, 1)},
		RedirPort:   "80",
		RedirDialer: redir,
		UsedRandom:  map[[32]byte]int64{},
		// MakeUserPanel starts a goroutine that never ends (a bubble could not finish): same fields, no uploader
		Panel: &userPanel{
			Manager:          &usermanager.Voidmanager{},
			activeUsers:      make(map[[16]byte]*ActiveUser),
			usageUpdateQueue: make(map[[16]byte]*usagePair),
			uploadInterval:   defaultUploadInterval,
		},
	}
}

func c10AcceptLoop(l *kit.VListener, h func(net.Conn)) {
	for {
		c, err := l.Accept()
		if err != nil {
			return
		}
		go h(c)
	}
}

type c10Outcome struct {
	Drawn       string
	mu          sync.Mutex // streams of one scenario run on several goroutines
	Established bool
	Conns       int
	Records     [2]int
	AppRecords  [2]int
	Bytes       [2]int
	MaxRecord   int
	Events      [][]map[string]any // per connection
	Violations  []kit.Violation
	Stats       map[string]int64
	Max         map[string]int64 // merged by maximum (".._min_.." entries by minimum)
	Rejected    []map[string]any // one entry per connection the Go formulation rejected
	Notes       []string
	Stuck       bool
}

func (o *c10Outcome) stat(k string) {
	o.mu.Lock()
	o.Stats[k]++
	o.mu.Unlock()
}

func c10ReadFull(s net.Conn, n int, d time.Duration) ([]byte, error) {
	buf := make([]byte, n)
	got := 0
	for got < n {
		s.SetReadDeadline(time.Now().Add(d))
		k, err := s.Read(buf[got:])
		got += k
		if err != nil {
			return buf[:got], err
		}
	}
	return buf, nil
}

// c10Traffic drives one pattern over an established client session.  Errors are normal in several patterns
// (the session is torn down on purpose); what matters is what went over the wire.
func c10Traffic(sc c10Scenario, cs *mux.Session, sta *State, sid uint32, vn *kit.VNet, rng *kit.Rng, out *c10Outcome) {
	maxUnit := appDataMaxLength - 14 - 255
	echo := func(s net.Conn, sizes []int) {
		for _, n := range sizes {
			data := rng.Bytes(n)
			if _, err := s.Write(data); err != nil {
				out.stat("write_errors")
				return
			}
			if sc.Unordered {
				// datagram stream: one read per datagram
				buf := make([]byte, 20000)
				s.SetReadDeadline(time.Now().Add(20 * time.Second))
				k, err := s.Read(buf)
				if err != nil || !bytes.Equal(buf[:k], data) {
					out.stat("echo_mismatch_or_error")
					return
				}
				continue
			}
			back, err := c10ReadFull(s, n, 20*time.Second)
			if err != nil {
				out.stat("read_errors")
				return
			}
			if !bytes.Equal(back, data) {
				out.stat("echo_mismatch_or_error")
				return
			}
			out.stat("echo_ok")
		}
	}
	open := func() net.Conn {
		s, err := cs.OpenStream()
		if err != nil {
			out.stat("open_errors")
			return nil
		}
		return s
	}
	smallSizes := func(k int) []int {
		var v []int
		for i := 0; i < k; i++ {
			v = append(v, 1+rng.Intn(300))
		}
		return v
	}
	bigSizes := []int{maxUnit, maxUnit + 1, 16384, 2*16384 + 1, 3 * 16384, maxUnit - 1, 1}
	if sc.Unordered {
		bigSizes = []int{maxUnit, maxUnit - 1, 9000, 1}
	}
	switch sc.Pattern {
	case "small":
		if s := open(); s != nil {
			echo(s, smallSizes(12))
			s.Close()
		}
	case "multiframe":
		if s := open(); s != nil {
			echo(s, bigSizes)
			echo(s, smallSizes(3))
			s.Close()
		}
	case "manystreams":
		n := 8
		if sc.NumConn == 0 {
			n = 1
		}
		var wg sync.WaitGroup
		for i := 0; i < n; i++ {
			s := open()
			if s == nil {
				continue
			}
			sizes := append(smallSizes(4), 1+rng.Intn(20000))
			if sc.Unordered {
				sizes = smallSizes(5)
			}
			wg.Add(1)
			go func() {
				defer wg.Done()
				echo(s, sizes)
				s.Close()
			}()
		}
		wg.Wait()
	case "bulk-starts":
		// many streams that each START with a bulk write: the first five frames of a stream are the padded ones, so
		// this is where a frame carries the maximal payload AND up to the maximal padding (largest records of all);
		// the echo comes back in full-size reads, so the server's first five frames per stream are of the same kind
		n := 8
		if sc.NumConn == 0 {
			n = 1
		}
		var wg sync.WaitGroup
		for i := 0; i < n; i++ {
			s := open()
			if s == nil {
				continue
			}
			bulk := rng.Bytes(65536)
			wg.Add(1)
			go func() {
				defer wg.Done()
				defer s.Close()
				if sc.Unordered {
					for k := 0; k < 4; k++ { // datagrams of the largest size a stream accepts
						if _, err := s.Write(bulk[:maxUnit]); err != nil {
							out.stat("write_errors")
							return
						}
					}
					for k := 0; k < 4; k++ {
						s.SetReadDeadline(time.Now().Add(10 * time.Second))
						if _, err := s.Read(make([]byte, 20000)); err != nil {
							return
						}
					}
					return
				}
				if _, err := s.Write(bulk); err != nil {
					out.stat("write_errors")
					return
				}
				if back, err := c10ReadFull(s, len(bulk), 30*time.Second); err != nil || !bytes.Equal(back, bulk) {
					out.stat("echo_mismatch_or_error")
					return
				}
				out.stat("bulk_echo_ok")
			}()
		}
		wg.Wait()
	case "target-closes":
		// the echo server hangs up after its reply: the server endpoint sends the stream-closing notice
		for i := 0; i < 3; i++ {
			s := open()
			if s == nil {
				break
			}
			echo(s, []int{1 + rng.Intn(2000)})
			s.SetReadDeadline(time.Now().Add(5 * time.Second))
			_, _ = s.Read(make([]byte, 10)) // until the stream is closed from the far side
			if sc.NumConn == 0 {
				break
			}
		}
	case "banner":
		// the proxy target speaks first: server->client frames before the client has sent more than its first frame
		if s := open(); s != nil {
			if _, err := s.Write([]byte{1}); err == nil {
				if _, err := c10ReadFull(s, 1+40000, 20*time.Second); err != nil {
					out.stat("read_errors")
				}
			}
			s.Close()
		}
	case "server-close":
		if s := open(); s != nil {
			echo(s, smallSizes(3))
			var arr [16]byte
			copy(arr[:], c10UID)
			sta.Panel.activeUsersM.RLock()
			u := sta.Panel.activeUsers[arr]
			sta.Panel.activeUsersM.RUnlock()
			if u != nil {
				u.CloseSession(sid, "verif: closed by the server")
				out.stat("server_close_session")
			}
			synctest.Wait()
		}
	case "inactivity":
		if s := open(); s != nil {
			echo(s, smallSizes(2))
			s.Close()
		}
		time.Sleep(45 * time.Second) // both endpoints' inactivity timers fire
		synctest.Wait()
	case "idle":
		time.Sleep(45 * time.Second) // never a stream: the timers of session creation fire
		synctest.Wait()
	case "fault":
		if s := open(); s != nil {
			echo(s, smallSizes(3))
			links := vn.Links()
			if len(links) > 0 {
				links[rng.Intn(len(links))].Fail()
				out.stat("link_faults")
			}
			synctest.Wait()
			echo(s, smallSizes(2))
		}
	case "abrupt":
		// writes that nobody waits for, then the client closes the session at once
		if s := open(); s != nil {
			sizes := []int{5000, maxUnit, 3 * 16384, 17}
			if sc.Unordered {
				sizes = []int{5000, maxUnit, 17}
			}
			for _, n := range sizes {
				if _, err := s.Write(rng.Bytes(n)); err != nil {
					out.stat("write_errors")
				}
			}
		}
	case "empty-from-target":
		// UDP-style proxy target (message connection): its answer contains an EMPTY datagram, so the server's relay
		// common.Copy(stream, localConn) -> Stream.ReadFrom sees Read return (0, nil).  Nothing may reach the wire for it.
		if s := open(); s != nil {
			if _, err := s.Write(rng.Bytes(1 + rng.Intn(200))); err != nil {
				out.stat("write_errors")
			}
			for i := 0; i < 4; i++ {
				s.SetReadDeadline(time.Now().Add(5 * time.Second))
				if _, err := s.Read(make([]byte, 20000)); err != nil {
					break
				}
				out.stat("datagrams_from_target")
			}
			s.Close()
		}
	case "empty-from-app":
		// the client-side relay of RouteTCP (first packet written, then common.Copy both ways) with a local application
		// connection whose Read returns (0, nil) once: Stream.ReadFrom on the client->server path
		if s := open(); s != nil {
			an := kit.NewVNet()
			al := an.NewLink(false, true) // message mode: an empty Write is an empty Read on the other end
			app, local := al.End(0), al.End(1)
			if _, err := s.Write(rng.Bytes(1 + rng.Intn(100))); err != nil {
				out.stat("write_errors")
			}
			var wg sync.WaitGroup
			wg.Add(2)
			go func() { defer wg.Done(); common.Copy(local, s) }()
			go func() { defer wg.Done(); common.Copy(s, local) }()
			for _, n := range []int{1 + rng.Intn(300), 0, 1 + rng.Intn(300), 0} {
				if _, err := app.Write(rng.Bytes(n)); err != nil {
					out.stat("app_write_errors")
					break
				}
				out.stat(fmt.Sprintf("app_datagrams_len0_%v", n == 0))
				synctest.Wait()
			}
			app.SetReadDeadline(time.Now().Add(5 * time.Second))
			for {
				if _, err := app.Read(make([]byte, 20000)); err != nil {
					break
				}
			}
			app.Close()
			s.Close()
			wg.Wait()
		}
	case "pipelined":
		// writer and reader run independently: frames of both directions interleave on the wire
		if s := open(); s != nil {
			total := 0
			sizes := append(append(smallSizes(6), 3*16384, maxUnit), smallSizes(4)...)
			for _, n := range sizes {
				total += n
			}
			done := make(chan struct{})
			go func() {
				defer close(done)
				if _, err := c10ReadFull(s, total, 30*time.Second); err != nil {
					out.stat("read_errors")
				}
			}()
			for _, n := range sizes {
				if _, err := s.Write(rng.Bytes(n)); err != nil {
					out.stat("write_errors")
					break
				}
			}
			<-done
			s.Close()
		}
	}
}

// c10ProxyDialer is State.ProxyDialer: every dial is a fresh in-memory connection to the scripted proxy target; in
// message mode (UDP-style target) one Read returns one datagram, an empty one as (0, nil).
type c10ProxyDialer struct {
	pn  *kit.VNet
	msg bool
	h   func(net.Conn)
}

func (d *c10ProxyDialer) Dial(network, address string) (net.Conn, error) {
	l := d.pn.NewLink(false, d.msg)
	go d.h(l.End(1))
	return l.End(0), nil
}

func c10EchoHandler(sc c10Scenario) func(net.Conn) {
	return func(c net.Conn) {
		defer c.Close()
		buf := make([]byte, 32768)
		first := true
		for {
			n, err := c.Read(buf)
			if n > 0 {
				if sc.Pattern == "banner" && first {
					// a long unsolicited answer in several writes
					for _, k := range []int{1, 7000, 33000} {
						if _, err := c.Write(make([]byte, k)); err != nil {
							return
						}
					}
					first = false
					continue
				}
				if sc.Pattern == "empty-from-target" && first {
					// datagram, EMPTY datagram, datagram, EMPTY datagram
					for _, k := range []int{5, 0, 700, 0} {
						if _, err := c.Write(make([]byte, k)); err != nil {
							return
						}
					}
					first = false
					continue
				}
				first = false
				if _, err := c.Write(buf[:n]); err != nil {
					return
				}
				if sc.Pattern == "target-closes" {
					return
				}
			}
			if err != nil {
				return
			}
		}
	}
}

// c10Analyse parses the tap of every link and judges it; it also produces the trace events.
func c10Analyse(sc c10Scenario, tp *c10Tap, out *c10Outcome) {
	tp.mu.Lock()
	defer tp.mu.Unlock()
	ids := make([]int, 0, len(tp.links))
	for id := range tp.links {
		ids = append(ids, id)
	}
	sort.Ints(ids)
	cfgRandom := strings.EqualFold(sc.Drawn, "random") // the keyword is recognised on the name of the session, any capitalisation
	dirName := [2]string{"c2s", "s2c"}
	for _, id := range ids {
		lt := tp.links[id]
		out.Conns++
		type item struct {
			seq int64
			dir int
			rec *kit.TLSRecord
		}
		var items []item
		for dir := 0; dir < 2; dir++ {
			recs := kit.ParseTLSStream(lt.data[dir])
			out.Bytes[dir] += len(lt.data[dir])
			for i := range recs {
				r := &recs[i]
				end := r.Offset + 5 + r.Length
				if !r.Complete {
					end = len(lt.data[dir])
				}
				items = append(items, item{lt.seqOf(dir, end), dir, r})
			}
		}
		sort.SliceStable(items, func(i, j int) bool { return items[i].seq < items[j].seq })
		evs := []map[string]any{{"ev": "Open", "scn": sc.ID, "conn": id, "cfg_sni": sc.Drawn, "cfg_random": cfgRandom, "server_name": sc.Name, "alt": strings.Join(sc.Alt, ","),
			"browser": sc.Browser, "pattern": sc.Pattern}}
		ob := &c10Observer{cfgName: sc.Drawn, cfgRandom: cfgRandom}
		rejected := false
		for _, it := range items {
			r := it.rec
			ev := r.Event(dirName[it.dir])
			evs = append(evs, ev)
			out.Records[it.dir]++
			if r.Type == kit.TLSRecApplicationData {
				out.AppRecords[it.dir]++
				if r.Length > out.MaxRecord {
					out.MaxRecord = r.Length
				}
				switch {
				case r.Length >= 16000:
					out.Stats["app_records_16000_up"]++
				case r.Length <= 64:
					out.Stats["app_records_64_down"]++
				}
			}
			if h := r.Hello; h != nil {
				switch h.HandshakeType {
				case kit.TLSHsClientHello:
					out.Stats["clienthello:"+sc.Browser]++
					if int64(r.Length) > out.Max["clienthello_max_len:"+sc.Browser] {
						out.Max["clienthello_max_len:"+sc.Browser] = int64(r.Length)
					}
					if m := out.Max["clienthello_min_len:"+sc.Browser]; m == 0 || int64(r.Length) < m {
						out.Max["clienthello_min_len:"+sc.Browser] = int64(r.Length)
					}
					out.Stats[fmt.Sprintf("clienthello_record_version:%04x", r.Version)]++
				case kit.TLSHsServerHello:
					out.Stats[fmt.Sprintf("serverhello_record_version:%04x", r.Version)]++
					out.Stats[fmt.Sprintf("serverhello_legacy_version:%04x", h.LegacyVersion)]++
				}
			}
			if r.Type == kit.TLSRecChangeCipherSpec {
				out.Stats[fmt.Sprintf("ccs_version:%04x_len:%d", r.Version, r.Length)]++
			}
			if rejected {
				continue
			}
			if key := ob.judge(it.dir, r); key != "" {
				rejected = true // like the TLC run: the first rule broken on a connection is reported
				head := r.Body
				if len(head) > 48 {
					head = head[:48]
				}
				what := fmt.Sprintf("connection %d of scenario %d (%s): %s record #%d at offset %d has type=%d version=%#04x length=%d complete=%v: breaks %s",
					id, sc.ID, sc.sig(), dirName[it.dir], r.Index, r.Offset, r.Type, r.Version, r.Length, r.Complete, key)
				if r.Hello != nil && len(r.Hello.Problems) > 0 {
					what += " (" + strings.Join(r.Hello.Problems, "; ") + ")"
				}
				if key == "clienthello:sni" && r.Hello != nil {
					what += fmt.Sprintf(" (ServerName %q, AlternativeNames %q, drawn for this session %q, on the wire %q)", sc.Name, sc.Alt, sc.Drawn, r.Hello.SNI)
				}
				out.Rejected = append(out.Rejected, map[string]any{"scn": sc.ID, "conn": id, "key": key, "dir": dirName[it.dir], "idx": r.Index})
				out.Violations = append(out.Violations, kit.Violation{Key: key, What: what,
					Replay: map[string]any{"scenario": sc, "conn": id, "event": ev, "body_head_hex": hex.EncodeToString(head)}})
			}
		}
		evs = append(evs, map[string]any{"ev": "End", "conn": id, "c2s_bytes": len(lt.data[0]), "s2c_bytes": len(lt.data[1]),
			"closes": strings.Join(lt.closes, ",")})
		out.Events = append(out.Events, evs)
		if ob.server == 3 {
			out.stat("connections_with_full_handshake")
		}
	}
}

// stuck is called inside the bubble when the client never establishes its session: MakeSession retries for ever, so
// the bubble can never end and the caller has to report and stop the process.
func c10RunScenario(t *testing.T, sc c10Scenario, stuck func(*c10Outcome)) *c10Outcome {
	out := &c10Outcome{Stats: map[string]int64{}, Max: map[string]int64{}}
	synctest.Test(t, func(t *testing.T) {
		rng := kit.NewRng(sc.Seed)
		vn, pn := kit.NewVNet(), kit.NewVNet()
		tp := &c10Tap{links: map[int]*c10LinkTap{}}
		vn.Tap = tp.on
		srvL, redirL := vn.Listen(), pn.Listen()
		sta := c10NewState(&c10ProxyDialer{pn: pn, msg: sc.Pattern == "empty-from-target", h: c10EchoHandler(sc)}, redirL)
		go c10AcceptLoop(srvL, func(c net.Conn) { dispatchConnection(c, sta) })
		go c10AcceptLoop(redirL, func(c net.Conn) { io.Copy(io.Discard, c); c.Close() })
		world := common.WorldState{Rand: rand.Reader, Now: time.Now}
		raw := client.RawConfig{ServerName: sc.Name, AlternativeNames: append([]string{}, sc.Alt...), ProxyMethod: "echo", EncryptionMethod: sc.Enc, UID: c10UID,
			PublicKey: ecdh.Marshal(c10Pub), NumConn: sc.NumConn, LocalHost: "127.0.0.1", LocalPort: "1984",
			RemoteHost: "127.0.0.1", RemotePort: "443", BrowserSig: sc.Browser, Transport: "direct", UDP: sc.Unordered}
		local, remote, auth, err := raw.ProcessRawConfig(world)
		if err != nil {
			t.Fatalf("scenario %d: client configuration refused: %v", sc.ID, err)
		}
		// what cmd/ck-client's seshMaker does for every new session: one random byte picks the session's name from
		// MockDomainList (AlternativeNames + ServerName); it reaches the transport as AuthInfo.MockDomain
		pick := kit.NewRng(sc.Seed ^ 0x5e55104e).Intn(256)
		sc.Drawn = local.MockDomainList[pick%len(local.MockDomainList)]
		auth.MockDomain = sc.Drawn
		out.Drawn = sc.Drawn
		if len(sc.Alt) > 0 {
			switch {
			case strings.EqualFold(sc.Drawn, "random"):
				out.stat("altnames_sessions_drew_keyword")
			case sc.Drawn == sc.Name:
				out.stat("altnames_sessions_drew_servername")
			default:
				out.stat("altnames_sessions_drew_alternative")
			}
		}
		sid := c10SessionIds.Add(1)
		auth.SessionId = sid
		var cs *mux.Session
		made := make(chan struct{})
		go func() {
			cs = client.MakeSession(remote, auth, srvL)
			close(made)
		}()
		select {
		case <-made:
			out.Established = true
		case <-time.After(90 * time.Second):
			// the handshake never completes (MakeSession retries for ever): judge what is on the wire and give up
			out.Stuck = true
			c10Analyse(sc, tp, out)
			stuck(out)
			return
		}
		out.mu.Lock()
		out.Max["compiled_server_appDataMaxLength"] = int64(appDataMaxLength)
		out.Max["client_session_MsgOnWireSizeLimit"] = int64(cs.MsgOnWireSizeLimit)
		out.mu.Unlock()
		c10Traffic(sc, cs, sta, sid, vn, rng, out)
		synctest.Wait()
		cs.Close()
		synctest.Wait()
		time.Sleep(40 * time.Second) // late timers (inactivity checks of both endpoints)
		synctest.Wait()
		srvL.Close()
		redirL.Close()
		synctest.Wait()
		c10Analyse(sc, tp, out)
	})
	return out
}

// ------------------------------------------------------------------------------------------ trace files

type c10TraceFiles struct {
	mu     sync.Mutex
	cur    *kit.TraceWriter
	n      int
	idx    int
	max    int
	names  []string
	events int64
}

func (tf *c10TraceFiles) write(conns [][]map[string]any) {
	tf.mu.Lock()
	defer tf.mu.Unlock()
	for _, evs := range conns {
		if tf.cur == nil || tf.n+len(evs) > tf.max {
			if tf.cur != nil {
				tf.cur.Close()
			}
			name := fmt.Sprintf("trace_%03d.ndjson", tf.idx)
			tf.idx++
			tf.cur = kit.NewTraceWriter(name)
			tf.names = append(tf.names, name)
			tf.n = 0
		}
		for _, ev := range evs {
			tf.cur.Emit(ev)
		}
		tf.n += len(evs)
		tf.events += int64(len(evs))
	}
}

func (tf *c10TraceFiles) close() {
	tf.mu.Lock()
	defer tf.mu.Unlock()
	if tf.cur != nil {
		tf.cur.Close()
		tf.cur = nil
	}
}

// ------------------------------------------------------------------------------------------------ tests

func c10Quiet() {
	log.SetOutput(io.Discard)
	log.StandardLogger().ExitFunc = func(int) {}
}

var c10Res = kit.NewResult() // shared by the two tests of one run

func TestVerifC10Rig(t *testing.T) {
	c10Quiet()
	c10Keys()
	res := c10Res
	defer func() { res.Save(true) }()
	if rp := kit.Env("VERIF_REPLAY", ""); rp != "" {
		c10Replay(t, rp)
		return
	}
	rng := kit.NewRng(kit.Seed() + 1010)
	scs := c10Scenarios(rng, kit.Thorough())
	if lim := kit.EnvInt("VERIF_C10_MAX", 0); lim > 0 && lim < len(scs) {
		scs = scs[:lim]
	}
	tf := &c10TraceFiles{max: kit.EnvInt("VERIF_C10_TRACE_EVENTS", 20000)}
	defer tf.close()
	judged := kit.NewTraceWriter("judged.ndjson") // every connection the Go formulation rejected (compared with TLC's verdicts)
	defer judged.Close()
	jobs := make(chan c10Scenario, len(scs))
	for _, sc := range scs {
		jobs <- sc
	}
	close(jobs)
	var mu sync.Mutex
	t0 := time.Now()
	var record func(sc c10Scenario, o *c10Outcome)
	one := func(t *testing.T, sc c10Scenario) {
		o := c10RunScenario(t, sc, func(o *c10Outcome) { record(sc, o) })
		record(sc, o)
	}
	record = func(sc c10Scenario, o *c10Outcome) {
		mu.Lock()
		defer mu.Unlock()
		nontrivial := o.Established && o.AppRecords[0] > 0 && o.AppRecords[1] > 1
		res.Count(sc.sig(), nontrivial)
		for k, v := range o.Stats {
			res.Stat(k, v)
		}
		for k, v := range o.Max {
			if cur, ok := res.Stats[k]; !ok || (strings.Contains(k, "_min_") && v < cur) || (!strings.Contains(k, "_min_") && v > cur) {
				res.Stats[k] = v
			}
		}
		for _, rj := range o.Rejected {
			judged.Emit(rj)
		}
		res.Stat("scenarios", 1)
		res.Stat("pattern:"+sc.Pattern, 1)
		res.Stat("connections", int64(o.Conns))
		res.Stat("records_c2s", int64(o.Records[0]))
		res.Stat("records_s2c", int64(o.Records[1]))
		res.Stat("bytes_c2s", int64(o.Bytes[0]))
		res.Stat("bytes_s2c", int64(o.Bytes[1]))
		if int64(o.MaxRecord) > res.Stats["max_app_record"] {
			res.Stats["max_app_record"] = int64(o.MaxRecord)
		}
		if !o.Established {
			res.Stat("sessions_not_established", 1)
		}
		for _, v := range o.Violations {
			res.Violate(v.Key, v.What, v.Replay)
		}
		tf.write(o.Events)
		if sc.ID%97 == 0 {
			res.Sample(map[string]any{"scenario": sc, "connections": o.Conns, "records": o.Records, "max_record": o.MaxRecord}, 6)
		}
		if o.Stuck {
			// no way to end a bubble whose client retries for ever: report what was seen and stop the process
			res.Stat("rig_stuck", 1)
			res.Note("scenario %d (%s): the client never established its session; wire judged up to that point", sc.ID, sc.sig())
			res.Stat("trace_events", tf.events)
			tf.mu.Lock()
			if tf.cur != nil {
				tf.cur.Close()
			}
			judged.Close()
			res.Notes = append(res.Notes, "trace_files="+strings.Join(tf.names, ","))
			res.Save(true)
			os.Exit(0)
		}
	}
	workers := runtime.GOMAXPROCS(0)
	if workers > 8 {
		workers = 8
	}
	workers = kit.EnvInt("VERIF_C10_WORKERS", workers)
	t.Run("bubbles", func(t *testing.T) {
		for w := 0; w < workers; w++ {
			t.Run(fmt.Sprintf("w%d", w), func(t *testing.T) {
				t.Parallel()
				for sc := range jobs {
					one(t, sc)
				}
			})
		}
	})
	tf.close()
	res.Stat("trace_events", tf.events)
	res.Stat("rig_wall_ms", time.Since(t0).Milliseconds())
	res.Notes = append(res.Notes, "trace_files="+strings.Join(tf.names, ","))
}

// TestVerifC10Parser: the independent parser must not be the weak link - it is run over the frozen hellos of
// Cloak's own unit tests' kind (a real ClientHello captured from the client) with every single-byte truncation and
// 4000 random mutations, and must neither panic nor call a damaged length structure consistent.
func TestVerifC10Parser(t *testing.T) {
	c10Quiet()
	c10Keys()
	res := c10Res
	defer func() { res.Save(true) }()
	rng := kit.NewRng(kit.Seed() + 77)
	for _, b := range c10Browsers {
		raw := client.RawConfig{ServerName: "www.bing.com", ProxyMethod: "echo", EncryptionMethod: "plain", UID: c10UID,
			PublicKey: ecdh.Marshal(c10Pub), NumConn: 1, LocalHost: "127.0.0.1", LocalPort: "1", RemoteHost: "127.0.0.1",
			RemotePort: "443", BrowserSig: b, Transport: "direct"}
		_, remote, auth, err := raw.ProcessRawConfig(common.RealWorldState)
		if err != nil {
			t.Fatal(err)
		}
		vn := kit.NewVNet()
		l := vn.NewLink(true, false)
		tr := remote.Transport.CreateTransport()
		go func() { _, _ = tr.Handshake(l.End(0), auth) }()
		deadline := time.Now().Add(10 * time.Second)
		for l.Pending(0) == 0 && time.Now().Before(deadline) {
			time.Sleep(time.Millisecond)
		}
		ch := l.PeekPending(0, 0)
		l.Fail()
		if len(ch) == 0 {
			t.Fatalf("no ClientHello captured for %s", b)
		}
		recs := kit.ParseTLSStream(ch)
		if len(recs) != 1 || recs[0].Hello == nil || !recs[0].Hello.Consistent {
			t.Fatalf("%s: the genuine ClientHello does not parse as one consistent record: %+v", b, recs)
		}
		res.Count("genuine/"+b, true)
		for cut := 0; cut < len(ch); cut++ {
			r := kit.ParseTLSStream(ch[:cut])
			if len(r) > 0 && r[len(r)-1].Complete {
				t.Fatalf("%s: truncation at %d reported as a complete record", b, cut)
			}
			res.Count("trunc", false)
		}
		// damaged inner lengths must never be called consistent: shorten the record by k bytes keeping the header honest
		for k := 1; k < 40; k++ {
			m := append([]byte{}, ch[:len(ch)-k]...)
			m[3], m[4] = byte((len(m)-5)>>8), byte(len(m)-5)
			r := kit.ParseTLSStream(m)
			if len(r) == 1 && r[0].Hello != nil && r[0].Hello.Consistent {
				t.Fatalf("%s: hello shortened by %d bytes still called consistent", b, k)
			}
			res.Count("shortened", false)
		}
		for i := 0; i < 4000; i++ {
			m := append([]byte{}, ch...)
			for j := 0; j < 1+rng.Intn(4); j++ {
				m[rng.Intn(len(m))] = byte(rng.Intn(256))
			}
			_ = kit.ParseTLSStream(m) // must not panic
			res.Count("mutated", false)
		}
	}
	for i := 0; i < 3000; i++ {
		_ = kit.ParseTLSStream(rng.Bytes(rng.Intn(700)))
		_ = kit.ParseTLSHello(rng.Bytes(rng.Intn(300)))
	}
}

func c10Replay(t *testing.T, path string) {
	var rf struct {
		Replay struct {
			Scenario c10Scenario `json:"scenario"`
		} `json:"replay"`
	}
	raw, err := os.ReadFile(path)
	if err != nil {
		t.Fatal(err)
	}
	if err := json.Unmarshal(raw, &rf); err != nil {
		t.Fatal(err)
	}
	report := func(o *c10Outcome) {
		fmt.Printf("REPLAY scenario %+v: established=%v connections=%d records c2s/s2c=%d/%d max application record=%d\n",
			rf.Replay.Scenario, o.Established, o.Conns, o.Records[0], o.Records[1], o.MaxRecord)
		for _, v := range o.Violations {
			fmt.Printf("REPLAY-RESULT key=%q what=%q\n", v.Key, v.What)
		}
		if len(o.Violations) == 0 {
			fmt.Println("REPLAY-RESULT no record outside the grammar")
		}
	}
	report(c10RunScenario(t, rf.Replay.Scenario, func(o *c10Outcome) {
		fmt.Println("REPLAY the client never established its session")
		report(o)
		os.Exit(0)
	}))
}
