package server

// Extension of the handshake family (spec/ClientSession.tla): client.MakeSession's retry loop. TLC's scripts of
// attempt outcomes are replayed with a scripted dialer / server inside a synctest bubble (the 3 s pauses are
// virtual): which browser signature each ClientHello carries, the pause before every retry, and that MakeSession
// returns exactly when the script says, with a session owning NumConn working connections.

import (
	"crypto/rand"
	"encoding/json"
	"errors"
	"fmt"
	"io"
	"net"
	"sync"
	"testing"
	"testing/synctest"
	"time"

	"github.com/cbeuw/Cloak/internal/client"
	"github.com/cbeuw/Cloak/internal/common"
	"github.com/cbeuw/Cloak/internal/ecdh"
	mux "github.com/cbeuw/Cloak/internal/multiplex"
	"github.com/cbeuw/Cloak/internal/server/usermanager"
	kit "github.com/cbeuw/Cloak/internal/verifkit"
	log "github.com/sirupsen/logrus"
)

type c01connAttempt struct {
	Kind    string `json:"kind"`
	Ok      bool   `json:"ok"`
	Browser string `json:"browser"`
	Pauses  int    `json:"pauses"`
}

type c01connBehaviour struct {
	Mode     string           `json:"mode"`
	Browser0 string           `json:"browser0"`
	Attempts []c01connAttempt `json:"attempts"`
}

type c01connAddr string

func (a c01connAddr) Network() string { return "vnet" }
func (a c01connAddr) String() string  { return string(a) }

// classification of a direct-mode first flight by its size (profiles of the pinned uTLS: chrome carries the
// post-quantum key share and is by far the largest, safari the smallest)
func c01connSig(n int) string {
	switch {
	case n > 1000:
		return "chrome"
	case n > 580:
		return "firefox"
	default:
		return "safari"
	}
}

type c01connDialer struct {
	mu      sync.Mutex
	l       *kit.VListener
	script  []c01connAttempt
	pos     int
	dials   []time.Time
	dialOK  []bool
	extra   int
	hsFail  map[*kit.VConn]bool
	started time.Time
}

func (d *c01connDialer) Dial(network, address string) (net.Conn, error) {
	d.mu.Lock()
	defer d.mu.Unlock()
	d.dials = append(d.dials, time.Now())
	if d.pos >= len(d.script) {
		d.extra++
		d.dialOK = append(d.dialOK, false)
		return nil, errors.New("scripted: no more attempts expected")
	}
	a := d.script[d.pos]
	d.pos++
	if a.Kind != "dial" {
		d.extra++
		d.dialOK = append(d.dialOK, false)
		return nil, errors.New("scripted: dial where the model expects a handshake")
	}
	d.dialOK = append(d.dialOK, a.Ok)
	if !a.Ok {
		return nil, errors.New("scripted dial failure")
	}
	c, err := d.l.Dial(network, address)
	if err != nil {
		return nil, err
	}
	// the handshake outcome for this connection is the next script entry
	if d.pos < len(d.script) && d.script[d.pos].Kind == "hs" {
		if !d.script[d.pos].Ok {
			d.hsFail[c.(*kit.VConn)] = true
		}
		d.pos++
	}
	return c, nil
}

// c01connRawHook, when set (harness/server/c20_connector_test.go), replaces the literal RawConfig by what
// client.ParseConfig makes of an equivalent configuration text.
var c01connRawHook func(*client.RawConfig) (*client.RawConfig, error)

func c01connRun(b *c01connBehaviour) (key, what string, table []string) {
	pv, pub, _ := ecdh.GenerateKey(rand.Reader)
	uid := []byte("verif-conn-uid16")
	var arr [16]byte
	copy(arr[:], uid)
	vn := kit.NewVNet()
	appn := kit.NewVNet()
	srvL, proxyL, redirL := vn.Listen(), appn.Listen(), appn.Listen()
	sta := &State{
		ProxyBook: map[string]net.Addr{"echo": c01connAddr("echo")}, ProxyDialer: proxyL,
		WorldState: common.WorldState{Rand: rand.Reader, Now: time.Now},
		BypassUID:  map[[16]byte]struct{}{arr: {}}, StaticPv: pv,
		RedirHost: &net.IPAddr{IP: net.IPv4(127, 0, 0, 1)}, RedirPort: "80", RedirDialer: redirL,
		UsedRandom: map[[32]byte]int64{},
		Panel: &userPanel{Manager: &usermanager.Voidmanager{}, activeUsers: make(map[[16]byte]*ActiveUser),
			usageUpdateQueue: make(map[[16]byte]*usagePair), uploadInterval: defaultUploadInterval},
	}
	d := &c01connDialer{l: srvL, script: b.Attempts, hsFail: map[*kit.VConn]bool{}, started: time.Now()}
	var sesh *mux.Session
	defer func() { // whatever the verdict: let every goroutine of this bubble end
		if sesh != nil {
			sesh.Close()
		}
		srvL.Close()
		proxyL.Close()
		redirL.Close()
		for _, l := range vn.Links() {
			l.Fail()
		}
		for _, l := range appn.Links() {
			l.Fail()
		}
		time.Sleep(time.Millisecond)
		synctest.Wait()
	}()
	var mu sync.Mutex
	var hellos []string // signature class of every first flight the server saw, in order
	go func() {
		for {
			c, err := srvL.Accept()
			if err != nil {
				return
			}
			go func(c net.Conn) {
				// peek at the first record to classify the hello, then either refuse (close) or serve
				hdr := make([]byte, 5)
				if _, err := io.ReadFull(c, hdr); err != nil {
					c.Close()
					return
				}
				n := int(hdr[3])<<8 | int(hdr[4])
				body := make([]byte, n)
				if _, err := io.ReadFull(c, body); err != nil {
					c.Close()
					return
				}
				mu.Lock()
				hellos = append(hellos, c01connSig(5+n))
				mu.Unlock()
				d.mu.Lock()
				fail := false
				for k := range d.hsFail { // the client end of this link was marked by the dialer
					if k == c.(*kit.VConn) {
						fail = true
					}
				}
				d.mu.Unlock()
				_ = fail
				dispatchConnection(&c01connReplay{Conn: c, first: append(hdr, body...)}, sta)
			}(c)
		}
	}()
	// a connection whose handshake must fail: the dialer hands the client a conn whose peer closes after the hello
	raw := &client.RawConfig{ServerName: "www.example.com", ProxyMethod: "echo", EncryptionMethod: "aes-gcm", UID: uid,
		PublicKey: ecdh.Marshal(pub), NumConn: 1, LocalHost: "127.0.0.1", LocalPort: "1984",
		RemoteHost: "127.0.0.1", RemotePort: "443", BrowserSig: b.Browser0, Transport: b.Mode}
	if c01connRawHook != nil { // C20 routes the same configuration through client.ParseConfig (JSON file / option string)
		var herr error
		if raw, herr = c01connRawHook(raw); herr != nil {
			return "", "", []string{"DIVERGED: configuration text refused: " + herr.Error()}
		}
	}
	_, remote, auth, err := raw.ProcessRawConfig(common.WorldState{Rand: rand.Reader, Now: time.Now})
	if err != nil {
		return "", "", []string{"config refused: " + err.Error()}
	}
	auth.SessionId = 77
	wrapped := &c01connFailDialer{d: d}
	done := make(chan struct{})
	t0 := time.Now()
	go func() { sesh = client.MakeSession(remote, auth, wrapped); close(done) }()
	fails := 0
	for _, a := range b.Attempts {
		if !a.Ok {
			fails++
		}
	}
	// MakeSession must not return before the scripted failures and their pauses are over ...
	time.Sleep(time.Duration(fails)*3*time.Second - time.Millisecond)
	synctest.Wait()
	select {
	case <-done:
		if fails > 0 {
			return "connector:early-return", fmt.Sprintf("MakeSession returned after %v although %d attempts had to fail, each followed by a 3 s pause", time.Since(t0), fails), table
		}
	default:
	}
	// ... and must return right after the last one
	time.Sleep(2 * time.Millisecond)
	synctest.Wait()
	select {
	case <-done:
	default:
		return "connector:stuck", fmt.Sprintf("MakeSession has not returned %v after start; the script has %d failures", time.Since(t0), fails), table
	}
	d.mu.Lock()
	table = append(table, fmt.Sprintf("dials at %v ok=%v extra=%d", func() []string {
		var o []string
		for _, x := range d.dials {
			o = append(o, x.Sub(t0).String())
		}
		return o
	}(), d.dialOK, d.extra))
	extra := d.extra
	dials := append([]time.Time(nil), d.dials...)
	d.mu.Unlock()
	if extra > 0 {
		return "", "", append(table, "DIVERGED: the connector made attempts the model does not have")
	}
	// every retry comes at least 3 s after the failure before it
	for i := 1; i < len(dials); i++ {
		if gap := dials[i].Sub(dials[i-1]); gap < 3*time.Second {
			return "connector:no-pause", fmt.Sprintf("attempt %d was made %v after the previous one failed (3 s pause expected)", i+1, gap), table
		}
	}
	// signatures of the hellos that reached the server = the model's browser of every attempted handshake
	var want []string
	for _, a := range b.Attempts {
		if a.Kind == "hs" {
			want = append(want, a.Browser)
		}
	}
	mu.Lock()
	got := append([]string(nil), hellos...)
	mu.Unlock()
	table = append(table, fmt.Sprintf("hello signatures expected %v observed %v", want, got))
	if b.Mode == "direct" {
		if len(got) != len(want) {
			return "", "", append(table, "DIVERGED: number of first flights differs from the model")
		}
		for i := range want {
			if got[i] != want[i] {
				return "connector:signature", fmt.Sprintf("handshake attempt %d used the %s signature, the configuration and fallback rule give %s", i+1, got[i], want[i]), table
			}
		}
	}
	if sesh == nil || sesh.IsClosed() {
		return "connector:dead-session", "MakeSession returned a closed session", table
	}
	// the session works: one stream, echo through the proxy target
	go func() {
		c, err := proxyL.Accept()
		if err != nil {
			return
		}
		buf := make([]byte, 64)
		n, _ := c.Read(buf)
		c.Write(buf[:n])
	}()
	st, err := sesh.OpenStream()
	if err != nil {
		return "connector:dead-session", "OpenStream failed on the fresh session: " + err.Error(), table
	}
	st.Write([]byte("ping"))
	rb := make([]byte, 8)
	st.SetReadDeadline(time.Now().Add(5 * time.Second))
	n, rerr := st.Read(rb)
	if string(rb[:n]) != "ping" {
		// diagnosis for the report: is the server-side session being served?
		sta.Panel.activeUsersM.RLock()
		u := sta.Panel.activeUsers[arr]
		sta.Panel.activeUsersM.RUnlock()
		diag := "no active user record"
		if u != nil {
			u.sessionsM.RLock()
			ss := u.sessions[77]
			u.sessionsM.RUnlock()
			if ss == nil {
				diag = "no server session 77"
			} else {
				diag = fmt.Sprintf("server session 77 exists, closed=%v", ss.IsClosed())
			}
		}
		table = append(table, "diagnosis: "+diag)
		return "connector:dead-session", fmt.Sprintf("no echo through the fresh session (%q, %v); %s", rb[:n], rerr, diag), table
	}
	return "", "", table
}

// c01connReplay gives dispatchConnection back the first record the classifier consumed
type c01connReplay struct {
	net.Conn
	first []byte
}

func (c *c01connReplay) Read(p []byte) (int, error) {
	if len(c.first) > 0 {
		n := copy(p, c.first)
		c.first = c.first[n:]
		return n, nil
	}
	return c.Conn.Read(p)
}

// c01connFailDialer wraps the scripted dialer: a connection whose handshake is scripted to fail is replaced by one
// whose peer reads the hello and closes without answering (what a client behind a blocking middlebox sees)
type c01connFailDialer struct{ d *c01connDialer }

func (f *c01connFailDialer) Dial(network, address string) (net.Conn, error) {
	c, err := f.d.Dial(network, address)
	if err != nil {
		return nil, err
	}
	f.d.mu.Lock()
	fail := f.d.hsFail[c.(*kit.VConn)]
	f.d.mu.Unlock()
	if !fail {
		return c, nil
	}
	return &c01connRefused{Conn: c}, nil
}

// the hello still reaches the server-side classifier (so its signature is observed), but the client never gets a reply
type c01connRefused struct {
	net.Conn
}

func (c *c01connRefused) Read(p []byte) (int, error) { return 0, io.EOF }

func TestVerifC01Connector(t *testing.T) {
	log.SetOutput(io.Discard)
	log.SetLevel(log.PanicLevel)
	res := kit.NewResult()
	defer func() { res.Save(true) }()
	idx := 0
	err := kit.ReadLines(kit.Env("VERIF_IN", ""), func(line []byte) error {
		var b c01connBehaviour
		if err := json.Unmarshal(line, &b); err != nil {
			return err
		}
		idx++
		var key, what string
		var table []string
		synctest.Test(t, func(t *testing.T) { key, what, table = c01connRun(&b) })
		nontrivial := false
		for _, a := range b.Attempts {
			if !a.Ok {
				nontrivial = true
			}
		}
		res.Count(string(line), nontrivial)
		if key != "" {
			res.Violate(key, what, map[string]any{"behaviour": b, "table": table})
		} else if len(table) > 0 && len(table[len(table)-1]) > 8 && table[len(table)-1][:8] == "DIVERGED" {
			res.Stat("diverged", 1)
			res.Note("behaviour %d: %s", idx, table[len(table)-1])
		}
		if idx%9 == 1 {
			res.Sample(map[string]any{"behaviour": json.RawMessage(append([]byte{}, line...)), "table": table}, 3)
		}
		return nil
	})
	if err != nil {
		t.Fatal(err)
	}
}
