package server

// C19 - "counted across all of the user's sessions and connections together", on the server's own wiring:
// userPanel.GetUser makes the valve from the rates the user manager reports, ActiveUser.GetSession hands that
// one valve to every session of the user. Two or three sessions of one user, each with a backlogged writer in
// both directions, run against unlimited peers in a synctest bubble; the recorded time stamps go to the same TLC
// trace specification as the multiplex scenarios (spec/TokenBucketTrace.tla), and the driver checks every pair
// of events itself.
// Racing scenarios: the user's first N (2..4) connections arrive together. The stub user manager holds every
// AuthenticateUser call at a barrier until N GetUser calls for the same, not yet active UID are inside it (if the
// tree lets them be there together; a tree that holds the panel's lock across the call admits one at a time and the
// barrier is skipped). Each connection then takes its session from the ActiveUser IT was given, and the bound is
// evaluated over all of them together - that is the statement.
//   tx: chunks the server side hands to the network (VNet.Tap), without the 5-byte TLS record header;
//   rx: payload bytes at the moment they become readable by the application on the server side (one
//       connection per session, so nothing is held back for reordering). Payload <= frame, so only the upper
//       bound is decided for rx here.

import (
	"fmt"
	"io"
	"sync"
	"sync/atomic"
	"testing"
	"testing/synctest"
	"time"

	"github.com/cbeuw/Cloak/internal/common"
	mux "github.com/cbeuw/Cloak/internal/multiplex"
	"github.com/cbeuw/Cloak/internal/server/usermanager"
	kit "github.com/cbeuw/Cloak/internal/verifkit"
	log "github.com/sirupsen/logrus"
)

type c19Mgr struct {
	usermanager.Voidmanager
	up, down int64
	panel    *userPanel
	bar      *c19Barrier // nil: answer at once
}

// c19Barrier lives OUTSIDE the synctest bubble (plain channel, poller goroutine on the real clock): a goroutine
// waiting on it is not durably blocked, so the bubble's clock stands still while the racing calls assemble; and a
// tree that serialises the calls by some other means than the panel's lock is released after 5 s real time.
type c19Barrier struct {
	want     int32
	arrived  atomic.Int32
	skipped  atomic.Int32
	finished atomic.Bool
	release  chan struct{}
}

func c19NewBarrier(n int) *c19Barrier {
	b := &c19Barrier{want: int32(n), release: make(chan struct{})}
	go func() {
		deadline := time.Now().Add(5 * time.Second)
		for b.arrived.Load() < b.want && !b.finished.Load() && time.Now().Before(deadline) {
			time.Sleep(100 * time.Microsecond)
		}
		close(b.release)
	}()
	return b
}

func (m *c19Mgr) AuthenticateUser([]byte) (int64, int64, error) {
	if b := m.bar; b != nil {
		if !m.panel.activeUsersM.TryRLock() {
			// the caller holds the panel's write lock across this call: nobody else can be in here with it
			b.skipped.Add(1)
			return m.up, m.down, nil
		}
		m.panel.activeUsersM.RUnlock()
		b.arrived.Add(1)
		<-b.release
	}
	return m.up, m.down, nil
}
func (m *c19Mgr) AuthoriseNewSession([]byte, usermanager.AuthorisationInfo) error {
	return nil
}

type c19UScn struct {
	ID       int    `json:"id"`
	Up       int64  `json:"up_rate"`   // rx of the server
	Down     int64  `json:"down_rate"` // tx of the server
	Sessions int    `json:"sessions"`
	Size     int    `json:"size"`
	DurS     int    `json:"dur_s"`
	Racing   int    `json:"racing_first_connections"` // > 0: that many GetUser calls for the fresh UID overlap (= Sessions)
	Via      string `json:"via"`
}

type c19UInfo struct {
	Records int32 `json:"distinct_user_records"` // distinct *ActiveUser handed out to the user's connections
	Inside  int32 `json:"calls_inside_authenticate_together"`
	Skipped int32 `json:"calls_under_panel_lock"`
}

type c19UEv struct {
	kind, dir string
	ns        int64
	n         int
}

type c19URec struct {
	mu  sync.Mutex
	t0  time.Time
	evs []c19UEv
}

func (r *c19URec) add(kind, dir string, n int) {
	r.mu.Lock()
	r.evs = append(r.evs, c19UEv{kind, dir, int64(time.Since(r.t0)), n})
	r.mu.Unlock()
}

func c19URun(sc c19UScn, bar *c19Barrier) (evs []c19UEv, info c19UInfo, err error) {
	rec := &c19URec{t0: time.Now()}
	mgr := &c19Mgr{up: sc.Up, down: sc.Down, bar: bar}
	panel := &userPanel{ // MakeUserPanel without its endless uploader goroutine
		Manager:          mgr,
		activeUsers:      make(map[[16]byte]*ActiveUser),
		usageUpdateQueue: make(map[[16]byte]*usagePair),
		uploadInterval:   defaultUploadInterval,
	}
	mgr.panel = panel
	uid := []byte("c19-user-0123456")
	// the user record each connection works with: looked up one after the other, or all first connections at once
	users := make([]*ActiveUser, sc.Sessions)
	if sc.Racing > 0 {
		errs := make([]error, sc.Sessions)
		var rg sync.WaitGroup
		for s := 0; s < sc.Sessions; s++ {
			rg.Add(1)
			go func(s int) {
				defer rg.Done()
				users[s], errs[s] = panel.GetUser(uid)
			}(s)
		}
		rg.Wait()
		bar.finished.Store(true)
		for _, e := range errs {
			if e != nil {
				return nil, info, e
			}
		}
		info.Inside, info.Skipped = bar.arrived.Load(), bar.skipped.Load()
	}
	vn := kit.NewVNet()
	vn.Tap = func(ev kit.TapEvent) {
		if ev.Kind == "w" && ev.From == 1 && len(ev.Data) > 5 {
			rec.add("pass", "tx", len(ev.Data)-5)
		}
	}
	var stop atomic.Bool
	var wg sync.WaitGroup
	var writers atomic.Int64
	budget := map[string]int64{"tx": 2 * (sc.Down*int64(sc.DurS) + sc.Down), "rx": 2 * (sc.Up*int64(sc.DurS) + sc.Up)}
	var written [2]atomic.Int64
	write := func(st io.Writer, dir string, di int) {
		defer wg.Done()
		defer writers.Add(-1)
		buf := kit.NewRng(int64(sc.ID)).Bytes(sc.Size)
		for !stop.Load() && written[di].Add(int64(len(buf))+30) <= budget[dir] {
			if _, err := st.Write(buf); err != nil {
				return
			}
		}
	}
	var srv, peers []*mux.Session
	var links []*kit.VLink
	for s := 0; s < sc.Sessions; s++ {
		var key [32]byte
		copy(key[:], kit.NewRng(int64(sc.ID*10+s)).Bytes(32))
		obfs, e := mux.MakeObfuscator(mux.EncryptionMethodAES256GCM, key)
		if e != nil {
			return nil, info, e
		}
		cfg := mux.SessionConfig{Obfuscator: obfs, MsgOnWireSizeLimit: 16401, InactivityTimeout: 1000000 * time.Second}
		// the server's path: the user record is looked up (created on first use), the session is made by it
		user := users[s]
		if user == nil {
			if user, e = panel.GetUser(uid); e != nil {
				return nil, info, e
			}
			users[s] = user
		}
		sesh, existing, e := user.GetSession(uint32(s+1), cfg)
		if e != nil || existing {
			return nil, info, fmt.Errorf("GetSession: existing=%v err=%v", existing, e)
		}
		peer := mux.MakeSession(uint32(s+1), cfg)
		srv, peers = append(srv, sesh), append(peers, peer)
		l := vn.NewLink(false, false)
		l.Bound = 2048
		links = append(links, l)
		peer.AddConnection(common.NewTLSConn(l.End(0)))
		sesh.AddConnection(common.NewTLSConn(l.End(1)))
		wg.Add(1)
		go func(sesh *mux.Session) {
			defer wg.Done()
			conn, e := sesh.Accept()
			if e != nil {
				return
			}
			wg.Add(2)
			writers.Add(1)
			go write(conn, "tx", 0)
			go func() { // the application on the server side
				defer wg.Done()
				buf := make([]byte, 1<<16)
				for {
					n, e := conn.Read(buf)
					if n > 0 {
						rec.add("pass", "rx", n)
					}
					if e != nil {
						return
					}
				}
			}()
		}(sesh)
		st, e := peer.OpenStream()
		if e != nil {
			return nil, info, e
		}
		wg.Add(2)
		writers.Add(1)
		go write(st, "rx", 1)
		go func() { defer wg.Done(); io.Copy(io.Discard, st) }()
	}
	rec.add("backlog.start", "tx", 0)
	time.Sleep(time.Duration(sc.DurS) * time.Second)
	rec.add("backlog.end", "tx", 0)
	stop.Store(true)
	for writers.Load() > 0 {
		time.Sleep(10 * time.Millisecond)
	}
	time.Sleep(100 * time.Millisecond)
	for _, p := range peers {
		p.Close()
	}
	for _, s := range srv {
		s.Close()
	}
	for _, l := range links {
		l.End(0).Close()
		l.End(1).Close()
	}
	wg.Wait()
	time.Sleep(20 * time.Minute) // Cloak's goroutines still inside a Wait leave while the bubble's clock runs
	synctest.Wait()
	distinct := map[*ActiveUser]bool{}
	for _, u := range users {
		distinct[u] = true
	}
	info.Records = int32(len(distinct))
	rec.mu.Lock()
	defer rec.mu.Unlock()
	return rec.evs, info, nil
}

// c19UCheck: every pair of events of one direction bounds an interval; returns the largest excess over rate*t
// and, if it is above burst*1.01, the offending interval.
func c19UCheck(dir string, rate int64, evs []c19UEv) (events int, total int64, maxmsg int, peak int64, what string) {
	var t, pre []int64
	pre = append(pre, 0)
	for _, e := range evs {
		if e.dir == dir && e.kind == "pass" {
			t = append(t, e.ns)
			pre = append(pre, pre[len(pre)-1]+int64(e.n))
			if e.n > maxmsg {
				maxmsg = e.n
			}
		}
	}
	n := len(t)
	worst, wi, wj := int64(-1<<62), 0, 0
	for i := 0; i < n; i++ {
		for j := i; j < n; j++ {
			if ex := (pre[j+1]-pre[i])*1e9 - rate*(t[j]-t[i]); ex > worst {
				worst, wi, wj = ex, i, j
			}
		}
	}
	if n == 0 {
		return 0, 0, 0, 0, ""
	}
	if worst > rate*101/100*1e9 {
		what = fmt.Sprintf("%s: %d bytes passed between t=%.3f ms and t=%.3f ms over all sessions of the user; %d B/s allow %d (rate*t) + %d (burst, +1%%)",
			dir, pre[wj+1]-pre[wi], float64(t[wi])/1e6, float64(t[wj])/1e6, rate, rate*(t[wj]-t[wi])/1e9, rate*101/100)
	}
	return n, pre[n], maxmsg, worst / 1e9, what
}

func TestVerifC19User(t *testing.T) {
	log.SetOutput(io.Discard)
	log.SetLevel(log.PanicLevel)
	res := kit.NewResult()
	defer func() { res.Save(true) }()
	tw := kit.NewTraceWriter("trace_user.ndjson")
	defer tw.Close()
	scs := []c19UScn{
		{ID: 101, Up: 20000, Down: 100000, Sessions: 2, Size: 1400, DurS: 12},
		{ID: 102, Up: 100000, Down: 20000, Sessions: 3, Size: 16000, DurS: 15},
		{ID: 105, Up: 20000, Down: 100000, Sessions: 2, Racing: 2, Size: 1400, DurS: 10},
		{ID: 106, Up: 100000, Down: 20000, Sessions: 3, Racing: 3, Size: 1400, DurS: 10},
	}
	if kit.Thorough() {
		scs = append(scs, c19UScn{ID: 103, Up: 2000, Down: 20000, Sessions: 3, Size: 100, DurS: 40},
			c19UScn{ID: 104, Up: 100000, Down: 2000, Sessions: 2, Size: 1400, DurS: 30},
			c19UScn{ID: 107, Up: 20000, Down: 2000, Sessions: 4, Racing: 4, Size: 100, DurS: 30},
			c19UScn{ID: 108, Up: 2000, Down: 100000, Sessions: 2, Racing: 2, Size: 16000, DurS: 15})
	}
	for _, sc := range scs {
		sc.Via = "server.userPanel.GetUser / ActiveUser.GetSession"
		res.SetRunning(sc, false)
		var evs []c19UEv
		var info c19UInfo
		var err error
		var bar *c19Barrier
		if sc.Racing > 0 {
			sc.Sessions = sc.Racing
			bar = c19NewBarrier(sc.Racing) // made outside the bubble on purpose, see c19Barrier
		}
		synctest.Test(t, func(t *testing.T) { evs, info, err = c19URun(sc, bar) })
		if err != nil {
			t.Fatalf("scenario %d: %v", sc.ID, err)
		}
		if sc.Racing > 0 {
			res.Stat("racing_scenarios", 1)
			if info.Inside == int32(sc.Racing) {
				res.Stat("racing_overlapped", 1) // the tree let all first connections into AuthenticateUser together
			}
			if info.Records > 1 {
				res.Stat("racing_split_records", 1) // logged only: the verdict is the measured throughput
			}
		}
		ntx, btx, mtx, ptx, wtx := c19UCheck("tx", sc.Down, evs)
		nrx, brx, mrx, prx, wrx := c19UCheck("rx", sc.Up, evs)
		res.Count(fmt.Sprint(sc), btx > sc.Down || brx > sc.Up)
		res.Stat("events_tx", int64(ntx))
		res.Stat("events_rx", int64(nrx))
		res.Stat("bytes_tx", btx)
		res.Stat("bytes_rx", brx)
		if btx == 0 || brx == 0 {
			res.Stat("dead_scenarios", 1)
		}
		res.Sample(map[string]any{"scenario": sc, "first_use": info, "tx": map[string]any{"events": ntx, "bytes": btx, "maxmsg": mtx, "peak_queue": ptx},
			"rx": map[string]any{"events": nrx, "bytes": brx, "maxmsg": mrx, "peak_queue": prx}}, 8)
		if wtx != "" {
			res.Violate("tx-exceeds", wtx, map[string]any{"user_scenario": sc, "first_use": info})
		}
		if wrx != "" {
			res.Violate("rx-exceeds", wrx, map[string]any{"user_scenario": sc, "first_use": info})
		}
		// rx carries payload only: maxmsg is set to the burst so that the lower bound is never decided on it
		tw.Emit(map[string]any{"ev": "reset", "scn": sc.ID,
			"tx": map[string]any{"rpm": sc.Down / 1000, "burst": sc.Down, "relax": 0, "maxmsg": mtx},
			"rx": map[string]any{"rpm": sc.Up / 1000, "burst": sc.Up, "relax": 0, "maxmsg": sc.Up}})
		for _, e := range evs {
			m := map[string]any{"ev": e.kind, "dir": e.dir, "t": e.ns / 1e6}
			if e.kind == "pass" {
				m["n"] = e.n
			}
			tw.Emit(m)
		}
	}
	res.Stat("scenarios", int64(len(scs)))
	res.Stat("trace_events", tw.Events())
}
