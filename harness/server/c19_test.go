package server

// C19 - "counted across all of the user's sessions and connections together", on the server's own wiring:
// userPanel.GetUser makes the valve from the rates the user manager reports, ActiveUser.GetSession hands that
// one valve to every session of the user. Two or three sessions of one user, each with a backlogged writer in
// both directions, run against unlimited peers in a synctest bubble; the recorded time stamps go to the same TLC
// trace specification as the multiplex scenarios (spec/TokenBucketTrace.tla), and the driver checks every pair
// of events itself.
//   tx: chunks the server side hands to the network (VNet.Tap), without the 5-byte TLS record header;
//   rx: payload bytes at the moment they become readable by the application on the server side (one
//       connection per session, so nothing is held back for reordering). Payload <= frame, so only the upper
//       bound is decided for rx here.

import (
	"fmt"
	"io"
	"sync"
	"sync/atomic"
	"testing"
	"testing/synctest"
	"time"

	"github.com/cbeuw/Cloak/internal/common"
	mux "github.com/cbeuw/Cloak/internal/multiplex"
	"github.com/cbeuw/Cloak/internal/server/usermanager"
	kit "github.com/cbeuw/Cloak/internal/verifkit"
	log "github.com/sirupsen/logrus"
)

type c19Mgr struct {
	usermanager.Voidmanager
	up, down int64
}

func (m *c19Mgr) AuthenticateUser([]byte) (int64, int64, error) { return m.up, m.down, nil }
func (m *c19Mgr) AuthoriseNewSession([]byte, usermanager.AuthorisationInfo) error {
	return nil
}

type c19UScn struct {
	ID       int    `json:"id"`
	Up       int64  `json:"up_rate"`   // rx of the server
	Down     int64  `json:"down_rate"` // tx of the server
	Sessions int    `json:"sessions"`
	Size     int    `json:"size"`
	DurS     int    `json:"dur_s"`
	Via      string `json:"via"`
}

type c19UEv struct {
	kind, dir string
	ns        int64
	n         int
}

type c19URec struct {
	mu  sync.Mutex
	t0  time.Time
	evs []c19UEv
}

func (r *c19URec) add(kind, dir string, n int) {
	r.mu.Lock()
	r.evs = append(r.evs, c19UEv{kind, dir, int64(time.Since(r.t0)), n})
	r.mu.Unlock()
}

func c19URun(sc c19UScn) (evs []c19UEv, err error) {
	rec := &c19URec{t0: time.Now()}
	panel := &userPanel{ // MakeUserPanel without its endless uploader goroutine
		Manager:          &c19Mgr{up: sc.Up, down: sc.Down},
		activeUsers:      make(map[[16]byte]*ActiveUser),
		usageUpdateQueue: make(map[[16]byte]*usagePair),
		uploadInterval:   defaultUploadInterval,
	}
	uid := []byte("c19-user-0123456")
	vn := kit.NewVNet()
	vn.Tap = func(ev kit.TapEvent) {
		if ev.Kind == "w" && ev.From == 1 && len(ev.Data) > 5 {
			rec.add("pass", "tx", len(ev.Data)-5)
		}
	}
	var stop atomic.Bool
	var wg sync.WaitGroup
	var writers atomic.Int64
	budget := map[string]int64{"tx": 2 * (sc.Down*int64(sc.DurS) + sc.Down), "rx": 2 * (sc.Up*int64(sc.DurS) + sc.Up)}
	var written [2]atomic.Int64
	write := func(st io.Writer, dir string, di int) {
		defer wg.Done()
		defer writers.Add(-1)
		buf := kit.NewRng(int64(sc.ID)).Bytes(sc.Size)
		for !stop.Load() && written[di].Add(int64(len(buf))+30) <= budget[dir] {
			if _, err := st.Write(buf); err != nil {
				return
			}
		}
	}
	var srv, peers []*mux.Session
	var links []*kit.VLink
	for s := 0; s < sc.Sessions; s++ {
		var key [32]byte
		copy(key[:], kit.NewRng(int64(sc.ID*10+s)).Bytes(32))
		obfs, e := mux.MakeObfuscator(mux.EncryptionMethodAES256GCM, key)
		if e != nil {
			return nil, e
		}
		cfg := mux.SessionConfig{Obfuscator: obfs, MsgOnWireSizeLimit: 16401, InactivityTimeout: 1000000 * time.Second}
		// the server's path: the user record is looked up (created on first use), the session is made by it
		user, e := panel.GetUser(uid)
		if e != nil {
			return nil, e
		}
		sesh, existing, e := user.GetSession(uint32(s+1), cfg)
		if e != nil || existing {
			return nil, fmt.Errorf("GetSession: existing=%v err=%v", existing, e)
		}
		peer := mux.MakeSession(uint32(s+1), cfg)
		srv, peers = append(srv, sesh), append(peers, peer)
		l := vn.NewLink(false, false)
		l.Bound = 2048
		links = append(links, l)
		peer.AddConnection(common.NewTLSConn(l.End(0)))
		sesh.AddConnection(common.NewTLSConn(l.End(1)))
		wg.Add(1)
		go func(sesh *mux.Session) {
			defer wg.Done()
			conn, e := sesh.Accept()
			if e != nil {
				return
			}
			wg.Add(2)
			writers.Add(1)
			go write(conn, "tx", 0)
			go func() { // the application on the server side
				defer wg.Done()
				buf := make([]byte, 1<<16)
				for {
					n, e := conn.Read(buf)
					if n > 0 {
						rec.add("pass", "rx", n)
					}
					if e != nil {
						return
					}
				}
			}()
		}(sesh)
		st, e := peer.OpenStream()
		if e != nil {
			return nil, e
		}
		wg.Add(2)
		writers.Add(1)
		go write(st, "rx", 1)
		go func() { defer wg.Done(); io.Copy(io.Discard, st) }()
	}
	rec.add("backlog.start", "tx", 0)
	time.Sleep(time.Duration(sc.DurS) * time.Second)
	rec.add("backlog.end", "tx", 0)
	stop.Store(true)
	for writers.Load() > 0 {
		time.Sleep(10 * time.Millisecond)
	}
	time.Sleep(100 * time.Millisecond)
	for _, p := range peers {
		p.Close()
	}
	for _, s := range srv {
		s.Close()
	}
	for _, l := range links {
		l.End(0).Close()
		l.End(1).Close()
	}
	wg.Wait()
	time.Sleep(20 * time.Minute) // Cloak's goroutines still inside a Wait leave while the bubble's clock runs
	synctest.Wait()
	rec.mu.Lock()
	defer rec.mu.Unlock()
	return rec.evs, nil
}

// c19UCheck: every pair of events of one direction bounds an interval; returns the largest excess over rate*t
// and, if it is above burst*1.01, the offending interval.
func c19UCheck(dir string, rate int64, evs []c19UEv) (events int, total int64, maxmsg int, peak int64, what string) {
	var t, pre []int64
	pre = append(pre, 0)
	for _, e := range evs {
		if e.dir == dir && e.kind == "pass" {
			t = append(t, e.ns)
			pre = append(pre, pre[len(pre)-1]+int64(e.n))
			if e.n > maxmsg {
				maxmsg = e.n
			}
		}
	}
	n := len(t)
	worst, wi, wj := int64(-1<<62), 0, 0
	for i := 0; i < n; i++ {
		for j := i; j < n; j++ {
			if ex := (pre[j+1]-pre[i])*1e9 - rate*(t[j]-t[i]); ex > worst {
				worst, wi, wj = ex, i, j
			}
		}
	}
	if n == 0 {
		return 0, 0, 0, 0, ""
	}
	if worst > rate*101/100*1e9 {
		what = fmt.Sprintf("%s: %d bytes passed between t=%.3f ms and t=%.3f ms over all sessions of the user; %d B/s allow %d (rate*t) + %d (burst, +1%%)",
			dir, pre[wj+1]-pre[wi], float64(t[wi])/1e6, float64(t[wj])/1e6, rate, rate*(t[wj]-t[wi])/1e9, rate*101/100)
	}
	return n, pre[n], maxmsg, worst / 1e9, what
}

func TestVerifC19User(t *testing.T) {
	log.SetOutput(io.Discard)
	log.SetLevel(log.PanicLevel)
	res := kit.NewResult()
	defer func() { res.Save(true) }()
	tw := kit.NewTraceWriter("trace_user.ndjson")
	defer tw.Close()
	scs := []c19UScn{
		{ID: 101, Up: 20000, Down: 100000, Sessions: 2, Size: 1400, DurS: 12},
		{ID: 102, Up: 100000, Down: 20000, Sessions: 3, Size: 16000, DurS: 15},
	}
	if kit.Thorough() {
		scs = append(scs, c19UScn{ID: 103, Up: 2000, Down: 20000, Sessions: 3, Size: 100, DurS: 40},
			c19UScn{ID: 104, Up: 100000, Down: 2000, Sessions: 2, Size: 1400, DurS: 30})
	}
	for _, sc := range scs {
		sc.Via = "server.userPanel.GetUser / ActiveUser.GetSession"
		res.SetRunning(sc, false)
		var evs []c19UEv
		var err error
		synctest.Test(t, func(t *testing.T) { evs, err = c19URun(sc) })
		if err != nil {
			t.Fatalf("scenario %d: %v", sc.ID, err)
		}
		ntx, btx, mtx, ptx, wtx := c19UCheck("tx", sc.Down, evs)
		nrx, brx, mrx, prx, wrx := c19UCheck("rx", sc.Up, evs)
		res.Count(fmt.Sprint(sc), btx > sc.Down || brx > sc.Up)
		res.Stat("events_tx", int64(ntx))
		res.Stat("events_rx", int64(nrx))
		res.Stat("bytes_tx", btx)
		res.Stat("bytes_rx", brx)
		if btx == 0 || brx == 0 {
			res.Stat("dead_scenarios", 1)
		}
		res.Sample(map[string]any{"scenario": sc, "tx": map[string]any{"events": ntx, "bytes": btx, "maxmsg": mtx, "peak_queue": ptx},
			"rx": map[string]any{"events": nrx, "bytes": brx, "maxmsg": mrx, "peak_queue": prx}}, 4)
		if wtx != "" {
			res.Violate("tx-exceeds", wtx, map[string]any{"user_scenario": sc})
		}
		if wrx != "" {
			res.Violate("rx-exceeds", wrx, map[string]any{"user_scenario": sc})
		}
		// rx carries payload only: maxmsg is set to the burst so that the lower bound is never decided on it
		tw.Emit(map[string]any{"ev": "reset", "scn": sc.ID,
			"tx": map[string]any{"rpm": sc.Down / 1000, "burst": sc.Down, "relax": 0, "maxmsg": mtx},
			"rx": map[string]any{"rpm": sc.Up / 1000, "burst": sc.Up, "relax": 0, "maxmsg": sc.Up}})
		for _, e := range evs {
			m := map[string]any{"ev": e.kind, "dir": e.dir, "t": e.ns / 1e6}
			if e.kind == "pass" {
				m["n"] = e.n
			}
			tw.Emit(m)
		}
	}
	res.Stat("scenarios", int64(len(scs)))
	res.Stat("trace_events", tw.Events())
}
