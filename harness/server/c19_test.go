package server

// C19 - "counted across all of the user's sessions and connections together", on the server's own wiring:
// userPanel.GetUser makes the valve from the rates the user manager reports, ActiveUser.GetSession hands that
// one valve to every session of the user. Two or three sessions of one user, each with a backlogged writer in
// both directions, run against unlimited peers in a synctest bubble; the recorded time stamps go to the same TLC
// trace specification as the multiplex scenarios (spec/TokenBucketTrace.tla), and the driver checks every pair
// of events itself.
// Racing scenarios: the user's first N (2..4) connections arrive together. The stub user manager holds every
// AuthenticateUser call at a barrier until N GetUser calls for the same, not yet active UID are inside it (if the
// tree lets them be there together; a tree that holds the panel's lock across the call admits one at a time and the
// barrier is skipped). Each connection then takes its session from the ActiveUser IT was given, and the bound is
// evaluated over all of them together - that is the statement.
//   tx: chunks the server side hands to the network (VNet.Tap), without the 5-byte TLS record header;
//   rx: payload bytes at the moment they become readable by the application on the server side (one
//       connection per session, so nothing is held back for reordering). Payload <= frame, so only the upper
//       bound is decided for rx here.

import (
	"encoding/json"
	"fmt"
	"io"
	"os"
	"sort"
	"sync"
	"sync/atomic"
	"testing"
	"testing/synctest"
	"time"

	"github.com/cbeuw/Cloak/internal/common"
	mux "github.com/cbeuw/Cloak/internal/multiplex"
	"github.com/cbeuw/Cloak/internal/server/usermanager"
	"github.com/cbeuw/Cloak/internal/verifhook"
	kit "github.com/cbeuw/Cloak/internal/verifkit"
	log "github.com/sirupsen/logrus"
)

type c19Mgr struct {
	usermanager.Voidmanager
	up, down int64
	panel    *userPanel
	bar      *c19Barrier // nil: answer at once
}

// c19Barrier lives OUTSIDE the synctest bubble (plain channel, poller goroutine on the real clock): a goroutine
// waiting on it is not durably blocked, so the bubble's clock stands still while the racing calls assemble; and a
// tree that serialises the calls by some other means than the panel's lock is released after 5 s real time.
type c19Barrier struct {
	want     int32
	arrived  atomic.Int32
	skipped  atomic.Int32
	finished atomic.Bool
	release  chan struct{}
}

func c19NewBarrier(n int) *c19Barrier {
	b := &c19Barrier{want: int32(n), release: make(chan struct{})}
	go func() {
		deadline := time.Now().Add(5 * time.Second)
		for b.arrived.Load() < b.want && !b.finished.Load() && time.Now().Before(deadline) {
			time.Sleep(100 * time.Microsecond)
		}
		close(b.release)
	}()
	return b
}

func (m *c19Mgr) AuthenticateUser([]byte) (int64, int64, error) {
	if b := m.bar; b != nil {
		if !m.panel.activeUsersM.TryRLock() {
			// the caller holds the panel's write lock across this call: nobody else can be in here with it
			b.skipped.Add(1)
			return m.up, m.down, nil
		}
		m.panel.activeUsersM.RUnlock()
		b.arrived.Add(1)
		<-b.release
	}
	return m.up, m.down, nil
}
func (m *c19Mgr) AuthoriseNewSession([]byte, usermanager.AuthorisationInfo) error {
	return nil
}

type c19UScn struct {
	ID       int   `json:"id"`
	Up       int64 `json:"up_rate"`   // rx of the server
	Down     int64 `json:"down_rate"` // tx of the server
	Sessions int   `json:"sessions"`
	Size     int   `json:"size"`
	DurS     int   `json:"dur_s"`
	Racing   int   `json:"racing_first_connections"` // > 0: that many GetUser calls for the fresh UID overlap (= Sessions)
	// Terminate: at the end the panel terminates the user (closeAllSessions) while every session is still writing and the
	// bucket is empty: one closing notice per session goes out, metered like everything else
	Terminate bool   `json:"terminate,omitempty"`
	Via       string `json:"via"`
}

type c19UInfo struct {
	Records int32 `json:"distinct_user_records"` // distinct *ActiveUser handed out to the user's connections
	Inside  int32 `json:"calls_inside_authenticate_together"`
	Skipped int32 `json:"calls_under_panel_lock"`
}

type c19UEv struct {
	kind, dir string
	ns        int64
	n         int
}

type c19URec struct {
	mu  sync.Mutex
	t0  time.Time
	evs []c19UEv
}

func (r *c19URec) add(kind, dir string, n int) {
	r.mu.Lock()
	r.evs = append(r.evs, c19UEv{kind, dir, int64(time.Since(r.t0)), n})
	r.mu.Unlock()
}

func c19URun(sc c19UScn, bar *c19Barrier) (evs []c19UEv, info c19UInfo, err error) {
	rec := &c19URec{t0: time.Now()}
	mgr := &c19Mgr{up: sc.Up, down: sc.Down, bar: bar}
	panel := &userPanel{ // MakeUserPanel without its endless uploader goroutine
		Manager:          mgr,
		activeUsers:      make(map[[16]byte]*ActiveUser),
		usageUpdateQueue: make(map[[16]byte]*usagePair),
		uploadInterval:   defaultUploadInterval,
	}
	mgr.panel = panel
	uid := []byte("c19-user-0123456")
	// the user record each connection works with: looked up one after the other, or all first connections at once
	users := make([]*ActiveUser, sc.Sessions)
	if sc.Racing > 0 {
		errs := make([]error, sc.Sessions)
		var rg sync.WaitGroup
		for s := 0; s < sc.Sessions; s++ {
			rg.Add(1)
			go func(s int) {
				defer rg.Done()
				users[s], errs[s] = panel.GetUser(uid)
			}(s)
		}
		rg.Wait()
		bar.finished.Store(true)
		for _, e := range errs {
			if e != nil {
				return nil, info, e
			}
		}
		info.Inside, info.Skipped = bar.arrived.Load(), bar.skipped.Load()
	}
	vn := kit.NewVNet()
	vn.Tap = func(ev kit.TapEvent) {
		if ev.Kind == "w" && ev.From == 1 && len(ev.Data) > 5 {
			rec.add("pass", "tx", len(ev.Data)-5)
		}
	}
	var stop atomic.Bool
	var wg sync.WaitGroup
	var writers atomic.Int64
	budget := map[string]int64{"tx": 2 * (sc.Down*int64(sc.DurS) + sc.Down), "rx": 2 * (sc.Up*int64(sc.DurS) + sc.Up)}
	var written [2]atomic.Int64
	write := func(st io.Writer, dir string, di int) {
		defer wg.Done()
		defer writers.Add(-1)
		buf := kit.NewRng(int64(sc.ID)).Bytes(sc.Size)
		for !stop.Load() && written[di].Add(int64(len(buf))+30) <= budget[dir] {
			if _, err := st.Write(buf); err != nil {
				return
			}
		}
	}
	var srv, peers []*mux.Session
	var links []*kit.VLink
	for s := 0; s < sc.Sessions; s++ {
		var key [32]byte
		copy(key[:], kit.NewRng(int64(sc.ID*10+s)).Bytes(32))
		obfs, e := mux.MakeObfuscator(mux.EncryptionMethodAES256GCM, key)
		if e != nil {
			return nil, info, e
		}
		cfg := mux.SessionConfig{Obfuscator: obfs, MsgOnWireSizeLimit: 16401, InactivityTimeout: 1000000 * time.Second}
		// the server's path: the user record is looked up (created on first use), the session is made by it
		user := users[s]
		if user == nil {
			if user, e = panel.GetUser(uid); e != nil {
				return nil, info, e
			}
			users[s] = user
		}
		sesh, existing, e := user.GetSession(uint32(s+1), cfg)
		if e != nil || existing {
			return nil, info, fmt.Errorf("GetSession: existing=%v err=%v", existing, e)
		}
		peer := mux.MakeSession(uint32(s+1), cfg)
		srv, peers = append(srv, sesh), append(peers, peer)
		l := vn.NewLink(false, false)
		l.Bound = 2048
		links = append(links, l)
		peer.AddConnection(common.NewTLSConn(l.End(0)))
		sesh.AddConnection(common.NewTLSConn(l.End(1)))
		wg.Add(1)
		go func(sesh *mux.Session) {
			defer wg.Done()
			conn, e := sesh.Accept()
			if e != nil {
				return
			}
			wg.Add(2)
			writers.Add(1)
			go write(conn, "tx", 0)
			go func() { // the application on the server side
				defer wg.Done()
				buf := make([]byte, 1<<16)
				for {
					n, e := conn.Read(buf)
					if n > 0 {
						rec.add("pass", "rx", n)
					}
					if e != nil {
						return
					}
				}
			}()
		}(sesh)
		st, e := peer.OpenStream()
		if e != nil {
			return nil, info, e
		}
		wg.Add(2)
		writers.Add(1)
		go write(st, "rx", 1)
		go func() { defer wg.Done(); io.Copy(io.Discard, st) }()
	}
	rec.add("backlog.start", "tx", 0)
	time.Sleep(time.Duration(sc.DurS) * time.Second)
	rec.add("backlog.end", "tx", 0)
	if sc.Terminate {
		panel.TerminateActiveUser(users[0], "c19: credit used up")
	}
	stop.Store(true)
	for writers.Load() > 0 {
		time.Sleep(10 * time.Millisecond)
	}
	time.Sleep(100 * time.Millisecond)
	for _, p := range peers {
		p.Close()
	}
	for _, s := range srv {
		s.Close()
	}
	for _, l := range links {
		l.End(0).Close()
		l.End(1).Close()
	}
	wg.Wait()
	time.Sleep(20 * time.Minute) // Cloak's goroutines still inside a Wait leave while the bubble's clock runs
	synctest.Wait()
	distinct := map[*ActiveUser]bool{}
	for _, u := range users {
		distinct[u] = true
	}
	info.Records = int32(len(distinct))
	rec.mu.Lock()
	defer rec.mu.Unlock()
	return rec.evs, info, nil
}

// c19UCheck: every pair of events of one direction bounds an interval; returns the largest excess over rate*t
// and, if it is above burst*1.01, the offending interval.
func c19UCheck(dir string, rate int64, evs []c19UEv) (events int, total int64, maxmsg int, peak int64, what string) {
	var t, pre []int64
	pre = append(pre, 0)
	for _, e := range evs {
		if e.dir == dir && e.kind == "pass" {
			t = append(t, e.ns)
			pre = append(pre, pre[len(pre)-1]+int64(e.n))
			if e.n > maxmsg {
				maxmsg = e.n
			}
		}
	}
	n := len(t)
	worst, wi, wj := int64(-1<<62), 0, 0
	for i := 0; i < n; i++ {
		for j := i; j < n; j++ {
			if ex := (pre[j+1]-pre[i])*1e9 - rate*(t[j]-t[i]); ex > worst {
				worst, wi, wj = ex, i, j
			}
		}
	}
	if n == 0 {
		return 0, 0, 0, 0, ""
	}
	if worst > rate*101/100*1e9 {
		what = fmt.Sprintf("%s: %d bytes passed between t=%.3f ms and t=%.3f ms over all sessions of the user; %d B/s allow %d (rate*t) + %d (burst, +1%%)",
			dir, pre[wj+1]-pre[wi], float64(t[wi])/1e6, float64(t[wj])/1e6, rate, rate*(t[wj]-t[wi])/1e9, rate*101/100)
	}
	return n, pre[n], maxmsg, worst / 1e9, what
}

func TestVerifC19User(t *testing.T) {
	log.SetOutput(io.Discard)
	log.SetLevel(log.PanicLevel)
	res := kit.NewResult()
	defer func() { res.Save(true) }()
	if rp := kit.Env("VERIF_REPLAY", ""); rp != "" {
		c19LifeReplayFile(t, rp)
		return
	}
	tw := kit.NewTraceWriter("trace_user.ndjson")
	defer tw.Close()
	scs := []c19UScn{
		{ID: 101, Up: 20000, Down: 100000, Sessions: 2, Size: 1400, DurS: 12},
		{ID: 102, Up: 100000, Down: 20000, Sessions: 3, Size: 16000, DurS: 15},
		{ID: 105, Up: 20000, Down: 100000, Sessions: 2, Racing: 2, Size: 1400, DurS: 10},
		{ID: 106, Up: 100000, Down: 20000, Sessions: 3, Racing: 3, Size: 1400, DurS: 10},
		{ID: 109, Up: 20000, Down: 2000, Sessions: 12, Size: 100, DurS: 10, Terminate: true},
	}
	if kit.Thorough() {
		scs = append(scs, c19UScn{ID: 103, Up: 2000, Down: 20000, Sessions: 3, Size: 100, DurS: 40},
			c19UScn{ID: 104, Up: 100000, Down: 2000, Sessions: 2, Size: 1400, DurS: 30},
			c19UScn{ID: 107, Up: 20000, Down: 2000, Sessions: 4, Racing: 4, Size: 100, DurS: 30},
			c19UScn{ID: 108, Up: 2000, Down: 100000, Sessions: 2, Racing: 2, Size: 1400, DurS: 15},
			c19UScn{ID: 110, Up: 20000, Down: 1000, Sessions: 32, Size: 100, DurS: 10, Terminate: true},
			c19UScn{ID: 111, Up: 2000, Down: 5000, Sessions: 3, Size: 1400, DurS: 10, Terminate: true})
	}
	for _, sc := range scs {
		sc.Via = "server.userPanel.GetUser / ActiveUser.GetSession"
		res.SetRunning(sc, false)
		var evs []c19UEv
		var info c19UInfo
		var err error
		var bar *c19Barrier
		if sc.Racing > 0 {
			sc.Sessions = sc.Racing
			bar = c19NewBarrier(sc.Racing) // made outside the bubble on purpose, see c19Barrier
		}
		synctest.Test(t, func(t *testing.T) { evs, info, err = c19URun(sc, bar) })
		if err != nil {
			t.Fatalf("scenario %d: %v", sc.ID, err)
		}
		if sc.Racing > 0 {
			res.Stat("racing_scenarios", 1)
			if info.Inside == int32(sc.Racing) {
				res.Stat("racing_overlapped", 1) // the tree let all first connections into AuthenticateUser together
			}
			if info.Records > 1 {
				res.Stat("racing_split_records", 1) // logged only: the verdict is the measured throughput
			}
		}
		ntx, btx, mtx, ptx, wtx := c19UCheck("tx", sc.Down, evs)
		nrx, brx, mrx, prx, wrx := c19UCheck("rx", sc.Up, evs)
		res.Count(fmt.Sprint(sc), btx > sc.Down || brx > sc.Up)
		res.Stat("events_tx", int64(ntx))
		res.Stat("events_rx", int64(nrx))
		res.Stat("bytes_tx", btx)
		res.Stat("bytes_rx", brx)
		if btx == 0 || brx == 0 {
			res.Stat("dead_scenarios", 1)
		}
		res.Sample(map[string]any{"scenario": sc, "first_use": info, "tx": map[string]any{"events": ntx, "bytes": btx, "maxmsg": mtx, "peak_queue": ptx},
			"rx": map[string]any{"events": nrx, "bytes": brx, "maxmsg": mrx, "peak_queue": prx}}, 8)
		if wtx != "" {
			res.Violate("tx-exceeds", wtx, map[string]any{"user_scenario": sc, "first_use": info})
		}
		if wrx != "" {
			res.Violate("rx-exceeds", wrx, map[string]any{"user_scenario": sc, "first_use": info})
		}
		// rx carries payload only: maxmsg is set to the burst so that the lower bound is never decided on it
		tw.Emit(map[string]any{"ev": "reset", "scn": sc.ID,
			"tx": map[string]any{"rpm": sc.Down / 1000, "burst": sc.Down, "relax": 0, "maxmsg": mtx},
			"rx": map[string]any{"rpm": sc.Up / 1000, "burst": sc.Up, "relax": 0, "maxmsg": sc.Up}})
		for _, e := range evs {
			m := map[string]any{"ev": e.kind, "dir": e.dir, "t": e.ns / 1e6}
			if e.kind == "pass" {
				m["n"] = e.n
			}
			tw.Emit(m)
		}
	}
	res.Stat("scenarios", int64(len(scs)))
	if in := kit.Env("VERIF_IN", ""); in != "" { // life-cycle schedules of spec/TokenBucketPanel.tla
		if err := c19LifeReplayAll(t, res, tw, in); err != nil {
			t.Fatal(err)
		}
	}
	res.Stat("trace_events", tw.Events())
}

// ------------------------------------------------------------------------------------ life cycle

// Schedules generated by TLC from spec/TokenBucketPanel.tla: the user's sessions come and go through the real
// userPanel - handshakes (GetUser + GetSession, as dispatchConnection does), CloseSession calls that may be held at
// the repository's schedule points user.closesession.unlocked / panel.terminate.closed (internal/verifhook), and
// their release - while every live session carries backlogged traffic both ways on the bubble's virtual clock.
// Decided: (i) at every quiescent point all live sessions of the user carry ONE valve object
// (key shared-allowance:two-valves), (ii) the bytes of all sessions together, over any interval, stay within the
// literal rate*t + burst (+1%). An excess that is fully explained by fresh buckets on re-activation - at most one
// burst per re-activation of the user inside the interval, one valve at every instant - is the known defect D18 and
// is reported under tx-/rx-exceeds:burst-refill-on-reactivation; anything beyond that under
// tx-/rx-exceeds:across-lifecycle.

type c19LEv struct {
	A     string `json:"a"`
	Sid   uint32 `json:"sid"`
	Rec   int    `json:"rec"`
	P     int    `json:"p"`
	Fresh bool   `json:"fresh"`
	At    string `json:"at"`
}

type c19LObs struct {
	Valves int      `json:"valves"`
	Live   []uint32 `json:"live"`
	Cur    int      `json:"cur"`
}

type c19LStep struct {
	Ev  c19LEv  `json:"ev"`
	Obs c19LObs `json:"obs"`
}

type c19LBeh struct {
	Bad    bool       `json:"bad"`
	Mode   string     `json:"mode"` // strict: the model of the tree under test; hypo: schedule of a named deviation
	Name   string     `json:"name,omitempty"`
	Gates  []string   `json:"gates"`
	StepMs int        `json:"step_ms,omitempty"` // virtual time between the steps (default 1000)
	TailMs int        `json:"tail_ms,omitempty"` // plain backlog after the last step (default 6000)
	Steps  []c19LStep `json:"steps"`
}

type c19LFinding struct {
	Key  string         `json:"key"`
	What string         `json:"what"`
	Info map[string]any `json:"info,omitempty"`
}

const (
	c19LUp   = 20000
	c19LDown = 50000
)

type c19LActor struct {
	state  atomic.Int32 // 0 running, 1 parked, 2 done
	at     string
	resume chan struct{}
}

type c19LSess struct {
	sid  uint32
	sesh *mux.Session
	peer *mux.Session
}

type c19LResult struct {
	Key      string
	What     string
	Diverged string
	Table    []string
	Evs      []c19UEv
	Records  int
	Refill   []c19LFinding // literal bound exceeded, explained by fresh buckets on re-activation (D18)
	// a hypothesis schedule was cut short because its next handshake would find, on this tree, a record in the panel
	// on which closeAllSessions has already run: the known lookup gap (D9, C15/C17), not a C19 matter
	Abandoned bool
}

var c19LGateOf = map[string]string{"user.closesession.unlocked": "unlocked", "panel.terminate.closed": "closed"}

func c19LifeRun(b *c19LBeh) (out c19LResult) {
	rec := &c19URec{t0: time.Now()}
	panel := &userPanel{
		Manager:          &c19Mgr{up: c19LUp, down: c19LDown},
		activeUsers:      make(map[[16]byte]*ActiveUser),
		usageUpdateQueue: make(map[[16]byte]*usagePair),
		uploadInterval:   defaultUploadInterval,
	}
	uid := []byte("c19-life-0123456")
	gates := map[string]bool{}
	for _, g := range b.Gates {
		gates[g] = true
	}
	var running atomic.Pointer[c19LActor]
	verifhook.Set(func(point string, args ...uint64) {
		g, ok := c19LGateOf[point]
		if !ok || !gates[g] {
			return
		}
		if g == "unlocked" && len(args) > 1 && args[1] != 0 {
			return // sessions are left: CloseSession returns without terminating, nothing to interleave with
		}
		a := running.Load()
		if a == nil {
			return
		}
		a.at = g
		a.state.Store(1)
		<-a.resume
	})
	defer verifhook.Set(nil)
	vn := kit.NewVNet()
	vn.Tap = func(ev kit.TapEvent) {
		if ev.Kind == "w" && ev.From == 1 && len(ev.Data) > 5 {
			rec.add("pass", "tx", len(ev.Data)-5)
		}
	}
	var stop atomic.Bool
	var wg sync.WaitGroup
	var writers atomic.Int64
	var written atomic.Int64
	budget := int64(8 * (c19LDown*20 + c19LDown))
	write := func(st io.Writer, size int) {
		defer wg.Done()
		defer writers.Add(-1)
		buf := kit.NewRng(int64(size)).Bytes(size)
		for !stop.Load() && written.Add(int64(size)) <= budget {
			if _, err := st.Write(buf); err != nil {
				return
			}
		}
	}
	var records []*ActiveUser
	swept := map[*ActiveUser]bool{} // a goroutine has passed closeAllSessions on it (seen at panel.terminate.closed)
	var sessions []*c19LSess
	var links []*kit.VLink
	actors := map[int]*c19LActor{}
	actorRec := map[int]*ActiveUser{}
	logf := func(f string, a ...any) { out.Table = append(out.Table, fmt.Sprintf(f, a...)) }
	settle := func(a *c19LActor) bool {
		for i := 0; i < 4000; i++ {
			synctest.Wait()
			if a == nil || a.state.Load() != 0 {
				return true
			}
			time.Sleep(50 * time.Millisecond) // e.g. a Close that waits for tokens before its notice goes out
		}
		return false
	}
	launch := func(a *c19LActor, f func()) bool {
		a.state.Store(0)
		running.Store(a)
		wg.Add(1)
		go func() {
			defer wg.Done()
			f()
			a.at = "done"
			a.state.Store(2)
		}()
		ok := settle(a)
		running.Store(nil)
		return ok
	}
	release := func(a *c19LActor) bool {
		a.state.Store(0)
		running.Store(a)
		a.resume <- struct{}{}
		ok := settle(a)
		running.Store(nil)
		return ok
	}
	observe := func() (valves int, live []uint32) {
		vs := map[mux.Valve]bool{}
		for _, s := range sessions {
			if !s.sesh.IsClosed() {
				vs[s.sesh.Valve] = true
				live = append(live, s.sid)
			}
		}
		sort.Slice(live, func(i, j int) bool { return live[i] < live[j] })
		return len(vs), live
	}
	for si, st := range b.Steps {
		ev := st.Ev
		switch ev.A {
		case "hs":
			var arr [16]byte
			copy(arr[:], uid)
			panel.activeUsersM.RLock()
			held := panel.activeUsers[arr]
			panel.activeUsersM.RUnlock()
			if held != nil && swept[held] {
				if b.Mode == "hypo" {
					logf("step %d handshake: the panel holds a record that is being terminated (known lookup gap D9): schedule abandoned", si)
					out.Abandoned = true
				} else {
					out.Diverged = fmt.Sprintf("step %d: the panel holds a record on which closeAllSessions has run; the model excludes that (NoLookupGap)", si)
				}
				break
			}
			user, err := panel.GetUser(uid)
			if err != nil {
				out.Diverged = fmt.Sprintf("step %d: GetUser: %v", si, err)
				break
			}
			idx := -1
			for k, r := range records {
				if r == user {
					idx = k
				}
			}
			fresh := idx < 0
			if fresh {
				records = append(records, user)
				idx = len(records) - 1
				rec.add("activate", "", 0)
			}
			var key [32]byte
			copy(key[:], kit.NewRng(int64(ev.Sid)+77).Bytes(32))
			obfs, _ := mux.MakeObfuscator(mux.EncryptionMethodChaha20Poly1305, key)
			cfg := mux.SessionConfig{Obfuscator: obfs, MsgOnWireSizeLimit: 16401, InactivityTimeout: 1000000 * time.Second}
			sesh, existing, err := user.GetSession(ev.Sid, cfg)
			if err != nil {
				out.Diverged = fmt.Sprintf("step %d: GetSession: %v", si, err)
				break
			}
			logf("step %d handshake(sid %d): expected record %d fresh=%v, observed record %d fresh=%v existing=%v", si, ev.Sid, ev.Rec, ev.Fresh, idx+1, fresh, existing)
			if !existing {
				peer := mux.MakeSession(ev.Sid, cfg)
				l := vn.NewLink(false, false)
				l.Bound = 2048
				links = append(links, l)
				peer.AddConnection(common.NewTLSConn(l.End(0)))
				sesh.AddConnection(common.NewTLSConn(l.End(1)))
				sessions = append(sessions, &c19LSess{sid: ev.Sid, sesh: sesh, peer: peer})
				wg.Add(1)
				go func() {
					defer wg.Done()
					conn, e := sesh.Accept()
					if e != nil {
						return
					}
					wg.Add(2)
					writers.Add(1)
					go write(conn, 8000)
					go func() {
						defer wg.Done()
						buf := make([]byte, 1<<16)
						for {
							n, e := conn.Read(buf)
							if n > 0 {
								rec.add("pass", "rx", n)
							}
							if e != nil {
								return
							}
						}
					}()
				}()
				if pst, e := peer.OpenStream(); e == nil {
					wg.Add(2)
					writers.Add(1)
					go write(pst, 4000)
					go func() { defer wg.Done(); io.Copy(io.Discard, pst) }()
				}
			}
			settle(nil)
			if b.Mode == "strict" && (idx+1 != ev.Rec || fresh != ev.Fresh) && out.Diverged == "" {
				out.Diverged = fmt.Sprintf("step %d: handshake got record %d (fresh=%v), the model record %d (fresh=%v)", si, idx+1, fresh, ev.Rec, ev.Fresh)
			}
		case "close":
			if ev.Rec > len(records) {
				logf("step %d close: record %d was never handed out here, skipped", si, ev.Rec)
				continue
			}
			user := records[ev.Rec-1]
			rec.add("close", "", int(ev.Sid))
			a := &c19LActor{resume: make(chan struct{})}
			actors[ev.P] = a
			actorRec[ev.P] = user
			if !launch(a, func() { user.CloseSession(ev.Sid, "c19 life cycle") }) {
				out.Diverged = fmt.Sprintf("step %d: CloseSession neither returned nor reached a schedule point", si)
			}
			logf("step %d CloseSession(record %d, sid %d) by goroutine %d: expected at %q, observed at %q", si, ev.Rec, ev.Sid, ev.P, ev.At, a.at)
			if b.Mode == "strict" && a.at != ev.At && out.Diverged == "" {
				out.Diverged = fmt.Sprintf("step %d: goroutine %d is at %q, the model at %q", si, ev.P, a.at, ev.At)
			}
		case "go":
			a := actors[ev.P]
			if a == nil || a.state.Load() != 1 {
				logf("step %d go(%d): not parked here, skipped", si, ev.P)
				continue
			}
			if !release(a) {
				out.Diverged = fmt.Sprintf("step %d: goroutine %d neither returned nor reached a schedule point", si, ev.P)
			}
			logf("step %d go(%d): expected at %q, observed at %q", si, ev.P, ev.At, a.at)
			if b.Mode == "strict" && a.at != ev.At && out.Diverged == "" {
				out.Diverged = fmt.Sprintf("step %d: goroutine %d is at %q, the model at %q", si, ev.P, a.at, ev.At)
			}
		}
		if out.Diverged != "" || out.Abandoned {
			break
		}
		for p, a := range actors {
			if a.at == "closed" && a.state.Load() == 1 {
				swept[actorRec[p]] = true
			}
		}
		valves, live := observe()
		logf("  after step %d: expected %d valve(s) over live sessions %v, observed %d over %v", si, st.Obs.Valves, st.Obs.Live, valves, live)
		if valves > 1 && out.Key == "" {
			out.Key = "shared-allowance:two-valves"
			out.What = fmt.Sprintf("after step %d (%s) the user's live sessions %v are metered by %d different valve objects: the allowance is no longer shared", si, ev.A, live, valves)
		}
		if b.Mode == "strict" && out.Key == "" && (valves != st.Obs.Valves || fmt.Sprint(live) != fmt.Sprint(append([]uint32{}, st.Obs.Live...))) {
			out.Diverged = fmt.Sprintf("after step %d: live sessions %v on %d valve(s), the model has %v on %d", si, live, valves, st.Obs.Live, st.Obs.Valves)
			break
		}
		stepMs := b.StepMs
		if stepMs == 0 {
			stepMs = 1000
		}
		time.Sleep(time.Duration(stepMs) * time.Millisecond) // traffic between the steps
	}
	// let parked goroutines finish in index order, then a stretch of plain backlog
	for p := 1; p <= 8; p++ {
		if a := actors[p]; a != nil && a.state.Load() == 1 {
			release(a)
			for a.state.Load() == 1 {
				release(a)
			}
		}
	}
	tailMs := b.TailMs
	if tailMs == 0 {
		tailMs = 6000
	}
	time.Sleep(time.Duration(tailMs) * time.Millisecond)
	stop.Store(true)
	for writers.Load() > 0 {
		time.Sleep(10 * time.Millisecond)
	}
	time.Sleep(100 * time.Millisecond)
	for _, s := range sessions {
		s.peer.Close()
		s.sesh.Close()
	}
	for _, l := range links {
		l.End(0).Close()
		l.End(1).Close()
	}
	wg.Wait()
	time.Sleep(20 * time.Minute)
	synctest.Wait()
	rec.mu.Lock()
	out.Evs = append([]c19UEv(nil), rec.evs...)
	rec.mu.Unlock()
	out.Records = len(records)
	return
}

// c19LCheck: all pairs of events of one direction against the LITERAL bound rate*t + burst*1.01. Returned: the worst
// interval whose excess fresh buckets cannot explain (more than one burst per re-activation recorded inside it), and
// the worst one they can.
func c19LCheck(dir string, rate int64, evs []c19UEv) (beyond, refill *c19LFinding) {
	var t, pre, acts []int64
	pre = append(pre, 0)
	var a int64
	var history []string
	for _, e := range evs {
		switch e.kind {
		case "activate":
			a++
			if a == 1 {
				history = append(history, fmt.Sprintf("first handshake at t=%.1f ms (full buckets)", float64(e.ns)/1e6))
			} else {
				history = append(history, fmt.Sprintf("reconnect at t=%.1f ms -> new user record with FRESH full buckets", float64(e.ns)/1e6))
			}
		case "close":
			history = append(history, fmt.Sprintf("session %d closed at t=%.1f ms -> no session left, record terminated", e.n, float64(e.ns)/1e6))
		}
		if e.dir == dir && e.kind == "pass" {
			t = append(t, e.ns)
			pre = append(pre, pre[len(pre)-1]+int64(e.n))
			acts = append(acts, a)
		}
	}
	n := len(t)
	lit := rate * 101 / 100 * 1e9 // burst + 1%, in byte*ns
	var wb, wr int64              // worst excesses over the respective allowance
	mk := func(i, j int, key string) *c19LFinding {
		got, dt, k := pre[j+1]-pre[i], t[j]-t[i], acts[j]-acts[i]
		return &c19LFinding{Key: dir + "-exceeds:" + key,
			What: fmt.Sprintf("%s, user c19-life: %s; %d bytes passed in [%.1f ms, %.1f ms] over all sessions the user had in that time, allowed %d = %d (rate %d B/s x t) + %d (one burst, +1%%); %d re-activation(s) inside the interval would explain up to %d more",
				dir, fmt.Sprint(history), got, float64(t[i])/1e6, float64(t[j])/1e6, rate*dt/1e9+rate*101/100, rate*dt/1e9, rate, rate*101/100, k, k*rate),
			Info: map[string]any{"dir": dir, "bytes": got, "from_ms": float64(t[i]) / 1e6, "to_ms": float64(t[j]) / 1e6, "allowed": rate*dt/1e9 + rate*101/100,
				"reactivations_inside": k, "rate": rate, "history": history}}
	}
	for i := 0; i < n; i++ {
		for j := i; j < n; j++ {
			ex := (pre[j+1]-pre[i])*1e9 - rate*(t[j]-t[i]) - lit
			if ex <= 0 {
				continue
			}
			if credit := rate * (acts[j] - acts[i]) * 1e9; ex > credit {
				if ex-credit > wb {
					wb, beyond = ex-credit, mk(i, j, "across-lifecycle")
				}
			} else if ex > wr {
				wr, refill = ex, mk(i, j, "burst-refill-on-reactivation")
			}
		}
	}
	return
}

func c19LEvaluate(t *testing.T, b *c19LBeh) (out c19LResult) {
	synctest.Test(t, func(t *testing.T) { out = c19LifeRun(b) })
	for _, d := range []struct {
		dir  string
		rate int64
	}{{"tx", c19LDown}, {"rx", c19LUp}} {
		beyond, refill := c19LCheck(d.dir, d.rate, out.Evs)
		if beyond != nil && out.Key == "" {
			out.Key, out.What = beyond.Key, beyond.What
		}
		if refill != nil {
			if out.Key == "shared-allowance:two-valves" {
				continue // two valves were alive: fresh buckets are not the (whole) explanation
			}
			out.Refill = append(out.Refill, *refill)
		}
	}
	return
}

func c19LifeReplayAll(t *testing.T, res *kit.Result, tw *kit.TraceWriter, path string) error {
	idx, serious := 0, 0
	return kit.ReadLines(path, func(line []byte) error {
		var b c19LBeh
		if err := json.Unmarshal(line, &b); err != nil {
			return err
		}
		idx++
		if serious > 12 {
			return nil
		}
		out := c19LEvaluate(t, &b)
		for _, f := range out.Refill { // known defect D18: identified, never silently forgiven
			res.Violate(f.Key, f.What, map[string]any{"life_behaviour": b, "finding": f.Info})
			res.Stat("life_refill_"+f.Key[:2], 1)
			if b.Name != "" {
				res.Sample(map[string]any{"named_life_scenario": b.Name, "finding": f}, 16)
				res.Stat("named:"+b.Name+":"+f.Key, 1)
			}
		}
		churn := false
		for _, st := range b.Steps {
			churn = churn || st.Ev.A != "hs"
		}
		res.Count(string(line), churn)
		res.Stat("life_behaviours", 1)
		res.Stat("life_"+b.Mode, 1)
		if out.Records > 1 {
			res.Stat("life_reactivated", 1)
		}
		if out.Key != "" {
			serious++
			res.Violate(out.Key, out.What, map[string]any{"life_behaviour": b, "table": out.Table})
			if b.Mode == "hypo" {
				res.Stat("life_hypothesis_followed", 1)
			}
		} else if out.Diverged != "" {
			res.Stat("life_diverged", 1)
			res.Note("life-cycle behaviour %d diverged: %s", idx, out.Diverged)
			res.Sample(map[string]any{"diverged": out.Diverged, "table": out.Table}, 12)
		} else if b.Mode == "hypo" {
			res.Stat("life_hypothesis_refuted", 1)
			if out.Abandoned {
				res.Stat("life_hypothesis_abandoned_d9_window", 1)
			}
		}
		if idx%29 == 1 {
			res.Sample(map[string]any{"life_behaviour": json.RawMessage(append([]byte{}, line...))}, 12)
		}
		// the same TLC trace specification meters the run: reset, then pass / activate events
		tw.Emit(map[string]any{"ev": "reset", "scn": 1000 + idx,
			"tx": map[string]any{"rpm": c19LDown / 1000, "burst": c19LDown, "relax": 0, "maxmsg": c19LDown},
			"rx": map[string]any{"rpm": c19LUp / 1000, "burst": c19LUp, "relax": 0, "maxmsg": c19LUp}})
		for _, e := range out.Evs {
			if e.kind == "close" {
				continue // history for the driver's report only
			}
			m := map[string]any{"ev": e.kind, "t": e.ns / 1e6}
			if e.kind == "pass" {
				m["dir"], m["n"] = e.dir, e.n
			}
			tw.Emit(m)
		}
		return nil
	})
}

func c19LifeReplayFile(t *testing.T, path string) {
	var rf struct {
		Replay struct {
			B *c19LBeh `json:"life_behaviour"`
		} `json:"replay"`
	}
	raw, err := os.ReadFile(path)
	if err != nil {
		t.Fatal(err)
	}
	if err := json.Unmarshal(raw, &rf); err != nil || rf.Replay.B == nil {
		t.Fatalf("no life-cycle behaviour in %s (%v)", path, err)
	}
	out := c19LEvaluate(t, rf.Replay.B)
	for _, l := range out.Table {
		fmt.Println(l)
	}
	keys := []string{}
	for _, f := range out.Refill {
		fmt.Printf("FINDING %s: %s\n", f.Key, f.What)
		keys = append(keys, f.Key)
	}
	fmt.Printf("REPLAY-RESULT key=%q what=%q known_refill_keys=%q diverged=%q\n", out.Key, out.What, keys, out.Diverged)
}
