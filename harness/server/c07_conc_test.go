package server

// C07 under concurrency: first packets of authorised and of unauthorised identities arriving together must each be
// judged by their OWN identity.  Whatever dispatchConnection keeps of a decrypted first packet (UID, session id, proxy
// method) must not be affected by the first packets other goroutines decrypt in the meantime - also when the
// goroutine is descheduled between authenticating the packet and looking the user up (the server draws the session key
// from WorldState.Rand in between; here that reader yields the processor, as a blocking getrandom or a preemption would).
// Statement judged: a peer whose UID is not authorised never gets a Cloak reply, its bytes go to the redirect target.

import (
	"bytes"
	"crypto/rand"
	"fmt"
	"io"
	"net"
	"runtime"
	"sync"
	"testing"
	"time"

	"github.com/cbeuw/Cloak/internal/client"
	"github.com/cbeuw/Cloak/internal/common"
	"github.com/cbeuw/Cloak/internal/ecdh"
	"github.com/cbeuw/Cloak/internal/server/usermanager"
	kit "github.com/cbeuw/Cloak/internal/verifkit"
	log "github.com/sirupsen/logrus"
)

type c07YieldRand struct{}

func (c07YieldRand) Read(p []byte) (int, error) {
	for i := 0; i < 4; i++ {
		runtime.Gosched()
	}
	return rand.Read(p)
}

type c07ConcCap struct {
	mu  sync.Mutex
	buf bytes.Buffer
}

func (c *c07ConcCap) Write(p []byte) (int, error) {
	c.mu.Lock()
	defer c.mu.Unlock()
	return c.buf.Write(p)
}
func (c *c07ConcCap) Read(p []byte) (int, error)         { return 0, io.EOF }
func (c *c07ConcCap) Close() error                       { return nil }
func (c *c07ConcCap) LocalAddr() net.Addr                { return &net.TCPAddr{IP: net.IPv4(127, 0, 0, 1), Port: 1} }
func (c *c07ConcCap) RemoteAddr() net.Addr               { return &net.TCPAddr{IP: net.IPv4(127, 0, 0, 1), Port: 2} }
func (c *c07ConcCap) SetDeadline(t time.Time) error      { return nil }
func (c *c07ConcCap) SetReadDeadline(t time.Time) error  { return nil }
func (c *c07ConcCap) SetWriteDeadline(t time.Time) error { return nil }

type c07ConcAddr string

func (a c07ConcAddr) Network() string { return "vnet" }
func (a c07ConcAddr) String() string  { return string(a) }

const c07ConcMarker = "HTTP/1.1 418 c07-redirect-target\r\n\r\n"

func TestVerifC07Concurrent(t *testing.T) {
	log.SetOutput(io.Discard)
	log.SetLevel(log.PanicLevel)
	res := kit.NewResult()
	defer func() { res.Save(true) }()
	rounds, per := 30, 24
	if kit.Thorough() {
		rounds, per = 300, 48
	}
	pv, pub, _ := ecdh.GenerateKey(rand.Reader)
	good := []byte("c07-conc-good-16")
	var arr [16]byte
	copy(arr[:], good)
	now := time.Now
	for r := 0; r < rounds && res.NumViolations() == 0; r++ {
		vn := kit.NewVNet()
		redirL, proxyL := vn.Listen(), vn.Listen()
		sta := &State{
			ProxyBook: map[string]net.Addr{"echo": c07ConcAddr("echo")}, ProxyDialer: proxyL,
			WorldState: common.WorldState{Rand: c07YieldRand{}, Now: now},
			BypassUID:  map[[16]byte]struct{}{arr: {}}, StaticPv: pv,
			RedirHost:  &net.IPAddr{IP: net.IPv4(127, 0, 0, 1)}, RedirPort: "80", RedirDialer: redirL,
			UsedRandom: map[[32]byte]int64{},
			Panel: &userPanel{Manager: &usermanager.Voidmanager{}, activeUsers: make(map[[16]byte]*ActiveUser),
				usageUpdateQueue: make(map[[16]byte]*usagePair), uploadInterval: defaultUploadInterval},
		}
		go func() {
			for {
				c, err := redirL.Accept()
				if err != nil {
					return
				}
				go func(c net.Conn) {
					buf := make([]byte, 4096)
					c.SetReadDeadline(time.Now().Add(5 * time.Second))
					c.Read(buf)
					c.Write([]byte(c07ConcMarker))
					c.Close()
				}(c)
			}
		}()
		hello := func(uid []byte, sid uint32) []byte {
			ai := client.AuthInfo{UID: uid, SessionId: sid, ProxyMethod: "echo", EncryptionMethod: byte(sid % 4), ServerPubKey: pub,
				MockDomain: "www.bing.com", WorldState: common.WorldState{Rand: rand.Reader, Now: now}}
			c := &c07ConcCap{}
			var tr client.DirectTLS
			_, _ = tr.Handshake(c, ai)
			return append([]byte{}, c.buf.Bytes()...)
		}
		type out struct {
			bad     bool
			outcome string
		}
		outs := make([]out, per)
		var wg sync.WaitGroup
		start := make(chan struct{})
		for k := 0; k < per; k++ {
			bad := k%2 == 0
			uid := good
			if bad {
				uid = []byte(fmt.Sprintf("c07-conc-bad-%03d", k))
			}
			pkt := hello(uid, uint32(r*1000+k+1))
			link := vn.NewLink(false, false)
			wg.Add(1)
			go func(k int, bad bool) {
				defer wg.Done()
				<-start
				go dispatchConnection(link.End(1), sta)
				peer := link.End(0)
				peer.Write(pkt)
				peer.SetReadDeadline(time.Now().Add(10 * time.Second))
				buf := make([]byte, 256)
				n, _ := peer.Read(buf)
				o := "silent"
				switch {
				case n > 0 && bytes.HasPrefix(buf[:n], []byte("HTTP/1.1 418")):
					o = "redirect"
				case n >= 3 && buf[0] == 0x16 && buf[1] == 0x03:
					o = "reply"
				case n > 0:
					o = "other"
				}
				outs[k] = out{bad, o}
				peer.Close()
			}(k, bad)
		}
		close(start)
		wg.Wait()
		nb, ng := 0, 0
		for k, o := range outs {
			if o.bad {
				nb++
				if o.outcome == "reply" {
					res.Violate("accepted:uid-not-configured:concurrent", fmt.Sprintf("round %d: connection %d presented a UID that is neither configured nor in any database, together with %d connections of an authorised user: it was answered with a ServerHello instead of being handed to the redirect target",
						r, k, per/2), map[string]any{"round": r, "connection": k, "concurrent": per})
					break
				}
			} else {
				ng++
				if o.outcome != "reply" {
					res.Stat("authorised_not_served", 1)
					res.Note("round %d: authorised connection %d ended as %s", r, k, o.outcome)
				}
			}
		}
		res.Count(fmt.Sprintf("round %d", r), true)
		res.Stat("conc_bad", int64(nb))
		res.Stat("conc_good", int64(ng))
		redirL.Close()
		proxyL.Close()
	}
}
