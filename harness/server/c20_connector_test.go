package server

// C20 - behavioural meaning of BrowserSig over retries. "BrowserSig is the browser you want to appear to be using ...
// chrome, firefox and safari are supported" (README): the configured signature must be the one on the wire for every
// connection attempt of the session, not only the first. The scripts of spec/ClientSession.tla (failed dials / failed
// handshakes, as enumerated by TLC) are replayed by the shared connector driver of C01 (c01_connector_test.go: real
// client.MakeSession, scripted dialer, a server that reads every ClientHello and classifies its signature, virtual clock),
// with one difference: the configuration reaches MakeSession the documented way, as a JSON file or as a semicolon
// option string through client.ParseConfig + ProcessRawConfig.
// Judged here: a configured firefox or safari signature stays for every attempt; a configured chrome signature is on
// the first ClientHello. The chrome -> firefox fallback after a failed handshake is not in the README; it is the
// declared intent of connector.go ("As a backwards compatibility feature, if we fail to connect using chrome signature,
// retry with firefox") - chrome scripts are replayed with it as the model, deviations on later attempts are logged.

import (
	"encoding/base64"
	"encoding/json"
	"fmt"
	"io"
	"os"
	"path/filepath"
	"strings"
	"testing"
	"testing/synctest"

	"github.com/cbeuw/Cloak/internal/client"
	kit "github.com/cbeuw/Cloak/internal/verifkit"
	log "github.com/sirupsen/logrus"
)

func c20connText(raw *client.RawConfig, syntax string) string {
	type kv struct {
		k string
		v any
	}
	opts := []kv{{"ServerName", raw.ServerName}, {"ProxyMethod", raw.ProxyMethod}, {"EncryptionMethod", raw.EncryptionMethod},
		{"UID", base64.StdEncoding.EncodeToString(raw.UID)}, {"PublicKey", base64.StdEncoding.EncodeToString(raw.PublicKey)},
		{"NumConn", raw.NumConn}, {"LocalHost", raw.LocalHost}, {"LocalPort", raw.LocalPort}, {"RemoteHost", raw.RemoteHost},
		{"RemotePort", raw.RemotePort}, {"BrowserSig", raw.BrowserSig}, {"Transport", raw.Transport}}
	if syntax == "json" {
		m := map[string]any{}
		for _, o := range opts {
			m[o.k] = o.v
		}
		b, _ := json.MarshalIndent(m, "", "  ")
		return string(b)
	}
	var parts []string
	for _, o := range opts {
		if s, ok := o.v.(string); ok {
			s = strings.ReplaceAll(strings.ReplaceAll(strings.ReplaceAll(s, `\`, `\\`), `=`, `\=`), `;`, `\;`)
			parts = append(parts, o.k+"="+s)
		} else {
			parts = append(parts, fmt.Sprintf("%s=%v", o.k, o.v))
		}
	}
	return strings.Join(parts, ";")
}

func TestVerifC20Connector(t *testing.T) {
	log.SetOutput(io.Discard)
	log.SetLevel(log.PanicLevel)
	res := kit.NewResult()
	defer func() { res.Save(true) }()
	dir := t.TempDir()
	syntax, text := "json", ""
	c01connRawHook = func(raw *client.RawConfig) (*client.RawConfig, error) {
		text = c20connText(raw, syntax)
		arg := text
		if syntax == "json" {
			arg = filepath.Join(dir, "ckclient.json")
			if err := os.WriteFile(arg, []byte(text), 0o600); err != nil {
				return nil, err
			}
		}
		return client.ParseConfig(arg)
	}
	defer func() { c01connRawHook = nil }()
	both := kit.EnvInt("VERIF_C20_BOTH_SYNTAXES", 0) == 1
	run := func(b *c01connBehaviour, line []byte, syn string) {
		syntax = syn
		var key, what string
		var table []string
		synctest.Test(t, func(t *testing.T) { key, what, table = c01connRun(b) })
		failedHS := 0
		for _, a := range b.Attempts {
			if a.Kind == "hs" && !a.Ok {
				failedHS++
			}
		}
		res.Count(fmt.Sprintf("connector|%s|%s", syn, line), failedHS > 0)
		res.Stat("connector:scripts", 1)
		res.Stat("connector:syntax="+syn, 1)
		replay := map[string]any{"connector": map[string]any{"behaviour": b, "syntax": syn, "config_text": text, "table": table}}
		switch {
		case key == "connector:signature" && (b.Browser0 != "chrome" || strings.HasPrefix(what, "handshake attempt 1 ")):
			res.Violate("BrowserSig:"+b.Browser0+":retry-signature", fmt.Sprintf("BrowserSig=%s (%s): %s", b.Browser0, syn, what), replay)
		case key == "connector:signature":
			res.Stat("undoc:chrome-fallback-deviates-from-connector.go-comment", 1)
		case key != "":
			res.Stat("connector:other-verdict:"+key, 1) // early-return, stuck, no-pause, dead-session: C01's business
		case len(table) > 0 && strings.HasPrefix(table[len(table)-1], "DIVERGED"):
			res.Stat("connector:diverged", 1)
			res.Note("%s", table[len(table)-1])
		}
	}
	if rp := kit.Env("VERIF_REPLAY", ""); rp != "" {
		var rf struct {
			Replay struct {
				Connector struct {
					Behaviour c01connBehaviour `json:"behaviour"`
					Syntax    string           `json:"syntax"`
				} `json:"connector"`
			} `json:"replay"`
		}
		raw, err := os.ReadFile(rp)
		if err != nil {
			t.Fatal(err)
		}
		if err := json.Unmarshal(raw, &rf); err != nil {
			t.Fatal(err)
		}
		syntax = rf.Replay.Connector.Syntax
		var key, what string
		var table []string
		synctest.Test(t, func(t *testing.T) { key, what, table = c01connRun(&rf.Replay.Connector.Behaviour) })
		fmt.Printf("configuration (%s):\n%s\n", syntax, text)
		for _, l := range table {
			fmt.Println(l)
		}
		fmt.Printf("REPLAY-RESULT key=%q what=%q\n", key, what)
		return
	}
	idx := 0
	err := kit.ReadLines(kit.Env("VERIF_IN", ""), func(line []byte) error {
		var b c01connBehaviour
		if err := json.Unmarshal(line, &b); err != nil {
			return err
		}
		idx++
		if both {
			run(&b, line, "json")
			run(&b, line, "ssv")
		} else {
			run(&b, line, []string{"json", "ssv"}[(idx+int(kit.Seed()))%2])
		}
		return nil
	})
	if err != nil {
		t.Fatal(err)
	}
}
