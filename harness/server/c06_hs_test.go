package server

// Handshake rig shared by C06 and C07 (both overlay c06_*.go and c07_*.go: prefixes=("c06","c07","shared")).
//
// One rig = one hand-built *State (no DNS, no InitState) whose clock the harness sets, a real userPanel over a
// real LocalManager on a temporary bolt file seeded with one user per user state, a vnet redirect target that
// records what it receives and answers with a marker, one vnet proxy target per served proxy method that
// answers with its method name, and a throw-away crypto/tls terminator for the CDN transport.
// The server side of every handshake is the real dispatchConnection reading from a vnet link.

import (
	"bytes"
	"crypto"
	"crypto/ecdsa"
	"crypto/elliptic"
	crand "crypto/rand"
	"crypto/tls"
	"crypto/x509"
	"crypto/x509/pkix"
	"errors"
	"fmt"
	"io"
	"math/big"
	"net"
	"os"
	"path/filepath"
	"strings"
	"sync"
	"sync/atomic"
	"time"

	"github.com/cbeuw/Cloak/internal/client"
	"github.com/cbeuw/Cloak/internal/common"
	"github.com/cbeuw/Cloak/internal/ecdh"
	mux "github.com/cbeuw/Cloak/internal/multiplex"
	"github.com/cbeuw/Cloak/internal/server/usermanager"
	kit "github.com/cbeuw/Cloak/internal/verifkit"
	log "github.com/sirupsen/logrus"
)

const c06RedirMarker = "VERIF-REDIRECT-TARGET no cloak here\r\n"
const c06ProxyMarker = "VERIF-PROXY-TARGET "

func c06Quiet() {
	log.SetOutput(io.Discard)
	log.SetLevel(log.PanicLevel)
	log.StandardLogger().ExitFunc = func(int) {}
}

// c06WaitInput: the driver starts `go test` while TLC is still running, so that compiling and linking overlap
// with model checking; the test then waits for "<input>.ready" ("go" or "abort").
func c06WaitInput(path string) bool {
	if kit.Env("VERIF_IN_WAIT", "") == "" {
		return true
	}
	for i := 0; i < 20*60*20; i++ {
		if b, err := os.ReadFile(path + ".ready"); err == nil && len(b) > 0 {
			return strings.HasPrefix(string(b), "go")
		}
		time.Sleep(50 * time.Millisecond)
	}
	return false
}

// ------------------------------------------------------------------------------------ abstract case (TLC)

type c06Case struct {
	Scope    string   `json:"scope"`
	W        int      `json:"w"`
	UID      string   `json:"uid"`
	MLen     int      `json:"mlen"`
	Served   bool     `json:"served"`
	Enc      string   `json:"enc"`
	Sid      string   `json:"sid"`
	Unord    bool     `json:"unord"`
	Sig      string   `json:"sig"`
	Tr       string   `json:"tr"`
	Sni      string   `json:"sni"`
	UState   string   `json:"ustate"`
	Off      int      `json:"off"`
	RightKey bool     `json:"rightKey"`
	Cache    string   `json:"cache"` // history of the UID at the server: none | idle | busy (C07)
	Admin    bool     `json:"admin"` // server configuration (C07): an AdminUID is configured
	NB       int      `json:"nb"`    // number of configured BypassUID entries
	Tick     bool     `json:"tick"`  // a usage-upload tick has happened since the authorisation was withdrawn (C07)
	K        int      `json:"k"`     // Scope "multi" (C06): connections of one session arriving together
	Probe    string   `json:"probe"` // which UID the packet names: std | zero | ones | bypass | admin | variant | random
	Tampers  []string `json:"tampers"`
	Verdict  string   `json:"verdict"`
	API      bool     `json:"api"`
}

func (c *c06Case) sig() string {
	return fmt.Sprintf("%s/%s/%d/%v/%s/%s/%v/%s/%s/%s/%s/%d/%v/%s", c.Scope, c.UID, c.MLen, c.Served, c.Enc, c.Sid, c.Unord,
		c.Sig, c.Tr, c.Sni, c.UState, c.Off, c.RightKey, strings.Join(c.Tampers, "+"))
}

// concrete values of the abstract option classes
var c06SidValue = map[string]uint32{"zero": 0, "mid": 0x01020304, "max": 0xffffffff}

// several spellings ProcessRawConfig accepts for one method: the statement quantifies over the configuration
var c06EncNames = map[string][]string{
	"plain":     {"plain", "PLAIN"},
	"aes256gcm": {"aes-gcm", "aes-256-gcm", "AES-256-GCM"},
	"aes128gcm": {"aes-128-gcm"},
	"chacha20":  {"chacha20-poly1305", "ChaCha20-Poly1305"},
}
var c06EncByte = map[string]byte{"plain": mux.EncryptionMethodPlain, "aes256gcm": mux.EncryptionMethodAES256GCM,
	"aes128gcm": mux.EncryptionMethodAES128GCM, "chacha20": mux.EncryptionMethodChaha20Poly1305}

// served proxy methods by length class, and names of the same lengths the server does not serve
var c06Served = map[int][]string{1: {"s", "x"}, 11: {"shadowsocks", "openvpn-udp"}, 12: {"shadowsocks2", "tor-bridge-a"}}
var c06Unserved = map[int][]string{1: {"q"}, 11: {"shadowsockz"}, 12: {"shadowsocks3"}}

// ------------------------------------------------------------------------------------ targets

type c06RedirRec struct {
	mu     sync.Mutex
	data   []byte
	closed bool
}

func (r *c06RedirRec) bytes() []byte {
	r.mu.Lock()
	defer r.mu.Unlock()
	return append([]byte{}, r.data...)
}

type c06ProxyDialer struct {
	m     map[string]*kit.VListener
	dials atomic.Int64
}

func (d *c06ProxyDialer) Dial(network, address string) (net.Conn, error) {
	d.dials.Add(1)
	l := d.m[address]
	if l == nil {
		return nil, errors.New("verif: no such proxy target " + address)
	}
	return l.Dial(network, address)
}

type c06Addr struct{ network, s string }

func (a c06Addr) Network() string { return a.network }
func (a c06Addr) String() string  { return a.s }

// c06RecConn records what dispatchConnection reads (the first packet as the server saw it).
type c06RecConn struct {
	net.Conn
	mu  sync.Mutex
	buf []byte
}

func (c *c06RecConn) Read(p []byte) (int, error) {
	n, err := c.Conn.Read(p)
	if n > 0 {
		c.mu.Lock()
		if len(c.buf) < 8192 {
			c.buf = append(c.buf, p[:n]...)
		}
		c.mu.Unlock()
	}
	return n, err
}

// firstPacket cuts the recording at the end of the first packet with the harness's own framing rule.
func (c *c06RecConn) firstPacket() []byte {
	c.mu.Lock()
	defer c.mu.Unlock()
	n := c06FirstPacketLen(c.buf)
	if n <= 0 || n > len(c.buf) {
		return nil
	}
	return append([]byte{}, c.buf[:n]...)
}

// c06FirstPacketLen: length of the first packet at the start of b, 0 if incomplete (own rule: a TLS record is
// 5 + the 16-bit length; an HTTP request ends with the first empty line).
func c06FirstPacketLen(b []byte) int {
	if len(b) == 0 {
		return 0
	}
	if b[0] == 0x16 {
		if len(b) < 5 {
			return 0
		}
		n := 5 + int(b[3])<<8 + int(b[4])
		if len(b) < n {
			return 0
		}
		return n
	}
	if i := bytes.Index(b, []byte("\r\n\r\n")); i >= 0 {
		return i + 4
	}
	return 0
}

// c06ParkManager is the real user manager; when armed for a UID, AuthoriseNewSession waits until k calls for that
// UID are in flight or a timeout passes, and then asks the real manager.  It widens the window between "the session
// is not in the table" and "the session is registered" without touching Cloak: if that window is one critical
// section (as it must be) only one call ever arrives and the timeout ends the wait.
type c06ParkManager struct {
	usermanager.UserManager
	mu      sync.Mutex
	uid     []byte
	k       int
	arrived int
	maxSeen int
	ch      chan struct{}
	timeout time.Duration
}

func (m *c06ParkManager) arm(uid []byte, k int, timeout time.Duration) {
	m.mu.Lock()
	m.uid, m.k, m.arrived, m.maxSeen, m.ch, m.timeout = append([]byte{}, uid...), k, 0, 0, make(chan struct{}), timeout
	m.mu.Unlock()
}

func (m *c06ParkManager) disarm() int {
	m.mu.Lock()
	defer m.mu.Unlock()
	m.uid = nil
	return m.maxSeen
}

func (m *c06ParkManager) AuthoriseNewSession(uid []byte, ai usermanager.AuthorisationInfo) error {
	m.mu.Lock()
	if m.uid != nil && len(uid) >= 16 && bytes.Equal(uid[:16], m.uid) {
		m.arrived++
		if m.arrived > m.maxSeen {
			m.maxSeen = m.arrived
		}
		if m.arrived == m.k {
			close(m.ch)
		}
		ch, to := m.ch, m.timeout
		m.mu.Unlock()
		select {
		case <-ch:
		case <-time.After(to):
		}
	} else {
		m.mu.Unlock()
	}
	return m.UserManager.AuthoriseNewSession(uid, ai)
}

// ------------------------------------------------------------------------------------ rig

type c06Rig struct {
	id      int
	vn      *kit.VNet
	sta     *State
	pv      crypto.PrivateKey
	pub     crypto.PublicKey
	pubRaw  []byte
	wrongPb []byte // public key of some other static key
	now     atomic.Pointer[time.Time] // the server clock (any time.Time: centuries away from the stamps too)
	clockOverride *time.Time
	nextStamp     *int64 // C07: the next captured base packet seals exactly this stamp
	base    time.Time
	redirL  *kit.VListener
	redirCh chan *c06RedirRec
	proxy   *c06ProxyDialer
	mgr     usermanager.UserManager
	park    *c06ParkManager // what the panel talks to: the real manager, able to hold AuthoriseNewSession
	uids    map[string][]byte // label -> UID
	dbPath  string
	stuck   atomic.Int64
	panics  atomic.Int64
	lastPan atomic.Value
}

func (r *c06Rig) serverNow() time.Time { return *r.now.Load() }
func (r *c06Rig) setNow(t time.Time)   { r.now.Store(&t) }

var c06CertOnce sync.Once
var c06Cert tls.Certificate

func c06TLSConfig() *tls.Config {
	c06CertOnce.Do(func() {
		k, err := ecdsa.GenerateKey(elliptic.P256(), crand.Reader)
		if err != nil {
			panic(err)
		}
		tmpl := &x509.Certificate{SerialNumber: big.NewInt(1), Subject: pkix.Name{CommonName: "verif-cdn"},
			NotBefore: time.Now().Add(-time.Hour), NotAfter: time.Now().Add(240 * time.Hour),
			KeyUsage: x509.KeyUsageDigitalSignature, ExtKeyUsage: []x509.ExtKeyUsage{x509.ExtKeyUsageServerAuth},
			DNSNames: []string{"verif-cdn"}}
		der, err := x509.CreateCertificate(crand.Reader, tmpl, tmpl, &k.PublicKey, k)
		if err != nil {
			panic(err)
		}
		c06Cert = tls.Certificate{Certificate: [][]byte{der}, PrivateKey: k}
	})
	return &tls.Config{Certificates: []tls.Certificate{c06Cert}}
}

var c06UserLabels = []string{"bypass:u1", "bypass:u2", "dbok:u1", "dbok:u2", "nocredit:u1", "nocredit:u2", "expired:u1", "expired:u2",
	"unknown:u1", "unknown:u2", "admin"}

// c06RigOverride lets a replay rebuild the server a saved packet was sealed for.
var c06RigOverride struct {
	pv   []byte
	uids map[string][]byte
}

func c06NewRig(id int, rng *kit.Rng, dir string) (*c06Rig, error) {
	r := &c06Rig{id: id, vn: kit.NewVNet(), uids: map[string][]byte{}, redirCh: make(chan *c06RedirRec, 256)}
	var keySrc io.Reader = crand.Reader
	if len(c06RigOverride.pv) == 32 {
		keySrc = bytes.NewReader(c06RigOverride.pv) // GenerateKey clamps what it reads; a saved key is clamped already
	}
	pv, pub, err := ecdh.GenerateKey(keySrc)
	if err != nil {
		return nil, err
	}
	r.pv, r.pub, r.pubRaw = pv, pub, append([]byte{}, ecdh.Marshal(pub)...)
	_, wpub, _ := ecdh.GenerateKey(crand.Reader)
	r.wrongPb = append([]byte{}, ecdh.Marshal(wpub)...)
	r.base = time.Unix(time.Now().Unix(), 0)
	r.setNow(r.base)
	world := common.WorldState{Rand: crand.Reader, Now: r.serverNow}

	for i, l := range c06UserLabels {
		u := rng.Bytes(16)
		switch (id + i) % 5 { // UIDs with NUL / 0xff bytes at the ends are UIDs too
		case 1:
			u[0], u[15] = 0, 0
		case 2:
			u[15] = 0xff
		case 3:
			u[0] = 0
		}
		if o, ok := c06RigOverride.uids[l]; ok && len(o) == 16 {
			u = o
		}
		r.uids[l] = u
	}
	r.dbPath = filepath.Join(dir, fmt.Sprintf("rig%d.db", id))
	os.Remove(r.dbPath)
	mgr, err := usermanager.MakeLocalManager(r.dbPath, world)
	if err != nil {
		return nil, err
	}
	r.mgr = mgr
	r.park = &c06ParkManager{UserManager: mgr}
	i64, i32 := usermanager.JustInt64, usermanager.JustInt32
	far := r.base.Add(10 * 365 * 24 * time.Hour).Unix()
	seed := func(label string, upC, downC, expiry int64) error {
		return mgr.WriteUserInfo(usermanager.UserInfo{UID: r.uids[label], SessionsCap: i32(1000), UpRate: i64(1 << 30), DownRate: i64(1 << 30),
			UpCredit: i64(upC), DownCredit: i64(downC), ExpiryTime: i64(expiry)})
	}
	for _, e := range []error{
		seed("dbok:u1", 1<<40, 1<<40, far), seed("dbok:u2", 1<<40, 1<<40, far),
		seed("nocredit:u1", 0, 1<<40, far), seed("nocredit:u2", 1<<40, 0, far),
		seed("expired:u1", 1<<40, 1<<40, r.base.Unix()-1000), seed("expired:u2", 1<<40, 1<<40, 1),
	} {
		if e != nil {
			return nil, e
		}
	}

	r.redirL = r.vn.Listen()
	r.proxy = &c06ProxyDialer{m: map[string]*kit.VListener{}}
	book := map[string]net.Addr{}
	for _, names := range c06Served {
		for _, name := range names {
			addr := c06Addr{"tcp", "proxy-of-" + name}
			book[name] = addr
			l := r.vn.Listen()
			r.proxy.m[addr.s] = l
			go c06ProxyLoop(l, name)
		}
	}
	sta := &State{
		ProxyBook:   book,
		ProxyDialer: r.proxy,
		WorldState:  world,
		AdminUID:    r.uids["admin"],
		BypassUID:   map[[16]byte]struct{}{},
		StaticPv:    pv,
		RedirHost:   &net.IPAddr{IP: net.IPv4(127, 0, 0, 1)},
		RedirPort:   "80",
		RedirDialer: r.redirL,
		UsedRandom:  map[[32]byte]int64{},
		Panel:       MakeUserPanel(r.park),
	}
	// as InitState does: the configured bypass UIDs and the admin UID are bypass users
	for _, l := range []string{"bypass:u1", "bypass:u2", "admin"} {
		var a [16]byte
		copy(a[:], r.uids[l])
		sta.BypassUID[a] = struct{}{}
	}
	r.sta = sta
	go r.redirLoop()
	return r, nil
}

func (r *c06Rig) close() {
	r.redirL.Close()
	for _, l := range r.proxy.m {
		l.Close()
	}
	if c, ok := r.mgr.(io.Closer); ok {
		c.Close()
	}
	os.Remove(r.dbPath)
}

func (r *c06Rig) redirLoop() {
	for {
		c, err := r.redirL.Accept()
		if err != nil {
			return
		}
		rec := &c06RedirRec{}
		select {
		case r.redirCh <- rec:
		default:
		}
		go func() {
			buf := make([]byte, 8192)
			first := true
			for {
				n, err := c.Read(buf)
				if n > 0 {
					rec.mu.Lock()
					rec.data = append(rec.data, buf[:n]...)
					rec.mu.Unlock()
					if first {
						first = false
						c.Write([]byte(c06RedirMarker))
					}
				}
				if err != nil {
					rec.mu.Lock()
					rec.closed = true
					rec.mu.Unlock()
					c.Close()
					return
				}
			}
		}()
	}
}

func c06ProxyLoop(l *kit.VListener, name string) {
	for {
		c, err := l.Accept()
		if err != nil {
			return
		}
		go func() {
			buf := make([]byte, 4096)
			for {
				n, err := c.Read(buf)
				if n > 0 {
					c.Write([]byte(c06ProxyMarker + name + "\n"))
				}
				if err != nil {
					c.Close()
					return
				}
			}
		}()
	}
}

// takeRedirect returns the record of a redirect connection opened since the last call (nil if none).
func (r *c06Rig) takeRedirect() *c06RedirRec {
	var last *c06RedirRec
	for {
		select {
		case rec := <-r.redirCh:
			last = rec
		default:
			return last
		}
	}
}

// serve runs the real dispatchConnection on conn; done is closed when it returns.
func (r *c06Rig) serve(conn net.Conn) chan struct{} {
	done := make(chan struct{})
	go func() {
		defer close(done)
		defer func() {
			if p := recover(); p != nil {
				// in the server this would have taken the whole process down; here the peer is hung up on so
				// that the presentation ends, and the panic is what gets reported
				r.panics.Add(1)
				r.lastPan.Store(fmt.Sprint(p))
				conn.Close()
			}
		}()
		dispatchConnection(conn, r.sta)
	}()
	return done
}

func (r *c06Rig) waitDone(done chan struct{}, d time.Duration) bool {
	select {
	case <-done:
		return true
	case <-time.After(d):
		r.stuck.Add(1)
		return false
	}
}

// freshCacheState: the same server with an empty replay cache (replay is C08's subject) and no user panel, for
// calling AuthFirstPacket on a packet that was (or will be) shown to dispatchConnection as well.
func (r *c06Rig) freshCacheState() *State {
	s := r.sta
	return &State{ProxyBook: s.ProxyBook, WorldState: s.WorldState, AdminUID: s.AdminUID, BypassUID: s.BypassUID,
		StaticPv: s.StaticPv, UsedRandom: map[[32]byte]int64{}}
}

func (r *c06Rig) clearReplayCache() {
	r.sta.usedRandomM.Lock()
	r.sta.UsedRandom = map[[32]byte]int64{}
	r.sta.usedRandomM.Unlock()
}

// serverSession looks the session up the way dispatchConnection registered it.
func (r *c06Rig) serverSession(uid []byte, sid uint32) *mux.Session {
	var a [16]byte
	copy(a[:], uid)
	p := r.sta.Panel
	p.activeUsersM.RLock()
	u := p.activeUsers[a]
	p.activeUsersM.RUnlock()
	if u == nil {
		return nil
	}
	u.sessionsM.RLock()
	defer u.sessionsM.RUnlock()
	return u.sessions[sid]
}

// ------------------------------------------------------------------------------------ client side

type c06Conc struct {
	K        int    `json:"k"`
	Method   string `json:"method"`
	EncName  string `json:"enc_name"`
	Sid      uint32 `json:"sid"`
	SNI      string `json:"sni"`
	Sig      string `json:"sig"`
	Tr       string `json:"transport"`
	NumConn  int    `json:"num_conn"`
	OffNs    int64  `json:"server_minus_stamp_ns"`
	ClientNs int64  `json:"client_clock_ns"`
	Stamp    *int64 `json:"client_stamp_s,omitempty"` // overrides ClientNs: the client clock is exactly this many seconds
	Label    string `json:"user"`
}

// offsets (server clock minus the sealed whole-second timestamp) per abstract tick offset, W = 2:
// |off| < W <=> inside the strict 180 s window
func c06OffsetChoices(off int, w int) []time.Duration {
	tol := timestampTolerance
	switch {
	case off == 0:
		return []time.Duration{0, time.Second, -time.Second, 60 * time.Second, -60 * time.Second, 500 * time.Millisecond, -1}
	case off > 0 && off < w: // the client is ahead of the server, inside
		return []time.Duration{-(tol - time.Second), -(tol - 1), -(tol - time.Second), -(tol - time.Millisecond), -(tol / 2)}
	case off < 0 && -off < w:
		return []time.Duration{tol - time.Second, tol - 1, tol - time.Second, tol - time.Millisecond, tol / 2}
	case off == w:
		return []time.Duration{-tol}
	case off == -w:
		return []time.Duration{tol}
	case off > w:
		return []time.Duration{-(tol + time.Second), -(tol + 1), -(2 * tol), -(24 * time.Hour)}
	default:
		return []time.Duration{tol + time.Second, tol + 1, 2 * tol, 24 * time.Hour}
	}
}

func c06UserLabel(cs *c06Case) string {
	if cs.UState == "admin" {
		return "admin"
	}
	u := cs.UID
	if u != "u1" && u != "u2" {
		u = "u1"
	}
	return cs.UState + ":" + u
}

func (r *c06Rig) concretise(cs *c06Case, k int, rng *kit.Rng) c06Conc {
	c := c06Conc{K: k, Sid: c06SidValue[cs.Sid], Sig: cs.Sig, Tr: cs.Tr, Label: c06UserLabel(cs)}
	names := c06Served[cs.MLen]
	if !cs.Served {
		names = c06Unserved[cs.MLen]
	}
	c.Method = names[k%len(names)]
	en := c06EncNames[cs.Enc]
	c.EncName = en[k%len(en)]
	if cs.Sni == "random" {
		c.SNI = []string{"random", "RANDOM", "Random"}[k%3]
	} else if cs.Sni == "address" {
		// an address literal is a legal ServerName; uTLS (RFC 6066) then sends no server_name extension at all
		c.SNI = []string{"203.0.113.7", "2001:db8::1:7", "10.0.0.1"}[k%3]
	} else {
		c.SNI = []string{"www.bing.com", "d2jkinvisak5y9.cloudfront.net", "a.io", "xn--80ak6aa92e.com"}[k%4]
	}
	if k%3 == 1 { // spellings ProcessRawConfig accepts
		c.Sig = strings.ToUpper(c.Sig[:1]) + c.Sig[1:]
		if c.Tr == "cdn" {
			c.Tr = "CDN"
		}
	}
	c.NumConn = []int{4, 1, 0}[k%3] // 0 = singleplex
	offs := c06OffsetChoices(cs.Off, cs.W)
	c.OffNs = int64(offs[k%len(offs)])
	c.ClientNs = r.base.UnixNano() + int64(rng.Intn(1000))*int64(time.Millisecond) + int64(rng.Intn(7200))*int64(time.Second)
	return c
}

// clientSetup goes through the real configuration path: RawConfig -> ProcessRawConfig.
func (r *c06Rig) clientSetup(cs *c06Case, c c06Conc) (remote client.RemoteConnConfig, auth client.AuthInfo, err error) {
	pk := r.pubRaw
	if !cs.RightKey {
		pk = r.wrongPb
	}
	raw := client.RawConfig{
		ServerName: c.SNI, ProxyMethod: c.Method, EncryptionMethod: c.EncName, UID: r.uids[c.Label], PublicKey: pk,
		NumConn: c.NumConn, LocalHost: "127.0.0.1", LocalPort: "1984", RemoteHost: "127.0.0.1", RemotePort: "443",
		UDP: cs.Unord, BrowserSig: c.Sig, Transport: c.Tr,
	}
	ct := time.Unix(0, c.ClientNs)
	if c.Stamp != nil { // any int64 number of seconds can be put on the wire
		ct = time.Unix(*c.Stamp, 0)
	}
	_, remote, auth, err = raw.ProcessRawConfig(common.WorldState{Rand: crand.Reader, Now: func() time.Time { return ct }})
	if err != nil {
		return
	}
	auth.SessionId = c.Sid // ck-client draws it per session; the statement quantifies over all of them
	// the server clock relative to the whole-second stamp the client seals
	if c.Stamp != nil {
		r.setNow(r.base.Add(time.Duration(c.OffNs))) // an ordinary server clock; the caller may move it afterwards
	} else {
		r.setNow(time.Unix(ct.UTC().Unix(), 0).Add(time.Duration(c.OffNs)))
	}
	return
}

// serverConn is the server end of a link: for the CDN transport a TLS terminator stands in front of Cloak.
func (r *c06Rig) serverConn(link *kit.VLink, cdn bool) net.Conn {
	if cdn {
		return tls.Server(link.End(1), c06TLSConfig())
	}
	return link.End(1)
}

// captureFirstPacket runs the real client handshake against a peer that reads one first packet and hangs up.
func (r *c06Rig) captureFirstPacket(cs *c06Case, c c06Conc) (pkt []byte, auth client.AuthInfo, err error) {
	remote, auth, err := r.clientSetup(cs, c)
	if err != nil {
		return nil, auth, err
	}
	cdn := strings.EqualFold(c.Tr, "cdn")
	link := r.vn.NewLink(false, false)
	sc := r.serverConn(link, cdn)
	got := make(chan []byte, 1)
	go func() {
		var b []byte
		buf := make([]byte, 4096)
		sc.SetReadDeadline(time.Now().Add(10 * time.Second))
		for c06FirstPacketLen(b) == 0 {
			n, err := sc.Read(buf)
			b = append(b, buf[:n]...)
			if err != nil {
				break
			}
		}
		sc.Close()
		link.End(1).Close()
		if n := c06FirstPacketLen(b); n > 0 {
			got <- b[:n]
		} else {
			got <- nil
		}
	}()
	tr := remote.Transport.CreateTransport()
	link.End(0).SetReadDeadline(time.Now().Add(10 * time.Second))
	_, _ = tr.Handshake(link.End(0), auth)
	link.End(0).Close()
	pkt = <-got
	if pkt == nil {
		return nil, auth, errors.New("the client wrote no complete first packet")
	}
	return pkt, auth, nil
}

// c06Probe opens one stream over a client-side session built from what the handshake returned and sends an
// HTTP request: the admin API answers it with an HTTP response, a proxy session relays it to the proxy target of
// the method the server recovered, which answers with its name.  Data only flows if key and cipher agree.
func c06Probe(conn net.Conn, enc byte, key [32]byte, sid uint32, unordered bool) (string, error) {
	obf, err := mux.MakeObfuscator(enc, key)
	if err != nil {
		return "", err
	}
	cs := mux.MakeSession(sid, mux.SessionConfig{Obfuscator: obf, Unordered: unordered, MsgOnWireSizeLimit: appDataMaxLength})
	cs.AddConnection(conn)
	defer cs.Close()
	st, err := cs.OpenStream()
	if err != nil {
		return "", err
	}
	if _, err := st.Write([]byte("GET /admin/users HTTP/1.1\r\nHost: verif\r\n\r\n")); err != nil {
		return "", err
	}
	type rr struct {
		s   string
		err error
	}
	ch := make(chan rr, 1)
	go func() {
		buf := make([]byte, 4096)
		n, err := st.Read(buf)
		ch <- rr{string(buf[:n]), err}
	}()
	select {
	case x := <-ch:
		return x.s, x.err
	case <-time.After(5 * time.Second):
		return "", errors.New("no answer on the stream within 5 s")
	}
}
