//go:build verif

package server

// X03 - the server configuration is honoured as documented.
// B1: every row of the decision table enumerated by TLC from spec/ServerConfigGen.tla (abstract raw
//     options + the documents' expectation) is concretised into a real configuration text (a JSON file,
//     or the text itself handed over like `ck-server -c <content>`), pushed through the real ParseConfig +
//     InitState, and every processed field of State is compared with the expectation. IsBypass is queried
//     with members, non-members, prefixes and extensions. Outputs the documents are silent about
//     ("undocumented") are logged, never judged. Invalid rows must produce an error, not a panic.
// The columns Mode / SSRemote and the listening sockets belong to cmd/ck-server: see
// harness/cmd/ck-server/x03_main_test.go.

import (
	"bytes"
	"encoding/base64"
	"encoding/json"
	"fmt"
	"io"
	"net"
	"os"
	"path/filepath"
	"sort"
	"strings"
	"sync"
	"testing"
	"time"

	"github.com/cbeuw/Cloak/internal/common"
	kit "github.com/cbeuw/Cloak/internal/verifkit"
	log "github.com/sirupsen/logrus"
)

const x03U = "undocumented"

// columns that reach ParseConfig + InitState, in the order of the spec (Order)
var x03Order = []string{"AdminUID", "DatabasePath", "BypassUID", "PrivateKey", "KeepAlive", "ProxyBook", "RedirAddr",
	"CncMode", "Source", "BindAddr"}

var x03Base = map[string]string{"ProxyBook": "example", "RedirAddr": "v4", "PrivateKey": "set", "AdminUID": "set",
	"BypassUID": "one", "DatabasePath": "set", "KeepAlive": "absent", "CncMode": "absent", "Source": "file",
	"BindAddr": "example", "Mode": "standalone", "SSRemote": "na"}

// values of the wrong shape (spec: Invalid, outcome "documented-reject")
var x03Invalid = map[string]map[string]bool{
	"ProxyBook":  {"len0": true, "len1": true, "len3": true, "noport": true, "badport": true, "notarray": true, "goodbad": true},
	"PrivateKey": {"absent": true, "empty": true, "badb64": true},
	"BypassUID":  {"badb64": true, "notlist": true},
	"KeepAlive":  {"str": true},
	"BindAddr":   {"notlist": true},
}

type x03Exp struct {
	Outcome    string   `json:"outcome"`
	RedirHost  string   `json:"redirHost"`
	RedirPort  string   `json:"redirPort"`
	ProxyBook  []string `json:"proxyBook"`
	Bypass     []string `json:"bypass"`
	PrivKey    string   `json:"privKey"`
	AdminUID   string   `json:"adminUID"`
	KeepAlive  string   `json:"keepAlive"`
	Panel      string   `json:"panel"`
	DbFile     string   `json:"dbFile"`
	BindRaw    string   `json:"bindRaw"`
	Listen     []string `json:"listen"`
	Listenable string   `json:"listenable"`
	PluginBook []string `json:"pluginBook"`
}

type x03Row struct {
	Cfg map[string]string `json:"cfg"`
	Exp x03Exp            `json:"exp"`
}

// x03Conc is one concretisation of a row: a pure function of (row, Variant).
type x03Conc struct {
	Variant   uint64            `json:"variant"`
	Names     map[string]string `json:"names"` // n1 n2 n3 M1 p1 P1 -> proxy method names
	Addrs     map[string]string `json:"addrs"` // a1 a2 a3 a6 -> IP:PORT
	Host4     string            `json:"host4"`
	Host6     string            `json:"host6"`
	RedirPort string            `json:"redirPort"`
	PrivKey   []byte            `json:"privateKey"`
	BadKeyLen int               `json:"badKeyLen"`
	UIDs      map[string][]byte `json:"uids"` // b1 b2 b3 admin
	BadUIDLen int               `json:"badUIDLen"`   // length of the odd BypassUID entry
	BadAdmLen int               `json:"badAdminLen"` // length of the odd AdminUID
	KeepAlive int               `json:"keepAlive"`
	PortP     int               `json:"portP"`
	PortQ     int               `json:"portQ"`
	Outsider  []byte            `json:"outsider"` // a UID that is configured nowhere
}

func x03Concretise(row *x03Row, variant uint64) x03Conc {
	r := kit.NewRng(int64(variant))
	pick := func(xs ...string) string { return xs[r.Intn(len(xs))] }
	picki := func(xs ...int) int { return xs[r.Intn(len(xs))] }
	c := x03Conc{Variant: variant, Names: map[string]string{}, Addrs: map[string]string{}, UIDs: map[string][]byte{}}
	pool := []string{"shadowsocks", "openvpn", "tor", "wireguard", "socks5", "v2ray"}
	perm := r.Perm(len(pool))
	c.Names["n1"], c.Names["n2"], c.Names["n3"] = pool[perm[0]], pool[perm[1]], pool[perm[2]]
	c.Names["M1"] = pick("Shadowsocks", "OpenVPN", "TOR", "wireGuard")
	pair := [][2]string{{"ss", "SS"}, {"tor", "Tor"}, {"openvpn", "OpenVPN"}}[r.Intn(3)]
	c.Names["p1"], c.Names["P1"] = pair[0], pair[1]
	c.Addrs["a1"] = pick("127.0.0.1:8388", "127.0.0.1:51443", "10.0.0.5:1080")
	c.Addrs["a2"] = pick("127.0.0.1:8389", "127.0.0.1:1194", "192.168.1.2:53")
	c.Addrs["a3"] = pick("127.0.0.1:9001", "127.0.0.2:65535")
	c.Addrs["a6"] = pick("[::1]:8388", "[2001:db8::5]:1080")
	c.Host4 = pick("1.2.3.4", "203.0.113.9", "127.0.0.1")
	c.Host6 = pick("2001:db8::1", "a:b:c:d::", "::1", "2001:db8:0:1:2:3:4:5")
	c.RedirPort = pick("80", "443", "8080", "65535")
	c.PrivKey = r.Bytes(32)
	switch row.Cfg["PrivateKey"] {
	case "short":
		c.BadKeyLen = picki(1, 16, 31)
	case "long":
		c.BadKeyLen = picki(33, 64)
	}
	for _, n := range []string{"b1", "b2", "b3", "admin"} {
		c.UIDs[n] = r.Bytes(16)
	}
	if r.Intn(3) == 0 {
		// a UID may end in a zero byte: its 15-byte prefix is still a different (and invalid) UID
		c.UIDs["b1"][15] = 0
		c.UIDs["admin"][15] = 0
	}
	c.BadUIDLen = picki(1, 8, 15)
	if row.Cfg["BypassUID"] == "long" {
		c.BadUIDLen = picki(17, 24, 32)
	}
	c.BadAdmLen = picki(1, 8, 15)
	if row.Cfg["AdminUID"] == "long" {
		c.BadAdmLen = picki(17, 24, 32)
	}
	switch row.Cfg["KeepAlive"] {
	case "neg":
		c.KeepAlive = picki(-1, -15, -2147483648)
	case "pos", "str":
		c.KeepAlive = picki(1, 15, 60, 7200, 86400)
	}
	c.PortP = picki(8443, 2053, 4430)
	c.PortQ = picki(8080, 2083)
	c.Outsider = r.Bytes(16)
	return c
}

func x03B64(b []byte) string { return base64.StdEncoding.EncodeToString(b) }

// x03Resize gives the first n bytes of b, continued with a pattern when n > len(b).
func x03Resize(b []byte, n int) []byte {
	out := make([]byte, n)
	for i := range out {
		if i < len(b) {
			out[i] = b[i]
		} else {
			out[i] = byte(0xA0 + i)
		}
	}
	return out
}

// x03Resize32: the odd key as a 32-byte array would hold it (cut, or continued with zeros)
func x03Resize32(key []byte, n int) []byte {
	out := make([]byte, 32)
	copy(out, x03Resize(key, n))
	return out
}

func x03BindList(v string, c *x03Conc) any {
	p, q := c.PortP, c.PortQ
	switch v {
	case "empty":
		return []string{}
	case "example":
		return []string{":443", ":80"}
	case "all":
		return []string{fmt.Sprintf(":%d", p)}
	case "any4":
		return []string{fmt.Sprintf("0.0.0.0:%d", p)}
	case "any6":
		return []string{fmt.Sprintf("[::]:%d", p)}
	case "both":
		return []string{fmt.Sprintf("0.0.0.0:%d", p), fmt.Sprintf("[::]:%d", p)}
	case "ip4":
		return []string{fmt.Sprintf("127.0.0.1:%d", p)}
	case "ip6":
		return []string{fmt.Sprintf("[::1]:%d", p)}
	case "otherport":
		return []string{fmt.Sprintf(":%d", q)}
	case "noport":
		return []string{"127.0.0.1"}
	case "badport":
		return []string{"127.0.0.1:99999"}
	case "notlist":
		return fmt.Sprintf(":%d", p)
	}
	return nil
}

// x03Options returns the concrete option values of the configuration text (absent ones are missing).
func x03Options(row *x03Row, c *x03Conc, dbDir string) map[string]any {
	o := map[string]any{}
	entry := func(tok string) (string, []string) {
		f := strings.Split(tok, "/")
		return c.Names[f[0]], []string{f[1], c.Addrs[f[2]]}
	}
	book := map[string]any{}
	switch v := row.Cfg["ProxyBook"]; v {
	case "absent":
		book = nil
	case "empty":
	case "tcp":
		book[c.Names["n1"]] = []string{"tcp", c.Addrs["a1"]}
	case "udp":
		book[c.Names["n1"]] = []string{"udp", c.Addrs["a1"]}
	case "example":
		for _, t := range []string{"n1/tcp/a1", "n2/udp/a2", "n3/tcp/a3"} {
			k, e := entry(t)
			book[k] = e
		}
	case "v6addr":
		book[c.Names["n1"]] = []string{"tcp", c.Addrs["a6"]}
	case "upnet":
		book[c.Names["n1"]] = []string{"TCP", c.Addrs["a1"]}
	case "mixedname":
		book[c.Names["M1"]] = []string{"tcp", c.Addrs["a1"]}
	case "casepair":
		book[c.Names["p1"]] = []string{"tcp", c.Addrs["a1"]}
		book[c.Names["P1"]] = []string{"tcp", c.Addrs["a2"]}
	case "len0":
		book[c.Names["n1"]] = []string{}
	case "len1":
		book[c.Names["n1"]] = []string{"tcp"}
	case "len3":
		book[c.Names["n1"]] = []string{"tcp", c.Addrs["a1"], c.Addrs["a2"]}
	case "unknownnet":
		book[c.Names["n1"]] = []string{"sctp", c.Addrs["a1"]}
	case "emptynet":
		book[c.Names["n1"]] = []string{"", c.Addrs["a1"]}
	case "emptyaddr":
		book[c.Names["n1"]] = []string{"tcp", ""}
	case "noport":
		book[c.Names["n1"]] = []string{"tcp", "127.0.0.1"}
	case "badport":
		book[c.Names["n1"]] = []string{"tcp", "127.0.0.1:99999"}
	case "notarray":
		book[c.Names["n1"]] = "tcp"
	case "goodbad":
		book[c.Names["n1"]] = []string{"tcp", c.Addrs["a1"]}
		book[c.Names["n2"]] = []string{"udp"}
	default:
		panic("unknown ProxyBook class " + v)
	}
	if book != nil {
		o["ProxyBook"] = book
	}
	switch v := row.Cfg["RedirAddr"]; v {
	case "absent":
	case "empty":
		o["RedirAddr"] = ""
	case "v4":
		o["RedirAddr"] = c.Host4
	case "v4port":
		o["RedirAddr"] = c.Host4 + ":" + c.RedirPort
	case "v6bare":
		o["RedirAddr"] = c.Host6
	case "v6port":
		o["RedirAddr"] = "[" + c.Host6 + "]:" + c.RedirPort
	case "v6bracket":
		o["RedirAddr"] = "[" + c.Host6 + "]"
	case "v4badport":
		o["RedirAddr"] = c.Host4 + ":http2"
	default:
		panic("unknown RedirAddr class " + v)
	}
	switch v := row.Cfg["PrivateKey"]; v {
	case "absent":
	case "empty":
		o["PrivateKey"] = ""
	case "set":
		o["PrivateKey"] = x03B64(c.PrivKey)
	case "short", "long":
		o["PrivateKey"] = x03B64(x03Resize(c.PrivKey, c.BadKeyLen))
	case "badb64":
		o["PrivateKey"] = "---Private key here---" // the placeholder of example_config/ckserver.json
	default:
		panic("unknown PrivateKey class " + v)
	}
	switch v := row.Cfg["AdminUID"]; v {
	case "absent":
	case "empty":
		o["AdminUID"] = ""
	case "set":
		o["AdminUID"] = x03B64(c.UIDs["admin"])
	case "short", "long":
		o["AdminUID"] = x03B64(x03Resize(c.UIDs["admin"], c.BadAdmLen))
	case "badb64":
		o["AdminUID"] = "---Admin UID here (optional)---"
	default:
		panic("unknown AdminUID class " + v)
	}
	u := func(n string) string { return x03B64(c.UIDs[n]) }
	switch v := row.Cfg["BypassUID"]; v {
	case "absent":
	case "empty":
		o["BypassUID"] = []string{}
	case "one":
		o["BypassUID"] = []string{u("b1")}
	case "many":
		o["BypassUID"] = []string{u("b1"), u("b2"), u("b3")}
	case "dup":
		o["BypassUID"] = []string{u("b1"), u("b2"), u("b1")}
	case "withadmin":
		o["BypassUID"] = []string{u("b1"), u("admin")}
	case "short", "long":
		o["BypassUID"] = []string{x03B64(x03Resize(c.UIDs["b1"], c.BadUIDLen))}
	case "badb64":
		o["BypassUID"] = []string{"---Bypass UID here---"}
	case "goodshort":
		o["BypassUID"] = []string{u("b1"), x03B64(x03Resize(c.UIDs["b2"], 15))}
	case "notlist":
		o["BypassUID"] = u("b1")
	default:
		panic("unknown BypassUID class " + v)
	}
	switch v := row.Cfg["DatabasePath"]; v {
	case "absent":
	case "empty":
		o["DatabasePath"] = ""
	case "set":
		o["DatabasePath"] = filepath.Join(dbDir, "userinfo.db")
	case "baddir":
		o["DatabasePath"] = filepath.Join(dbDir, "no-such-directory", "userinfo.db")
	default:
		panic("unknown DatabasePath class " + v)
	}
	switch v := row.Cfg["KeepAlive"]; v {
	case "absent":
	case "zero":
		o["KeepAlive"] = 0
	case "neg", "pos":
		o["KeepAlive"] = c.KeepAlive
	case "str":
		o["KeepAlive"] = fmt.Sprint(c.KeepAlive)
	default:
		panic("unknown KeepAlive class " + v)
	}
	switch v := row.Cfg["CncMode"]; v {
	case "absent":
	case "false", "true":
		o["CncMode"] = v == "true"
	default:
		panic("unknown CncMode class " + v)
	}
	if v := row.Cfg["BindAddr"]; v != "absent" {
		b := x03BindList(v, c)
		if b == nil {
			panic("unknown BindAddr class " + v)
		}
		o["BindAddr"] = b
	}
	return o
}

// x03Obs is what the real code did with one configuration text.
type x03Obs struct {
	Panic    string
	Err      string
	Stage    string
	Raw      RawConfig
	Sta      *State
	IsBypass map[string]bool // query name -> answer
}

type x03Query struct {
	Name   string
	UID    []byte
	Member bool
	Class  string // "" (16 bytes) or "length"
}

// x03Queries: for the expected set E (16-byte UIDs): every member, every member with one bit flipped, an outsider,
// and - exact lengths - prefixes and extensions of members, the empty UID.
func x03Queries(row *x03Row, c *x03Conc) []x03Query {
	var qs []x03Query
	member := map[string]bool{}
	for _, tok := range row.Exp.Bypass {
		member[string(c.UIDs[tok])] = true
	}
	add := func(name string, uid []byte, class string) {
		qs = append(qs, x03Query{Name: name, UID: uid, Member: len(uid) == 16 && member[string(uid)], Class: class})
	}
	for _, tok := range []string{"b1", "b2", "b3", "admin"} {
		uid := c.UIDs[tok]
		add(tok, uid, "")
		fl := append([]byte{}, uid...)
		fl[int(c.Variant%16)] ^= 1 << (c.Variant % 8)
		add(tok+"^bit", fl, "")
		if member[string(uid)] {
			add(tok+"[:15]", uid[:15], "length")
			add(tok+"+1byte", append(append([]byte{}, uid...), byte(c.Variant)), "length")
			add(tok+"+16bytes", append(append([]byte{}, uid...), c.Outsider...), "length")
		}
	}
	add("outsider", c.Outsider, "")
	add("empty", []byte{}, "length")
	return qs
}

var x03World = common.WorldOfTime(time.Unix(1700000000, 0))

func x03Process(arg string, row *x03Row, c *x03Conc) (obs x03Obs) {
	defer func() {
		if p := recover(); p != nil {
			obs.Panic = fmt.Sprint(p)
		}
	}()
	obs.Stage = "ParseConfig"
	raw, err := ParseConfig(arg)
	if err != nil {
		obs.Err = err.Error()
		return
	}
	obs.Raw = raw
	obs.Stage = "InitState"
	sta, err := InitState(raw, x03World)
	if err != nil {
		obs.Err = err.Error()
		if sta != nil && sta.Panel != nil {
			x03CloseManager(sta)
		}
		return
	}
	obs.Sta = sta
	obs.Stage = "IsBypass"
	obs.IsBypass = map[string]bool{}
	for _, q := range x03Queries(row, c) {
		obs.IsBypass[q.Name] = sta.IsBypass(q.UID)
	}
	obs.Stage = "done"
	return
}

func x03CloseManager(sta *State) {
	if sta == nil || sta.Panel == nil {
		return
	}
	if cl, ok := sta.Panel.Manager.(interface{ Close() error }); ok {
		_ = cl.Close()
	}
}

type x03Finding struct{ Key, What string }

func x03FirstInvalid(row *x03Row) string {
	for _, name := range x03Order {
		if x03Invalid[name][row.Cfg[name]] {
			return name + ":" + row.Cfg[name]
		}
	}
	return "none"
}

func x03FirstDeviation(row *x03Row) string {
	for _, name := range append([]string{"Source"}, x03Order...) {
		if row.Cfg[name] != x03Base[name] {
			return name + ":" + row.Cfg[name]
		}
	}
	return "baseline"
}

// x03Judge compares one observation with the documented expectation of the row.
func x03Judge(row *x03Row, c *x03Conc, obs *x03Obs, dbPath string, stat func(string), verbose bool) (fs []x03Finding, table []string) {
	e := &row.Exp
	add := func(key, format string, a ...any) { fs = append(fs, x03Finding{key, fmt.Sprintf(format, a...)}) }
	tab := func(format string, a ...any) {
		if verbose {
			table = append(table, fmt.Sprintf(format, a...))
		}
	}
	if obs.Panic != "" {
		tab("PANIC in %s: %s", obs.Stage, obs.Panic)
		add("panic:"+obs.Stage, "%s panicked: %s", obs.Stage, obs.Panic)
		return
	}
	tab("outcome: expected %s, observed err=%q (stage %s)", e.Outcome, obs.Err, obs.Stage)
	switch e.Outcome {
	case "documented-reject":
		if obs.Err == "" {
			bad := x03FirstInvalid(row)
			add("accepted-invalid:"+bad, "a configuration with %s (%s) was accepted without an error", bad, x03Concrete(row, c, strings.Split(bad, ":")[0]))
		}
		return
	case "documented-accept":
		if obs.Err != "" {
			add("rejected-valid:"+x03FirstDeviation(row), "a well-formed, documented configuration (%s) was rejected by %s: %s", x03Concrete(row, c, strings.Split(x03FirstDeviation(row), ":")[0]), obs.Stage, obs.Err)
			return
		}
	case x03U:
		// no expectation beyond "no panic": what the code does is an observation
		for _, nv := range []string{"RedirAddr=absent", "RedirAddr=empty", "RedirAddr=v6bracket", "RedirAddr=v4badport", "ProxyBook=upnet",
			"ProxyBook=unknownnet", "ProxyBook=emptynet", "ProxyBook=emptyaddr", "PrivateKey=short", "PrivateKey=long",
			"BypassUID=short", "BypassUID=long", "BypassUID=goodshort",
			"AdminUID=short", "AdminUID=long", "AdminUID=badb64", "DatabasePath=baddir", "CncMode=true"} {
			if f := strings.Split(nv, "="); row.Cfg[f[0]] == f[1] {
				stat(fmt.Sprintf("undoc:%s->accepted=%v", nv, obs.Err == ""))
			}
		}
		if obs.Err != "" {
			return
		}
	default:
		panic("unknown outcome class " + e.Outcome)
	}
	sta := obs.Sta
	const tag = ""
	field := func(name, opt, sub string, documented bool, want, got any) {
		if !documented {
			tab("%s (%s=%s): undocumented, observed %v", name, opt, row.Cfg[opt], got)
			return
		}
		okv := fmt.Sprint(want) == fmt.Sprint(got)
		tab("%s (%s=%s): expected %v observed %v ok=%v", name, opt, row.Cfg[opt], want, got, okv)
		if !okv {
			add("field:"+name+sub, "%s=%s (%s): documented %s is %v, the processed state has %v", opt, row.Cfg[opt], x03Concrete(row, c, opt), name, want, got)
		}
	}
	// RedirAddr
	wantHost := map[string]string{"h4": c.Host4, "h6": c.Host6}[e.RedirHost]
	gotHost := "<nil>"
	if sta.RedirHost != nil {
		gotHost = sta.RedirHost.String()
	}
	if e.RedirHost != x03U {
		wantHost = net.ParseIP(wantHost).String()
	}
	field("RedirHost", "RedirAddr", "", e.RedirHost != x03U, wantHost, gotHost)
	wantPort := ""
	if e.RedirPort == "P" {
		wantPort = c.RedirPort
	}
	field("RedirPort", "RedirAddr", "", e.RedirPort != x03U, fmt.Sprintf("%q", wantPort), fmt.Sprintf("%q", sta.RedirPort))
	// ProxyBook: method name -> network + address
	bookDoc := true
	var wantBook []string
	for _, tok := range e.ProxyBook {
		if tok == x03U {
			bookDoc = false
			continue
		}
		f := strings.Split(tok, "/")
		var canon string
		if f[1] == "udp" {
			a, err := net.ResolveUDPAddr("udp", c.Addrs[f[2]])
			if err != nil {
				panic(err)
			}
			canon = a.String()
		} else {
			a, err := net.ResolveTCPAddr("tcp", c.Addrs[f[2]])
			if err != nil {
				panic(err)
			}
			canon = a.String()
		}
		wantBook = append(wantBook, c.Names[f[0]]+" -> "+f[1]+" "+canon)
	}
	var gotBook []string
	for k, a := range sta.ProxyBook {
		if a == nil {
			gotBook = append(gotBook, k+" -> <nil>")
		} else {
			gotBook = append(gotBook, k+" -> "+a.Network()+" "+a.String())
		}
	}
	sort.Strings(wantBook)
	sort.Strings(gotBook)
	bookSub := ""
	if v := row.Cfg["ProxyBook"]; v == "mixedname" || v == "casepair" {
		bookSub = ":name-case"
	}
	field("ProxyBook", "ProxyBook", bookSub, bookDoc, wantBook, gotBook)
	// PrivateKey
	gotPv := "<none>"
	if p, ok := sta.StaticPv.(*[32]byte); ok && p != nil {
		gotPv = fmt.Sprintf("%x", p[:])
	}
	field("PrivateKey", "PrivateKey", "", e.PrivKey != x03U, fmt.Sprintf("%x", c.PrivKey), gotPv)
	if e.PrivKey == x03U {
		stat(fmt.Sprintf("undoc:PrivateKey=%s->key %s, StaticPv=%s", row.Cfg["PrivateKey"],
			map[bool]string{true: "cut to 32 bytes", false: "zero-padded to 32 bytes"}[c.BadKeyLen > 32],
			map[bool]string{true: "that", false: "something else"}[gotPv == fmt.Sprintf("%x", x03Resize32(c.PrivKey, c.BadKeyLen))]))
	}
	// AdminUID
	wantAdmin := ""
	if e.AdminUID == "admin" {
		wantAdmin = fmt.Sprintf("%x", c.UIDs["admin"])
	}
	field("AdminUID", "AdminUID", "", e.AdminUID != x03U, wantAdmin, fmt.Sprintf("%x", sta.AdminUID))
	// BypassUID: the processed set is exactly the configured bypass UIDs (+ the valid AdminUID)
	bypassDoc := !x03Has(e.Bypass, x03U)
	var wantSet, gotSet []string
	for _, tok := range e.Bypass {
		if tok == x03U {
			continue
		}
		wantSet = append(wantSet, fmt.Sprintf("%x", c.UIDs[tok]))
	}
	for k := range sta.BypassUID {
		gotSet = append(gotSet, fmt.Sprintf("%x", k[:]))
	}
	sort.Strings(wantSet)
	sort.Strings(gotSet)
	field("BypassUID", "BypassUID", tag, bypassDoc, wantSet, gotSet)
	if !bypassDoc {
		stat(fmt.Sprintf("undoc:BypassUID=%s->the odd entry, %s to 16 bytes, is an unrestricted user=%v", row.Cfg["BypassUID"],
			map[bool]string{true: "cut", false: "zero-padded"}[row.Cfg["BypassUID"] == "long"], x03OddMember(row, c, sta)))
	}
	// KeepAlive: handed to net.Dialer.KeepAlive, for which "disabled" is any negative duration
	gotKA := time.Duration(0)
	d, isDialer := sta.ProxyDialer.(*net.Dialer)
	if isDialer {
		gotKA = d.KeepAlive
	}
	if !isDialer {
		field("KeepAlive", "KeepAlive", "", true, "a *net.Dialer", fmt.Sprintf("%T", sta.ProxyDialer))
	} else if e.KeepAlive == "N" {
		field("KeepAlive", "KeepAlive", "", true, time.Duration(c.KeepAlive)*time.Second, gotKA)
	} else {
		field("KeepAlive", "KeepAlive", "", true, "disabled (negative period)", map[bool]string{true: "disabled (negative period)", false: "enabled: " + gotKA.String()}[gotKA < 0])
	}
	// Panel manager kind, database file
	gotPanel := "<nil>"
	if sta.Panel != nil {
		switch t := fmt.Sprintf("%T", sta.Panel.Manager); t {
		case "*usermanager.localManager":
			gotPanel = "local"
		case "*usermanager.Voidmanager":
			gotPanel = "void"
		default:
			gotPanel = t
		}
	}
	field("Panel", "DatabasePath", tag, e.Panel != x03U, e.Panel, gotPanel)
	if e.DbFile == "created" || e.DbFile == "untouched" {
		_, err := os.Stat(dbPath)
		field("DatabasePath", "DatabasePath", tag, true, e.DbFile, map[bool]string{true: "created", false: "untouched"}[err == nil])
	}
	// BindAddr: the list reaches RawConfig verbatim
	wantBind := []string{}
	if l, ok := x03BindList(e.BindRaw, c).([]string); ok {
		wantBind = l
	}
	gotBind := obs.Raw.BindAddr
	if gotBind == nil {
		gotBind = []string{}
	}
	field("BindAddr", "BindAddr", "", true, wantBind, gotBind)
	// IsBypass(u) <=> u in the configured set
	// IsBypass(u) <=> u in the configured set, for UIDs (16 bytes). What IsBypass answers for an argument of another
	// length is documented nowhere (Cloak itself only asks about 16-byte UIDs): recorded, not judged.
	for _, q := range x03Queries(row, c) {
		got := obs.IsBypass[q.Name]
		if q.Class != "" {
			kind := q.Name
			if i := strings.IndexAny(kind, "[+"); i > 0 {
				kind = "member" + kind[i:]
			}
			tab("IsBypass(%s = %x): %d bytes, undocumented, observed %v", q.Name, q.UID, len(q.UID), got)
			stat(fmt.Sprintf("undoc:IsBypass(%s)->%v", kind, got))
			continue
		}
		if !bypassDoc {
			tab("IsBypass(%s = %x): the set is undocumented for this row, observed %v", q.Name, q.UID, got)
			continue
		}
		tab("IsBypass(%s = %x): expected %v observed %v", q.Name, q.UID, q.Member, got)
		if got != q.Member {
			add("bypass:membership", "IsBypass(%x) [%s, %d bytes] = %v; configured unrestricted users: %v", q.UID, q.Name, len(q.UID), got, wantSet)
		}
	}
	// a wrong-length AdminUID, if accepted, must not make anybody an unrestricted user
	if bypassDoc && (row.Cfg["AdminUID"] == "short" || row.Cfg["AdminUID"] == "long") {
		var padded [16]byte
		copy(padded[:], x03Resize(c.UIDs["admin"], c.BadAdmLen))
		if !bytes.Equal(padded[:], c.UIDs["admin"]) || !x03Has(e.Bypass, "admin") {
			got := sta.IsBypass(padded[:])
			tab("IsBypass(%x) [the %d-byte AdminUID cut/padded to 16 bytes]: expected false observed %v", padded, c.BadAdmLen, got)
			if got {
				add("bypass:membership"+tag, "IsBypass(%x) = true: the %d-byte AdminUID, cut/padded to 16 bytes, became an unrestricted user", padded, c.BadAdmLen)
			}
		}
	}
	return
}

// x03OddMember: is the cut / zero-padded form of the BypassUID entry of another length in the processed set?
func x03OddMember(row *x03Row, c *x03Conc, sta *State) bool {
	odd := x03Resize(c.UIDs["b1"], c.BadUIDLen)
	if row.Cfg["BypassUID"] == "goodshort" {
		odd = x03Resize(c.UIDs["b2"], 15)
	}
	var k [16]byte
	copy(k[:], odd)
	_, ok := sta.BypassUID[k]
	return ok
}

func x03Has(xs []string, x string) bool {
	for _, y := range xs {
		if y == x {
			return true
		}
	}
	return false
}

func x03Concrete(row *x03Row, c *x03Conc, opt string) string {
	if opt == "Source" {
		return "the configuration text itself as the argument, like ck-server -c <content>"
	}
	if v, ok := x03Options(row, c, "DIR")[opt]; ok {
		b, _ := json.Marshal(v)
		return string(b)
	}
	return "key absent"
}

type x03Case struct {
	Row  x03Row  `json:"row"`
	Conc x03Conc `json:"concretisation"`
	Text string  `json:"configuration"`
}

// x03Run evaluates one row under one concretisation in a fresh directory below dir.
func x03Run(dir string, row *x03Row, variant uint64, stat func(string), verbose bool) (fs []x03Finding, cs x03Case, table []string) {
	c := x03Concretise(row, variant)
	work, err := os.MkdirTemp(dir, "case-")
	if err != nil {
		panic(err)
	}
	defer os.RemoveAll(work)
	opts := x03Options(row, &c, work)
	js, err := json.MarshalIndent(opts, "", "  ")
	if err != nil {
		panic(err)
	}
	cs = x03Case{Row: *row, Conc: c, Text: string(js)}
	arg := string(js)
	if row.Cfg["Source"] == "file" {
		arg = filepath.Join(work, "ckserver.json")
		if err := os.WriteFile(arg, js, 0o600); err != nil {
			panic(err)
		}
	}
	obs := x03Process(arg, row, &c)
	dbPath, _ := opts["DatabasePath"].(string)
	fs, table = x03Judge(row, &c, &obs, dbPath, stat, verbose)
	x03CloseManager(obs.Sta)
	return
}

func x03Sig(row *x03Row) (sig string, nontrivial bool) {
	var sb strings.Builder
	for _, name := range x03Order {
		sb.WriteString(row.Cfg[name])
		sb.WriteByte('|')
		if row.Cfg[name] != x03Base[name] {
			nontrivial = true
		}
	}
	return sb.String(), nontrivial
}

func x03Quiet() {
	log.SetOutput(io.Discard)
	log.StandardLogger().ExitFunc = func(int) { panic("logrus exit") }
}

// x03Scratch prefers a memory file system: every evaluation writes a file and may create a database.
func x03Scratch(t *testing.T) string {
	if d, err := os.MkdirTemp("/dev/shm", "x03-"); err == nil {
		t.Cleanup(func() { os.RemoveAll(d) })
		return d
	}
	return t.TempDir()
}

func x03DecodeRow(line []byte) (row x03Row, err error) {
	dec := json.NewDecoder(bytes.NewReader(line))
	dec.DisallowUnknownFields()
	if err = dec.Decode(&row); err != nil {
		return
	}
	for _, name := range x03Order {
		if _, ok := row.Cfg[name]; !ok {
			return row, fmt.Errorf("row lacks option %s", name)
		}
	}
	if len(row.Cfg) != len(x03Base) {
		return row, fmt.Errorf("row has %d options, the harness knows %d", len(row.Cfg), len(x03Base))
	}
	return
}

func TestVerifX03Replay(t *testing.T) {
	x03Quiet()
	res := kit.NewResult()
	defer func() { res.Save(true) }()
	if rp := kit.Env("VERIF_REPLAY", ""); rp != "" {
		x03ReplayFile(t, x03Scratch(t), rp)
		return
	}
	x03WaitReady(t, kit.Env("VERIF_IN", ""))
	variants := kit.EnvInt("VERIF_X03_VARIANTS", 1)
	seed := uint64(kit.Seed())
	type job struct {
		idx  uint64
		line []byte
	}
	jobs := make(chan job, 256)
	nw := kit.EnvInt("VERIF_X03_WORKERS", 8)
	var wg sync.WaitGroup
	var mu sync.Mutex
	var firstErr error
	for w := 0; w < nw; w++ {
		wg.Add(1)
		dir := x03Scratch(t)
		go func() {
			defer wg.Done()
			stats := map[string]int64{}
			stat := func(s string) { stats[s]++ }
			for j := range jobs {
				row, err := x03DecodeRow(j.line)
				if err != nil {
					mu.Lock()
					if firstErr == nil {
						firstErr = fmt.Errorf("row %d: %v", j.idx, err)
					}
					mu.Unlock()
					continue
				}
				sig, nontrivial := x03Sig(&row)
				for v := 0; v < variants; v++ {
					variant := seed*0x9E3779B97F4A7C15 + j.idx*1000003 + uint64(v)
					fs, cs, _ := x03Run(dir, &row, variant, stat, false)
					res.Count(sig, nontrivial)
					stats["outcome:"+row.Exp.Outcome]++
					if len(fs) > 0 {
						_, _, table := x03Run(dir, &row, variant, func(string) {}, true)
						for _, f := range fs {
							res.Violate(f.Key, f.What, map[string]any{"case": cs, "table": table})
						}
					}
					if j.idx%997 == 7 && v == 0 {
						res.Sample(cs, 4)
					}
				}
			}
			for k, n := range stats {
				res.Stat(k, n)
			}
		}()
	}
	idx := uint64(0)
	err := kit.ReadLines(kit.Env("VERIF_IN", ""), func(line []byte) error {
		idx++
		jobs <- job{idx, append([]byte{}, line...)}
		return nil
	})
	close(jobs)
	wg.Wait()
	if err == nil {
		err = firstErr
	}
	if err != nil {
		t.Fatal(err)
	}
	res.Stat("rows", int64(idx))
	// binding self-test: rows whose KeepAlive / RedirPort expectation is falsified on purpose must be noticed. The
	// outcome goes to the statistics only (tools/props/x03.py refuses to give a verdict if one is missed).
	if pp := kit.Env("VERIF_X03_PROBE", ""); pp != "" {
		dir := x03Scratch(t)
		err := kit.ReadLines(pp, func(line []byte) error {
			row, err := x03DecodeRow(line)
			if err != nil {
				return err
			}
			row.Exp.KeepAlive = "disabled"
			row.Exp.RedirPort = "none"
			row.Exp.Bypass = append(row.Exp.Bypass, "b3")
			res.Stat("probe:rows", 1)
			fs, _, _ := x03Run(dir, &row, seed, func(string) {}, false)
			seen := map[string]bool{}
			for _, f := range fs {
				seen[f.Key] = true
			}
			if seen["field:KeepAlive"] && seen["field:RedirPort"] && seen["field:BypassUID"] && seen["bypass:membership"] {
				res.Stat("probe:noticed", 1)
			}
			return nil
		})
		if err != nil {
			t.Fatal(err)
		}
	}
}

func x03ReplayFile(t *testing.T, dir, path string) {
	var rf struct {
		Replay struct {
			Case x03Case `json:"case"`
		} `json:"replay"`
	}
	raw, err := os.ReadFile(path)
	if err != nil {
		t.Fatal(err)
	}
	if err := json.Unmarshal(raw, &rf); err != nil {
		t.Fatal(err)
	}
	row := rf.Replay.Case.Row
	if row.Cfg == nil {
		t.Fatal("the replay file holds no server-state case (a case of cmd/ck-server? run it with X03's main replay)")
	}
	fs, cs, table := x03Run(dir, &row, rf.Replay.Case.Conc.Variant, func(string) {}, true)
	fmt.Println("configuration (" + row.Cfg["Source"] + "):\n" + cs.Text)
	for _, l := range table {
		fmt.Println(l)
	}
	if len(fs) == 0 {
		fmt.Println(`REPLAY-RESULT key="" what=""`)
	}
	for _, f := range fs {
		fmt.Printf("REPLAY-RESULT key=%q what=%q\n", f.Key, f.What)
	}
}

// x03WaitReady: the runner starts `go test` before TLC has produced the rows (the build overlaps the enumeration) and
// creates <input>.ready when the input files are complete, <input>.abort when there will be none.
func x03WaitReady(t *testing.T, path string) {
	if kit.EnvInt("VERIF_X03_WAIT", 0) == 0 {
		return
	}
	for i := 0; i < 20*3600; i++ {
		if _, err := os.Stat(path + ".ready"); err == nil {
			return
		}
		if _, err := os.Stat(path + ".abort"); err == nil {
			t.Fatal("the runner gave up before the rows were written")
		}
		time.Sleep(50 * time.Millisecond)
	}
	t.Fatal("no input after an hour")
}
