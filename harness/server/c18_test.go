package server

// C18 (second half) - no record that the admin API can create crashes the server when its owner
// connects: userPanel.GetUser -> AuthenticateUser -> mux.MakeValve on the caller's goroutine.
// Input: the behaviours TLC exported from spec/UserDBGen.tla (the same file the usermanager driver
// replays through the API). Every distinct record that occurs in an expected store after any step is
// created through the real APIRouter on a real bolt file, then its owner "connects" under recover.
// Decides: a panic. Logged only: the verdict of GetUser against the model's Connect().

import (
	"encoding/base64"
	"encoding/json"
	"fmt"
	"io"
	"math"
	"net/http/httptest"
	"os"
	"path/filepath"
	"runtime/debug"
	"strings"
	"testing"
	"time"

	"github.com/cbeuw/Cloak/internal/common"
	"github.com/cbeuw/Cloak/internal/server/usermanager"
	kit "github.com/cbeuw/Cloak/internal/verifkit"
	log "github.com/sirupsen/logrus"
)

var c18Fields = []string{"SessionsCap", "UpRate", "DownRate", "UpCredit", "DownCredit", "ExpiryTime"}

const (
	c18MaxV = 1000000 // spec/UserDB.tla MAXV
	c18MinV = -c18MaxV - 1
)

type c18Cell []int64

type c18Step struct {
	S map[string][]c18Cell `json:"s"`
	C map[string]string    `json:"c"`
}

type c18Behaviour struct {
	Steps []c18Step `json:"steps"`
}

func c18Concrete(x int64, field int) int64 {
	max, min := int64(math.MaxInt64), int64(math.MinInt64)
	if field == 0 {
		max, min = math.MaxInt32, math.MinInt32
	}
	switch {
	case x > c18MaxV/2:
		return max - (c18MaxV - x)
	case x < c18MinV/2:
		return min + (x - c18MinV)
	}
	return x
}

func c18RecString(rec []c18Cell) string {
	parts := []string{}
	for i, c := range rec {
		if len(c) == 1 {
			parts = append(parts, fmt.Sprintf("%s=%d", c18Fields[i], c18Concrete(c[0], i)))
		}
	}
	return "{" + strings.Join(parts, " ") + "}"
}

// c18Connect creates the record through the API on a fresh database and lets its owner connect.
func c18Connect(rec []c18Cell, tmp string) (verdict, pan string, table []string) {
	dir, err := os.MkdirTemp(tmp, "c18panel")
	if err != nil {
		panic(err)
	}
	defer os.RemoveAll(dir)
	mgr, err := usermanager.MakeLocalManager(filepath.Join(dir, "userinfo.db"), common.WorldOfTime(time.Unix(0, 0)))
	if err != nil {
		panic(err)
	}
	defer mgr.Close()
	uid := []byte{0xfb, 0xef, 0xbe, 0xff, 0xff, 0xfe, 0x00, 0x10, 0x83, 0x10, 0x51, 0x87, 0x20, 0x92, 0x8b, 0x3f}
	parts := []string{fmt.Sprintf(`"UID":%q`, base64.StdEncoding.EncodeToString(uid))}
	for i, c := range rec {
		if len(c) == 1 {
			parts = append(parts, fmt.Sprintf(`%q:%d`, c18Fields[i], c18Concrete(c[0], i)))
		}
	}
	body := "{" + strings.Join(parts, ",") + "}"
	rr := httptest.NewRecorder()
	usermanager.APIRouterOf(mgr).ServeHTTP(rr, httptest.NewRequest("POST", "http://srv/admin/users/"+base64.URLEncoding.EncodeToString(uid), strings.NewReader(body)))
	table = append(table, fmt.Sprintf("POST %s -> %d", body, rr.Code))
	if rr.Code >= 400 {
		return fmt.Sprintf("not-created:%d", rr.Code), "", table
	}
	panel := MakeUserPanel(mgr) // leaves one goroutine sleeping in its upload ticker; one per distinct record
	func() {
		defer func() {
			if r := recover(); r != nil {
				pan = fmt.Sprintf("%v", r)
				st := string(debug.Stack())
				switch {
				case strings.Contains(st, "ratelimit.") || strings.Contains(st, "MakeValve"):
					verdict = "panic:GetUser/MakeValve"
				case strings.Contains(st, "AuthenticateUser"):
					verdict = "panic:GetUser/AuthenticateUser"
				default:
					verdict = "panic:GetUser"
				}
			}
		}()
		user, err := panel.GetUser(uid)
		switch {
		case err == nil && user != nil:
			verdict = "ok"
		case err == nil:
			verdict = "nil-user"
		case err.Error() == "user has no positive bandwidth rate": // ErrNoBandwidth, absent before 53a2c2f
			verdict = "norate"
		case err == usermanager.ErrUserNotFound:
			verdict = "notfound"
		case err == usermanager.ErrNoUpCredit:
			verdict = "noup"
		case err == usermanager.ErrNoDownCredit:
			verdict = "nodown"
		case err == usermanager.ErrUserExpired:
			verdict = "expired"
		default:
			verdict = fmt.Sprintf("error:%v", err)
		}
		if user != nil {
			// what the first bytes of traffic do with the limiter
			user.valve.AddRx(1)
			user.valve.AddTx(1)
			user.valve.Nullify()
		}
	}()
	table = append(table, fmt.Sprintf("GetUser -> %s %s", verdict, pan))
	return verdict, pan, table
}

func TestVerifC18Connect(t *testing.T) {
	log.SetOutput(io.Discard)
	res := kit.NewResult()
	defer func() { res.Save(true) }()
	tmp := t.TempDir()
	if rp := kit.Env("VERIF_REPLAY", ""); rp != "" {
		var rf struct {
			Replay struct {
				Record []c18Cell `json:"record"`
			} `json:"replay"`
		}
		raw, err := os.ReadFile(rp)
		if err != nil {
			t.Fatal(err)
		}
		if err := json.Unmarshal(raw, &rf); err != nil {
			t.Fatal(err)
		}
		v, p, table := c18Connect(rf.Replay.Record, tmp)
		for _, l := range table {
			fmt.Println(l)
		}
		fmt.Printf("REPLAY-RESULT key=%q what=%q\n", v, p)
		return
	}
	seen := map[string]bool{}
	lines := 0
	err := kit.ReadLines(kit.Env("VERIF_IN", ""), func(line []byte) error {
		lines++
		var b c18Behaviour
		if err := json.Unmarshal(line, &b); err != nil {
			return err
		}
		for _, st := range b.Steps {
			for u, rec := range st.S {
				if len(rec) == 0 {
					continue
				}
				sig := fmt.Sprint(rec)
				if seen[sig] {
					continue
				}
				seen[sig] = true
				verdict, pan, table := c18Connect(rec, tmp)
				written := 0
				for _, c := range rec {
					written += len(c)
				}
				res.Count(sig, written < 6 || verdict != "ok")
				res.Stat("connect:"+verdict, 1)
				if strings.HasPrefix(verdict, "panic:") {
					res.Violate(verdict, fmt.Sprintf("the owner of record %s connects: %s", c18RecString(rec), pan),
						map[string]any{"record": rec, "table": table})
				} else if verdict != st.C[u] {
					res.Stat("consumer_result_diff", 1)
					res.Note("GetUser on %s: model %s, code %s", c18RecString(rec), st.C[u], verdict)
				}
				if len(seen)%97 == 1 {
					res.Sample(map[string]any{"record": c18RecString(rec), "verdict": verdict}, 4)
				}
			}
		}
		return nil
	})
	if err != nil {
		t.Fatal(err)
	}
	res.Stat("behaviours", int64(lines))
	res.Stat("distinct_records", int64(len(seen)))
}
