package server

// C18 (second half) - no record that the admin API can create crashes the server when its owner
// connects: userPanel.GetUser -> AuthenticateUser -> mux.MakeValve on the caller's goroutine.
// Input: the behaviours TLC exported from spec/UserDBGen.tla (the same file the usermanager driver
// replays through the API). Every distinct record that occurs in an expected store after any step is
// created through the real APIRouter on a real bolt file, then its owner "connects" under recover.
// Decides: a panic. Logged only: the verdict of GetUser against the model's Connect().

import (
	"encoding/base64"
	"encoding/json"
	"fmt"
	"io"
	"math"
	"net/http/httptest"
	"os"
	"path/filepath"
	"runtime"
	"runtime/debug"
	"strings"
	"sync"
	"testing"
	"time"

	"github.com/cbeuw/Cloak/internal/common"
	"github.com/cbeuw/Cloak/internal/server/usermanager"
	kit "github.com/cbeuw/Cloak/internal/verifkit"
	log "github.com/sirupsen/logrus"
)

var c18Fields = []string{"SessionsCap", "UpRate", "DownRate", "UpCredit", "DownCredit", "ExpiryTime"}

const (
	c18MaxV = 1000000 // spec/UserDB.tla MAXV
	c18MinV = -c18MaxV - 1
)

type c18Cell []int64

type c18Step struct {
	S map[string][]c18Cell `json:"s"`
	C map[string]string    `json:"c"`
}

type c18Behaviour struct {
	Steps []c18Step `json:"steps"`
}

func c18Concrete(x int64, field int) int64 {
	max, min := int64(math.MaxInt64), int64(math.MinInt64)
	if field == 0 {
		max, min = math.MaxInt32, math.MinInt32
	}
	switch {
	case x > c18MaxV/2:
		return max - (c18MaxV - x)
	case x < c18MinV/2:
		return min + (x - c18MinV)
	}
	return x
}

func c18RecString(rec []c18Cell) string {
	parts := []string{}
	for i, c := range rec {
		if len(c) == 1 {
			parts = append(parts, fmt.Sprintf("%s=%d", c18Fields[i], c18Concrete(c[0], i)))
		}
	}
	return "{" + strings.Join(parts, " ") + "}"
}

// c18Connect creates the record through the API on a fresh database and lets its owner connect.
func c18Connect(rec []c18Cell, tmp string) (verdict, pan string, table []string) {
	dir, err := os.MkdirTemp(tmp, "c18panel")
	if err != nil {
		panic(err)
	}
	defer os.RemoveAll(dir)
	mgr, err := usermanager.MakeLocalManager(filepath.Join(dir, "userinfo.db"), common.WorldOfTime(time.Unix(0, 0)))
	if err != nil {
		panic(err)
	}
	defer mgr.Close()
	uid := []byte{0xfb, 0xef, 0xbe, 0xff, 0xff, 0xfe, 0x00, 0x10, 0x83, 0x10, 0x51, 0x87, 0x20, 0x92, 0x8b, 0x3f}
	parts := []string{fmt.Sprintf(`"UID":%q`, base64.StdEncoding.EncodeToString(uid))}
	for i, c := range rec {
		if len(c) == 1 {
			parts = append(parts, fmt.Sprintf(`%q:%d`, c18Fields[i], c18Concrete(c[0], i)))
		}
	}
	body := "{" + strings.Join(parts, ",") + "}"
	rr := httptest.NewRecorder()
	usermanager.APIRouterOf(mgr).ServeHTTP(rr, httptest.NewRequest("POST", "http://srv/admin/users/"+base64.URLEncoding.EncodeToString(uid), strings.NewReader(body)))
	table = append(table, fmt.Sprintf("POST %s -> %d", body, rr.Code))
	if rr.Code >= 400 {
		return fmt.Sprintf("not-created:%d", rr.Code), "", table
	}
	panel := MakeUserPanel(mgr) // leaves one goroutine sleeping in its upload ticker; one per distinct record
	func() {
		defer func() {
			if r := recover(); r != nil {
				pan = fmt.Sprintf("%v", r)
				st := string(debug.Stack())
				switch {
				case strings.Contains(st, "ratelimit.") || strings.Contains(st, "MakeValve"):
					verdict = "panic:GetUser/MakeValve"
				case strings.Contains(st, "AuthenticateUser"):
					verdict = "panic:GetUser/AuthenticateUser"
				default:
					verdict = "panic:GetUser"
				}
			}
		}()
		user, err := panel.GetUser(uid)
		switch {
		case err == nil && user != nil:
			verdict = "ok"
		case err == nil:
			verdict = "nil-user"
		case err.Error() == "user has no positive bandwidth rate": // ErrNoBandwidth, absent before 53a2c2f
			verdict = "norate"
		case err == usermanager.ErrUserNotFound:
			verdict = "notfound"
		case err == usermanager.ErrNoUpCredit:
			verdict = "noup"
		case err == usermanager.ErrNoDownCredit:
			verdict = "nodown"
		case err == usermanager.ErrUserExpired:
			verdict = "expired"
		default:
			verdict = fmt.Sprintf("error:%v", err)
		}
		if user != nil {
			// what the first bytes of traffic do with the limiter
			user.valve.AddRx(1)
			user.valve.AddTx(1)
			user.valve.Nullify()
		}
	}()
	table = append(table, fmt.Sprintf("GetUser -> %s %s", verdict, pan))
	return verdict, pan, table
}

func TestVerifC18Connect(t *testing.T) {
	log.SetOutput(io.Discard)
	res := kit.NewResult()
	defer func() { res.Save(true) }()
	tmp := t.TempDir()
	if rp := kit.Env("VERIF_REPLAY", ""); rp != "" {
		var rf struct {
			Replay struct {
				Record []c18Cell `json:"record"`
			} `json:"replay"`
		}
		raw, err := os.ReadFile(rp)
		if err != nil {
			t.Fatal(err)
		}
		if err := json.Unmarshal(raw, &rf); err != nil {
			t.Fatal(err)
		}
		v, p, table := c18Connect(rf.Replay.Record, tmp)
		for _, l := range table {
			fmt.Println(l)
		}
		fmt.Printf("REPLAY-RESULT key=%q what=%q\n", v, p)
		return
	}
	seen := map[string]bool{}
	lines := 0
	err := kit.ReadLines(kit.Env("VERIF_IN", ""), func(line []byte) error {
		lines++
		var b c18Behaviour
		if err := json.Unmarshal(line, &b); err != nil {
			return err
		}
		for _, st := range b.Steps {
			for u, rec := range st.S {
				if len(rec) == 0 {
					continue
				}
				sig := fmt.Sprint(rec)
				if seen[sig] {
					continue
				}
				seen[sig] = true
				verdict, pan, table := c18Connect(rec, tmp)
				written := 0
				for _, c := range rec {
					written += len(c)
				}
				res.Count(sig, written < 6 || verdict != "ok")
				res.Stat("connect:"+verdict, 1)
				if strings.HasPrefix(verdict, "panic:") {
					res.Violate(verdict, fmt.Sprintf("the owner of record %s connects: %s", c18RecString(rec), pan),
						map[string]any{"record": rec, "table": table})
				} else if verdict != st.C[u] {
					res.Stat("consumer_result_diff", 1)
					res.Note("GetUser on %s: model %s, code %s", c18RecString(rec), st.C[u], verdict)
				}
				if len(seen)%97 == 1 {
					res.Sample(map[string]any{"record": c18RecString(rec), "verdict": verdict}, 4)
				}
			}
		}
		return nil
	})
	if err != nil {
		t.Fatal(err)
	}
	res.Stat("behaviours", int64(lines))
	res.Stat("distinct_records", int64(len(seen)))
}

// ---------------------------------------------------------------------------------- upload histories
// TestVerifC18Panel replays the histories TLC exported from spec/UserDBPanel.tla on the real panel over a
// real localManager on a bolt file: admin POST / DELETE through the APIRouter, the owner connecting
// (userPanel.GetUser), traffic on his valve, his last session ending (ActiveUser.CloseSession ->
// TerminateActiveUser) and the periodic upload exactly as regularQueueUpload runs it (updateUsageQueue;
// commitUpdate) - on the harness goroutine, under recover, because in the server that goroutine has none.
// Decides: a panic; the store read back after a step != the model's (usage is deducted once, nothing else
// changes). Logged only: which UIDs have a live record, the usage queue, GetUser's verdict.

type c18PStep struct {
	O   string               `json:"o"`
	U   string               `json:"u"`
	W   []c18Cell            `json:"w"`
	A   int64                `json:"a"`
	B   int64                `json:"b"`
	V   string               `json:"v"`
	N   int                  `json:"n"`
	S   map[string][]c18Cell `json:"s"`
	Act map[string]bool      `json:"act"`
	Q   map[string][]int64   `json:"q"`
}

type c18History struct {
	Steps []c18PStep `json:"steps"`
}

var c18PUIDs = map[string][]byte{
	"u1": {0xfb, 0xef, 0xbe, 0xff, 0xff, 0xfe, 0x00, 0x10, 0x83, 0x10, 0x51, 0x87, 0x20, 0x92, 0x8b, 0x3f},
	"u2": {0x03, 0xff, 0xfe, 0xfb, 0xf0, 0x0f, 0x55, 0xaa, 0x00, 0x00, 0x00, 0x00, 0x00, 0x00, 0x00, 0x01},
}

func c18PSafe(f func()) (p string) {
	defer func() {
		if r := recover(); r != nil {
			var frames []string
			for _, l := range strings.Split(string(debug.Stack()), "\n") {
				if strings.HasPrefix(l, "github.com/cbeuw/Cloak/") && !strings.Contains(l, "c18") {
					if i := strings.LastIndex(l, "("); i > 0 {
						l = l[:i]
					}
					frames = append(frames, l[strings.LastIndex(l, "/")+1:])
				}
			}
			if len(frames) > 4 {
				frames = frames[:4]
			}
			p = fmt.Sprintf("%v | %s", r, strings.Join(frames, " < "))
		}
	}()
	f()
	return ""
}

// c18PanelDB is a worker's database: a real localManager on a bolt file. It is kept for up to 64 histories
// (opening a bolt file costs more than a whole history); every history starts by deleting both users
// through the API and by reading back that they are gone.
type c18PanelDB struct {
	dir string
	mgr interface {
		usermanager.UserManager
		Close() error
	}
	router *usermanager.APIRouter
	uses   int
}

func c18OpenPanelDB(tmp string) *c18PanelDB {
	dir, err := os.MkdirTemp(tmp, "c18hist")
	if err != nil {
		panic(err)
	}
	mgr, err := usermanager.MakeLocalManager(filepath.Join(dir, "userinfo.db"), common.WorldOfTime(time.Unix(0, 0)))
	if err != nil {
		panic(err)
	}
	return &c18PanelDB{dir: dir, mgr: mgr, router: usermanager.APIRouterOf(mgr)}
}

func (d *c18PanelDB) close() {
	c18PSafe(func() { d.mgr.Close() })
	os.RemoveAll(d.dir)
}

// fresh returns a database without users: the same one emptied, or a new file.
func (d *c18PanelDB) fresh(tmp string) *c18PanelDB {
	if d != nil {
		d.uses++
		ok := d.uses%64 != 0
		for _, uid := range c18PUIDs {
			if !ok {
				break
			}
			if p := c18PSafe(func() { _ = d.mgr.DeleteUser(uid) }); p != "" {
				ok = false
			}
			if _, err := d.mgr.GetUserInfo(uid); err != usermanager.ErrUserNotFound {
				ok = false
			}
		}
		if ok {
			return d
		}
		d.close()
	}
	return c18OpenPanelDB(tmp)
}

// c18RunHistory returns the violation key ("" if none), a description and the step table.
func c18RunHistory(h *c18History, db *c18PanelDB, res *kit.Result, verbose bool) (key, what string, table []string) {
	mgr, router := db.mgr, db.router
	// the panel as MakeUserPanel builds it, minus the ticker goroutine: the replay runs the upload itself
	panel := &userPanel{
		Manager:          mgr,
		activeUsers:      make(map[[16]byte]*ActiveUser),
		usageUpdateQueue: make(map[[16]byte]*usagePair),
		uploadInterval:   defaultUploadInterval,
	}
	logf := func(format string, a ...any) {
		if verbose {
			table = append(table, fmt.Sprintf(format, a...))
		}
	}
	live := func(u string) *ActiveUser {
		var arr [16]byte
		copy(arr[:], c18PUIDs[u])
		panel.activeUsersM.RLock()
		defer panel.activeUsersM.RUnlock()
		return panel.activeUsers[arr]
	}
	for si := range h.Steps {
		st := &h.Steps[si]
		uid := c18PUIDs[st.U]
		var pan string
		switch st.O {
		case "post":
			parts := []string{fmt.Sprintf(`"UID":%q`, base64.StdEncoding.EncodeToString(uid))}
			for i, c := range st.W {
				if len(c) == 1 {
					parts = append(parts, fmt.Sprintf(`%q:%d`, c18Fields[i], c18Concrete(c[0], i)))
				}
			}
			body := "{" + strings.Join(parts, ",") + "}"
			rr := httptest.NewRecorder()
			pan = c18PSafe(func() {
				router.ServeHTTP(rr, httptest.NewRequest("POST", "http://srv/admin/users/"+base64.URLEncoding.EncodeToString(uid), strings.NewReader(body)))
			})
			logf("step %d POST %s %s -> %d", si, st.U, body, rr.Code)
		case "delete":
			rr := httptest.NewRecorder()
			pan = c18PSafe(func() {
				router.ServeHTTP(rr, httptest.NewRequest("DELETE", "http://srv/admin/users/"+base64.URLEncoding.EncodeToString(uid), nil))
			})
			logf("step %d DELETE %s -> %d", si, st.U, rr.Code)
		case "connect":
			var gerr error
			pan = c18PSafe(func() { _, gerr = panel.GetUser(uid) })
			verdict := "ok"
			if gerr != nil {
				verdict = gerr.Error()
			}
			logf("step %d GetUser(%s) -> %s (model %s)", si, st.U, verdict, st.V)
			if (gerr == nil) != (st.V == "ok") && pan == "" {
				res.Stat("panel_state_diff", 1)
				res.Note("GetUser: model %s, code %v", st.V, gerr)
			}
		case "use":
			user := live(st.U)
			if user == nil {
				res.Stat("panel_state_diff", 1)
				res.Note("step %d: model has a live record for %s, the panel has none", si, st.U)
				return "", "", table // the history cannot be followed any further
			}
			user.valve.AddRx(st.A)
			user.valve.AddTx(st.B)
			logf("step %d AddRx(%d) AddTx(%d) on %s", si, st.A, st.B, st.U)
		case "disconnect":
			user := live(st.U)
			if user == nil {
				res.Stat("panel_state_diff", 1)
				return "", "", table
			}
			pan = c18PSafe(func() { user.CloseSession(1, "") })
			logf("step %d CloseSession (last) of %s", si, st.U)
		case "round":
			var cerr error
			pan = c18PSafe(func() {
				panel.updateUsageQueue()
				cerr = panel.commitUpdate()
			})
			logf("step %d updateUsageQueue; commitUpdate -> %v (model: %d TERMINATE answers without live record)", si, cerr, st.N)
		default:
			panic("unknown step " + st.O)
		}
		if pan != "" {
			logf("  PANIC %s", pan)
			name := map[string]string{"round": "commitUpdate", "connect": "GetUser", "disconnect": "CloseSession", "post": "WriteUserInfo", "delete": "DeleteUser"}[st.O]
			if st.O == "round" && strings.Contains(pan, "updateUsageQueue") && !strings.Contains(pan, "commitUpdate") {
				name = "updateUsageQueue"
			}
			return "panic:" + name, fmt.Sprintf("step %d (%s %s): %s", si, st.O, st.U, pan), table
		}
		// the store after the step
		for _, u := range []string{"u1", "u2"} {
			var ui usermanager.UserInfo
			var gerr error
			if p := c18PSafe(func() { ui, gerr = mgr.GetUserInfo(c18PUIDs[u]) }); p != "" {
				return "panic:GetUserInfo", fmt.Sprintf("step %d: %s", si, p), table
			}
			exp := st.S[u]
			if (gerr == nil) != (len(exp) == 6) {
				return "readback:panel-" + st.O, fmt.Sprintf("step %d after %s: user %s exists=%v, the history implies %v", si, st.O, u, gerr == nil, len(exp) == 6), table
			}
			if gerr != nil {
				continue
			}
			got := []int64{0, 0, 0, 0, 0, 0}
			if ui.SessionsCap != nil {
				got[0] = int64(*ui.SessionsCap)
			}
			for i, p := range []usermanager.MaybeInt64{ui.UpRate, ui.DownRate, ui.UpCredit, ui.DownCredit, ui.ExpiryTime} {
				if p != nil {
					got[i+1] = *p
				}
			}
			for i := range got {
				want := int64(0)
				if len(exp[i]) == 1 {
					want = c18Concrete(exp[i][0], i)
				}
				if got[i] != want {
					return "readback:panel-" + st.O, fmt.Sprintf("step %d after %s: %s.%s reads %d, the history implies %d", si, st.O, u, c18Fields[i], got[i], want), table
				}
			}
			logf("  %s = %v", u, got)
		}
		// live records and usage queue (logged)
		for _, u := range []string{"u1", "u2"} {
			var arr [16]byte
			copy(arr[:], c18PUIDs[u])
			panel.usageUpdateQueueM.Lock()
			qp := panel.usageUpdateQueue[arr]
			var q []int64
			if qp != nil {
				q = []int64{*qp.up, *qp.down}
			}
			panel.usageUpdateQueueM.Unlock()
			isLive := live(u) != nil
			logf("  %s live=%v queue=%v (model live=%v queue=%v)", u, isLive, q, st.Act[u], st.Q[u])
			if isLive != st.Act[u] || fmt.Sprint(q) != fmt.Sprint(st.Q[u]) {
				res.Stat("panel_state_diff", 1)
				res.Note("step %d after %s: %s live=%v queue=%v, model live=%v queue=%v", si, st.O, u, isLive, q, st.Act[u], st.Q[u])
			}
		}
	}
	return "", "", table
}

func TestVerifC18Panel(t *testing.T) {
	log.SetOutput(io.Discard)
	res := kit.NewResult()
	defer func() { res.Save(true) }()
	tmp := t.TempDir()
	if rp := kit.Env("VERIF_REPLAY", ""); rp != "" {
		var rf struct {
			Replay struct {
				History c18History `json:"history"`
			} `json:"replay"`
		}
		raw, err := os.ReadFile(rp)
		if err != nil {
			t.Fatal(err)
		}
		if err := json.Unmarshal(raw, &rf); err != nil {
			t.Fatal(err)
		}
		db := c18OpenPanelDB(tmp)
		defer db.close()
		key, what, table := c18RunHistory(&rf.Replay.History, db, res, true)
		for _, l := range table {
			fmt.Println(l)
		}
		fmt.Printf("REPLAY-RESULT key=%q what=%q\n", key, what)
		return
	}
	type job struct {
		idx  int
		line []byte
	}
	jobs := make(chan job, 256)
	var wg sync.WaitGroup
	var seenM sync.Mutex
	seen := map[string]int{}
	for w := 0; w < runtime.GOMAXPROCS(0); w++ {
		wg.Add(1)
		go func() {
			defer wg.Done()
			var db *c18PanelDB
			defer func() {
				if db != nil {
					db.close()
				}
			}()
			for j := range jobs {
				var h c18History
				if err := json.Unmarshal(j.line, &h); err != nil {
					res.Stat("undecodable", 1)
					res.Note("undecodable history %d: %v", j.idx, err)
					continue
				}
				if j.idx%200 == 0 {
					res.SetRunning(map[string]any{"history": h}, true)
				}
				db = db.fresh(tmp)
				key, what, _ := c18RunHistory(&h, db, res, false)
				nilTerms, admin := 0, false
				var sig strings.Builder
				connected := false
				for _, st := range h.Steps {
					nilTerms += st.N
					if st.O == "connect" && st.V == "ok" {
						connected = true
					}
					if connected && (st.O == "post" || st.O == "delete") {
						admin = true
					}
					fmt.Fprintf(&sig, "%s %s %v %d %d;", st.O, st.U, st.W, st.A, st.B)
				}
				// non-trivial: a TERMINATE answer met no live record, or the admin changed the record of a connected owner
				res.Count(sig.String(), nilTerms > 0 || admin)
				res.Stat("steps", int64(len(h.Steps)))
				if nilTerms > 0 {
					res.Stat("histories_with_terminate_for_no_live_record", 1)
				}
				if key != "" {
					seenM.Lock()
					seen[key]++
					first := seen[key] <= 8 // kit keeps the first three that arrive; make sure those carry a table
					seenM.Unlock()
					var table []string
					db.close() // a failing history never hands its database on
					db = nil
					if first {
						d2 := c18OpenPanelDB(tmp)
						_, _, table = c18RunHistory(&h, d2, res, true)
						d2.close()
					}
					res.Violate(key, what, map[string]any{"history": h, "table": table})
				}
				if j.idx%4999 == 1 {
					res.Sample(map[string]any{"history": json.RawMessage(j.line)}, 2)
				}
			}
		}()
	}
	idx := 0
	err := kit.ReadLines(kit.Env("VERIF_IN", ""), func(line []byte) error {
		idx++
		jobs <- job{idx, append([]byte{}, line...)}
		return nil
	})
	close(jobs)
	wg.Wait()
	if err != nil {
		t.Fatal(err)
	}
	res.Stat("histories", int64(idx))
}
