package server

// C08 at the level of the server's stable entry points only (InitState, AuthFirstPacket, the TLS / WebSocket
// transports): the big C08 harness reads the replay cache itself and stops compiling when its representation
// changes; this file does not, so that a change of representation which lets a captured handshake through is
// still judged.  Statement: a first packet that was accepted is never accepted again - as captured, re-wrapped into
// the other transport by somebody without keys, or with bit 255 of the random flipped - in any order, also when
// both are presented at once.

import (
	"bytes"
	"crypto/rand"
	"encoding/base64"
	"fmt"
	"io"
	"net"
	"net/http"
	"net/url"
	"sync"
	"testing"
	"time"

	"github.com/cbeuw/Cloak/internal/client"
	"github.com/cbeuw/Cloak/internal/common"
	"github.com/cbeuw/Cloak/internal/ecdh"
	kit "github.com/cbeuw/Cloak/internal/verifkit"
	"github.com/gorilla/websocket"
	log "github.com/sirupsen/logrus"
)

type api08Cap struct {
	mu  sync.Mutex
	buf bytes.Buffer
}

func (c *api08Cap) Write(p []byte) (int, error) {
	c.mu.Lock()
	defer c.mu.Unlock()
	return c.buf.Write(p)
}
func (c *api08Cap) Read(p []byte) (int, error)         { return 0, io.EOF }
func (c *api08Cap) Close() error                       { return nil }
func (c *api08Cap) LocalAddr() net.Addr                { return &net.TCPAddr{IP: net.IPv4(127, 0, 0, 1), Port: 1} }
func (c *api08Cap) RemoteAddr() net.Addr               { return &net.TCPAddr{IP: net.IPv4(127, 0, 0, 1), Port: 2} }
func (c *api08Cap) SetDeadline(t time.Time) error      { return nil }
func (c *api08Cap) SetReadDeadline(t time.Time) error  { return nil }
func (c *api08Cap) SetWriteDeadline(t time.Time) error { return nil }

// the three 32-byte fields of a ClientHello written by the real client, located by an independent TLS parser
func api08Fields(hello []byte) (random, sid, share []byte, ok bool) {
	recs := kit.ParseTLSStream(hello)
	if len(recs) == 0 || recs[0].Hello == nil || len(recs[0].Hello.Random) != 32 || len(recs[0].Hello.SessionID) != 32 {
		return nil, nil, nil, false
	}
	random, sid = recs[0].Hello.Random, recs[0].Hello.SessionID
	// key_share extension: ... 00 1d 00 20 <32 bytes> (x25519 entry)
	i := bytes.LastIndex(hello, []byte{0x00, 0x1d, 0x00, 0x20})
	if i < 0 || i+4+32 > len(hello) {
		return nil, nil, nil, false
	}
	return random, sid, hello[i+4 : i+4+32], true
}

func TestVerifApi08(t *testing.T) {
	log.SetOutput(io.Discard)
	log.SetLevel(log.PanicLevel)
	res := kit.NewResult()
	defer func() { res.Save(true) }()
	pv, pub, _ := ecdh.GenerateKey(rand.Reader)
	uid := []byte("verif-api08-uid!")
	now := func() time.Time { return time.Unix(1700000000, 0) }
	ws := common.WorldState{Rand: rand.Reader, Now: now}
	newState := func() *State {
		sta, err := InitState(RawConfig{ProxyBook: map[string][]string{"shadowsocks": {"tcp", "127.0.0.1:1"}}, BindAddr: []string{"127.0.0.1:0"},
			BypassUID: [][]byte{uid}, RedirAddr: "127.0.0.1", PrivateKey: ecdh.Marshal(pv)}, ws)
		if err != nil {
			t.Fatalf("InitState: %v", err)
		}
		return sta
	}
	var sidc uint32
	hello := func() []byte {
		sidc++
		ai := client.AuthInfo{UID: uid, SessionId: sidc, ProxyMethod: "shadowsocks", EncryptionMethod: 0, ServerPubKey: pub,
			MockDomain: "www.bing.com", WorldState: ws}
		c := &api08Cap{}
		var tr client.DirectTLS
		_, _ = tr.Handshake(c, ai)
		return append([]byte{}, c.buf.Bytes()...)
	}
	wsReq := func(hidden []byte) []byte {
		u, _ := url.Parse("ws://d2jkinvisak5y9.cloudfront.net:443/")
		h := http.Header{}
		h.Add("hidden", base64.StdEncoding.EncodeToString(hidden))
		c := &api08Cap{}
		_, _, _ = websocket.NewClient(c, u, h, 16480, 16480)
		return append([]byte{}, c.buf.Bytes()...)
	}
	// wrap(fields, transport): the first packet carrying these fields in that transport
	wrap := func(random, sid, share []byte, transport string) []byte {
		if transport == "WebSocket" {
			return wsReq(append(append(append([]byte{}, random...), sid...), share...))
		}
		d := hello()
		dr, ds, dk, ok := api08Fields(d)
		if !ok {
			t.Fatal("donor hello not understood")
		}
		out := append([]byte{}, d...)
		for _, pr := range [][2][]byte{{dr, random}, {ds, sid}, {dk, share}} {
			i := bytes.Index(out, pr[0])
			copy(out[i:i+32], pr[1])
		}
		return out
	}
	tr := func(name string) Transport {
		if name == "WebSocket" {
			return WebSocket{}
		}
		return TLS{}
	}
	present := func(sta *State, pkt []byte, transport string) bool {
		_, _, err := AuthFirstPacket(pkt, tr(transport), sta)
		return err == nil
	}
	kinds := []string{"TLS", "WebSocket"}
	for _, first := range kinds {
		for _, second := range kinds {
			for _, flip := range []bool{false, true} {
				for _, atOnce := range []bool{false, true} {
					h := hello()
					r, s, k, ok := api08Fields(h)
					if !ok {
						t.Fatal("client hello not understood")
					}
					sta := newState()
					p1 := wrap(r, s, k, first)
					r2 := append([]byte{}, r...)
					if flip {
						r2[31] ^= 0x80
					}
					p2 := wrap(r2, s, k, second)
					var a1, a2 bool
					if atOnce {
						var wg sync.WaitGroup
						wg.Add(2)
						go func() { defer wg.Done(); a1 = present(sta, p1, first) }()
						go func() { defer wg.Done(); a2 = present(sta, p2, second) }()
						wg.Wait()
					} else {
						a1 = present(sta, p1, first)
						a2 = present(sta, p2, second)
					}
					sig := fmt.Sprintf("%s->%s flip=%v atOnce=%v", first, second, flip, atOnce)
					res.Count(sig, first != second || flip)
					if !a1 && !a2 {
						res.Note("%s: neither presentation authenticated (set-up?)", sig)
						res.Stat("none_accepted", 1)
						continue
					}
					if a1 && a2 {
						key := "replay-same-packet"
						switch {
						case first != second:
							key = "replay-altered-transport"
						case flip:
							key = "replay-altered-bit255"
						}
						res.Violate(key, fmt.Sprintf("one sealed block presented as %s and then as %s (bit 255 of the random flipped: %v, at once: %v): both presentations authenticated", first, second, flip, atOnce),
							map[string]any{"first": first, "second": second, "flip255": flip, "atOnce": atOnce})
					}
					// a third presentation of the first packet, later
					if present(sta, p1, first) {
						res.Violate("replay-same-packet", fmt.Sprintf("%s packet authenticated again after it (or its re-wrapped copy) had been accepted", first), map[string]any{"first": first})
					}
				}
			}
		}
	}
}
