package server

// C08 - a captured handshake can never be replayed successfully.
//
// TestVerifC08Replay   (B1) every history exported by TLC from spec/ReplayCacheGen.tla is stepped through a
//                      real *State inside a testing/synctest bubble: model ticks are time.Sleep on the virtual
//                      clock, State.WorldState.Now is the bubble's clock, every Clean step of the history is
//                      one firing of a real `go sta.UsedRandomCleaner()` goroutine started one period earlier,
//                      every Present step is the real AuthFirstPacket on a first packet built by the real
//                      client code (ClientHello of client.DirectTLS / GET of gorilla as client.WSOverTLS).
// TestVerifC08Variants every single-bit flip of the 32-byte random, every single-bit flip of the whole first
//                      packet, random multi-bit flips and the re-wrapping of the sealed block into the other
//                      transport: whatever still authenticates must be rejected once the original was accepted.
// TestVerifC08Gate     (B3) one presenter parked at hook point state.random.checked (between test and set),
//                      a second one started: at most one of the two may authenticate.
// TestVerifC08Stress   (B2) N in {2,8,64} goroutines present one packet simultaneously (real parallelism).
//
// Oracle everywhere: a second nil-error AuthFirstPacket for the same sealed block while its timestamp is
// inside the acceptance window.  Everything else (expected accept/reject of the model, number of cache
// entries, error class) is compared and logged but never decides.

import (
	"bufio"
	"bytes"
	"crypto"
	"crypto/rand"
	"encoding/base64"
	"encoding/binary"
	"encoding/json"
	"errors"
	"fmt"
	"io"
	"net"
	"net/http"
	"net/url"
	"os"
	"runtime"
	"strconv"
	"strings"
	"sync"
	"sync/atomic"
	"testing"
	"testing/synctest"
	"time"

	"github.com/cbeuw/Cloak/internal/client"
	"github.com/cbeuw/Cloak/internal/common"
	"github.com/cbeuw/Cloak/internal/ecdh"
	"github.com/cbeuw/Cloak/internal/verifhook"
	kit "github.com/cbeuw/Cloak/internal/verifkit"
	"github.com/gorilla/websocket"
	log "github.com/sirupsen/logrus"
)

// ------------------------------------------------------------------------------------------ input

type c08Step struct {
	A   string `json:"a"`
	B   int    `json:"b"`
	V   string `json:"v"`
	K   int    `json:"k"`
	Ok  bool   `json:"ok"`
	Why string `json:"why"`
	T   int    `json:"t"`
	Nc  int    `json:"nc"`
}

type c08History struct {
	Dev   []string  `json:"dev"`
	W     int       `json:"w"`
	R     int       `json:"r"`
	Cap   int       `json:"cap"`
	Src   string    `json:"src"`
	Steps []c08Step `json:"steps"`
}

// c08Conc maps model time to the virtual clock: model tick k happens at M + Phase + k*Tick (+ 1 us per step
// inside a tick).  With W = 2 every Tick in [tolerance/2, tolerance) keeps the model's window classes
// (1 tick inside, 2 ticks outside); R is the number of ticks an entry survives under the retention the
// specification claims for HEAD (2*tolerance + 1 s), used for the logged comparisons only.
type c08Conc struct {
	Name  string        `json:"name"`
	Tick  time.Duration `json:"tick_ns"`
	Phase time.Duration `json:"phase_ns"`
	R     int           `json:"r_ticks"`
}

const c08StepEps = time.Microsecond
const c08MaxOrd = 40

func c08FloorSec(ns int64) int64 {
	if ns >= 0 {
		return ns / 1e9
	}
	return -((-ns + 1e9 - 1) / 1e9)
}

// c08Concretisations derives the tick lengths from the constants of the code under test and keeps those
// for which the real arithmetic (nanosecond server clock, whole-second client stamps and stored times)
// agrees with the tick model for every pair of ticks up to the horizon.
func c08Concretisations(res *kit.Result) []c08Conc {
	tol := timestampTolerance
	ret := 2*tol + time.Second
	cand := []c08Conc{
		{Name: "tol/2", Tick: tol / 2},                                                    // 180 s = edge of the window, 360 s kept
		{Name: "tol/2+phase.5", Tick: tol / 2, Phase: 500 * time.Millisecond},             // sub-second server clock
		{Name: "tol/2+.5s", Tick: tol/2 + 500*time.Millisecond},                           // 181 s; 362 s just evicted
		{Name: "2tol/3+phase.999", Tick: 2 * tol / 3, Phase: 999 * time.Millisecond},      // 360.999 s kept
		{Name: "2tol/3+.5s", Tick: 2*tol/3 + 500*time.Millisecond},                        // 361.5 s evicted
		{Name: "tol-1s", Tick: tol - time.Second},                                         // 179 s still inside
		{Name: "tol-1s+phase.9", Tick: tol - time.Second, Phase: 900 * time.Millisecond},  // 179.9 s still inside
		{Name: "tol-3s", Tick: tol - 3*time.Second},
	}
	var out []c08Conc
	for _, c := range cand {
		c.R = int(ret / c.Tick)
		if why := c08ConcCheck(c, 2, 9, tol, ret); why != "" {
			res.Note("concretisation %s dropped: %s", c.Name, why)
			continue
		}
		out = append(out, c)
	}
	return out
}

func c08ConcCheck(c c08Conc, w, horizon int, tol, ret time.Duration) string {
	if c.Tick <= 0 {
		return "tick <= 0"
	}
	m := int64(946771210) * 1e9 // any whole second
	at := func(k, ord int) int64 { return m + int64(c.Phase) + int64(k)*int64(c.Tick) + int64(ord)*int64(c08StepEps) }
	for _, ordI := range []int{0, c08MaxOrd} {
		for _, ordJ := range []int{0, c08MaxOrd} {
			for i := 0; i <= horizon; i++ {
				for j := i; j <= horizon; j++ {
					if j == i && ordJ < ordI {
						continue
					}
					for s := -(w - 1); s <= w-1; s++ {
						ts := c08FloorSec(at(i, ordI)+int64(s)*int64(c.Tick)) * 1e9
						now := at(j, ordJ)
						real := ts > now-int64(tol) && ts < now+int64(tol)
						d := i + s - j
						model := d < w && -d < w
						if real != model {
							return fmt.Sprintf("window class differs at issue tick %d skew %d present tick %d", i, s, j)
						}
					}
					stored := c08FloorSec(at(i, ordI)) * 1e9
					realEvict := stored < at(j, ordJ)-int64(ret)
					if realEvict != (j-i > c.R) {
						return fmt.Sprintf("eviction class differs at sighting tick %d clean tick %d", i, j)
					}
				}
			}
		}
	}
	return ""
}

// ---------------------------------------------------------------------------------- packets

type c08CapConn struct {
	mu  sync.Mutex
	buf bytes.Buffer
}

func (c *c08CapConn) Write(p []byte) (int, error) {
	c.mu.Lock()
	defer c.mu.Unlock()
	return c.buf.Write(p)
}
func (c *c08CapConn) Read(p []byte) (int, error)         { return 0, io.EOF }
func (c *c08CapConn) Close() error                       { return nil }
func (c *c08CapConn) LocalAddr() net.Addr                { return &net.TCPAddr{IP: net.IPv4(127, 0, 0, 1), Port: 1} }
func (c *c08CapConn) RemoteAddr() net.Addr               { return &net.TCPAddr{IP: net.IPv4(127, 0, 0, 1), Port: 2} }
func (c *c08CapConn) SetDeadline(t time.Time) error      { return nil }
func (c *c08CapConn) SetReadDeadline(t time.Time) error  { return nil }
func (c *c08CapConn) SetWriteDeadline(t time.Time) error { return nil }

type c08Keys struct {
	pv  crypto.PrivateKey
	pub crypto.PublicKey
}

var c08KeysOnce sync.Once
var c08TheKeys c08Keys

func c08GetKeys() c08Keys {
	c08KeysOnce.Do(func() {
		pv, pub, err := ecdh.GenerateKey(rand.Reader)
		if err != nil {
			panic(err)
		}
		c08TheKeys = c08Keys{pv, pub}
	})
	return c08TheKeys
}

// c08NewState builds a State by hand (InitState resolves names and starts the cleaner on its own).
func c08NewState(now func() time.Time) *State {
	return &State{
		ProxyBook:  map[string]net.Addr{"shadowsocks": nil},
		WorldState: common.WorldState{Rand: rand.Reader, Now: now},
		BypassUID:  map[[16]byte]struct{}{},
		StaticPv:   c08GetKeys().pv,
		UsedRandom: map[[32]byte]int64{},
	}
}

var c08Sid atomic.Uint32

// c08Packet is one captured first packet together with what the harness knows about it.
type c08Packet struct {
	transport string // "TLS" or "WebSocket"
	raw       []byte
	random    [32]byte
	hidden    []byte // random || sealed block (96 bytes)
	ts        int64  // client timestamp sealed inside
}

// c08ClientHello runs the real client handshake against a capturing conn; clientNow is the client's clock.
func c08ClientHello(clientNow func() time.Time) ([]byte, int64, error) {
	ai := client.AuthInfo{
		UID:              []byte("verif-c08-uid-16"),
		SessionId:        c08Sid.Add(1),
		ProxyMethod:      "shadowsocks",
		EncryptionMethod: 0,
		ServerPubKey:     c08GetKeys().pub,
		MockDomain:       "www.bing.com",
		WorldState:       common.WorldState{Rand: rand.Reader, Now: clientNow},
	}
	conn := &c08CapConn{}
	ts := clientNow().UTC().Unix()
	var tr client.DirectTLS
	_, _ = tr.Handshake(conn, ai) // fails at the read of the ServerHello, after the ClientHello was written
	if conn.buf.Len() == 0 {
		return nil, 0, errors.New("client wrote no ClientHello")
	}
	return append([]byte{}, conn.buf.Bytes()...), ts, nil
}

func c08HiddenOf(chRaw []byte) ([]byte, error) {
	ch, err := parseClientHello(chRaw)
	if err != nil {
		return nil, err
	}
	ks, err := parseKeyShare(ch.extensions[[2]byte{0x00, 0x33}])
	if err != nil {
		return nil, err
	}
	h := append(append(append([]byte{}, ch.random...), ch.sessionId...), ks...)
	if len(h) != 96 {
		return nil, fmt.Errorf("hidden is %d bytes", len(h))
	}
	return h, nil
}

// c08WsRequest writes the GET exactly as client.WSOverTLS does (gorilla NewClient with the "hidden" header).
func c08WsRequest(hidden []byte) ([]byte, error) {
	u, _ := url.Parse("ws://d2jkinvisak5y9.cloudfront.net:443/")
	header := http.Header{}
	header.Add("hidden", base64.StdEncoding.EncodeToString(hidden))
	conn := &c08CapConn{}
	_, _, _ = websocket.NewClient(conn, u, header, 16480, 16480) // fails reading the response
	if conn.buf.Len() == 0 {
		return nil, errors.New("client wrote no GET")
	}
	return append([]byte{}, conn.buf.Bytes()...), nil
}

func c08MakePacket(transport string, clientNow func() time.Time) (*c08Packet, error) {
	raw, ts, err := c08ClientHello(clientNow)
	if err != nil {
		return nil, err
	}
	hidden, err := c08HiddenOf(raw)
	if err != nil {
		return nil, err
	}
	p := &c08Packet{transport: transport, raw: raw, hidden: hidden, ts: ts}
	copy(p.random[:], hidden[:32])
	if transport == "WebSocket" {
		p.raw, err = c08WsRequest(hidden)
		if err != nil {
			return nil, err
		}
	}
	return p, nil
}

func c08Transport(name string) Transport {
	if name == "WebSocket" {
		return WebSocket{}
	}
	return TLS{}
}

// c08FlipRandom returns a copy of the packet with the given bits (0..255, bit i = byte i/8, mask 1<<(i%8),
// so bit 255 is the top bit of the last byte) of the 32-byte random flipped.
func c08FlipRandom(p *c08Packet, bits ...int) []byte {
	h := append([]byte{}, p.hidden...)
	for _, b := range bits {
		h[b/8] ^= 1 << uint(b%8)
	}
	if p.transport == "WebSocket" {
		old := base64.StdEncoding.EncodeToString(p.hidden)
		return bytes.Replace(p.raw, []byte(old), []byte(base64.StdEncoding.EncodeToString(h)), 1)
	}
	out := append([]byte{}, p.raw...)
	i := bytes.Index(out, p.random[:])
	copy(out[i:i+32], h[:32])
	return out
}

// c08RandomOf extracts the 32-byte random the server will see in a (possibly altered) first packet.
func c08RandomOf(raw []byte, transport string) (r [32]byte, ok bool) {
	if transport == "WebSocket" {
		req, err := http.ReadRequest(bufio.NewReader(bytes.NewReader(raw)))
		if err != nil {
			return r, false
		}
		h, _ := base64.StdEncoding.DecodeString(req.Header.Get("hidden"))
		if len(h) < 32 {
			return r, false
		}
		copy(r[:], h[:32])
		return r, true
	}
	ch, err := parseClientHello(raw)
	if err != nil || len(ch.random) != 32 {
		return r, false
	}
	copy(r[:], ch.random)
	return r, true
}

// c08AlterationKey names the class of an altered copy by what happened to the random: untouched
// (replay-altered-packet), exactly one bit (replay-altered-bit<N>), several (replay-altered-multibit).
func c08AlterationKey(p *c08Packet, altered []byte, alteredTr string) string {
	r, ok := c08RandomOf(altered, alteredTr)
	if !ok {
		return "replay-altered-packet"
	}
	n, last := 0, -1
	for i := 0; i < 256; i++ {
		if (r[i/8]^p.random[i/8])&(1<<uint(i%8)) != 0 {
			n++
			last = i
		}
	}
	switch n {
	case 0:
		return "replay-altered-packet"
	case 1:
		return fmt.Sprintf("replay-altered-bit%d", last)
	}
	return "replay-altered-multibit"
}

func c08Variant(p *c08Packet, v string) []byte {
	if v == "bit255" {
		return c08FlipRandom(p, 255)
	}
	return p.raw
}

// c08Remembered: is the random of the copy that was accepted (raw or with bit 255 cleared) still in the cache?
func c08Remembered(sta *State, p *c08Packet, variant string) bool {
	raw := p.random
	if variant == "bit255" {
		raw[31] ^= 0x80
	}
	canon := raw
	canon[31] &= 0x7f
	sta.usedRandomM.RLock()
	defer sta.usedRandomM.RUnlock()
	_, a := sta.UsedRandom[raw]
	_, b := sta.UsedRandom[canon]
	return a || b
}

func c08Why(err error) string {
	switch {
	case err == nil:
		return "ok"
	case errors.Is(err, ErrReplay):
		return "replay"
	case errors.Is(err, ErrBadDecryption) && strings.Contains(err.Error(), ErrTimestampOutOfWindow.Error()):
		return "window"
	case errors.Is(err, ErrBadDecryption):
		return "decrypt"
	}
	return "other:" + err.Error()
}

// ------------------------------------------------------------------------------------ shared result

var c08Res = kit.NewResult()
var c08ResStress = kit.NewResult() // the two stress tests run in a process of their own

func c08Quiet() {
	log.SetOutput(io.Discard)
	log.StandardLogger().ExitFunc = func(int) {}
}

// ------------------------------------------------------------------------------------ B1: replay

var c08Epoch atomic.Int64 // unix nanoseconds at which every bubble starts

func c08InstallCleanerExit() {
	period := replayCacheAgeLimit
	verifhook.Set(func(point string, args ...uint64) {
		// runs on the cleaner goroutine, i.e. inside the bubble: time.Now is the bubble's clock.  Every
		// cleaner's first firing belongs to the scenario (all within the first hour after one period),
		// at its second firing the scenario is over and the goroutine must go, or the bubble cannot end.
		if point == "state.cleaner.tick" {
			if e := c08Epoch.Load(); e != 0 && time.Now().UnixNano()-e > int64(period+period/2) {
				runtime.Goexit()
			}
		}
	})
}

type c08Outcome struct {
	Key      string   `json:"key"`
	What     string   `json:"what"`
	Table    []string `json:"table"`
	Mismatch int      `json:"mismatch"` // model expected accept/reject differs from the code (not a verdict)
	NcDiff   int      `json:"nc_diff"`
	WhyDiff  int      `json:"why_diff"`
	Accepts  int      `json:"accepts"`
	Cleans   int      `json:"cleans"`
	Evicting int      `json:"evicting"` // clean-ups after which the cache holds fewer entries
	Replays  int      `json:"replays"`  // presentations of a block that had already been accepted, timestamp still in window
	Early    int      `json:"early"`    // presentations started while the real sweep was parked mid-way
	EarlyQ   int      `json:"early_queued"`
	EarlyRan int      `json:"early_ran_during_sweep"` // ... that returned before the sweep was released (no exclusion)
}

// ---- scheduler gate without new hooks: the sweep calls sta.WorldState.Now() once per entry --------------

func c08Goid() int64 {
	var buf [64]byte
	n := runtime.Stack(buf[:], false)
	// "goroutine 123 [running]:"
	f := bytes.Fields(buf[:n])
	if len(f) < 2 {
		return -1
	}
	id, _ := strconv.ParseInt(string(f[1]), 10, 64)
	return id
}

// c08BlockedOnLock reports whether goroutine id is parked on a sync lock (it queues behind the sweep).
func c08BlockedOnLock(id int64) bool {
	buf := make([]byte, 1<<20)
	n := runtime.Stack(buf, true)
	hdr := []byte(fmt.Sprintf("goroutine %d [", id))
	i := bytes.Index(buf[:n], hdr)
	if i < 0 {
		return false
	}
	rest := buf[i+len(hdr) : n]
	j := bytes.IndexByte(rest, ']')
	if j < 0 {
		return false
	}
	state := string(rest[:j])
	return strings.Contains(state, "sync.") || strings.Contains(state, "semacquire")
}

// real time inside a bubble (time.Now is virtual there): a goroutine outside any bubble counts 200 us steps
var c08RealTicks atomic.Int64
var c08RealTickerOnce sync.Once

func c08StartRealTicker() {
	c08RealTickerOnce.Do(func() {
		go func() {
			for {
				time.Sleep(200 * time.Microsecond)
				c08RealTicks.Add(1)
			}
		}()
	})
}

// c08Sweeper gates one real UsedRandomCleaner goroutine at its Now() calls (one per cache entry, inside the
// critical section of the sweep).
type c08Sweeper struct {
	goid    atomic.Int64
	park    atomic.Bool // park at the next Now()
	parked  atomic.Bool
	release chan struct{}
}

type c08SweepGate struct {
	mu       sync.Mutex
	sweepers []*c08Sweeper
}

func (g *c08SweepGate) add(sw *c08Sweeper) {
	g.mu.Lock()
	g.sweepers = append(g.sweepers, sw)
	g.mu.Unlock()
}

// now is installed as State.WorldState.Now
func (g *c08SweepGate) now() time.Time {
	id := c08Goid()
	g.mu.Lock()
	var me *c08Sweeper
	for _, sw := range g.sweepers {
		if sw.goid.Load() == id {
			me = sw
		}
	}
	g.mu.Unlock()
	if me != nil && me.park.Load() {
		me.parked.Store(true)
		<-me.release
		me.parked.Store(false)
	}
	return time.Now()
}

func (sw *c08Sweeper) step() { // lets the sweep decide one entry
	if sw.parked.Load() {
		sw.release <- struct{}{}
	}
}

func (sw *c08Sweeper) finish() { // lets the sweep run to its end
	sw.park.Store(false)
	if sw.parked.Load() {
		sw.release <- struct{}{}
	}
}

func c08IsSweepStep(a string) bool {
	return a == "CleanBegin" || a == "CleanVisit" || a == "CleanEnd" || a == "CleanSwap"
}

func c08HasSplit(h *c08History) bool {
	for _, st := range h.Steps {
		if c08IsSweepStep(st.A) {
			return true
		}
	}
	return false
}

// c08HasEarlySlot: some presentation directly follows the end of a sweep, so it can be made to arrive during it
func c08HasEarlySlot(h *c08History) bool {
	for i := 0; i+1 < len(h.Steps); i++ {
		if (h.Steps[i].A == "Clean" || h.Steps[i].A == "CleanEnd") && h.Steps[i+1].A == "Present" {
			return true
		}
	}
	return false
}

// c08RunHistory steps one history through the real code in a fresh bubble.  early: a presentation that
// directly follows the end of a sweep is started while the real sweep is parked at one of its Now() calls
// (a foreign "ballast" random keeps the cache non-empty so that there is such a call), the sweep is then
// released and the presentation completes; in the model that is the same history (a blocked presentation
// has no effect until it gets the lock).  Histories with CleanBegin/CleanVisit/CleanEnd steps are always
// run with the gate: every CleanVisit releases one decision of the real sweep at its model time.
func c08RunHistory(t *testing.T, h *c08History, c c08Conc, transport string, early bool) (out c08Outcome) {
	deviant := c08Deviant(h)
	period := replayCacheAgeLimit
	tol := timestampTolerance
	gated := early || c08HasSplit(h)
	internal := c.R == h.R && !c08HasSplit(h) // entry counts / error classes are compared (and only logged) when the
	// model's sweep is one step: the real sweep visits the entries in map order, the model's CleanVisit steps in theirs
	synctest.Test(t, func(t *testing.T) {
		epoch := time.Now()
		c08Epoch.Store(epoch.UnixNano())
		gate := &c08SweepGate{}
		sta := c08NewState(time.Now)
		if gated {
			sta.WorldState.Now = gate.now
		}
		m := epoch.Add(period + 10*time.Second) // model tick 0 (+ phase)
		// absolute time of every step
		times := make([]time.Time, len(h.Steps))
		tick, ord := 0, 0
		for i, st := range h.Steps {
			if st.A == "Tick" {
				tick++
				ord = 0
			}
			ord++
			times[i] = m.Add(c.Phase + time.Duration(tick)*c.Tick + time.Duration(ord)*c08StepEps)
		}
		// every sweep of the history is the first firing of a real cleaner goroutine started one period earlier
		sweeperAt := map[int]*c08Sweeper{}
		for i, st := range h.Steps {
			if st.A == "Clean" || st.A == "CleanBegin" {
				startAt := times[i].Add(-period)
				sw := &c08Sweeper{release: make(chan struct{})}
				sw.park.Store(gated)
				sweeperAt[i] = sw
				gate.add(sw)
				go func() {
					sw.goid.Store(c08Goid())
					time.Sleep(time.Until(startAt))
					sta.UsedRandomCleaner()
				}()
			}
		}
		var ballast [32]byte
		if gated {
			rand.Read(ballast[:])
			ballast[31] &= 0x7f
		}
		packets := map[int]*c08Packet{}
		accepted := map[int]int{}
		firstVariant := map[int]string{}
		cleansSinceAccept := map[int]int{}
		duringSweep := map[int]bool{}
		entries := func() int { // entries of the model's blocks (the ballast is the driver's)
			sta.usedRandomM.RLock()
			defer sta.usedRandomM.RUnlock()
			n := len(sta.UsedRandom)
			if _, ok := sta.UsedRandom[ballast]; ok && gated {
				n--
			}
			return n
		}
		lastEntries := 0
		var cur *c08Sweeper // the sweep that is open (parked) right now
		handled := map[int]bool{}
		remSnap := map[int]bool{}

		observe := func(i int, st c08Step, err error, at time.Duration, note string) {
			p := packets[st.B]
			why := c08Why(err)
			now := time.Now()
			inWin := time.Unix(p.ts, 0).After(now.Add(-tol)) && time.Unix(p.ts, 0).Before(now.Add(tol))
			n := entries()
			lastEntries = n
			out.Table = append(out.Table, fmt.Sprintf("step %d t=%v Present(block %d, %s)%s: expected ok=%v (%s) observed ok=%v (%s) age=%v entries=%d (model %d)",
				i, at, st.B, st.V, note, st.Ok, st.Why, err == nil, why, now.Sub(time.Unix(p.ts, 0)), n, st.Nc))
			if accepted[st.B] > 0 && inWin {
				out.Replays++
			}
			if !deviant {
				if (err == nil) != st.Ok {
					out.Mismatch++
				}
				if internal {
					if why != st.Why {
						out.WhyDiff++
					}
					if n != st.Nc {
						out.NcDiff++
					}
				}
			}
			if err == nil {
				accepted[st.B]++
				out.Accepts++
				if accepted[st.B] == 1 {
					firstVariant[st.B] = st.V
					cleansSinceAccept[st.B] = 0
					duringSweep[st.B] = note != ""
				}
			}
		}
		// violation: the same sealed block authenticated a second time inside its window (THE PROPERTY)
		verdict := func(st c08Step, remembered bool) {
			p := packets[st.B]
			now := time.Now()
			inWin := time.Unix(p.ts, 0).After(now.Add(-tol)) && time.Unix(p.ts, 0).Before(now.Add(tol))
			if accepted[st.B] < 2 || !inWin || out.Key != "" {
				return
			}
			switch {
			case duringSweep[st.B] && !remembered:
				out.Key = "replay-during-cleanup"
				out.What = fmt.Sprintf("a %s first packet that was accepted while a clean-up of the replay cache was in progress authenticated again %v after the client stamp (window %v): its random did not survive the sweep", transport, now.Sub(time.Unix(p.ts, 0)), tol)
			case cleansSinceAccept[st.B] > 0 && !remembered:
				out.Key = "replay-after-cleanup"
				out.What = fmt.Sprintf("an accepted %s first packet (presented as %s, then as %s) authenticated again after a clean-up of the replay cache, %v after the client stamp (window %v)", transport, firstVariant[st.B], st.V, now.Sub(time.Unix(p.ts, 0)), tol)
			case st.V != firstVariant[st.B]:
				out.Key = "replay-altered-bit255"
				out.What = fmt.Sprintf("a copy of an accepted %s first packet that differs in bit 255 of the random only (same sealed block) authenticated again %v after the client stamp while the accepted copy was still in the replay cache", transport, now.Sub(time.Unix(p.ts, 0)))
			default:
				out.Key = "replay-accepted"
				out.What = fmt.Sprintf("an accepted %s first packet authenticated again %v after the client stamp", transport, now.Sub(time.Unix(p.ts, 0)))
			}
		}
		// present step i while sweep sw is parked: start it, wait until it queues on the lock (or returns),
		// let the sweep finish, collect the result
		presentDuring := func(i int, sw *c08Sweeper, at time.Duration) {
			st := h.Steps[i]
			p := packets[st.B]
			remembered := remSnap[st.B] // taken before the sweep: the lock cannot be touched while it is parked
			done := make(chan error, 1)
			var pid atomic.Int64
			go func() {
				pid.Store(c08Goid())
				_, _, err := AuthFirstPacket(c08Variant(p, st.V), c08Transport(transport), sta)
				done <- err
			}()
			out.Early++
			var err error
			finished, queued := false, false
			deadline := c08RealTicks.Load() + 1500 // 300 ms of real time
			for !finished && !queued && c08RealTicks.Load() < deadline {
				select {
				case err = <-done:
					finished = true
				default:
					if id := pid.Load(); id != 0 && c08BlockedOnLock(id) {
						queued = true
					} else {
						runtime.Gosched()
					}
				}
			}
			if queued {
				out.EarlyQ++
			}
			if finished {
				out.EarlyRan++
			}
			sw.finish()
			if !finished {
				err = <-done
			}
			synctest.Wait()
			note := " [arrived during the sweep, queued]"
			if finished {
				note = " [arrived during the sweep, ran]"
			}
			observe(i, st, err, at, note)
			verdict(st, remembered)
			handled[i] = true
		}
		cleanObs := func(i int, st c08Step, at time.Duration, name string, compare bool) {
			before := lastEntries
			for b := range cleansSinceAccept {
				cleansSinceAccept[b]++
			}
			n := entries()
			out.Cleans++
			if n < before {
				out.Evicting++
			}
			lastEntries = n
			if compare && internal && !deviant && n != st.Nc {
				out.NcDiff++
			}
			out.Table = append(out.Table, fmt.Sprintf("step %d t=%v %s: entries %d -> %d (model %d)", i, at, name, before, n, st.Nc))
		}
		earlyNext := func(i int) bool {
			return early && i+1 < len(h.Steps) && h.Steps[i+1].A == "Present"
		}

		for i, st := range h.Steps {
			if handled[i] {
				continue
			}
			if gated && (st.A == "Clean" || st.A == "CleanBegin") {
				sta.registerRandom(ballast) // a foreign random, so that the sweep has an entry to decide about
				for b, p := range packets {
					remSnap[b] = accepted[b] > 0 && c08Remembered(sta, p, firstVariant[b])
				}
			}
			time.Sleep(time.Until(times[i]))
			at := time.Now().Sub(m)
			switch st.A {
			case "Tick":
				continue
			case "Issue":
				skew := time.Duration(st.K) * c.Tick
				p, err := c08MakePacket(transport, func() time.Time { return time.Now().Add(skew) })
				if err != nil {
					t.Fatalf("cannot build a first packet: %v", err)
				}
				packets[st.B] = p
				out.Table = append(out.Table, fmt.Sprintf("step %d t=%v Issue(block %d, skew %d ticks): client stamp %d", i, at, st.B, st.K, p.ts))
			case "Clean":
				sw := sweeperAt[i]
				synctest.Wait() // the cleaner whose timer fires now has finished its iteration, or is parked in it
				if gated {
					if earlyNext(i) && sw.parked.Load() {
						out.Table = append(out.Table, fmt.Sprintf("step %d t=%v Clean: the real sweep is parked at one of its decisions", i, at))
						time.Sleep(time.Until(times[i+1]))
						presentDuring(i+1, sw, time.Now().Sub(m))
						cleanObs(i, st, at, "Clean (released after the presentation had arrived)", false)
						continue
					}
					sw.finish()
					synctest.Wait()
				}
				cleanObs(i, st, at, "Clean", true)
			case "CleanBegin":
				cur = sweeperAt[i]
				synctest.Wait() // parked at its first decision (or through, if the cache was empty)
				out.Table = append(out.Table, fmt.Sprintf("step %d t=%v CleanBegin: sweep parked=%v", i, at, cur.parked.Load()))
			case "CleanVisit":
				if cur != nil {
					cur.step()
					synctest.Wait()
				}
				out.Table = append(out.Table, fmt.Sprintf("step %d t=%v CleanVisit: one decision of the real sweep released (model entries %d)", i, at, st.Nc))
			case "CleanEnd":
				if cur != nil {
					if earlyNext(i) && cur.parked.Load() {
						sw := cur
						cur = nil
						time.Sleep(time.Until(times[i+1]))
						presentDuring(i+1, sw, time.Now().Sub(m))
						cleanObs(i, st, at, "CleanEnd (released after the presentation had arrived)", false)
						continue
					}
					cur.finish()
					synctest.Wait()
					cur = nil
				}
				cleanObs(i, st, at, "CleanEnd", true)
			case "CleanSwap":
				continue // not observable on its own: the real sweep ran to its end at CleanEnd
			case "Present":
				if cur != nil && cur.parked.Load() { // a presentation while the sweep is open: it has to queue
					sw := cur
					cur = nil
					presentDuring(i, sw, at)
					continue
				}
				p := packets[st.B]
				remembered := accepted[st.B] > 0 && c08Remembered(sta, p, firstVariant[st.B]) // names the class of a violation, never decides
				_, _, err := AuthFirstPacket(c08Variant(p, st.V), c08Transport(transport), sta)
				observe(i, st, err, at, "")
				verdict(st, remembered)
			}
		}
		for _, sw := range sweeperAt {
			sw.finish()
		}
		// let every cleaner reach its second firing, where the hook retires it
		time.Sleep(time.Until(epoch.Add(2*period + 2*time.Hour)))
		synctest.Wait()
	})
	return out
}

// c08Deviant: the history comes from a deviating model (a counter-example of AtMostOnce): its expected
// observations describe the defect, not HEAD, and are not compared.
func c08Deviant(h *c08History) bool { return len(h.Dev) > 0 || strings.HasPrefix(h.Src, "cex") }

func c08Nontrivial(h *c08History) bool {
	// a block is presented again after the model accepted it (a replay attempt)
	acc := map[int]bool{}
	for _, st := range h.Steps {
		if st.A == "Present" {
			if acc[st.B] {
				return true
			}
			if st.Ok {
				acc[st.B] = true
			}
		}
	}
	return false
}

func c08Sig(h *c08History) string {
	var sb strings.Builder
	for _, st := range h.Steps {
		fmt.Fprintf(&sb, "%s%d%s%d;", st.A, st.B, st.V, st.K)
	}
	return sb.String()
}

func TestVerifC08Replay(t *testing.T) {
	c08Quiet()
	res := c08Res
	defer func() { res.Save(true) }()
	if !verifhook.Enabled {
		t.Fatal("built without -tags verif")
	}
	c08InstallCleanerExit()
	defer verifhook.Set(nil)
	c08StartRealTicker()
	concs := c08Concretisations(res)
	if len(concs) == 0 {
		t.Fatal("no concretisation of the tick model fits the constants of the code under test")
	}
	if rp := kit.Env("VERIF_REPLAY", ""); rp != "" {
		c08ReplayFile(t, rp, concs)
		return
	}
	perHist := kit.EnvInt("VERIF_C08_CONCS", 2)
	transports := []string{"TLS", "WebSocket"}
	t0 := time.Now()
	type job struct {
		idx  int
		line []byte
	}
	jobs := make(chan job, 256)
	var readErr error
	total := 0
	go func() {
		defer close(jobs)
		idx := 0
		readErr = kit.ReadLines(kit.Env("VERIF_IN", ""), func(line []byte) error {
			idx++
			total = idx
			jobs <- job{idx, append([]byte{}, line...)}
			return nil
		})
	}()
	var mismatchSamples, parseErrs atomic.Int32
	one := func(t *testing.T, j job) {
		var h c08History
		if err := json.Unmarshal(j.line, &h); err != nil {
			parseErrs.Add(1)
			return
		}
		if h.W != 2 {
			res.Stat("skipped_w", 1)
			return
		}
		if res.NumViolations() > 40 {
			return
		}
		n := perHist
		if (c08Deviant(&h) && !strings.HasSuffix(h.Src, "_2p")) || n > len(concs) {
			n = len(concs) // counter-examples of the deviating models (one-block sets): every concretisation
		}
		split, slot := c08HasSplit(&h), c08HasEarlySlot(&h)
		runs := n
		if split {
			runs = (n + 1) / 2 // every run of such a history drives the real sweep decision by decision
		} else if slot && (kit.Thorough() || j.idx%2 == 0 || c08Deviant(&h)) {
			runs = n + 1 // one more run in which the presentation after a clean-up ARRIVES during the sweep
		}
		for k := 0; k < runs; k++ {
			c := concs[(j.idx*perHist+k)%len(concs)]
			if n == len(concs) && k < n {
				c = concs[k]
			}
			early := slot && ((split && (j.idx+k)%2 == 0) || (!split && k == n))
			tr := transports[(j.idx+k)%2]
			o := c08RunHistory(t, &h, c, tr, early)
			if early {
				res.Stat("early_runs", 1)
			}
			res.Stat("early_presentations", int64(o.Early))
			res.Stat("early_queued_on_lock", int64(o.EarlyQ))
			res.Stat("early_ran_during_sweep", int64(o.EarlyRan))
			res.Count(c08Sig(&h), c08Nontrivial(&h))
			res.Stat("presentations", int64(c08CountPresent(&h)))
			res.Stat("replay_attempts_in_window", int64(o.Replays))
			res.Stat("clean_steps", int64(o.Cleans))
			res.Stat("clean_steps_evicting", int64(o.Evicting))
			res.Stat("mismatch", int64(o.Mismatch))
			res.Stat("nc_diff", int64(o.NcDiff))
			res.Stat("why_diff", int64(o.WhyDiff))
			res.Stat("runs:"+c.Name, 1)
			res.Stat("runs:"+tr, 1)
			res.Stat("src:"+h.Src, 1)
			if c08Deviant(&h) {
				if o.Key != "" {
					res.Stat("cex_reproduced:"+h.Src, 1)
				} else {
					res.Stat("cex_not_reproduced:"+h.Src, 1)
				}
			}
			if o.Key != "" {
				res.Violate(o.Key, o.What, map[string]any{"kind": "history", "history": h, "conc": c, "transport": tr, "early": early, "table": o.Table})
			} else if o.Mismatch > 0 && mismatchSamples.Add(1) <= 3 {
				res.Note("model/code disagreement (no verdict) on %s under %s/%s: %s", c08Sig(&h), c.Name, tr, strings.Join(o.Table, " | "))
			}
		}
		if j.idx%1499 == 1 {
			res.Sample(map[string]any{"history": json.RawMessage(j.line)}, 3)
		}
	}
	// bubbles are independent of each other (the retiring hook is stateless): run them on several workers
	workers := runtime.GOMAXPROCS(0)
	if workers > 12 {
		workers = 12
	}
	workers = kit.EnvInt("VERIF_C08_WORKERS", workers)
	t.Run("bubbles", func(t *testing.T) {
		for w := 0; w < workers; w++ {
			t.Run(fmt.Sprintf("w%d", w), func(t *testing.T) {
				t.Parallel()
				for j := range jobs {
					one(t, j)
				}
			})
		}
	})
	if readErr != nil {
		t.Fatal(readErr)
	}
	if parseErrs.Load() > 0 {
		t.Fatalf("%d unparsable histories", parseErrs.Load())
	}
	res.Stat("histories", int64(total))
	res.Stat("replay_wall_ms", time.Since(t0).Milliseconds())
}

func c08CountPresent(h *c08History) int {
	n := 0
	for _, st := range h.Steps {
		if st.A == "Present" {
			n++
		}
	}
	return n
}

// c08ReplayFile re-runs one saved violation and prints the expected/observed table.
func c08ReplayFile(t *testing.T, path string, concs []c08Conc) {
	var rf struct {
		Replay struct {
			Kind      string     `json:"kind"`
			History   c08History `json:"history"`
			Conc      c08Conc    `json:"conc"`
			Transport string     `json:"transport"`
			Early     bool       `json:"early"`
		} `json:"replay"`
	}
	raw, err := os.ReadFile(path)
	if err != nil {
		t.Fatal(err)
	}
	if err := json.Unmarshal(raw, &rf); err != nil {
		t.Fatal(err)
	}
	if rf.Replay.Kind != "history" {
		fmt.Printf("REPLAY-RESULT kind=%q is replayed by its own test function\n", rf.Replay.Kind)
		return
	}
	c := rf.Replay.Conc
	if c.Tick == 0 {
		c = concs[0]
	}
	tr := rf.Replay.Transport
	if tr == "" {
		tr = "TLS"
	}
	o := c08RunHistory(t, &rf.Replay.History, c, tr, rf.Replay.Early)
	for _, l := range o.Table {
		fmt.Println(l)
	}
	fmt.Printf("REPLAY-RESULT key=%q what=%q\n", o.Key, o.What)
}

// ------------------------------------------------------------------------------- altered copies

func TestVerifC08Variants(t *testing.T) {
	c08Quiet()
	res := c08Res
	defer func() { res.Save(true) }()
	rng := kit.NewRng(kit.Seed() + 808)
	rounds := 1
	multi := 1500
	if kit.Thorough() {
		rounds = 4
		multi = 20000
	}
	auth := func(sta *State, raw []byte, tr string) error {
		_, _, err := AuthFirstPacket(raw, c08Transport(tr), sta)
		return err
	}
	for round := 0; round < rounds; round++ {
		for _, tr := range []string{"TLS", "WebSocket"} {
			p, err := c08MakePacket(tr, time.Now)
			if err != nil {
				t.Fatal(err)
			}
			if err := auth(c08NewState(time.Now), p.raw, tr); err != nil {
				t.Fatalf("a fresh %s packet of the real client does not authenticate: %v", tr, err)
			}
			// check(name, altered): does the altered copy authenticate on its own, and if so is it refused after
			// the original was accepted / is the original refused after the altered copy was accepted
			// the original is accepted once on `used`; every altered copy is then presented to it
			used := c08NewState(time.Now)
			if err := auth(used, p.raw, tr); err != nil {
				t.Fatalf("original refused on a fresh state: %v", err)
			}
			// check(name, altered): the altered copy must be refused where the original was accepted; if it
			// authenticates on its own (fresh state), the original must be refused after it
			check := func(key, name string, altered []byte, alteredTr string) {
				if key == "" {
					key = c08AlterationKey(p, altered, alteredTr)
				}
				if err := auth(used, altered, alteredTr); err == nil {
					res.Violate(key, fmt.Sprintf("after a %s first packet was accepted, the copy altered by %s (same sealed block) authenticated as well", tr, name),
						map[string]any{"kind": "variant", "transport": tr, "alteration": name})
				}
				fresh := c08NewState(time.Now)
				standalone := auth(fresh, altered, alteredTr) == nil
				res.Count(tr+"/"+name, standalone)
				if standalone {
					res.Stat("variants_still_authenticating", 1)
					if err := auth(fresh, p.raw, tr); err == nil {
						res.Violate(key, fmt.Sprintf("after the copy of a %s first packet altered by %s was accepted, the original (same sealed block) authenticated as well", tr, name),
							map[string]any{"kind": "variant", "transport": tr, "alteration": name, "order": "altered-first"})
					}
				}
			}
			// 1. all 256 single-bit flips of the random
			for b := 0; b < 256; b++ {
				check("", fmt.Sprintf("random bit %d", b), c08FlipRandom(p, b), tr)
			}
			// 2. every single-bit flip of the whole first packet
			for i := 0; i < len(p.raw)*8; i++ {
				alt := append([]byte{}, p.raw...)
				alt[i/8] ^= 1 << uint(i%8)
				check("", fmt.Sprintf("packet bit %d (byte %d)", i, i/8), alt, tr)
			}
			// 3. random multi-bit flips of the random (bit 255 in half of them)
			for k := 0; k < multi; k++ {
				nb := 2 + rng.Intn(3)
				bits := make([]int, 0, nb)
				if k%2 == 0 {
					bits = append(bits, 255)
				}
				for len(bits) < nb {
					bits = append(bits, rng.Intn(256))
				}
				check("", fmt.Sprint("random bits ", bits), c08FlipRandom(p, bits...), tr)
			}
			// 4. the sealed block re-wrapped into the other transport by someone without keys
			other := "WebSocket"
			var rewrapped []byte
			if tr == "WebSocket" {
				other = "TLS"
				// a ClientHello carrying this block: take any ClientHello of the client and splice the fields in
				donor, err := c08MakePacket("TLS", time.Now)
				if err != nil {
					t.Fatal(err)
				}
				rewrapped = append([]byte{}, donor.raw...)
				for part := 0; part < 3; part++ {
					i := bytes.Index(rewrapped, donor.hidden[part*32:part*32+32])
					copy(rewrapped[i:i+32], p.hidden[part*32:part*32+32])
				}
			} else {
				rewrapped, err = c08WsRequest(p.hidden)
				if err != nil {
					t.Fatal(err)
				}
			}
			check("replay-altered-transport", "re-wrapping into "+other, rewrapped, other)
			for _, b := range []int{255} {
				q := &c08Packet{transport: other, raw: rewrapped, hidden: p.hidden, random: p.random}
				check("replay-altered-bit255", "re-wrapping into "+other+" with random bit 255 flipped", c08FlipRandom(q, b), other)
			}
		}
	}
	if res.Stats["variants_still_authenticating"] == 0 {
		res.Note("no altered copy authenticates on its own: the altered-copy part of the statement holds vacuously on this tree")
	}
}

// ---------------------------------------------------------------------------------------- B3: gate

func TestVerifC08Gate(t *testing.T) {
	c08Quiet()
	res := c08Res
	defer func() { res.Save(true) }()
	if !verifhook.Enabled {
		t.Fatal("built without -tags verif")
	}
	reps := 1
	grace := 60 * time.Millisecond
	if kit.Thorough() {
		reps = 4
		grace = 150 * time.Millisecond
	}
	defer verifhook.Set(nil)
	// Schedule points of a presentation: every verifhook point and every State.WorldState.Now() call it passes.
	// Presenter A is parked at its k-th point, for every k; presenter B then presents the same sealed block.
	var aGoid atomic.Int64
	var aCount, target atomic.Int32
	var parked, release chan struct{}
	second := make(chan struct{}, 64)
	var names []string
	var namesMu sync.Mutex
	point := func(name string) {
		if c08Goid() == aGoid.Load() {
			k := aCount.Add(1)
			if target.Load() == 0 {
				namesMu.Lock()
				names = append(names, name)
				namesMu.Unlock()
			}
			if k == target.Load() {
				close(parked)
				<-release
			}
			return
		}
		if aGoid.Load() != 0 {
			select {
			case second <- struct{}{}:
			default:
			}
		}
	}
	verifhook.Set(func(p string, args ...uint64) { point("hook:" + p) })
	gatedNow := func() time.Time { point("now"); return time.Now() }
	runA := func(sta *State, raw []byte, tr string, errc chan error) {
		go func() {
			aCount.Store(0)
			aGoid.Store(c08Goid())
			_, _, err := AuthFirstPacket(raw, c08Transport(tr), sta)
			aGoid.Store(0)
			errc <- err
		}()
	}
	// dry run: which points does a presentation pass?
	{
		p, err := c08MakePacket("TLS", time.Now)
		if err != nil {
			t.Fatal(err)
		}
		target.Store(0)
		errc := make(chan error, 1)
		runA(c08NewState(gatedNow), p.raw, "TLS", errc)
		if err := <-errc; err != nil {
			t.Fatalf("dry run refused: %v", err)
		}
	}
	nPoints := len(names)
	res.Note("schedule points of one presentation: %v", names)
	if nPoints == 0 {
		t.Fatal("a presentation passes no schedule point")
	}
	round := 0
	for rep := 0; rep < reps; rep++ {
		for k := 1; k <= nPoints; k++ {
			for _, tr := range []string{"TLS", "WebSocket"} {
				for _, variantB := range []string{"same", "bit255"} {
					round++
					p, err := c08MakePacket(tr, time.Now)
					if err != nil {
						t.Fatal(err)
					}
					sta := c08NewState(gatedNow)
					parked, release = make(chan struct{}), make(chan struct{})
					for len(second) > 0 {
						<-second
					}
					target.Store(int32(k))
					errA := make(chan error, 1)
					errB := make(chan error, 1)
					runA(sta, p.raw, tr, errA)
					var eA, eB error
					aDone := false
					select {
					case <-parked:
					case eA = <-errA:
						aDone = true // fewer points on this path (refused early): nothing to park
					case <-time.After(10 * time.Second):
						t.Fatalf("schedule point %d (%s) was never reached", k, names[k-1])
					}
					go func() {
						_, _, err := AuthFirstPacket(c08Variant(p, variantB), c08Transport(tr), sta)
						errB <- err
					}()
					bDone, bPassed := false, false
					select {
					case eB = <-errB:
						bDone = true
					case <-time.After(grace):
					}
					if len(second) > 0 {
						bPassed = true // B went through a schedule point while A was parked
					}
					close(release)
					if !aDone {
						eA = <-errA
					}
					if !bDone {
						select {
						case eB = <-errB:
						case <-time.After(10 * time.Second):
							t.Fatal("second presenter never returned")
						}
					}
					target.Store(-1)
					res.Count(fmt.Sprintf("gate/%s/%s/%d", tr, variantB, k), true)
					if bDone {
						res.Stat("gate_second_returned_while_first_parked", 1)
					} else {
						res.Stat("gate_second_waited", 1)
					}
					if eA == nil && eB == nil {
						where := names[k-1]
						overlapped := bDone || bPassed
						replay := map[string]any{"kind": "gate", "transport": tr, "variant": variantB, "parked_at": where, "point": k, "second_ran_while_first_parked": overlapped}
						switch {
						case overlapped:
							res.Violate("replay-concurrent", fmt.Sprintf("two overlapping presentations of one %s first packet (second copy: %s) both authenticated: the second ran while the first was parked at its schedule point %d (%s), so test and set of the replay cache are not one critical section", tr, variantB, k, where), replay)
						case variantB != "same":
							res.Violate("replay-altered-bit255", fmt.Sprintf("two presentations of one %s sealed block, the second with bit 255 of the random flipped, both authenticated (the second waited for the first to leave the critical section)", tr), replay)
						default:
							res.Violate("replay-accepted", fmt.Sprintf("two presentations of one %s first packet both authenticated although the second waited for the first", tr), replay)
						}
					}
					if eA != nil && eB != nil {
						res.Note("gate round %d: both presenters refused (%v / %v)", round, eA, eB)
						res.Stat("gate_both_refused", 1)
					}
				}
			}
		}
	}
	res.Stat("gate_rounds", int64(round))
	res.Stat("gate_points", int64(nPoints))
}

// -------------------------------------------------------------------------------------- B2: stress

func TestVerifC08Stress(t *testing.T) {
	c08Quiet()
	res := c08ResStress // own result: this test may take the process down on a broken tree
	defer func() { res.Save(true) }()
	rounds := kit.EnvInt("VERIF_C08_ROUNDS", 120)
	if kit.Thorough() {
		rounds = kit.EnvInt("VERIF_C08_ROUNDS", 1000)
	}
	res.SetRunning(map[string]any{"kind": "stress"}, true)
	// schedule perturbation: in every other group of rounds a presenter yields the processor a few times
	// between the test and the set (hook point inside the critical section).  With the lock held this only
	// serialises the others; it never creates an acceptance.
	var perturb atomic.Bool
	if verifhook.Enabled {
		verifhook.Set(func(point string, args ...uint64) {
			if point == "state.random.checked" && perturb.Load() {
				for i := 0; i < 3; i++ {
					runtime.Gosched()
				}
			}
		})
		defer verifhook.Set(nil)
	}
	for _, n := range []int{2, 8, 64} {
		for round := 0; round < rounds && res.NumViolations() < 5; round++ {
			tr := []string{"TLS", "WebSocket"}[round%2]
			mixed := round%4 >= 2 // half of the presenters use the bit-255 copy
			perturb.Store(round%8 >= 4)
			p, err := c08MakePacket(tr, time.Now)
			if err != nil {
				t.Fatal(err)
			}
			alt := c08Variant(p, "bit255")
			sta := c08NewState(time.Now)
			start := make(chan struct{})
			var ready, wg sync.WaitGroup
			var acceptsSame, acceptsAlt, other atomic.Int32
			for g := 0; g < n; g++ {
				raw, cnt := p.raw, &acceptsSame
				if mixed && g%2 == 1 {
					raw, cnt = alt, &acceptsAlt
				}
				ready.Add(1)
				wg.Add(1)
				go func() {
					defer wg.Done()
					ready.Done()
					<-start
					_, _, err := AuthFirstPacket(raw, c08Transport(tr), sta)
					if err == nil {
						cnt.Add(1)
					} else if !errors.Is(err, ErrReplay) {
						other.Add(1)
					}
				}()
			}
			ready.Wait()
			close(start)
			wg.Wait()
			accepts := acceptsSame.Load() + acceptsAlt.Load()
			res.Count(fmt.Sprintf("stress/%d/%s/%v", n, tr, mixed), true)
			res.Stat(fmt.Sprintf("stress_rounds_n%d", n), 1)
			if other.Load() > 0 {
				res.Stat("stress_unexpected_errors", int64(other.Load()))
			}
			if accepts == 0 {
				res.Stat("stress_nobody_accepted", 1)
			}
			if accepts > 1 {
				replay := map[string]any{"kind": "stress", "n": n, "transport": tr, "mixed": mixed, "yield_between_test_and_set": perturb.Load(), "accepted_same": acceptsSame.Load(), "accepted_bit255": acceptsAlt.Load()}
				seq := c08NewState(time.Now)
				_, _, e1 := AuthFirstPacket(p.raw, c08Transport(tr), seq)
				_, _, e2 := AuthFirstPacket(alt, c08Transport(tr), seq)
				if acceptsSame.Load() <= 1 && acceptsAlt.Load() <= 1 && e1 == nil && e2 == nil {
					// one acceptance per byte variant, and the two copies do not exclude each other even when
					// presented one after the other: not a race
					res.Violate("replay-altered-bit255", fmt.Sprintf("of %d simultaneous presentations of one %s sealed block, one of the captured bytes and one of the copy with bit 255 of the random flipped authenticated", n, tr), replay)
				} else {
					res.Violate("replay-concurrent", fmt.Sprintf("%d of %d simultaneous presentations of one %s first packet authenticated (mixed byte variants: %v)", accepts, n, tr, mixed), replay)
				}
			}
		}
	}
	res.Sample(map[string]any{"kind": "stress", "n": []int{2, 8, 64}, "rounds_each": rounds}, 1)
}

// TestVerifC08SweepStress: N simultaneous presentations of one packet x the real UsedRandomCleaner sweeping at
// the same instant.  One bubble; the cleaner loops on the virtual clock, every round sits on one of its
// firings: the presenters sleep until exactly that instant, so that they and the sweep wake together and run
// in real parallel (the clock only moves on when all of them are done).  A few thousand fresh foreign randoms
// make the sweep long enough to overlap.  Per packet exactly one presentation may authenticate, including a
// follow-up presentation 30 s later (still inside the window).
func TestVerifC08SweepStress(t *testing.T) {
	c08Quiet()
	res := c08ResStress
	defer func() { res.Save(true) }()
	if !verifhook.Enabled {
		t.Fatal("built without -tags verif")
	}
	rounds := kit.EnvInt("VERIF_C08_SWEEP_ROUNDS", 40)
	foreign := 3000
	if kit.Thorough() {
		rounds = kit.EnvInt("VERIF_C08_SWEEP_ROUNDS", 400)
	}
	res.SetRunning(map[string]any{"kind": "sweepstress"}, true)
	var over, perturb atomic.Bool
	verifhook.Set(func(point string, args ...uint64) {
		switch point {
		case "state.cleaner.tick":
			if over.Load() {
				runtime.Goexit()
			}
		case "state.random.checked":
			if perturb.Load() {
				runtime.Gosched()
				runtime.Gosched()
			}
		}
	})
	defer verifhook.Set(nil)
	rng := kit.NewRng(kit.Seed() + 8080)
	period := replayCacheAgeLimit
	synctest.Test(t, func(t *testing.T) {
		epoch := time.Now()
		now := func() time.Time { // every clock read of the code is a yield point in the perturbed rounds
			if perturb.Load() {
				runtime.Gosched()
			}
			return time.Now()
		}
		sta := c08NewState(now)
		go sta.UsedRandomCleaner() // fires at epoch + k * period
		k := 0
		for _, n := range []int{2, 8, 64} {
			for round := 0; round < rounds && res.NumViolations() < 5; round++ {
				k++
				fire := epoch.Add(time.Duration(k) * period)
				time.Sleep(time.Until(fire.Add(-5 * time.Second)))
				tr := []string{"TLS", "WebSocket"}[round%2]
				perturb.Store(round%4 >= 2)
				sta.usedRandomM.Lock()
				stamp := time.Now().Unix()
				for j := 0; j < foreign; j++ {
					var key [32]byte
					copy(key[:], rng.Bytes(32))
					sta.UsedRandom[key] = stamp
				}
				sta.usedRandomM.Unlock()
				p, err := c08MakePacket(tr, time.Now)
				if err != nil {
					t.Fatal(err)
				}
				var wg sync.WaitGroup
				var simultaneous atomic.Int32
				for g := 0; g < n; g++ {
					wg.Add(1)
					go func() {
						defer wg.Done()
						time.Sleep(time.Until(fire)) // wakes together with the cleaner
						if _, _, err := AuthFirstPacket(p.raw, c08Transport(tr), sta); err == nil {
							simultaneous.Add(1)
						}
					}()
				}
				wg.Wait()
				time.Sleep(30 * time.Second)
				_, _, errLater := AuthFirstPacket(p.raw, c08Transport(tr), sta)
				res.Count(fmt.Sprintf("sweepstress/%d/%s/%v", n, tr, perturb.Load()), true)
				res.Stat(fmt.Sprintf("sweepstress_rounds_n%d", n), 1)
				if simultaneous.Load() == 0 {
					res.Stat("sweepstress_nobody_accepted", 1)
				}
				replay := map[string]any{"kind": "sweepstress", "n": n, "transport": tr, "yield_at_clock_reads": perturb.Load(),
					"accepted_at_the_sweep": simultaneous.Load(), "accepted_30s_later": errLater == nil}
				switch {
				case simultaneous.Load() > 1:
					res.Violate("replay-concurrent", fmt.Sprintf("%d of %d presentations of one %s first packet made at the instant of a clean-up authenticated", simultaneous.Load(), n, tr), replay)
				case simultaneous.Load() == 1 && errLater == nil:
					res.Violate("replay-during-cleanup", fmt.Sprintf("a %s first packet accepted at the instant of a clean-up of the replay cache authenticated again 30 s later: its random did not survive the sweep", tr), replay)
				}
			}
		}
		perturb.Store(false)
		over.Store(true)
		time.Sleep(period + time.Hour) // the cleaner's next firing retires it
		synctest.Wait()
	})
	res.Sample(map[string]any{"kind": "sweepstress", "n": []int{2, 8, 64}, "rounds_each": rounds, "foreign_randoms": foreign}, 2)
}

// ------------------------------------------------------------------------------------ flood histories
//
// A "Foreign" step of the model is one foreign random taking room in the cache; on the code it is a burst of
// ceil(N / cap) distinct parsable first packets of somebody else (cap = capacity constant of the model that
// produced the history, N = flood size of the run), so that the model's "cache full" is "N randoms since the
// packet was accepted" on the code.  Most of the burst goes through the real registerRandom directly, the first
// few thousand through AuthFirstPacket as junk ClientHellos / GETs (random bytes where the sealed block would be).
// The clock is a hand-driven WorldState.Now (no cleaner in these histories): everything happens inside the window.

func c08RunFlood(t *testing.T, h *c08History, c c08Conc, transport string, flood int, viaAuth int) (out c08Outcome, inserted int) {
	tol := timestampTolerance
	var clk atomic.Int64
	clk.Store(time.Now().Truncate(time.Second).UnixNano() + int64(c.Phase))
	now := func() time.Time { return time.Unix(0, clk.Load()) }
	sta := c08NewState(now)
	// room for the whole flood from the start: growing a Go map step by step to a million entries costs seconds and
	// says nothing about Cloak (the hint is not behaviour; a tree that replaces the map starts again from a small one)
	sta.UsedRandom = make(map[[32]byte]int64, flood+flood/8)
	capacity := h.Cap
	if capacity < 1 {
		capacity = 2
	}
	burst := (flood + capacity - 1) / capacity
	template, err := c08MakePacket(transport, now)
	if err != nil {
		t.Fatal(err)
	}
	var serial uint64
	stream := kit.NewRng(kit.Seed()*7919 + int64(flood))
	freshKey := func() (k [32]byte) {
		serial++
		for j := 0; j < 32; j += 8 {
			binary.LittleEndian.PutUint64(k[j:], stream.Uint64())
		}
		binary.LittleEndian.PutUint32(k[24:], uint32(serial)) // distinct for sure
		k[31] &= 0x7f
		return k
	}
	packets := map[int]*c08Packet{}
	accepted := map[int]int{}
	foreignSince := map[int]int{}
	entries := func() int {
		sta.usedRandomM.RLock()
		defer sta.usedRandomM.RUnlock()
		return len(sta.UsedRandom)
	}
	deviant := c08Deviant(h)
	for i, st := range h.Steps {
		clk.Add(int64(c08StepEps))
		at := time.Duration(0)
		switch st.A {
		case "Tick":
			clk.Add(int64(c.Tick))
		case "Issue":
			skew := time.Duration(st.K) * c.Tick
			p, err := c08MakePacket(transport, func() time.Time { return now().Add(skew) })
			if err != nil {
				t.Fatal(err)
			}
			packets[st.B] = p
			out.Table = append(out.Table, fmt.Sprintf("step %d Issue(block %d, skew %d ticks): client stamp %d", i, st.B, st.K, p.ts))
		case "Foreign":
			before := entries()
			for j := 0; j < burst; j++ {
				k := freshKey()
				if j < viaAuth { // the real path: a parsable first packet whose sealed block is garbage
					junk := &c08Packet{transport: transport, raw: template.raw, hidden: template.hidden, random: template.random}
					h2 := append([]byte{}, template.hidden...)
					copy(h2[:32], k[:])
					var raw []byte
					if transport == "WebSocket" {
						raw = bytes.Replace(junk.raw, []byte(base64.StdEncoding.EncodeToString(template.hidden)), []byte(base64.StdEncoding.EncodeToString(h2)), 1)
					} else {
						raw = append([]byte{}, junk.raw...)
						off := bytes.Index(raw, template.random[:])
						copy(raw[off:off+32], k[:])
					}
					if _, _, err := AuthFirstPacket(raw, c08Transport(transport), sta); err == nil {
						t.Fatalf("a junk first packet authenticated")
					}
				} else {
					sta.registerRandom(k)
				}
			}
			inserted += burst
			for b := range foreignSince {
				foreignSince[b] += burst
			}
			n := entries()
			out.Table = append(out.Table, fmt.Sprintf("step %d Foreign: %d foreign first packets (%d through AuthFirstPacket), cache %d -> %d entries", i, burst, min(viaAuth, burst), before, n))
		case "Present":
			p := packets[st.B]
			_, _, err := AuthFirstPacket(c08Variant(p, st.V), c08Transport(transport), sta)
			nw := now()
			inWin := time.Unix(p.ts, 0).After(nw.Add(-tol)) && time.Unix(p.ts, 0).Before(nw.Add(tol))
			out.Table = append(out.Table, fmt.Sprintf("step %d Present(block %d, %s): expected ok=%v (%s) observed ok=%v (%s) age=%v, %d foreign packets since it was accepted, cache %d entries",
				i, st.B, st.V, st.Ok, st.Why, err == nil, c08Why(err), nw.Sub(time.Unix(p.ts, 0)), foreignSince[st.B], entries()))
			if accepted[st.B] > 0 && inWin {
				out.Replays++
			}
			if !deviant && (err == nil) != st.Ok {
				out.Mismatch++
			}
			if err == nil {
				accepted[st.B]++
				out.Accepts++
				if accepted[st.B] == 1 {
					foreignSince[st.B] = 0
				} else if inWin && out.Key == "" {
					out.Key = "replay-after-flood"
					out.What = fmt.Sprintf("an accepted %s first packet authenticated again %v after the client stamp (window %v) after %d distinct foreign first packets had been presented in between: the replay cache forgot a random that was still replayable", transport, nw.Sub(time.Unix(p.ts, 0)), tol, foreignSince[st.B])
					if foreignSince[st.B] == 0 {
						out.Key = "replay-accepted"
					}
				}
			}
		}
		_ = at
	}
	return out, inserted
}

func TestVerifC08Flood(t *testing.T) {
	c08Quiet()
	res := c08Res
	defer func() { res.Save(true) }()
	concs := c08Concretisations(res)
	if len(concs) == 0 {
		t.Fatal("no concretisation")
	}
	var sizes []int
	for _, f := range strings.Split(kit.Env("VERIF_C08_FLOOD_SIZES", "1114112"), ",") {
		if n, err := strconv.Atoi(strings.TrimSpace(f)); err == nil && n > 0 {
			sizes = append(sizes, n)
		}
	}
	viaAuth := kit.EnvInt("VERIF_C08_FLOOD_VIA_AUTH", 2048)
	if rp := kit.Env("VERIF_REPLAY", ""); rp != "" {
		var rf struct {
			Replay struct {
				History   c08History `json:"history"`
				Conc      c08Conc    `json:"conc"`
				Transport string     `json:"transport"`
				Flood     int        `json:"flood"`
			} `json:"replay"`
		}
		raw, err := os.ReadFile(rp)
		if err != nil {
			t.Fatal(err)
		}
		if err := json.Unmarshal(raw, &rf); err != nil {
			t.Fatal(err)
		}
		o, _ := c08RunFlood(t, &rf.Replay.History, rf.Replay.Conc, rf.Replay.Transport, rf.Replay.Flood, viaAuth)
		for _, l := range o.Table {
			fmt.Println(l)
		}
		fmt.Printf("REPLAY-RESULT key=%q what=%q\n", o.Key, o.What)
		return
	}
	idx := 0
	err := kit.ReadLines(kit.Env("VERIF_FLOOD_IN", ""), func(line []byte) error {
		var h c08History
		if err := json.Unmarshal(line, &h); err != nil {
			return err
		}
		idx++
		for si, size := range sizes {
			if res.NumViolations() > 40 {
				return nil
			}
			c := concs[(idx+si)%len(concs)]
			tr := []string{"TLS", "WebSocket"}[(idx+si)%2]
			t0 := time.Now()
			o, inserted := c08RunFlood(t, &h, c, tr, size, viaAuth)
			var ms runtime.MemStats
			runtime.ReadMemStats(&ms)
			res.Stat("flood_runs", 1)
			res.Stat("flood_foreign_packets", int64(inserted))
			res.Stat("flood_wall_ms", time.Since(t0).Milliseconds())
			if mb := int64(ms.HeapAlloc >> 20); mb > res.Stats["flood_heap_mb_max"] {
				res.Stat("flood_heap_mb_max", mb-res.Stats["flood_heap_mb_max"])
			}
			res.Stat("mismatch", int64(o.Mismatch))
			res.Stat("replay_attempts_in_window", int64(o.Replays))
			res.Stat("src:"+h.Src, 1)
			res.Count(fmt.Sprintf("flood/%d/%s", size, c08Sig(&h)), o.Replays > 0)
			if c08Deviant(&h) {
				if o.Key != "" {
					res.Stat("cex_reproduced:"+h.Src, 1)
				} else {
					res.Stat("cex_not_reproduced:"+h.Src, 1)
				}
			}
			if o.Key != "" {
				res.Violate(o.Key, o.What, map[string]any{"kind": "flood", "history": h, "conc": c, "transport": tr, "flood": size, "table": o.Table})
			} else if o.Mismatch > 0 {
				res.Note("model/code disagreement (no verdict) on flood history %s: %s", c08Sig(&h), strings.Join(o.Table, " | "))
			}
			if idx == 1 && si == 0 {
				res.Sample(map[string]any{"flood": size, "history": json.RawMessage(append([]byte{}, line...))}, 4)
			}
			runtime.GC()
		}
		return nil
	})
	if err != nil {
		t.Fatal(err)
	}
	res.Stat("flood_histories", int64(idx))
}
