package server

// C17 (B2) - TestVerifC17Trace: rounds of bookkeeping operations started simultaneously on one real userPanel
// with real parallelism: connection admissions (the dispatcher's GetUser / GetSession / CloseSession-on-error
// sequence), session reaping by the goroutine that serves a session (CloseSession, which terminates the user
// when it was the last), updateUsageQueue and commitUpdate, plus expiry changes through the manager between
// rounds so that uploads answer TERMINATE. Every goroutine logs call / ret and an event at every verifhook
// point (under the locks held there); the panel is observed at the quiescent moment after every round. The
// trace is validated by TLC against spec/UserPanelTrace.tla. A watchdog reads the goroutine dump when a round
// does not finish: a deadlock is reported only if every unfinished goroutine sits in Lock/RLock of the
// bookkeeping code in two dumps in a row.
//
// Decided here: the lock cycle, and - at every quiescent moment - a live session that is not reachable from
// panel.activeUsers. The trace validation explains (or fails to explain) what was recorded.

import (
	"fmt"
	"runtime"
	"sort"
	"strings"
	"sync"
	"testing"
	"time"

	kit "github.com/cbeuw/Cloak/internal/verifkit"
)

const c17Slots = 6

type c17Served struct {
	rec    *ActiveUser
	sid    uint32
	key    int
	reaped bool
}

func TestVerifC17Trace(t *testing.T) {
	panelInstallHook()
	env := panelNewEnv(t)
	defer env.close()
	res := kit.NewResult()
	defer func() { res.Save(true) }()
	rng := kit.NewRng(kit.Seed()*7919 + 17)
	// several worlds (one trace file each): the validation cost grows with the number of sessions a world has seen
	worlds := kit.EnvInt("VERIF_C17_WORLDS", 1)
	for wi := 0; wi < worlds; wi++ {
		if !c17TraceWorld(t, env, res, rng, wi) {
			break
		}
	}
	res.Stat("worlds", int64(worlds))
}

func c17TraceWorld(t *testing.T, env *panelEnv, res *kit.Result, rng *kit.Rng, wi int) bool {
	tw := kit.NewTraceWriter(fmt.Sprintf("trace_%d.ndjson", wi))
	defer tw.Close()
	cfg := panelCfg{Name: "b2", NU: 2, Caps: []int{3, 3}, Creds: []int{9, 9}, Init: []int{11, 21}, Mode: "trace"}
	w, err := panelNewWorld(env, cfg, c17Slots)
	if err != nil {
		t.Fatal(err)
	}
	yield := kit.EnvInt("VERIF_C17_YIELD", 3)
	var ymu sync.Mutex
	w.trace = func(p *panelProc, name string, args []uint64) {
		ev := map[string]any{"ev": "hook", "p": p.id, "h": name}
		if name == "unlocked" && len(args) > 1 {
			ev["rem"] = args[1]
		}
		tw.Emit(ev)
		// widen the windows a little: hand the processor to somebody else now and then
		ymu.Lock()
		y := rng.Intn(yield + 1)
		ymu.Unlock()
		for i := 0; i < y; i++ {
			runtime.Gosched()
		}
	}
	panelCur.Store(w)
	defer panelCur.Store(nil)
	var smu sync.Mutex
	served := []*c17Served{}
	for i, o := range w.objs {
		served = append(served, &c17Served{rec: o.rec, sid: o.sid, key: 100 + i + 1})
	}
	rounds := kit.EnvInt("VERIF_C17_ROUNDS", 60)
	nextKey := 1000
	conns := 0
	expired := map[int]bool{}
	orphans := map[int]bool{}
	for r := 0; r < rounds; r++ {
		k := 2 + rng.Intn(c17Slots-1)
		start := make(chan struct{})
		var wg sync.WaitGroup
		procs := make([]*panelProc, 0, k)
		sig := []string{}
		for i := 0; i < k; i++ {
			p := &panelProc{id: i + 1}
			x := rng.Intn(100)
			var sv *c17Served
			if x >= 35 && x < 60 {
				smu.Lock()
				var cand []*c17Served
				for _, s := range served {
					if !s.reaped {
						cand = append(cand, s)
					}
				}
				if len(cand) > 0 {
					sv = cand[rng.Intn(len(cand))]
					sv.reaped = true
				}
				smu.Unlock()
				if sv == nil {
					x = 0
				}
			}
			call := map[string]any{"ev": "call", "p": p.id, "u": 0, "s": 0, "key": 0}
			switch {
			case x < 35:
				p.op = panelOp{K: "conn", U: 1 + rng.Intn(2), S: 1 + rng.Intn(3)}
				nextKey++
				conns++
				call["u"], call["s"], call["key"] = p.op.U, p.op.S, nextKey
				p.obj = nextKey // the key id this connection brings along
			case x < 60:
				p.op = panelOp{K: "serve", S: int(sv.sid)}
				p.user = sv.rec
				call["s"], call["key"] = int(sv.sid), sv.key
			case x < 80:
				p.op = panelOp{K: "update"}
			default:
				p.op = panelOp{K: "commit"}
			}
			call["k"] = p.op.K
			sig = append(sig, p.op.K)
			procs = append(procs, p)
			wg.Add(1)
			go func() {
				defer wg.Done()
				p.goid = panelGoid()
				w.byGoid.Store(p.goid, p)
				defer w.byGoid.Delete(p.goid)
				<-start
				tw.Emit(call)
				ret := map[string]any{"ev": "ret", "p": p.id, "res": "ok", "okey": 0}
				switch p.op.K {
				case "conn":
					keyID := p.obj
					p.obj = 0
					r, okey, sesh := panelConnFree(w, p, keyID)
					ret["res"], ret["okey"] = r, okey
					if r == "new" {
						smu.Lock()
						served = append(served, &c17Served{rec: p.user, sid: uint32(p.op.S), key: keyID})
						smu.Unlock()
					}
					_ = sesh
				case "serve":
					p.user.CloseSession(uint32(p.op.S), "")
				case "update":
					w.panel.updateUsageQueue()
				case "commit":
					if err := w.panel.commitUpdate(); err != nil {
						p.panic = err.Error()
					}
				}
				p.st = "done"
				tw.Emit(ret)
			}()
		}
		close(start)
		done := make(chan struct{})
		go func() { wg.Wait(); close(done) }()
		select {
		case <-done:
		case <-time.After(10 * time.Second):
			// watchdog: who is still running, and where?
			d1 := panelDump()
			time.Sleep(300 * time.Millisecond)
			d2 := panelDump()
			var cyc, ev []string
			all := true
			for _, p := range procs {
				if p.st == "done" {
					continue
				}
				g1, g2 := d1[p.goid], d2[p.goid]
				if g1.lock == "" || g1.lock != g2.lock || g1.fn != g2.fn {
					all = false
				}
				fn := g2.fn
				if i := strings.LastIndex(fn, "."); i >= 0 {
					fn = fn[i+1:]
				}
				cyc = append(cyc, fn+"/"+g2.lock)
				ev = append(ev, "first dump:\n"+g1.text, "second dump (+300 ms):\n"+g2.text)
			}
			sort.Strings(cyc)
			cyc = c17Dedupe(cyc)
			if all && len(cyc) > 0 {
				// once more after a longer pause: still the same picture?
				time.Sleep(2 * time.Second)
				d3 := panelDump()
				for _, p := range procs {
					if p.st != "done" && d3[p.goid].lock != d2[p.goid].lock {
						all = false
					}
				}
			}
			if all && len(cyc) > 0 {
				res.Violate("deadlock:"+strings.Join(cyc, "+"),
					fmt.Sprintf("round %d (%v): the unfinished goroutines are blocked on each other's locks (%s); seen in three goroutine dumps over 2.3 s, no goroutine made progress for 12 s",
						r, sig, strings.Join(cyc, "+")), map[string]any{"round": r, "ops": sig, "evidence": ev})
			} else {
				res.Note("round %d did not finish within 10 s but its goroutines are not all in panel locks: %v", r, cyc)
				res.Stat("stuck", 1)
			}
			res.Stat("rounds", int64(r))
			return false
		}
		for _, p := range procs {
			if p.panic != "" {
				res.Note("round %d: %s", r, p.panic)
				res.Stat("errors", 1)
			}
		}
		// quiescent moment
		obs := w.observe(0)
		q := map[string]any{"ev": "quiesce"}
		act, sess, live := []bool{}, [][][2]int{}, []int{}
		for u := 1; u <= cfg.NU; u++ {
			act = append(act, obs.Act[u-1] != 0)
			pairs := [][2]int{}
			if obs.Act[u-1] != 0 {
				rec := w.recs[obs.Act[u-1]-1]
				for sid, sesh := range rec.sessions {
					pairs = append(pairs, [2]int{int(sid), w.objs[w.objIdx[sesh]-1].keyOwner})
				}
			}
			sess = append(sess, pairs)
		}
		for i, ob := range obs.Obj {
			if ob.Live {
				live = append(live, ob.K)
				if !ob.Own && !orphans[ob.K] {
					orphans[ob.K] = true
					res.Violate("owned:b2", fmt.Sprintf(
						"world %d, after round %d (%v) session %d (user %d, id %d, key %d) is live but not reachable from panel.activeUsers",
						wi, r, sig, i+1, ob.U, ob.S, ob.K), map[string]any{"world": wi, "round": r, "ops": sig, "trace_line": tw.Events() + 1})
				}
			}
		}
		q["act"], q["sess"], q["live"] = act, sess, live
		tw.Emit(q)
		res.Count(strings.Join(sig, ","), k >= 2)
		if r%17 == 3 {
			res.Sample(map[string]any{"round": r, "ops": sig, "active": obs.Act, "live_sessions": len(live)}, 5)
		}
		// expiry changes through the manager, so that uploads answer TERMINATE now and then
		if x := rng.Intn(10); x < 3 {
			u := 1 + rng.Intn(cfg.NU)
			a := "expire"
			if expired[u] {
				a = "unexpire"
			}
			if err := w.admin(a, u); err == nil {
				expired[u] = !expired[u]
				tw.Emit(map[string]any{"ev": "admin", "a": a, "u": u})
			}
		}
	}
	res.Stat("rounds", int64(rounds))
	res.Stat("conns", int64(conns))
	res.Stat("events", tw.Events())
	w.shutdown()
	return true
}

func c17Dedupe(xs []string) []string {
	out := xs[:0]
	for i, x := range xs {
		if i == 0 || x != xs[i-1] {
			out = append(out, x)
		}
	}
	return out
}
