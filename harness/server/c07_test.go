package server

// C07 - only holders of valid, timely credentials are ever treated as Cloak clients; the admin API is reachable
// only with the admin UID and session id 0.
//
// The expected observation of every case comes from TLC (spec/HandshakeGen.tla, Scope = "sound"): a table
//   (transport, set of tamper classes, stamp offset in ticks, user state, method served, sid class, server key right)
//     -> must-accept | must-redirect | either-but-same-identity   (+ whether the admin API is what is reached)
// TestVerifC07Replay binds it to the code in two parts, both on the real dispatchConnection (vnet peer, vnet
// redirect target that records what it gets and answers with a marker, real userPanel over a bolt file seeded
// per user state) and the real AuthFirstPacket:
//   A. configuration level: every untampered case is a real client handshake (RawConfig -> ProcessRawConfig ->
//      Transport.Handshake); where it completes, a request over the agreed key shows whether the admin API or a
//      proxy target answers.
//   B. network level: valid first packets of the real client (both transports, three signatures) are altered
//      without keys: every single-bit flip of the fields that matter (quick) / of the whole packet (thorough),
//      random multi-byte edits, under every clock offset class incl. both window edges; an independent field
//      locator (below) maps the touched bits to the spec's tamper classes.
// Oracle (= the statement): a server-originated reply (or API access) to a packet the statement excludes; an
// acceptance whose derived identity is not the sealed one; the API reached without (admin UID and sid 0).
// "Redirected" = the redirect target received the bytes and the peer saw only the target's marker.

import (
	"bytes"
	"encoding/base64"
	"encoding/binary"
	"encoding/hex"
	"encoding/json"
	"errors"
	"fmt"
	"math"
	"math/big"
	"os"
	"path/filepath"
	"sort"
	"strings"
	"sync"
	"sync/atomic"
	"testing"
	"time"

	"github.com/cbeuw/Cloak/internal/client"
	"github.com/cbeuw/Cloak/internal/common"
	"github.com/cbeuw/Cloak/internal/ecdh"
	"github.com/cbeuw/Cloak/internal/server/usermanager"
	"github.com/cbeuw/Cloak/internal/verifhook"
	kit "github.com/cbeuw/Cloak/internal/verifkit"
)

// ------------------------------------------------------------------------------------ verdict table

func c07Key(tr string, tampers []string, off int, ustate string, served bool, sid string, rightKey bool) string {
	return c07KeyC(tr, tampers, off, ustate, served, sid, rightKey, "none")
}

func c07KeyC(tr string, tampers []string, off int, ustate string, served bool, sid string, rightKey bool, cache string) string {
	t := append([]string{}, tampers...)
	sort.Strings(t)
	k := fmt.Sprintf("%s|%s|%d|%s|%v|%s|%v", tr, strings.Join(t, "+"), off, ustate, served, sid, rightKey)
	if cache != "" && cache != "none" {
		k += "|cache-" + cache
	}
	return k
}

type c07Table struct {
	m        map[string]*c06Case
	w        int
	maxT     int
	untamped []*c06Case
	confCases []*c06Case   // server-configuration x probe-UID cases
	liveCases []*c06Case   // a live session of the same (UID, sid) / an upload tick after the revocation
	farOffs   map[int]bool // stamp offsets (ticks) beyond the edge classes
}

// c07KeyOf: the abstract case a table line stands for.
func c07KeyOf(c *c06Case) string {
	k := c07KeyC(c.Tr, c.Tampers, c.Off, c.UState, c.Served, c.Sid, c.RightKey, c.Cache)
	if c.Probe != "" && c.Probe != "std" {
		k += fmt.Sprintf("|probe-%s|admin-%v|nb-%d", c.Probe, c.Admin, c.NB)
	}
	if c.Tick {
		k += "|tick"
	}
	return k
}

func c07LoadTable(path string) (*c07Table, error) {
	tb := &c07Table{m: map[string]*c06Case{}, farOffs: map[int]bool{}}
	err := kit.ReadLines(path, func(line []byte) error {
		var c c06Case
		if err := json.Unmarshal(line, &c); err != nil {
			return err
		}
		k := c07KeyOf(&c)
		if old, ok := tb.m[k]; ok && (old.Verdict != c.Verdict || old.API != c.API) {
			return fmt.Errorf("the table is not a function of the abstract case: %s", k)
		}
		tb.m[k] = &c
		tb.w = c.W
		if len(c.Tampers) > tb.maxT {
			tb.maxT = len(c.Tampers)
		}
		std := c.Probe == "" || c.Probe == "std"
		near := c.Off >= -c.W-1 && c.Off <= c.W+1
		if len(c.Tampers) == 0 && (c.Cache == "" || c.Cache == "none") && std && near {
			tb.untamped = append(tb.untamped, &c)
		}
		if !std {
			tb.confCases = append(tb.confCases, &c)
		}
		if c.Cache == "same" || (c.Cache == "busy" && c.Tick) {
			tb.liveCases = append(tb.liveCases, &c)
		}
		if !near {
			tb.farOffs[c.Off] = true
		}
		return nil
	})
	if err == nil && len(tb.m) == 0 {
		err = errors.New("empty verdict table")
	}
	return tb, err
}

// reason names the first clause of the statement that excludes the case (stable violation key suffix).
func c07Reason(c *c06Case) string {
	for _, t := range c.Tampers {
		switch t {
		case "randsig", "nonce", "blockA", "blockB", "loworder":
			return "tamper-" + t
		}
	}
	a := c.Off
	if a < 0 {
		a = -a
	}
	switch {
	case !c.RightKey:
		return "wrong-server-key"
	case a == c.W:
		return "window-edge"
	case a > c.W+1:
		return "window-far" // days ... centuries away, or a stamp like MaxInt64
	case a > c.W:
		return "window"
	case c.UState == "admin" && c.Sid == "zero":
		return "none"
	case !c.Served:
		return "method-unserved"
	case !Authorised07(c.UState) && c.Probe != "" && c.Probe != "std":
		return fmt.Sprintf("uid-not-configured:%s:%s", c.Probe, map[bool]string{true: "admin-configured", false: "no-admin"}[c.Admin])
	case !Authorised07(c.UState):
		return "user-" + c.UState
	}
	return "none"
}

func Authorised07(us string) bool { return us == "bypass" || us == "admin" || us == "dbok" }

// ------------------------------------------------------------------------------------ independent field locator
// (written from RFC 8446 section 4.1.2 / 4.2.8 and from the HTTP request the client sends, not from Cloak's parser)

type c07Layout struct {
	tls      bool
	cls      []string // per byte class for TLS ("" = look at the bit)
	randOff  int
	fields   map[string][2]int // named ranges [from, to)
	hidStart int               // WS: first base64 character of the hidden value
	hidLen   int
}

const c07B64 = "ABCDEFGHIJKLMNOPQRSTUVWXYZabcdefghijklmnopqrstuvwxyz0123456789+/"

func c07LocateTLS(p []byte) (*c07Layout, error) {
	l := &c07Layout{tls: true, cls: make([]string, len(p)), fields: map[string][2]int{}}
	bad := errors.New("not a ClientHello of the expected shape")
	mark := func(from, to int, c, name string) error {
		if from < 0 || to > len(p) || from > to {
			return bad
		}
		for i := from; i < to; i++ {
			l.cls[i] = c
		}
		if name != "" {
			l.fields[name] = [2]int{from, to}
		}
		return nil
	}
	u16 := func(i int) int { return int(p[i])<<8 | int(p[i+1]) }
	if len(p) < 5+4+2+32+1 || p[0] != 0x16 || 5+u16(3) != len(p) || p[5] != 0x01 {
		return nil, bad
	}
	mark(0, 5, "len", "record-header")
	mark(5, 9, "len", "handshake-header")
	if int(p[6])<<16|int(p[7])<<8|int(p[8]) != len(p)-9 {
		return nil, bad
	}
	mark(9, 11, "len", "version")
	l.randOff = 11
	mark(11, 23, "nonce", "random-nonce")
	mark(23, 43, "randsig", "random-rest")
	i := 43
	sl := int(p[i])
	mark(i, i+1, "len", "sid-len")
	i++
	if sl != 32 {
		return nil, bad
	}
	if err := mark(i, i+sl, "blockA", "session-id"); err != nil {
		return nil, err
	}
	i += sl
	if i+2 > len(p) {
		return nil, bad
	}
	cl := u16(i)
	mark(i, i+2, "len", "")
	i += 2
	if err := mark(i, i+cl, "other", "cipher-suites"); err != nil {
		return nil, err
	}
	i += cl
	if i+1 > len(p) {
		return nil, bad
	}
	ml := int(p[i])
	mark(i, i+1, "len", "")
	i++
	if err := mark(i, i+ml, "other", ""); err != nil {
		return nil, err
	}
	i += ml
	if i+2 > len(p) || i+2+u16(i) != len(p) {
		return nil, bad
	}
	mark(i, i+2, "len", "extensions-len")
	i += 2
	found := false
	for i < len(p) {
		if i+4 > len(p) {
			return nil, bad
		}
		typ, el := u16(i), u16(i+2)
		mark(i, i+4, "len", "")
		body := i + 4
		if body+el > len(p) {
			return nil, bad
		}
		mark(body, body+el, "other", "")
		if typ == 0 {
			l.fields["sni"] = [2]int{body, body + el}
		}
		if typ == 0x0033 { // key_share: client_shares<2..>, each group(2) len(2) key
			if el < 2 || 2+u16(body) != el {
				return nil, bad
			}
			mark(body, body+2, "len", "")
			j := body + 2
			for j < body+el {
				if j+4 > body+el {
					return nil, bad
				}
				g, kl := u16(j), u16(j+2)
				mark(j, j+4, "len", "")
				if j+4+kl > body+el {
					return nil, bad
				}
				if g == 0x001d {
					if kl != 32 || found {
						return nil, bad
					}
					found = true
					l.fields["key-share-header"] = [2]int{j, j + 4}
					mark(j+4, j+4+kl, "blockB", "key-share")
				}
				j += 4 + kl
			}
		}
		i = body + el
	}
	if !found {
		return nil, bad
	}
	return l, nil
}

func c07LocateWS(p []byte) (*c07Layout, error) {
	l := &c07Layout{fields: map[string][2]int{}}
	low := bytes.ToLower(p)
	i := bytes.Index(low, []byte("\r\nhidden: "))
	if i < 0 || !bytes.HasPrefix(p, []byte("GET ")) || !bytes.HasSuffix(p, []byte("\r\n\r\n")) {
		return nil, errors.New("not the GET of the expected shape")
	}
	l.fields["hidden-name"] = [2]int{i + 2, i + 10}
	l.hidStart = i + 10
	e := bytes.Index(p[l.hidStart:], []byte("\r\n"))
	if e != 128 {
		return nil, fmt.Errorf("hidden value is %d characters", e)
	}
	l.hidLen = e
	l.fields["hidden-value"] = [2]int{l.hidStart, l.hidStart + e}
	return l, nil
}

// classOfHiddenBit: class of decoded bit idx (0 = most significant bit of hidden[0]).
func c07ClassOfHiddenBit(idx int) string {
	b, m := idx/8, byte(0x80)>>uint(idx%8)
	switch {
	case b < 12:
		return "nonce"
	case b == 31 && m == 0x80:
		return "bit255"
	case b < 32:
		return "randsig"
	case b < 64:
		return "blockA"
	default:
		return "blockB"
	}
}

type c07Edit struct {
	Pos []int  `json:"pos"`
	Xor []byte `json:"xor"`
}

func (e c07Edit) apply(p []byte) []byte {
	out := append([]byte{}, p...)
	for i, pos := range e.Pos {
		out[pos] ^= e.Xor[i]
	}
	return out
}

// classes returns the set of spec tamper classes the edit touches on the valid packet p.
func (l *c07Layout) classes(p []byte, e c07Edit) []string {
	set := map[string]bool{}
	for k, pos := range e.Pos {
		x := e.Xor[k]
		if x == 0 {
			continue
		}
		if l.tls {
			for bit := 0; bit < 8; bit++ {
				if x&(1<<uint(bit)) == 0 {
					continue
				}
				c := l.cls[pos]
				if pos == l.randOff+31 && bit == 7 {
					c = "bit255" // X25519 masks the top bit of the last byte (RFC 7748 section 5)
				}
				set[c] = true
			}
			continue
		}
		if pos < l.hidStart || pos >= l.hidStart+l.hidLen {
			set["other"] = true
			continue
		}
		ov, nv := strings.IndexByte(c07B64, p[pos]), strings.IndexByte(c07B64, p[pos]^x)
		if ov < 0 || nv < 0 {
			set["b64"] = true
			continue
		}
		d := ov ^ nv
		for j := 0; j < 6; j++ {
			if d&(0x20>>uint(j)) != 0 {
				set[c07ClassOfHiddenBit(6*(pos-l.hidStart)+j)] = true
			}
		}
	}
	out := make([]string, 0, len(set))
	for c := range set {
		out = append(out, c)
	}
	sort.Strings(out)
	return out
}

// ------------------------------------------------------------------------------------ presenting a raw packet

type c07Obs struct {
	Outcome   string `json:"outcome"` // redirect | reply | silent | closed | panic
	ReplyHead string `json:"reply_head"`
	Redirect  bool   `json:"redirect_target_got_connection"`
	PrefixOK  bool   `json:"redirect_target_got_the_bytes"`
	Session   bool   `json:"session_registered"`
	Stuck     bool   `json:"dispatch_still_running"`
}

// c07Complete pads a packet whose own framing announces more bytes than it has, so that the server's first
// read terminates without its 15 s timer: zero bytes up to the announced TLS record length, an empty line
// after an HTTP header block that lost its terminator.
func c07Complete(p []byte) []byte {
	if len(p) == 0 {
		return p
	}
	if p[0] == 0x16 && len(p) >= 5 {
		n := 5 + int(p[3])<<8 + int(p[4])
		if n > len(p) && n <= firstPacketSize {
			return append(append([]byte{}, p...), make([]byte, n-len(p))...)
		}
		return p
	}
	if p[0] == 0x47 {
		for _, line := range bytes.SplitAfter(p, []byte("\n")) {
			if bytes.Equal(line, []byte("\r\n")) {
				return p
			}
		}
		if len(p)+4 <= firstPacketSize {
			return append(append([]byte{}, p...), []byte("\r\n\r\n")...)
		}
	}
	return p
}

func (r *c06Rig) present(pkt []byte, uid []byte, sid uint32) (o c07Obs) {
	r.clearReplayCache()
	r.takeRedirect()
	panics := r.panics.Load()
	link := r.vn.NewLink(false, false)
	done := r.serve(link.End(1))
	peer := link.End(0)
	wire := c07Complete(pkt)
	peer.Write(wire)
	peer.SetReadDeadline(time.Now().Add(10 * time.Second))
	buf := make([]byte, 2048)
	n, err := peer.Read(buf)
	switch {
	case n > 0 && bytes.HasPrefix(buf[:n], []byte(c06RedirMarker)):
		o.Outcome = "redirect"
	case n > 0:
		o.Outcome = "reply"
		h := buf[:n]
		if len(h) > 24 {
			h = h[:24]
		}
		o.ReplyHead = fmt.Sprintf("%q", h)
		o.Session = r.serverSession(uid, sid) != nil
	case errors.Is(err, os.ErrDeadlineExceeded):
		o.Outcome = "silent"
	default:
		o.Outcome = "closed"
	}
	wait := 3 * time.Second
	if o.Outcome == "reply" && bytes.HasPrefix(buf[:n], []byte("HTTP/")) && !bytes.HasPrefix(buf[:n], []byte("HTTP/1.1 101")) {
		wait = 20 * time.Millisecond // net/http refused the upgrade: the responder waits for a handler that never reports
	}
	peer.Close()
	if !r.waitDone(done, wait) {
		o.Stuck = true
		r.purgeUsers()
	}
	if r.panics.Load() != panics {
		o.Outcome = "panic"
	}
	if rec := r.takeRedirect(); rec != nil {
		o.Redirect = true
		got := rec.bytes()
		o.PrefixOK = len(got) > 0 && bytes.HasPrefix(wire, got) || bytes.HasPrefix(got, wire)
	}
	return o
}

// purgeUsers drops every active user (a dispatch goroutine that never returns leaves its session behind).
func (r *c06Rig) purgeUsers() {
	p := r.sta.Panel
	p.activeUsersM.Lock()
	users := p.activeUsers
	p.activeUsers = make(map[[16]byte]*ActiveUser)
	p.activeUsersM.Unlock()
	for _, u := range users {
		u.closeAllSessions("verif: purge")
	}
}

// ------------------------------------------------------------------------------------ judging

type c07Sealed struct {
	UID    []byte
	Method string
	Enc    byte
	Sid    uint32
	Unord  bool
}

func c07SealedOf(a client.AuthInfo) c07Sealed {
	return c07Sealed{UID: a.UID, Method: a.ProxyMethod, Enc: a.EncryptionMethod, Sid: a.SessionId, Unord: a.Unordered}
}

func (s c07Sealed) equal(ci ClientInfo) bool {
	return bytes.Equal(ci.UID, s.UID) && ci.ProxyMethod == s.Method && ci.EncryptionMethod == s.Enc && ci.SessionId == s.Sid && ci.Unordered == s.Unord
}

type c07Verdict struct {
	Key  string
	What string
	Note string // disagreement with the table that is not a violation of the statement
}

// c07Judge evaluates the statement on what the code did with one presented packet.
func c07Judge(exp *c06Case, o c07Obs, authErr error, ci ClientInfo, sealed c07Sealed) (v c07Verdict) {
	reason := c07Reason(exp)
	cls := strings.Join(exp.Tampers, "+")
	credentialExcluded := strings.HasPrefix(reason, "tamper-") || reason == "wrong-server-key" || strings.HasPrefix(reason, "window")
	if o.Outcome == "panic" {
		v.Key = "not-web:panic"
		v.What = fmt.Sprintf("dispatchConnection panicked on a first packet (%s, tampered: [%s]) instead of treating it as web traffic or as a client", exp.Tr, cls)
		return
	}
	switch exp.Verdict {
	case "must-redirect":
		if o.Outcome == "reply" {
			v.Key = "accepted:" + reason
			v.What = fmt.Sprintf("the server answered %s to a %s first packet the statement excludes (%s; tampered: [%s], stamp offset class %d of W=%d, user %s, method served %v, server key right %v)",
				o.ReplyHead, exp.Tr, reason, cls, exp.Off, exp.W, exp.UState, exp.Served, exp.RightKey)
			return
		}
		if authErr == nil && credentialExcluded {
			v.Key = "auth-ok:" + reason
			v.What = fmt.Sprintf("AuthFirstPacket returned no error for a %s first packet whose credentials the statement excludes (%s; tampered: [%s], offset class %d)", exp.Tr, reason, cls, exp.Off)
			return
		}
		if o.Outcome != "redirect" {
			v.Note = "not-redirected:" + o.Outcome
		}
	case "either-but-same-identity":
		if (o.Outcome == "reply" || authErr == nil) && (authErr != nil || !sealed.equal(ci)) {
			if authErr == nil {
				v.Key = "identity-altered:" + cls
				v.What = fmt.Sprintf("a %s first packet altered outside the sealed block ([%s]) was taken for uid=%x method=%q enc=%d sid=%#x unordered=%v, sealed was uid=%x method=%q enc=%d sid=%#x unordered=%v",
					exp.Tr, cls, ci.UID, ci.ProxyMethod, ci.EncryptionMethod, ci.SessionId, ci.Unordered, sealed.UID, sealed.Method, sealed.Enc, sealed.Sid, sealed.Unord)
			} else {
				v.Note = "reply-but-auth-error"
			}
			return
		}
	case "must-accept":
		if authErr == nil && !sealed.equal(ci) {
			v.Key = "identity-altered:" + cls
			v.What = fmt.Sprintf("a valid %s first packet was taken for uid=%x method=%q enc=%d sid=%#x unordered=%v, sealed was uid=%x method=%q enc=%d sid=%#x unordered=%v",
				exp.Tr, ci.UID, ci.ProxyMethod, ci.EncryptionMethod, ci.SessionId, ci.Unordered, sealed.UID, sealed.Method, sealed.Enc, sealed.Sid, sealed.Unord)
			return
		}
		if o.Outcome != "reply" {
			v.Note = "refused-must-accept:" + o.Outcome
		}
	}
	return
}

// ------------------------------------------------------------------------------------ bases

type c07Base struct {
	cs     *c06Case // untampered abstract case at offset 0 that produced the packet
	conc   c06Conc
	pkt    []byte
	auth   client.AuthInfo
	stamp  int64
	lay    *c07Layout
	sealed c07Sealed
}

func (r *c06Rig) c07MakeBase(cs *c06Case, sig string, k int, rng *kit.Rng) (*c07Base, error) {
	c0 := *cs
	c0.Off, c0.Tampers, c0.Sig = 0, nil, sig
	c0.UID = []string{"u1", "u2"}[k%2] // two seeded users per user state (e.g. no upload credit / no download credit)
	conc := r.concretise(&c0, k, rng)
	conc.OffNs = 0
	conc.Stamp = r.nextStamp
	pkt, auth, err := r.captureFirstPacket(&c0, conc)
	if err != nil {
		return nil, err
	}
	b := &c07Base{cs: &c0, conc: conc, pkt: pkt, auth: auth, stamp: time.Unix(0, conc.ClientNs).UTC().Unix(), sealed: c07SealedOf(auth)}
	if conc.Stamp != nil {
		b.stamp = *conc.Stamp
	}
	if pkt[0] == 0x16 {
		b.lay, err = c07LocateTLS(pkt)
	} else {
		b.lay, err = c07LocateWS(pkt)
	}
	if err != nil {
		return nil, fmt.Errorf("field locator: %v (packet %x...)", err, pkt[:16])
	}
	return b, nil
}

func (r *c06Rig) setClock(stamp int64, off time.Duration) {
	r.setNow(time.Unix(stamp, 0).Add(off))
}

type c07Env struct {
	res   *kit.Result
	tb    *c07Table
	mu    sync.Mutex
	drift []string
}

// c07One presents one (possibly edited) packet under one clock offset and judges it against the table.
func (r *c06Rig) c07One(env *c07Env, b *c07Base, e c07Edit, off int, offNs time.Duration) {
	classes := b.lay.classes(b.pkt, e)
	if len(classes) > env.tb.maxT {
		env.res.Stat("edits_beyond_table", 1)
		return
	}
	key := c07Key(b.cs.Tr, classes, off, b.cs.UState, b.cs.Served, b.cs.Sid, b.cs.RightKey)
	exp := env.tb.m[key]
	if exp == nil {
		env.res.Note("no abstract case for %s", key)
		env.res.Stat("missing_abstract_case", 1)
		return
	}
	r.c07Packet(env, b, e.apply(b.pkt), classes, key, exp, e, off, offNs)
}

// c07SmallOrder: the encodings of the points of small order on curve25519 (u = 0, 1, the two points of order 8,
// p-1, p, p+1; RFC 7748 section 6.1 / the well-known list): X25519 maps each of them to the all-zero output
// for every private key, with or without bit 255 set.
var c07SmallOrder = []string{
	"0000000000000000000000000000000000000000000000000000000000000000",
	"0100000000000000000000000000000000000000000000000000000000000000",
	"e0eb7a7c3b41b8ae1656e3faf19fc46ada098deb9c32b1fd866205165f49b800",
	"5f9c95bca3508c24b1d0b1559c83ef5b04445cc4581c8e86d8224eddd09f1157",
	"ecffffffffffffffffffffffffffffffffffffffffffffffffffffffffffff7f",
	"edffffffffffffffffffffffffffffffffffffffffffffffffffffffffffff7f",
	"eeffffffffffffffffffffffffffffffffffffffffffffffffffffffffffff7f",
}

// c07Forge builds the first packet of somebody who knows a UID but NOT the server's public key: the random is
// the small-order point, the 48-byte plaintext (the identity of the base packet, its stamp) is AES-GCM-sealed
// under the all-zero "shared secret" with nonce = random[0:12] and laid into the places the locator found.
func c07Forge(b *c07Base, which int, top bool) ([]byte, string, error) {
	point, _ := hex.DecodeString(c07SmallOrder[which%len(c07SmallOrder)])
	if top {
		point[31] |= 0x80
	}
	pt := make([]byte, 48)
	copy(pt, b.sealed.UID)
	copy(pt[16:28], b.sealed.Method)
	pt[28] = b.sealed.Enc
	binary.BigEndian.PutUint64(pt[29:37], uint64(b.stamp))
	binary.BigEndian.PutUint32(pt[37:41], b.sealed.Sid)
	if b.sealed.Unord {
		pt[41] |= 1
	}
	ct, err := common.AESGCMEncrypt(point[:12], make([]byte, 32), pt)
	if err != nil || len(ct) != 64 {
		return nil, "", fmt.Errorf("seal under the zero key: %v (%d bytes)", err, len(ct))
	}
	out := append([]byte{}, b.pkt...)
	desc := fmt.Sprintf("random=%x sealed under the all-zero secret", point)
	if b.lay.tls {
		sid, ks := b.lay.fields["session-id"], b.lay.fields["key-share"]
		if sid[1]-sid[0] != 32 || ks[1]-ks[0] != 32 {
			return nil, "", errors.New("locator: session id / key share not 32 bytes")
		}
		copy(out[b.lay.randOff:b.lay.randOff+32], point)
		copy(out[sid[0]:sid[1]], ct[:32])
		copy(out[ks[0]:ks[1]], ct[32:])
		return out, desc, nil
	}
	enc := base64.StdEncoding.EncodeToString(append(append([]byte{}, point...), ct...))
	if len(enc) != b.lay.hidLen {
		return nil, "", errors.New("hidden value length")
	}
	copy(out[b.lay.hidStart:], enc)
	return out, desc, nil
}

// c07Forged presents the forgery for small-order point `which` under one clock offset.
func (r *c06Rig) c07Forged(env *c07Env, b *c07Base, which int, top bool, off int, offNs time.Duration) {
	pkt, desc, err := c07Forge(b, which, top)
	if err != nil {
		env.res.Note("forge: %v", err)
		env.res.Stat("harness_errors", 1)
		return
	}
	classes := []string{"loworder"}
	key := c07Key(b.cs.Tr, classes, off, b.cs.UState, b.cs.Served, b.cs.Sid, b.cs.RightKey)
	exp := env.tb.m[key]
	if exp == nil {
		env.res.Note("no abstract case for %s", key)
		env.res.Stat("missing_abstract_case", 1)
		return
	}
	env.res.Stat("small_order_forgeries", 1)
	r.c07Packet(env, b, pkt, classes, key, exp, desc, off, offNs)
}

// c07Packet presents pkt (derived from base b, touching `classes`) and judges the observation against exp.
func (r *c06Rig) c07Packet(env *c07Env, b *c07Base, pkt []byte, classes []string, key string, exp *c06Case, e any, off int, offNs time.Duration) {
	if r.clockOverride != nil {
		r.setNow(*r.clockOverride)
	} else {
		r.setClock(b.stamp, offNs)
	}
	srvNow := r.serverNow()
	obs := r.present(pkt, b.sealed.UID, b.sealed.Sid)
	var ci ClientInfo
	authErr := errors.New("not a first packet")
	if len(pkt) > 0 && (pkt[0] == 0x16 || pkt[0] == 0x47) {
		func() {
			defer func() {
				if p := recover(); p != nil {
					authErr = fmt.Errorf("panic: %v", p)
					obs.Outcome = "panic"
				}
			}()
			ci, _, authErr = AuthFirstPacket(c07Complete(pkt), c06TransportOf(pkt), r.freshCacheState())
		}()
	}
	v := c07Judge(exp, obs, authErr, ci, b.sealed)
	nontrivial := len(classes) > 0 || exp.Verdict != "must-accept"
	env.res.Count(key, nontrivial)
	env.res.Stat("presented:"+exp.Verdict, 1)
	env.res.Stat("outcome:"+exp.Verdict+":"+obs.Outcome, 1)
	if exp.Verdict == "either-but-same-identity" && obs.Outcome == "reply" {
		env.res.Stat("lenient_accepted:"+strings.Join(classes, "+"), 1)
	}
	if obs.Stuck {
		env.res.Stat("dispatch_stuck_after:"+obs.Outcome+":"+b.cs.Tr, 1)
		if !(b.cs.Tr == "cdn" && strings.Contains(obs.ReplyHead, "HTTP/1.1 ")) { // net/http refused the upgrade of an authenticated GET
			env.res.Note("dispatch goroutine still running after the peer hung up: %s edit %v -> %s %s", key, e, obs.Outcome, obs.ReplyHead)
		}
	}
	if obs.Outcome != "redirect" && obs.Outcome != "reply" && len(classes) > 0 {
		env.res.Stat("neither_relayed_nor_answered:"+exp.Verdict, 1)
		env.res.Note("neither relayed nor answered: %s edit %v -> %s", key, e, obs.Outcome)
	}
	if obs.Outcome == "redirect" && !obs.PrefixOK {
		env.res.Stat("redirect_bytes_differ(C09)", 1)
	}
	if v.Note != "" {
		env.res.Stat("drift:"+v.Note, 1)
		env.mu.Lock()
		if len(env.drift) < 5 {
			env.drift = append(env.drift, fmt.Sprintf("%s: %s (%s, auth err %v)", key, v.Note, obs.Outcome, authErr))
		}
		env.mu.Unlock()
	}
	if v.Key != "" {
		env.res.Violate(v.Key, v.What, map[string]any{
			"kind": "packet", "abstract": exp, "classes": classes, "edit": e, "packet_hex": hex.EncodeToString(pkt),
			"server_clock_minus_stamp_ns": int64(offNs), "stamp": b.stamp, "server_clock_unix_s": srvNow.Unix(), "server_clock_ns": srvNow.Nanosecond(), "observed": obs, "auth_error": fmt.Sprint(authErr),
			"static_private_key_hex": hex.EncodeToString(r.pv.(*[32]byte)[:]), "uids": r.hexUIDs(), "user": b.conc.Label, "sid": b.sealed.Sid,
		})
	}
}

func (r *c06Rig) hexUIDs() map[string]string {
	m := map[string]string{}
	for l, u := range r.uids {
		m[l] = hex.EncodeToString(u)
	}
	return m
}

func c07Bit(pos, bit int) c07Edit { return c07Edit{Pos: []int{pos}, Xor: []byte{1 << uint(bit)}} }

// c07SweepBits: the single-bit flips of one base packet (all of them in thorough; the fields that matter plus
// `extra` random other bits in quick).
func c07SweepBits(b *c07Base, all bool, extra int, rng *kit.Rng) []c07Edit {
	var out []c07Edit
	chosen := map[int]bool{}
	add := func(from, to int) {
		for p := from; p < to; p++ {
			if !chosen[p] {
				chosen[p] = true
				for bit := 0; bit < 8; bit++ {
					out = append(out, c07Bit(p, bit))
				}
			}
		}
	}
	if all {
		add(0, len(b.pkt))
		return out
	}
	names := []string{"record-header", "handshake-header", "version", "random-nonce", "random-rest", "sid-len", "session-id", "extensions-len",
		"key-share-header", "key-share", "hidden-name", "hidden-value"}
	for _, n := range names {
		if f, ok := b.lay.fields[n]; ok {
			add(f[0], f[1])
		}
	}
	if !b.lay.tls {
		add(len(b.pkt)-4, len(b.pkt)) // the terminator of the header block
		add(0, 16)                    // request line
	}
	for i := 0; i < extra; i++ {
		p := rng.Intn(len(b.pkt))
		if !chosen[p] {
			out = append(out, c07Bit(p, rng.Intn(8)))
		}
	}
	return out
}

// c07RandomEdits: multi-byte edits (scattered bytes and short runs), each changing every byte it touches, touching
// at most maxT tamper classes (the table knows combinations of up to maxT classes).
func c07RandomEdits(b *c07Base, n, maxT int, rng *kit.Rng) []c07Edit {
	var out []c07Edit
	interesting := [][2]int{}
	for _, f := range b.lay.fields {
		interesting = append(interesting, f)
	}
	sort.Slice(interesting, func(i, j int) bool { return interesting[i][0] < interesting[j][0] })
	pickIn := func(f [2]int) int { return f[0] + rng.Intn(f[1]-f[0]) }
	whole := [2]int{0, len(b.pkt)}
	for tries := 0; len(out) < n && tries < 200*n; tries++ {
		var e c07Edit
		seen := map[int]bool{}
		f := whole
		if len(interesting) > 0 && rng.Intn(3) > 0 {
			f = interesting[rng.Intn(len(interesting))]
		}
		if f[1] <= f[0] {
			continue
		}
		if rng.Intn(2) == 0 { // a run of 2..8 bytes starting in the field (it may run over its end)
			p, l := pickIn(f), 2+rng.Intn(7)
			for i := p; i < p+l && i < len(b.pkt); i++ {
				e.Pos = append(e.Pos, i)
				e.Xor = append(e.Xor, byte(1+rng.Intn(255)))
			}
		} else { // 2..4 scattered bytes, in one field or anywhere
			for k := 2 + rng.Intn(3); k > 0; k-- {
				p := pickIn(f)
				if maxT > 1 && rng.Intn(2) == 0 {
					p = pickIn(whole)
				}
				if !seen[p] {
					seen[p] = true
					e.Pos = append(e.Pos, p)
					e.Xor = append(e.Xor, byte(1+rng.Intn(255)))
				}
			}
		}
		if len(e.Pos) < 2 || len(b.lay.classes(b.pkt, e)) > maxT {
			continue
		}
		out = append(out, e)
	}
	return out
}

// ------------------------------------------------------------------------------------ part A: real clients

func (r *c06Rig) c07Client(env *c07Env, cs *c06Case, c c06Conc) {
	res := env.res
	remote, auth, err := r.clientSetup(cs, c)
	if err != nil {
		res.Note("ProcessRawConfig: %v", err)
		res.Stat("harness_errors", 1)
		return
	}
	r.clearReplayCache()
	r.takeRedirect()
	panics := r.panics.Load()
	cdn := strings.EqualFold(c.Tr, "cdn")
	link := r.vn.NewLink(false, false)
	done := r.serve(r.serverConn(link, cdn))
	tr := remote.Transport.CreateTransport()
	link.End(0).SetReadDeadline(time.Now().Add(15 * time.Second))
	ckey, herr := tr.Handshake(link.End(0), auth)
	link.End(0).SetReadDeadline(time.Time{})
	completed := herr == nil
	api, resp := false, ""
	if completed {
		var perr error
		resp, perr = c06Probe(tr, auth.EncryptionMethod, ckey, c.Sid, cs.Unord)
		api = strings.HasPrefix(resp, "HTTP/1.1 ")
		if !api && !strings.HasPrefix(resp, c06ProxyMarker) {
			res.Stat("probe_unanswered", 1)
			res.Note("probe after a completed handshake got %q (%v) for %s", resp, perr, cs.sig())
		}
	} else {
		func() {
			defer func() { recover() }()
			tr.Close()
		}()
	}
	link.End(0).Close()
	if !r.waitDone(done, 3*time.Second) {
		r.purgeUsers()
	}
	redirected := r.takeRedirect() != nil
	key := c07KeyOf(cs)
	res.Count("client|"+key, cs.Verdict != "must-accept")
	res.Stat("clients:"+cs.Verdict, 1)
	outcome := "refused"
	if completed {
		outcome = "completed"
	}
	res.Stat("client_outcome:"+cs.Verdict+":"+outcome, 1)
	replay := map[string]any{"kind": "client", "case": cs, "conc": c, "client_error": fmt.Sprint(herr), "redirected": redirected, "probe_answer": resp}
	reason := c07Reason(cs)
	switch {
	case r.panics.Load() != panics:
		res.Violate("not-web:panic", "dispatchConnection panicked while serving a real client ("+cs.sig()+")", replay)
	case cs.Verdict == "must-redirect" && completed:
		res.Violate("accepted:"+reason, fmt.Sprintf("a %s client the statement excludes (%s: stamp %v from the server clock, user %s, method %q served %v, server key right %v) completed the handshake",
			c.Tr, reason, time.Duration(-c.OffNs), cs.UState, c.Method, cs.Served, cs.RightKey), replay)
	case cs.Verdict == "must-redirect" && !redirected:
		res.Stat("drift:client-not-redirected", 1)
	case cs.Verdict == "must-accept" && !completed:
		res.Stat("drift:refused-must-accept:client", 1)
		env.mu.Lock()
		if len(env.drift) < 5 {
			env.drift = append(env.drift, fmt.Sprintf("client %s refused: %v", cs.sig(), herr))
		}
		env.mu.Unlock()
	}
	// the admin gate
	isAdmin := cs.UState == "admin" && cs.Sid == "zero"
	if api && !isAdmin {
		res.Violate("admin-api:"+cs.UState+"-sid-"+cs.Sid, fmt.Sprintf("the user-management API answered a %s client that is not (admin UID and session id 0): user %s, session id %#x: %q",
			c.Tr, cs.UState, c.Sid, resp), replay)
	}
	if completed && isAdmin && !api {
		res.Stat("drift:admin-session-without-api", 1)
	}
	if api && isAdmin {
		res.Stat("admin_api_reached", 1)
		if !cs.Served {
			res.Stat("obs:admin_api_with_unserved_method", 1)
			if kit.Env("VERIF_C07_STRICT_ADMIN_METHOD", "") != "" {
				res.Violate("admin-api:unserved-method", "an admin session was accepted although its sealed proxy method is not served (dispatcher.go: the admin gate precedes the ProxyBook test)", replay)
			}
		}
	}
}

// ------------------------------------------------------------------------------------ part C: user histories
//
// "names a UID the server CURRENTLY authorises": a database user connects (authorised), is then revoked in the
// database (deleted / expired / credit used up) - or not (control) - and connects again with a NEW session id
// while the panel still has its record cached:
//   cache = idle: the record is session-less: the goroutine that closed the user's last session is parked at hook
//                 point user.closesession.unlocked, i.e. after the session table became empty and before
//                 TerminateActiveUser removes the record;
//   cache = busy: the first connection (another session id) is still up.
// Expected (table): revoked => no handshake reply (relayed to the redirect target, or left unanswered as HEAD does
// when GetSession refuses); still authorised => reply.  Joining an EXISTING session id is not part of this.

type c07Gate struct {
	parked  chan struct{}
	release chan struct{}
}

var c07GateMu sync.Mutex
var c07Gates = map[uint64]*c07Gate{}
var c07NextSid atomic.Uint32

func c07InstallGateHook() {
	verifhook.Set(func(point string, args ...uint64) {
		if point != "user.closesession.unlocked" || len(args) < 2 || args[1] != 0 {
			return
		}
		c07GateMu.Lock()
		g := c07Gates[args[0]]
		delete(c07Gates, args[0])
		c07GateMu.Unlock()
		if g != nil {
			close(g.parked)
			<-g.release
		}
	})
}

func (r *c06Rig) c07History(env *c07Env, tr, sig, after, cache string, n int, rng *kit.Rng) {
	res := env.res
	exp := env.tb.m[c07KeyC(tr, nil, 0, after, true, "mid", true, cache)]
	if exp == nil {
		res.Note("no abstract case for history %s/%s/%s", tr, after, cache)
		res.Stat("missing_abstract_case", 1)
		return
	}
	bad := func(format string, a ...any) {
		res.Note("history %s/%s/%s/%s: "+format, append([]any{tr, sig, after, cache}, a...)...)
		res.Stat("harness_errors", 1)
	}
	label := fmt.Sprintf("hist:%d:%d", r.id, n)
	uid := rng.Bytes(16)
	r.uids[label] = uid
	defer delete(r.uids, label)
	mgr := r.mgr
	i64, i32 := usermanager.JustInt64, usermanager.JustInt32
	c := *exp
	c.Sig, c.UState = sig, "dbok"
	conc := r.concretise(&c, n, rng)
	conc.Label, conc.OffNs = label, 0
	conc.Sid = 0x7c070000 + c07NextSid.Add(2)
	far := time.Unix(0, conc.ClientNs).Add(1000 * time.Hour).Unix()
	if err := mgr.WriteUserInfo(usermanager.UserInfo{UID: uid, SessionsCap: i32(10), UpRate: i64(1 << 30), DownRate: i64(1 << 30),
		UpCredit: i64(1 << 40), DownCredit: i64(1 << 40), ExpiryTime: i64(far)}); err != nil {
		bad("seed: %v", err)
		return
	}
	defer mgr.DeleteUser(uid)
	defer r.purgeUsers()
	// 1. first connection: the user is authorised and must be accepted
	remote, auth, err := r.clientSetup(&c, conc)
	if err != nil {
		bad("config: %v", err)
		return
	}
	r.clearReplayCache()
	r.takeRedirect()
	cdn := strings.EqualFold(conc.Tr, "cdn")
	link1 := r.vn.NewLink(false, false)
	done1 := r.serve(r.serverConn(link1, cdn))
	tr1 := remote.Transport.CreateTransport()
	link1.End(0).SetReadDeadline(time.Now().Add(15 * time.Second))
	_, herr := tr1.Handshake(link1.End(0), auth)
	link1.End(0).SetReadDeadline(time.Time{})
	close1 := func() {
		func() {
			defer func() { recover() }()
			tr1.Close()
		}()
		link1.End(0).Close()
	}
	if herr != nil || r.serverSession(uid, conc.Sid) == nil {
		close1()
		r.waitDone(done1, 3*time.Second)
		res.Stat("drift:history-first-connect-refused", 1)
		res.Note("history %s/%s: the authorised user's first connection was not accepted: %v", tr, after, herr)
		return
	}
	// the reconnect's first packet is sealed now (fresh ephemeral key, new session id), shown later
	conc2 := conc
	conc2.Sid = conc.Sid + 1
	pkt, auth2, err := r.captureFirstPacket(&c, conc2)
	if err != nil {
		close1()
		r.waitDone(done1, 3*time.Second)
		bad("capture: %v", err)
		return
	}
	// 2. revocation
	how := after
	switch after {
	case "unknown":
		err, how = mgr.DeleteUser(uid), "deleted"
	case "expired":
		err = mgr.WriteUserInfo(usermanager.UserInfo{UID: uid, ExpiryTime: i64(r.serverNow().Unix() - 3600)})
	case "nocredit":
		if n%2 == 0 {
			err, how = mgr.WriteUserInfo(usermanager.UserInfo{UID: uid, UpCredit: i64(0)}), "no upload credit"
		} else {
			err, how = mgr.WriteUserInfo(usermanager.UserInfo{UID: uid, DownCredit: i64(0)}), "no download credit"
		}
	case "dbok":
		how = "not revoked (control)"
	}
	if err != nil {
		close1()
		bad("revoke: %v", err)
		return
	}
	// 3. the cached record: session-less (closing goroutine parked) or busy (first connection stays up)
	var gate *c07Gate
	if cache == "idle" {
		gate = &c07Gate{parked: make(chan struct{}), release: make(chan struct{})}
		c07GateMu.Lock()
		c07Gates[uint64(conc.Sid)] = gate
		c07GateMu.Unlock()
		close1()
		select {
		case <-gate.parked:
		case <-time.After(10 * time.Second):
			c07GateMu.Lock()
			delete(c07Gates, uint64(conc.Sid))
			c07GateMu.Unlock()
			close(gate.release)
			bad("the closing goroutine never reached user.closesession.unlocked")
			return
		}
		var a [16]byte
		copy(a[:], uid)
		r.sta.Panel.activeUsersM.RLock()
		u := r.sta.Panel.activeUsers[a]
		r.sta.Panel.activeUsersM.RUnlock()
		if u == nil || u.NumSession() != 0 {
			close(gate.release)
			bad("the record is not cached session-less at the gate")
			return
		}
	}
	// 4. the reconnect
	r.clearReplayCache()
	r.takeRedirect()
	link2 := r.vn.NewLink(false, false)
	done2 := r.serve(link2.End(1))
	peer := link2.End(0)
	type rd struct {
		b   []byte
		err error
	}
	rch := make(chan rd, 1)
	go func() {
		buf := make([]byte, 2048)
		n, err := peer.Read(buf)
		rch <- rd{buf[:n], err}
	}()
	peer.SetReadDeadline(time.Now().Add(10 * time.Second))
	peer.Write(pkt)
	outcome, head := "silent", ""
	classify := func(x rd) {
		switch {
		case len(x.b) > 0 && bytes.HasPrefix(x.b, []byte(c06RedirMarker)):
			outcome = "redirect"
		case len(x.b) > 0:
			outcome = "reply"
			h := x.b
			if len(h) > 24 {
				h = h[:24]
			}
			head = fmt.Sprintf("%q", h)
		case errors.Is(x.err, os.ErrDeadlineExceeded):
			outcome = "silent"
		default:
			outcome = "closed"
		}
	}
	select {
	case x := <-rch:
		classify(x)
	case <-done2:
		// dispatchConnection has returned: a handshake reply would have been written before that; a relay
		// delivers the target's marker a moment later
		if r.takeRedirect() != nil {
			peer.SetReadDeadline(time.Now().Add(5 * time.Second))
		} else {
			peer.SetReadDeadline(time.Now().Add(100 * time.Millisecond))
		}
		classify(<-rch)
	}
	key := c07KeyC(tr, nil, 0, after, true, "mid", true, cache)
	res.Count("history|"+key, true)
	res.Stat("histories", 1)
	res.Stat("history_outcome:"+exp.Verdict+":"+cache+":"+outcome, 1)
	switch {
	case exp.Verdict == "must-redirect" && outcome == "reply":
		res.Violate(fmt.Sprintf("accepted:user-%s:cache-%s", after, cache),
			fmt.Sprintf("a database user that was authorised at its first connection and is %s now got the handshake reply %s to a first packet with a NEW session id (%s, record cached %s): the server does not currently authorise this UID",
				how, head, tr, map[string]string{"idle": "without sessions - its last session had just been removed and TerminateActiveUser had not run yet", "busy": "with its first session still up"}[cache]),
			map[string]any{"kind": "history", "transport": tr, "sig": sig, "after": after, "cache": cache, "n": n, "revocation": how, "outcome": outcome})
	case exp.Verdict == "must-accept" && outcome != "reply":
		res.Stat("drift:history-control-refused:"+cache, 1)
		res.Note("history control %s/%s: a still authorised user reconnecting with a new session id got %s", tr, cache, outcome)
	}
	// 5. clean up
	if gate != nil {
		close(gate.release)
	} else {
		close1()
	}
	peer.Close()
	r.waitDone(done2, 3*time.Second)
	r.waitDone(done1, 3*time.Second)
	_ = auth2
}

// ------------------------------------------------------------------------------------ part D: far-away stamps
//
// The 8 wire bytes carry any int64 number of seconds and the server clock is whatever it is.  The statement's
// window is decided here in exact integer arithmetic (big.Int, nanoseconds): inside <=> |stamp - now| < tolerance.
// The distance is mapped to the spec's offset class (ticks of tolerance/2; the largest class magnitude not above it)
// and the table gives the verdict; the two must agree or the run is inconclusive.

var c07FarMags = []int64{3, 960, 350640, 100 * 350640, 292 * 350640, 293 * 350640, 300 * 350640, 584 * 350640, 2000000000}

// c07ExactClass returns (inside the strict window, offset class in ticks) for a stamp and a server clock.
func c07ExactClass(stamp int64, now time.Time) (bool, int) {
	d := new(big.Int).Mul(big.NewInt(stamp), big.NewInt(1e9))
	n := new(big.Int).Mul(big.NewInt(now.Unix()), big.NewInt(1e9))
	n.Add(n, big.NewInt(int64(now.Nanosecond())))
	d.Sub(d, n) // stamp - now, ns
	abs := new(big.Int).Abs(d)
	if abs.Cmp(big.NewInt(int64(timestampTolerance))) < 0 {
		return true, 0
	}
	ticks := new(big.Int).Div(abs, big.NewInt(int64(timestampTolerance/2)))
	class := int64(2)
	for _, m := range c07FarMags {
		if ticks.Cmp(big.NewInt(m)) >= 0 {
			class = m
		}
	}
	if d.Sign() < 0 {
		class = -class
	}
	return false, int(class)
}

// c07FarOne presents base b (sealed stamp b.stamp) to a server whose clock is `now`.
func (r *c06Rig) c07FarOne(env *c07Env, b *c07Base, now time.Time, what string) {
	inside, off := c07ExactClass(b.stamp, now)
	if inside {
		env.res.Stat("far_cases_inside_window_skipped", 1)
		return
	}
	key := c07Key(b.cs.Tr, nil, off, b.cs.UState, b.cs.Served, b.cs.Sid, b.cs.RightKey)
	exp := env.tb.m[key]
	if exp == nil {
		env.res.Note("no abstract case for %s (%s)", key, what)
		env.res.Stat("missing_abstract_case", 1)
		return
	}
	if exp.Verdict != "must-redirect" {
		env.res.Note("exact arithmetic puts stamp %d outside the window of %v, the table says %s for %s", b.stamp, now, exp.Verdict, key)
		env.res.Stat("harness_errors", 1)
		return
	}
	r.clockOverride = &now
	defer func() { r.clockOverride = nil }()
	env.res.Stat("far_stamp_presentations", 1)
	r.c07Packet(env, b, b.pkt, nil, key, exp, what, off, 0)
}

func (r *c06Rig) c07FarTimes(env *c07Env, cs *c06Case, sig string, k int, thorough bool, rng *kit.Rng) {
	res := env.res
	year := int64(31557600)
	// D1: an ordinary stamp, the server clock days ... centuries away in both directions (+ the two sides of 2^63 ns)
	b, err := r.c07MakeBase(cs, sig, k, rng)
	if err != nil {
		res.Note("far base: %v", err)
		res.Stat("harness_errors", 1)
		return
	}
	res.Stat("base_packets", 1)
	dists := []int64{86400, year, 100 * year, 292 * year, 293 * year, 300 * year, 584 * year, 9223372036, 9223372037, 2 * 86400 * 365}
	for _, dsec := range dists {
		for _, sign := range []int64{1, -1} {
			now := time.Unix(b.stamp+sign*dsec, int64(rng.Intn(1000))*1e6)
			r.c07FarOne(env, b, now, fmt.Sprintf("server clock = stamp %+d s", sign*dsec))
		}
	}
	// D2: extreme and random stamps under an ordinary server clock (and under a clock a century off)
	stamps := []int64{0, 1, -1, math.MaxInt64, math.MinInt64, math.MaxInt64 - 1, math.MinInt64 + 1, 1 << 62, -(1 << 62), 1 << 40,
		r.base.Unix() + (1 << 33), r.base.Unix() + 9223372037, r.base.Unix() - 9223372037, math.MaxInt32, math.MaxUint32}
	nr := 4
	if thorough {
		nr = 40
	}
	for i := 0; i < nr; i++ {
		stamps = append(stamps, int64(rng.Uint64()))
	}
	for i, st := range stamps {
		st := st
		r.nextStamp = &st
		b2, err := r.c07MakeBase(cs, sig, k+i, rng)
		r.nextStamp = nil
		if err != nil {
			res.Note("far base (stamp %d): %v", st, err)
			res.Stat("harness_errors", 1)
			continue
		}
		res.Stat("base_packets", 1)
		r.c07FarOne(env, b2, r.base.Add(time.Duration(rng.Intn(1000))*time.Millisecond), fmt.Sprintf("stamp %d, ordinary server clock", st))
		if i%3 == 0 {
			r.c07FarOne(env, b2, time.Unix(r.base.Unix()-100*year, 0), fmt.Sprintf("stamp %d, server clock a century earlier", st))
		}
	}
}

// ------------------------------------------------------------------------------------ part E: server configurations
//
// The server is built through the real configuration path (a JSON file -> ParseConfig -> InitState) with and without
// an AdminUID and with 0 / 1 / 3 BypassUID entries; real clients name the probe UIDs.  Authorised without a
// database is exactly the configured set.

func c07NewConfRig(id int, rng *kit.Rng, dir string, admin bool, nb int) (*c06Rig, error) {
	r := &c06Rig{id: id, vn: kit.NewVNet(), uids: map[string][]byte{}, redirCh: make(chan *c06RedirRec, 256)}
	pv, pub, err := ecdh.GenerateKey(rand16{rng})
	if err != nil {
		return nil, err
	}
	r.pv, r.pub, r.pubRaw = pv, pub, append([]byte{}, ecdh.Marshal(pub)...)
	r.wrongPb = rng.Bytes(32)
	r.base = time.Unix(time.Now().Unix(), 0)
	r.setNow(r.base)
	world := common.WorldState{Rand: common.RealWorldState.Rand, Now: r.serverNow}
	var bypass [][]byte
	for i := 0; i < nb; i++ {
		u := rng.Bytes(16)
		u[15] |= 1 // so that the truncated variant differs
		bypass = append(bypass, u)
		r.uids[fmt.Sprintf("cfgbypass:%d", i)] = u
	}
	cfg := map[string]any{
		"ProxyBook": map[string][]string{}, "BindAddr": []string{":443"}, "RedirAddr": "127.0.0.1:80",
		"PrivateKey": pv.(*[32]byte)[:], "DatabasePath": filepath.Join(dir, fmt.Sprintf("conf%d-%v-%d.db", id, admin, nb)),
	}
	if nb > 0 || id%2 == 0 {
		cfg["BypassUID"] = bypass // nb = 0: an empty list or no entry at all
	}
	if admin {
		r.uids["admin"] = rng.Bytes(16)
		cfg["AdminUID"] = r.uids["admin"]
	}
	r.proxy = &c06ProxyDialer{m: map[string]*kit.VListener{}}
	port := 20000
	for _, names := range c06Served {
		for _, name := range names {
			port++
			addr := fmt.Sprintf("127.0.0.1:%d", port)
			cfg["ProxyBook"].(map[string][]string)[name] = []string{"tcp", addr}
			l := r.vn.Listen()
			r.proxy.m[addr] = l
			go c06ProxyLoop(l, name)
		}
	}
	raw, err := json.Marshal(cfg)
	if err != nil {
		return nil, err
	}
	r.dbPath = cfg["DatabasePath"].(string)
	os.Remove(r.dbPath)
	path := r.dbPath + ".json"
	if err := os.WriteFile(path, raw, 0o600); err != nil {
		return nil, err
	}
	defer os.Remove(path)
	parsed, err := ParseConfig(path)
	if err != nil {
		return nil, fmt.Errorf("ParseConfig: %v", err)
	}
	sta, err := InitState(parsed, world)
	if err != nil {
		return nil, fmt.Errorf("InitState: %v", err)
	}
	r.redirL = r.vn.Listen()
	sta.RedirDialer = r.redirL
	sta.ProxyDialer = r.proxy
	r.sta = sta
	r.mgr = sta.Panel.Manager
	// the probe UIDs
	r.uids["probe:zero"] = make([]byte, 16)
	r.uids["probe:ones"] = bytes.Repeat([]byte{0xff}, 16)
	r.uids["probe:random"] = rng.Bytes(16)
	if nb > 0 {
		r.uids["probe:bypass"] = bypass[rng.Intn(nb)]
		b0 := bypass[rng.Intn(nb)]
		r.uids["probe:variant:0"] = append(append([]byte{}, b0[:15]...), 0)             // truncated, zero-padded
		r.uids["probe:variant:1"] = append(append([]byte{}, b0[1:]...), byte(rng.Intn(256))) // shifted by one byte
		r.uids["probe:variant:2"] = append(append([]byte{}, b0[:15]...), b0[15]^0x80)   // last byte differs
	}
	if admin {
		r.uids["probe:admin"] = r.uids["admin"]
	}
	go r.redirLoop()
	return r, nil
}

// rand16 adapts the harness generator to io.Reader.
type rand16 struct{ g *kit.Rng }

func (x rand16) Read(p []byte) (int, error) { copy(p, x.g.Bytes(len(p))); return len(p), nil }

func c07ConfCases(env *c07Env, id int, dir string, admin bool, nb int, cases []*c06Case, draws int, rng *kit.Rng) error {
	r, err := c07NewConfRig(id, rng, dir, admin, nb)
	if err != nil {
		return err
	}
	defer r.close()
	sigs := []string{"chrome", "firefox", "safari"}
	for i, cs := range cases {
		for k := 0; k < draws; k++ {
			c1 := *cs
			c1.Sig = sigs[(i+k)%3]
			conc := r.concretise(&c1, i*13+k, rng)
			conc.Label = "probe:" + cs.Probe
			if cs.Probe == "variant" {
				conc.Label = fmt.Sprintf("probe:variant:%d", (i+k)%3)
			}
			if r.uids[conc.Label] == nil {
				return fmt.Errorf("no UID for probe %s on configuration admin=%v nb=%d", cs.Probe, admin, nb)
			}
			r.c07Client(env, &c1, conc)
			env.res.Stat("configuration_probes", 1)
			env.res.Stat(fmt.Sprintf("configuration_probes:admin-%v:nb-%d:%s", admin, nb, cs.Probe), 1)
		}
	}
	return nil
}

// ------------------------------------------------------------------------------------ part F: session state at arrival
//
// cache = same: a live session of the very (UID, session id) the packet names is registered (opened by a real client
// with a served method); cache = busy + tick: a live session with another id.  Optionally the user's authorisation
// is then withdrawn in the database (deleted / expired / credit 0) and one usage-upload round of the panel runs
// (updateUsageQueue + commitUpdate, as the ticker does) with the user idle (no payload byte moved).  Then the packet
// of the abstract case - unserved method, wrong server key, stamp on / outside the edge, any tamper class, or a plain
// valid one - is shown to dispatchConnection.  Every class the statement excludes must still be refused; a revoked
// user's join is tolerated only until the upload tick.

// c07EditForClass finds an edit of base b that touches exactly the given tamper class.
func c07EditForClass(b *c07Base, class string, rng *kit.Rng) (c07Edit, bool) {
	tlsField := map[string][]string{"nonce": {"random-nonce"}, "randsig": {"random-rest"}, "blockA": {"session-id"}, "blockB": {"key-share"},
		"len": {"record-header", "handshake-header", "sid-len", "extensions-len", "key-share-header", "version"}, "other": {"cipher-suites", "sni"}}
	for tries := 0; tries < 4000; tries++ {
		var e c07Edit
		switch {
		case b.lay.tls && class == "bit255":
			e = c07Bit(b.lay.randOff+31, 7)
		case b.lay.tls:
			fs := tlsField[class]
			if len(fs) == 0 {
				return e, false
			}
			f, ok := b.lay.fields[fs[rng.Intn(len(fs))]]
			if !ok || f[1] <= f[0] {
				continue
			}
			e = c07Bit(f[0]+rng.Intn(f[1]-f[0]), rng.Intn(8))
		case class == "other":
			e = c07Bit(4+rng.Intn(b.lay.hidStart-16), rng.Intn(8))
		case class == "b64":
			pos := b.lay.hidStart + rng.Intn(b.lay.hidLen)
			e = c07Edit{Pos: []int{pos}, Xor: []byte{b.pkt[pos] ^ '!'}}
		default: // a decoded bit of the hidden value: flip it by replacing the base64 character
			lo, hi := map[string][2]int{"nonce": {0, 96}, "randsig": {96, 255}, "bit255": {255, 256}, "blockA": {256, 512}, "blockB": {512, 768}}[class][0],
				map[string][2]int{"nonce": {0, 96}, "randsig": {96, 255}, "bit255": {255, 256}, "blockA": {256, 512}, "blockB": {512, 768}}[class][1]
			if hi == 0 {
				return e, false
			}
			bit := lo + rng.Intn(hi-lo)
			if class == "bit255" {
				bit = 31*8 + 0 // byte 31, most significant bit: decoded bit index 248
			}
			pos := b.lay.hidStart + bit/6
			v := strings.IndexByte(c07B64, b.pkt[pos])
			if v < 0 {
				continue
			}
			nv := v ^ (0x20 >> uint(bit%6))
			e = c07Edit{Pos: []int{pos}, Xor: []byte{b.pkt[pos] ^ c07B64[nv]}}
		}
		if cl := b.lay.classes(b.pkt, e); len(cl) == 1 && cl[0] == class {
			return e, true
		}
	}
	return c07Edit{}, false
}

// presentKeep shows pkt to a new dispatchConnection without touching the panel; finish hangs up and waits.
func (r *c06Rig) presentKeep(pkt []byte) (outcome, head string, finish func()) {
	r.clearReplayCache()
	r.takeRedirect()
	link := r.vn.NewLink(false, false)
	done := r.serve(link.End(1))
	peer := link.End(0)
	type rd struct {
		b   []byte
		err error
	}
	rch := make(chan rd, 1)
	go func() {
		buf := make([]byte, 2048)
		n, err := peer.Read(buf)
		rch <- rd{buf[:n], err}
	}()
	peer.SetReadDeadline(time.Now().Add(10 * time.Second))
	peer.Write(c07Complete(pkt))
	outcome = "silent"
	classify := func(x rd) {
		switch {
		case len(x.b) > 0 && bytes.HasPrefix(x.b, []byte(c06RedirMarker)):
			outcome = "redirect"
		case len(x.b) > 0:
			outcome = "reply"
			h := x.b
			if len(h) > 24 {
				h = h[:24]
			}
			head = fmt.Sprintf("%q", h)
		case errors.Is(x.err, os.ErrDeadlineExceeded):
			outcome = "silent"
		default:
			outcome = "closed"
		}
	}
	select {
	case x := <-rch:
		classify(x)
	case <-done:
		if r.takeRedirect() != nil {
			peer.SetReadDeadline(time.Now().Add(5 * time.Second))
		} else {
			peer.SetReadDeadline(time.Now().Add(100 * time.Millisecond))
		}
		classify(<-rch)
	}
	return outcome, head, func() {
		peer.Close()
		r.waitDone(done, 3*time.Second)
	}
}

func (r *c06Rig) c07Live(env *c07Env, exp *c06Case, sig string, n int, rng *kit.Rng) {
	res := env.res
	key := c07KeyOf(exp)
	bad := func(format string, a ...any) {
		res.Note("live %s: "+format, append([]any{key}, a...)...)
		res.Stat("harness_errors", 1)
	}
	mgr := r.mgr
	i64, i32 := usermanager.JustInt64, usermanager.JustInt32
	label := "bypass:u1"
	var uid []byte
	if exp.UState == "bypass" {
		if n%2 == 1 {
			label = "bypass:u2"
		}
		uid = r.uids[label]
	} else {
		label = fmt.Sprintf("live:%d:%d", r.id, n)
		uid = rng.Bytes(16)
		r.uids[label] = uid
		defer delete(r.uids, label)
	}
	// the connection that opens the session: authorised user, served method, right key, ordinary clock
	c := *exp
	c.Sig, c.Served, c.RightKey, c.Off, c.Tampers = sig, true, true, 0, nil
	conc := r.concretise(&c, n, rng)
	conc.Label, conc.OffNs = label, 0
	conc.Sid = 0x7c080000 + c07NextSid.Add(2)
	if exp.UState != "bypass" {
		far := time.Unix(0, conc.ClientNs).Add(1000 * time.Hour).Unix()
		if err := mgr.WriteUserInfo(usermanager.UserInfo{UID: uid, SessionsCap: i32(10), UpRate: i64(1 << 30), DownRate: i64(1 << 30),
			UpCredit: i64(1 << 40), DownCredit: i64(1 << 40), ExpiryTime: i64(far)}); err != nil {
			bad("seed: %v", err)
			return
		}
		defer mgr.DeleteUser(uid)
	}
	defer r.purgeUsers()
	remote, auth, err := r.clientSetup(&c, conc)
	if err != nil {
		bad("config: %v", err)
		return
	}
	r.clearReplayCache()
	cdn := strings.EqualFold(conc.Tr, "cdn")
	link1 := r.vn.NewLink(false, false)
	done1 := r.serve(r.serverConn(link1, cdn))
	tr1 := remote.Transport.CreateTransport()
	link1.End(0).SetReadDeadline(time.Now().Add(15 * time.Second))
	_, herr := tr1.Handshake(link1.End(0), auth)
	link1.End(0).SetReadDeadline(time.Time{})
	close1 := func() {
		func() {
			defer func() { recover() }()
			tr1.Close()
		}()
		link1.End(0).Close()
		r.waitDone(done1, 3*time.Second)
	}
	defer close1()
	if herr != nil || r.serverSession(uid, conc.Sid) == nil {
		res.Stat("drift:live-first-connect-refused", 1)
		res.Note("live %s: the opening connection of an authorised user was not accepted: %v", key, herr)
		return
	}
	// the packet of the abstract case: same UID, same session id (cache = same) or a new one (busy)
	c2 := *exp
	c2.Sig, c2.Off, c2.Tampers = sig, 0, nil
	conc2 := r.concretise(&c2, n, rng)
	conc2.Label, conc2.OffNs, conc2.ClientNs, conc2.Sid = label, 0, conc.ClientNs, conc.Sid
	if exp.Cache == "busy" {
		conc2.Sid = conc.Sid + 1
	}
	pkt, auth2, err := r.captureFirstPacket(&c2, conc2)
	if err != nil {
		bad("capture: %v", err)
		return
	}
	b := &c07Base{cs: &c2, conc: conc2, pkt: pkt, auth: auth2, stamp: time.Unix(0, conc2.ClientNs).UTC().Unix(), sealed: c07SealedOf(auth2)}
	if pkt[0] == 0x16 {
		b.lay, err = c07LocateTLS(pkt)
	} else {
		b.lay, err = c07LocateWS(pkt)
	}
	if err != nil {
		bad("locator: %v", err)
		return
	}
	what := "untouched"
	for _, class := range exp.Tampers {
		if class == "loworder" {
			pkt, what, err = c07Forge(b, n, n%2 == 0)
			if err != nil {
				bad("forge: %v", err)
				return
			}
			continue
		}
		e, ok := c07EditForClass(b, class, rng)
		if !ok {
			res.Stat("live_cases_without_edit:"+class, 1)
			return
		}
		pkt, what = e.apply(pkt), fmt.Sprintf("edit %v (%s)", e, class)
	}
	// withdraw the authorisation through the manager the admin API uses
	how := "still authorised"
	switch exp.UState {
	case "unknown":
		err, how = mgr.DeleteUser(uid), "deleted"
	case "expired":
		err, how = mgr.WriteUserInfo(usermanager.UserInfo{UID: uid, ExpiryTime: i64(r.serverNow().Unix() - 3600)}), "expired"
	case "nocredit":
		if n%2 == 0 {
			err, how = mgr.WriteUserInfo(usermanager.UserInfo{UID: uid, UpCredit: i64(0)}), "upload credit 0"
		} else {
			err, how = mgr.WriteUserInfo(usermanager.UserInfo{UID: uid, DownCredit: i64(0)}), "download credit 0"
		}
	}
	if err != nil {
		bad("revoke: %v", err)
		return
	}
	if exp.Tick { // one round of the periodic usage upload; the user has moved no payload byte
		r.sta.Panel.updateUsageQueue()
		if err := r.sta.Panel.commitUpdate(); err != nil {
			bad("commitUpdate: %v", err)
			return
		}
	}
	offs := c06OffsetChoices(exp.Off, exp.W)
	r.setClock(b.stamp, offs[n%len(offs)])
	outcome, head, finish := r.presentKeep(pkt)
	defer finish()
	res.Count("live|"+key, true)
	res.Stat("live_session_presentations", 1)
	res.Stat("live_outcome:"+exp.Verdict+":"+exp.Cache+":"+outcome, 1)
	reason := c07Reason(exp)
	suffix := ":session-live"
	if exp.Cache == "busy" {
		suffix = ":other-session-live"
	}
	if exp.Tick {
		suffix += ":after-upload-tick"
	}
	switch {
	case exp.Verdict == "must-redirect" && outcome == "reply":
		res.Violate("accepted:"+reason+suffix,
			fmt.Sprintf("the server answered %s to a %s first packet the statement excludes (%s) while a live session of the same UID with %s session id %#x was registered; user %s%s; method served %v, server key right %v, stamp offset class %d, packet %s",
				head, exp.Tr, reason, map[string]string{"same": "the same", "busy": "another"}[exp.Cache], conc.Sid, how,
				map[bool]string{true: ", one usage-upload round has run since (user idle)", false: ""}[exp.Tick], exp.Served, exp.RightKey, exp.Off, what),
			map[string]any{"kind": "live", "abstract": exp, "sig": sig, "n": n, "outcome": outcome})
	case exp.Verdict == "must-accept" && outcome != "reply":
		res.Stat("drift:live-join-refused", 1)
		res.Note("live %s: a valid packet joining the live session got %s", key, outcome)
	}
}

// ------------------------------------------------------------------------------------ the test

func TestVerifC07Replay(t *testing.T) {
	c06Quiet()
	res := kit.NewResult()
	defer func() { res.Save(true) }()
	dir := t.TempDir()
	if !c06WaitInput(kit.Env("VERIF_IN", "")) {
		res.Note("aborted by the driver before any case was run")
		return
	}
	tb, err := c07LoadTable(kit.Env("VERIF_IN", ""))
	if err != nil {
		t.Fatal(err)
	}
	if rp := kit.Env("VERIF_REPLAY", ""); rp != "" {
		c07ReplayFile(t, rp, dir, tb)
		return
	}
	env := &c07Env{res: res, tb: tb}
	thorough := kit.Thorough()
	if !verifhook.Enabled {
		t.Fatal("built without -tags verif: the history scenarios need hook point user.closesession.unlocked")
	}
	c07InstallGateHook()
	defer verifhook.Set(nil)
	t0 := time.Now()
	sigs := []string{"chrome", "firefox", "safari"}
	offs := []int{}
	for d := -tb.w - 1; d <= tb.w+1; d++ {
		offs = append(offs, d)
	}
	type job func(r *c06Rig, rng *kit.Rng)
	jobs := make(chan job, 256)
	var wg sync.WaitGroup
	workers := c06Workers()
	var failMu sync.Mutex
	var failures []string
	fail := func(format string, a ...any) {
		failMu.Lock()
		failures = append(failures, fmt.Sprintf(format, a...))
		failMu.Unlock()
	}
	for w := 0; w < workers; w++ {
		rng := kit.NewRng(kit.Seed()*7919 + int64(w))
		rig, err := c06NewRig(w, rng, dir)
		if err != nil {
			t.Fatal(err)
		}
		wg.Add(1)
		go func() {
			defer wg.Done()
			defer rig.close()
			for j := range jobs {
				if res.NumViolations() > 80 {
					continue
				}
				j(rig, rng)
			}
			res.Stat("dispatch_stuck", rig.stuck.Load())
			res.Stat("dispatch_panics", rig.panics.Load())
		}()
	}
	// ---- part A: every untampered abstract case as a real client
	nA := 2
	if thorough {
		nA = 7
	}
	for i, cs := range tb.untamped {
		cs := cs
		trSigs := []string{"chrome"}
		if cs.Tr == "direct" {
			trSigs = sigs
		}
		for si, sg := range trSigs {
			for k := 0; k < nA; k++ {
				i, si, k, sg := i, si, k, sg
				jobs <- func(r *c06Rig, rng *kit.Rng) {
					c1 := *cs
					c1.Sig = sg
					c1.UID = []string{"u1", "u2"}[k%2]
					r.c07Client(env, &c1, r.concretise(&c1, i*31+si*7+k, rng))
				}
			}
		}
	}
	// ---- part B1: full sweeps on valid packets of an authorised user (offset 0)
	hellos := 1
	extra, edits := 400, 300
	if thorough {
		hellos, edits = 3, 3000
	}
	sweepCase := func(tr string, h int) *c06Case {
		us := []string{"bypass", "dbok"}[h%2]
		return tb.m[c07Key(tr, nil, 0, us, true, "mid", true)]
	}
	type trsig struct{ tr, sig string }
	trs := []trsig{{"direct", "chrome"}, {"direct", "firefox"}, {"direct", "safari"}, {"cdn", "chrome"}}
	for _, ts := range trs {
		for h := 0; h < hellos; h++ {
			ts, h := ts, h
			cs := sweepCase(ts.tr, h)
			if cs == nil {
				t.Fatalf("the table has no valid %s case", ts.tr)
			}
			jobs <- func(r *c06Rig, rng *kit.Rng) {
				b, err := r.c07MakeBase(cs, ts.sig, h, rng)
				if err != nil {
					fail("base %s/%s: %v", ts.tr, ts.sig, err)
					return
				}
				res.Stat("base_packets", 1)
				res.Stat("base_packet_bytes:"+ts.tr+"/"+ts.sig, int64(len(b.pkt)))
				if h == 0 {
					res.Sample(map[string]any{"base_packet": ts.tr + "/" + ts.sig, "bytes": len(b.pkt), "fields": b.lay.fields}, 8)
				}
				// split the sweep so that other workers can take part: capture is per rig, so re-queue closures on this rig only
				for _, e := range c07SweepBits(b, thorough, extra, rng) {
					r.c07One(env, b, e, 0, 0)
					res.Stat("single_bit_flips", 1)
				}
				for _, e := range c07RandomEdits(b, edits, tb.maxT, rng) {
					r.c07One(env, b, e, 0, 0)
					res.Stat("multi_byte_edits", 1)
				}
				// forgeries that need no server key: every small-order point, with and without bit 255
				for w := range c07SmallOrder {
					r.c07Forged(env, b, w, false, 0, 0)
					r.c07Forged(env, b, w, true, 0, 0)
				}
			}
		}
	}
	// ---- part B2: every environment (user state x method x sid x server key) x every offset class, untampered and
	// with sampled tampers of every class and pair of classes
	perClass := 1
	if thorough {
		perClass = 3
	}
	bi := 0
	for _, cs := range tb.untamped {
		if cs.Off != 0 {
			continue
		}
		cs := cs
		bsigs := []string{"chrome"}
		if cs.Tr == "direct" {
			bsigs = []string{sigs[bi%3]}
			if thorough {
				bsigs = sigs
			}
		}
		bi++
		for _, sg := range bsigs {
			sg, k := sg, bi
			jobs <- func(r *c06Rig, rng *kit.Rng) {
				b, err := r.c07MakeBase(cs, sg, k, rng)
				if err != nil {
					fail("base %s: %v", cs.sig(), err)
					return
				}
				res.Stat("base_packets", 1)
				// one representative edit per class, found by trying random bits
				byClass := map[string][]c07Edit{}
				for tries := 0; tries < 20000; tries++ {
					e := c07Bit(rng.Intn(len(b.pkt)), rng.Intn(8))
					if tries%3 == 0 {
						if f, ok := b.lay.fields[[]string{"random-nonce", "random-rest", "session-id", "key-share", "hidden-value", "record-header"}[rng.Intn(6)]]; ok {
							e = c07Bit(f[0]+rng.Intn(f[1]-f[0]), rng.Intn(8))
						}
					}
					cl := b.lay.classes(b.pkt, e)
					if len(cl) == 1 && len(byClass[cl[0]]) < perClass {
						byClass[cl[0]] = append(byClass[cl[0]], e)
					}
				}
				if b.lay.tls {
					byClass["bit255"] = []c07Edit{c07Bit(b.lay.randOff+31, 7)}
				}
				var edits []c07Edit
				edits = append(edits, c07Edit{})
				names := []string{}
				for c, es := range byClass {
					names = append(names, c)
					edits = append(edits, es...)
				}
				sort.Strings(names)
				if tb.maxT >= 2 {
					for x := 0; x < len(names); x++ {
						for y := x + 1; y < len(names); y++ {
							a, c := byClass[names[x]][0], byClass[names[y]][0]
							if a.Pos[0] != c.Pos[0] {
								edits = append(edits, c07Edit{Pos: []int{a.Pos[0], c.Pos[0]}, Xor: []byte{a.Xor[0], c.Xor[0]}})
							}
						}
					}
				}
				for _, off := range offs {
					choices := c06OffsetChoices(off, tb.w)
					nc := 2
					if thorough || nc > len(choices) {
						nc = len(choices)
					}
					for ci := 0; ci < nc; ci++ {
						d := choices[(ci+k)%len(choices)]
						if ci == 0 {
							d = choices[0]
						}
						for ei, e := range edits {
							if ci > 0 && ei > 0 && len(e.Pos) > 1 {
								continue // pairs of classes once per offset class
							}
							r.c07One(env, b, e, off, d)
							res.Stat("environment_presentations", 1)
						}
						if ci == 0 || thorough {
							r.c07Forged(env, b, k+off+ci+3, (k+off)%2 == 0, off, d)
							res.Stat("environment_presentations", 1)
						}
					}
				}
			}
		}
	}
	// ---- part C: user histories (authorised at the first connection, revoked or not, reconnect with a new session id)
	reps := 1
	if thorough {
		reps = 4
	}
	hn := 0
	for rep := 0; rep < reps; rep++ {
		for _, ts := range trs {
			for _, after := range []string{"dbok", "nocredit", "expired", "unknown"} {
				for _, cache := range []string{"idle", "busy"} {
					ts, after, cache := ts, after, cache
					hn++
					n := hn
					jobs <- func(r *c06Rig, rng *kit.Rng) { r.c07History(env, ts.tr, ts.sig, after, cache, n, rng) }
				}
			}
		}
	}
	// ---- part D: stamps days ... centuries away from the server clock, extreme and random 64-bit stamps
	for ti, ts := range trs {
		for ui, us := range []string{"bypass", "dbok", "admin"} {
			if !thorough && (ti+ui)%3 != 0 && !(ts.sig == "chrome" && us == "bypass") {
				continue
			}
			ts, us, k := ts, us, ti*3+ui
			cs := tb.m[c07Key(ts.tr, nil, 0, us, true, "mid", true)]
			if cs == nil {
				t.Fatalf("the table has no valid %s/%s case", ts.tr, us)
			}
			jobs <- func(r *c06Rig, rng *kit.Rng) { r.c07FarTimes(env, cs, ts.sig, k, thorough, rng) }
		}
	}
	if len(tb.farOffs) == 0 {
		t.Fatal("the table has no far-away stamp classes")
	}
	// ---- part E: servers built by ParseConfig/InitState with / without AdminUID and 0 / 1 / 3 bypass UIDs x probe UIDs
	type confKey struct {
		admin bool
		nb    int
	}
	groups := map[confKey][]*c06Case{}
	for _, cs := range tb.confCases {
		groups[confKey{cs.Admin, cs.NB}] = append(groups[confKey{cs.Admin, cs.NB}], cs)
	}
	if len(groups) < 6 {
		t.Fatalf("the table has %d server configurations, expected 6", len(groups))
	}
	cdraws := 1
	if thorough {
		cdraws = 4
	}
	gi := 0
	for ck, cases := range groups {
		ck, cases, id := ck, cases, 100+gi
		gi++
		sort.Slice(cases, func(i, j int) bool { return c07KeyOf(cases[i]) < c07KeyOf(cases[j]) })
		jobs <- func(_ *c06Rig, rng *kit.Rng) {
			if err := c07ConfCases(env, id, dir, ck.admin, ck.nb, cases, cdraws, rng); err != nil {
				fail("configuration admin=%v nb=%d: %v", ck.admin, ck.nb, err)
			}
		}
	}
	// ---- part F: a live session of the same (UID, sid) / an upload tick after the revocation
	if len(tb.liveCases) == 0 {
		t.Fatal("the table has no session-state cases")
	}
	for i, cs := range tb.liveCases {
		if !thorough && len(cs.Tampers) > 0 && !(cs.UState == "bypass" || cs.UState == "dbok") {
			continue // quick: tampered packets against the live sessions of authorised users only
		}
		cs, i := cs, i
		sg := "chrome"
		if cs.Tr == "direct" {
			sg = sigs[i%3]
		}
		jobs <- func(r *c06Rig, rng *kit.Rng) { r.c07Live(env, cs, sg, i, rng) }
	}
	close(jobs)
	wg.Wait()
	res.Stat("abstract_cases", int64(len(tb.m)))
	res.Stat("replay_wall_ms", time.Since(t0).Milliseconds())
	for _, d := range env.drift {
		res.Note("table/code disagreement that is not a violation: %s", d)
	}
	if len(failures) > 0 {
		t.Fatalf("harness failures: %v", failures)
	}
}

// c07ReplayFile presents the saved packet again to a server with the saved static key, users and clock.
func c07ReplayFile(t *testing.T, path, dir string, tb *c07Table) {
	var rf struct {
		Replay struct {
			Kind     string            `json:"kind"`
			Abstract c06Case           `json:"abstract"`
			Case     c06Case           `json:"case"`
			Conc     c06Conc           `json:"conc"`
			Packet   string            `json:"packet_hex"`
			OffNs    int64             `json:"server_clock_minus_stamp_ns"`
			SrvSec   *int64            `json:"server_clock_unix_s"`
			SrvNs    int               `json:"server_clock_ns"`
			Stamp    int64             `json:"stamp"`
			Pv       string            `json:"static_private_key_hex"`
			UIDs     map[string]string `json:"uids"`
			User     string            `json:"user"`
			Sid      uint32            `json:"sid"`
			Tr       string            `json:"transport"`
			Sig      string            `json:"sig"`
			After    string            `json:"after"`
			Cache    string            `json:"cache"`
			N        int               `json:"n"`
		} `json:"replay"`
	}
	raw, err := os.ReadFile(path)
	if err != nil {
		t.Fatal(err)
	}
	if err := json.Unmarshal(raw, &rf); err != nil {
		t.Fatal(err)
	}
	res := kit.NewResult()
	env := &c07Env{res: res, tb: tb}
	rng := kit.NewRng(kit.Seed())
	if rf.Replay.Kind == "client" || rf.Replay.Kind == "history" || rf.Replay.Kind == "live" {
		rig, err := c06NewRig(0, rng, dir)
		if err != nil {
			t.Fatal(err)
		}
		defer rig.close()
		if rf.Replay.Kind == "live" {
			rig.c07Live(env, &rf.Replay.Abstract, rf.Replay.Sig, rf.Replay.N, rng)
			fmt.Printf("live session scenario %s: stats %v notes %v\n", c07KeyOf(&rf.Replay.Abstract), res.Stats, res.Notes)
		} else if rf.Replay.Kind == "history" {
			c07InstallGateHook()
			defer verifhook.Set(nil)
			rig.c07History(env, rf.Replay.Tr, rf.Replay.Sig, rf.Replay.After, rf.Replay.Cache, rf.Replay.N, rng)
			fmt.Printf("history %s/%s after=%s cache=%s: stats %v notes %v\n", rf.Replay.Tr, rf.Replay.Sig, rf.Replay.After, rf.Replay.Cache, res.Stats, res.Notes)
		} else {
			rig.c07Client(env, &rf.Replay.Case, rf.Replay.Conc)
		}
		for _, v := range res.Violations {
			fmt.Printf("REPLAY-RESULT key=%q what=%q\n", v.Key, v.What)
		}
		if len(res.Violations) == 0 {
			fmt.Printf("REPLAY-RESULT key=\"\" what=\"the statement holds on this client\"\n")
		}
		return
	}
	c06RigOverride.pv, _ = hex.DecodeString(rf.Replay.Pv)
	c06RigOverride.uids = map[string][]byte{}
	for l, h := range rf.Replay.UIDs {
		c06RigOverride.uids[l], _ = hex.DecodeString(h)
	}
	rig, err := c06NewRig(0, rng, dir)
	if err != nil {
		t.Fatal(err)
	}
	defer rig.close()
	pkt, _ := hex.DecodeString(rf.Replay.Packet)
	rig.setClock(rf.Replay.Stamp, time.Duration(rf.Replay.OffNs))
	if rf.Replay.SrvSec != nil {
		rig.setNow(time.Unix(*rf.Replay.SrvSec, int64(rf.Replay.SrvNs)))
	}
	uid := rig.uids[rf.Replay.User]
	obs := rig.present(pkt, uid, rf.Replay.Sid)
	ci, _, aerr := AuthFirstPacket(c07Complete(pkt), c06TransportOf(pkt), rig.freshCacheState())
	exp := rf.Replay.Abstract
	fmt.Printf("abstract case: %s\nexpected: %s\nobserved: dispatchConnection -> %+v\n          AuthFirstPacket -> err=%v info={uid=%x method=%q enc=%d sid=%#x unordered=%v}\n",
		exp.sig(), exp.Verdict, obs, aerr, ci.UID, ci.ProxyMethod, ci.EncryptionMethod, ci.SessionId, ci.Unordered)
	fmt.Printf("REPLAY-RESULT outcome=%q auth_err=%q expected=%q\n", obs.Outcome, fmt.Sprint(aerr), exp.Verdict)
}

var _ = base64.StdEncoding
