package server

// C16 (B2) - TestVerifC16Stress: two users with two sessions each on one real userPanel; one writer goroutine
// per session and direction keeps sending units through the real sessions while two goroutines run
// overlapping upload rounds (updateUsageQueue; commitUpdate) and one non-last session is reaped; then the
// traffic stops, one more round runs, and the credits are read back through the manager.
// Decided at rest: credit decrease == bytes that crossed the user's connection pools (both directions, both
// users; nobody was terminated), and at every intermediate read: decrease <= carried.

import (
	"fmt"
	"sync"
	"sync/atomic"
	"testing"
	"time"

	"github.com/cbeuw/Cloak/internal/server/usermanager"
	kit "github.com/cbeuw/Cloak/internal/verifkit"
)

func TestVerifC16Stress(t *testing.T) {
	panelInstallHook()
	env := panelNewEnv(t)
	defer env.close()
	res := kit.NewResult()
	defer func() { res.Save(true) }()
	rounds := kit.EnvInt("VERIF_C16_ROUNDS", 6)
	rng := kit.NewRng(kit.Seed()*131 + 7)
	for r := 0; r < rounds; r++ {
		cfg := panelCfg{Name: "c16stress", NU: 2, Caps: []int{3, 3}, Creds: []int{9, 9}, Init: []int{11, 12, 21, 22}, Mode: "trace", Traffic: true}
		w, err := panelNewWorld(env, cfg, 0)
		if err != nil {
			t.Fatal(err)
		}
		// credits far above what the run can carry: nobody is terminated
		const big = int64(1) << 40
		for u := 1; u <= 2; u++ {
			if err := env.mgr.WriteUserInfo(usermanager.UserInfo{UID: w.uid[u], UpCredit: usermanager.JustInt64(big), DownCredit: usermanager.JustInt64(big)}); err != nil {
				t.Fatal(err)
			}
			w.baseCr[u] = [2]int64{big, big}
		}
		w.trace = func(p *panelProc, name string, args []uint64) {}
		panelCur.Store(w)
		var stop atomic.Bool
		var wg sync.WaitGroup
		var units atomic.Int64
		perSession := 20 + rng.Intn(40)
		for _, o := range w.objs {
			o := o
			wg.Add(1)
			go func() {
				defer wg.Done()
				for i := 0; i < perSession && !stop.Load(); i++ {
					d := "rx"
					if i%2 == 1 {
						d = "tx"
					}
					if err := w.unitTraffic(o, d); err != nil {
						return // the session was reaped
					}
					units.Add(1)
				}
			}()
		}
		uploads := 3 + rng.Intn(4)
		var uw sync.WaitGroup
		for g := 0; g < 2; g++ {
			uw.Add(1)
			go func() {
				defer uw.Done()
				for i := 0; i < uploads; i++ {
					w.panel.updateUsageQueue()
					if err := w.panel.commitUpdate(); err != nil {
						res.Note("commitUpdate: %v", err)
					}
					for u := 1; u <= 2; u++ {
						c16Check(res, w, u, false, fmt.Sprintf("round %d, during traffic", r), 0)
					}
				}
			}()
		}
		// one reap of a session that is not the user's last
		reap := w.objs[rng.Intn(len(w.objs))]
		uw.Add(1)
		go func() {
			defer uw.Done()
			reap.rec.CloseSession(reap.sid, "")
		}()
		uw.Wait()
		wg.Wait()
		stop.Store(true)
		// traffic has stopped: one upload round, then the books must balance
		w.panel.updateUsageQueue()
		if err := w.panel.commitUpdate(); err != nil {
			res.Note("commitUpdate: %v", err)
		}
		for u := 1; u <= 2; u++ {
			// a unit the client had written when the session was reaped may never have been read by the server's
			// deplex: it is on the link but did not cross the pool
			slack := int64(0)
			if u == reap.u {
				slack = w.unit
			}
			c16Check(res, w, u, true, fmt.Sprintf("round %d, at rest", r), slack)
		}
		res.Count(fmt.Sprintf("round %d units %d uploads %d", r, units.Load(), uploads), true)
		res.Stat("units", units.Load())
		if r == 0 {
			res.Sample(map[string]any{"units": units.Load(), "uploads_per_goroutine": uploads, "unit_bytes": w.unit}, 2)
		}
		w.shutdown()
		panelCur.Store(nil)
	}
}

func c16Check(res *kit.Result, w *panelWorld, u int, rest bool, when string, upSlack int64) {
	// the credit is read first: whatever crosses the pools afterwards can only make "carried" larger than "charged"
	up, down, exists, _ := w.dbRead(u)
	if !exists {
		return
	}
	car := w.carriedRaw(u)
	cur := [2]int64{up, down}
	for d := 0; d < 2; d++ {
		dir := []string{"up", "down"}[d]
		charged := w.baseCr[u][d] + w.topReal[u][d] - cur[d]
		carried := car[d] - w.baseCar[u][d]
		if !rest && charged > carried {
			res.Violate("nevermore:"+dir, fmt.Sprintf("%s: user %d %s credit went down by %d bytes, only %d bytes crossed", when, u, dir, charged, carried), nil)
		}
		if rest && d == 0 && charged < carried && carried-charged <= upSlack {
			continue
		}
		if rest && charged != carried {
			k := "exact:" + dir
			if charged > carried {
				k = "nevermore:" + dir
			}
			res.Violate(k, fmt.Sprintf("%s: user %d %s credit went down by %d bytes, %d bytes were carried", when, u, dir, charged, carried), nil)
		}
	}
}

// TestVerifC16TerminateStress: many limited users connect, carry something, and lose their last session again
// (CloseSession -> TerminateActiveUser -> updateUsageQueueForOne), over and over, while another goroutine keeps running
// upload rounds, so that a terminating user is usually ALREADY in the pending queue and commitUpdate's snapshot + reset
// falls into the termination now and then. The real localManager (bolt) is behind the panel. What crosses the pool per
// iteration is the session's closing notice (server -> client, metered by valve.AddTx in switchboard.send; every 8th
// iteration also one data unit in each direction through a client peer session); "carried" is read off the links.
// Each user is driven by one goroutine, so no connection races a termination of the same user (C17's subject).
// Decided after the traffic has stopped and one more round has run: credit decrease == carried, per user and direction.
func TestVerifC16TerminateStress(t *testing.T) {
	panelInstallHook()
	env := panelNewEnv(t)
	defer env.close()
	res := kit.NewResult()
	defer func() { res.Save(true) }()
	rounds := kit.EnvInt("VERIF_C16_TROUNDS", 4)
	nUsers := kit.EnvInt("VERIF_C16_TUSERS", 32)
	const big = int64(1) << 40
	for r := 0; r < rounds && res.NumViolations() == 0; r++ {
		caps := make([]int, nUsers)
		creds := make([]int, nUsers)
		for i := range caps {
			caps[i], creds[i] = 2, 9
		}
		cfg := panelCfg{Name: "c16term", NU: nUsers, Caps: caps, Creds: creds, Mode: "trace"}
		w, err := panelNewWorld(env, cfg, 0)
		if err != nil {
			t.Fatal(err)
		}
		w.trace = func(p *panelProc, name string, args []uint64) {}
		for u := 1; u <= nUsers; u++ {
			if err := env.mgr.WriteUserInfo(usermanager.UserInfo{UID: w.uid[u], UpCredit: usermanager.JustInt64(big), DownCredit: usermanager.JustInt64(big)}); err != nil {
				t.Fatal(err)
			}
			w.baseCr[u] = [2]int64{big, big}
		}
		panelCur.Store(w)
		var stop atomic.Bool
		var wg sync.WaitGroup
		var iters, uploads atomic.Int64
		for u := 1; u <= nUsers; u++ {
			wg.Add(1)
			go func(u int) {
				defer wg.Done()
				p := &panelProc{id: u, op: panelOp{K: "conn", U: u, S: 1}}
				for i := 0; !stop.Load(); i++ {
					res, _, _ := panelConnFree(w, p, 1000*u+i)
					if res != "new" {
						w.mu.Lock()
						w.table = append(w.table, fmt.Sprintf("user %d iteration %d: admission gave %q", u, i, res))
						w.mu.Unlock()
						return
					}
					if i%8 == 7 {
						w.mu.Lock()
						o := w.objs[len(w.objs)-1]
						for _, x := range w.objs {
							if x.u == u {
								o = x
							}
						}
						w.mu.Unlock()
						if w.unitTraffic(o, "rx") != nil || w.unitTraffic(o, "tx") != nil {
							return
						}
					}
					// the session ends: serveSession's CloseSession; it was the user's only one
					p.user.CloseSession(1, "")
					iters.Add(1)
				}
			}(u)
		}
		wg.Add(1)
		go func() {
			defer wg.Done()
			for !stop.Load() {
				w.panel.updateUsageQueue()
				if err := w.panel.commitUpdate(); err != nil {
					res.Note("commitUpdate: %v", err)
					return
				}
				uploads.Add(1)
			}
		}()
		time.Sleep(time.Duration(kit.EnvInt("VERIF_C16_TMS", 700)) * time.Millisecond)
		stop.Store(true)
		wg.Wait()
		w.panel.updateUsageQueue()
		if err := w.panel.commitUpdate(); err != nil {
			res.Note("commitUpdate: %v", err)
		}
		for _, l := range w.table {
			res.Note("%s", l)
		}
		bad := 0
		for u := 1; u <= nUsers; u++ {
			up, down, exists, _ := w.dbRead(u)
			if !exists {
				continue
			}
			car := w.carriedRaw(u)
			cur := [2]int64{up, down}
			for d := 0; d < 2; d++ {
				dir := []string{"up", "down"}[d]
				charged, carried := big-cur[d], car[d]-w.baseCar[u][d]
				if charged != carried {
					bad++
					k := "exact:" + dir + ":termination-overlapping-upload"
					if charged > carried {
						k = "nevermore:" + dir
					}
					res.Violate(k, fmt.Sprintf("round %d (%d users, %d connect/close cycles, %d upload rounds): user %d %s credit went down by %d bytes, %d bytes crossed its connection pools",
						r, nUsers, iters.Load(), uploads.Load(), u, dir, charged, carried), nil)
				}
			}
		}
		res.Count(fmt.Sprintf("round %d", r), true)
		res.Stat("cycles", iters.Load())
		res.Stat("uploads", uploads.Load())
		if r == 0 {
			res.Sample(map[string]any{"users": nUsers, "cycles": iters.Load(), "upload_rounds": uploads.Load(), "mismatches": bad}, 2)
		}
		w.shutdown()
		panelCur.Store(nil)
	}
}
