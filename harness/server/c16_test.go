package server

// C16 (B2) - TestVerifC16Stress: two users with two sessions each on one real userPanel; one writer goroutine
// per session and direction keeps sending units through the real sessions while two goroutines run
// overlapping upload rounds (updateUsageQueue; commitUpdate) and one non-last session is reaped; then the
// traffic stops, one more round runs, and the credits are read back through the manager.
// Decided at rest: credit decrease == bytes that crossed the user's connection pools (both directions, both
// users; nobody was terminated), and at every intermediate read: decrease <= carried.

import (
	"fmt"
	"sync"
	"sync/atomic"
	"testing"

	"github.com/cbeuw/Cloak/internal/server/usermanager"
	kit "github.com/cbeuw/Cloak/internal/verifkit"
)

func TestVerifC16Stress(t *testing.T) {
	panelInstallHook()
	env := panelNewEnv(t)
	defer env.close()
	res := kit.NewResult()
	defer func() { res.Save(true) }()
	rounds := kit.EnvInt("VERIF_C16_ROUNDS", 6)
	rng := kit.NewRng(kit.Seed()*131 + 7)
	for r := 0; r < rounds; r++ {
		cfg := panelCfg{Name: "c16stress", NU: 2, Caps: []int{3, 3}, Creds: []int{9, 9}, Init: []int{11, 12, 21, 22}, Mode: "trace", Traffic: true}
		w, err := panelNewWorld(env, cfg, 0)
		if err != nil {
			t.Fatal(err)
		}
		// credits far above what the run can carry: nobody is terminated
		const big = int64(1) << 40
		for u := 1; u <= 2; u++ {
			if err := env.mgr.WriteUserInfo(usermanager.UserInfo{UID: w.uid[u], UpCredit: usermanager.JustInt64(big), DownCredit: usermanager.JustInt64(big)}); err != nil {
				t.Fatal(err)
			}
			w.baseCr[u] = [2]int64{big, big}
		}
		w.trace = func(p *panelProc, name string, args []uint64) {}
		panelCur.Store(w)
		var stop atomic.Bool
		var wg sync.WaitGroup
		var units atomic.Int64
		perSession := 20 + rng.Intn(40)
		for _, o := range w.objs {
			o := o
			wg.Add(1)
			go func() {
				defer wg.Done()
				for i := 0; i < perSession && !stop.Load(); i++ {
					d := "rx"
					if i%2 == 1 {
						d = "tx"
					}
					if err := w.unitTraffic(o, d); err != nil {
						return // the session was reaped
					}
					units.Add(1)
				}
			}()
		}
		uploads := 3 + rng.Intn(4)
		var uw sync.WaitGroup
		for g := 0; g < 2; g++ {
			uw.Add(1)
			go func() {
				defer uw.Done()
				for i := 0; i < uploads; i++ {
					w.panel.updateUsageQueue()
					if err := w.panel.commitUpdate(); err != nil {
						res.Note("commitUpdate: %v", err)
					}
					for u := 1; u <= 2; u++ {
						c16Check(res, w, u, false, fmt.Sprintf("round %d, during traffic", r), 0)
					}
				}
			}()
		}
		// one reap of a session that is not the user's last
		reap := w.objs[rng.Intn(len(w.objs))]
		uw.Add(1)
		go func() {
			defer uw.Done()
			reap.rec.CloseSession(reap.sid, "")
		}()
		uw.Wait()
		wg.Wait()
		stop.Store(true)
		// traffic has stopped: one upload round, then the books must balance
		w.panel.updateUsageQueue()
		if err := w.panel.commitUpdate(); err != nil {
			res.Note("commitUpdate: %v", err)
		}
		for u := 1; u <= 2; u++ {
			// a unit the client had written when the session was reaped may never have been read by the server's
			// deplex: it is on the link but did not cross the pool
			slack := int64(0)
			if u == reap.u {
				slack = w.unit
			}
			c16Check(res, w, u, true, fmt.Sprintf("round %d, at rest", r), slack)
		}
		res.Count(fmt.Sprintf("round %d units %d uploads %d", r, units.Load(), uploads), true)
		res.Stat("units", units.Load())
		if r == 0 {
			res.Sample(map[string]any{"units": units.Load(), "uploads_per_goroutine": uploads, "unit_bytes": w.unit}, 2)
		}
		w.shutdown()
		panelCur.Store(nil)
	}
}

func c16Check(res *kit.Result, w *panelWorld, u int, rest bool, when string, upSlack int64) {
	// the credit is read first: whatever crosses the pools afterwards can only make "carried" larger than "charged"
	up, down, exists, _ := w.dbRead(u)
	if !exists {
		return
	}
	car := w.carriedRaw(u)
	cur := [2]int64{up, down}
	for d := 0; d < 2; d++ {
		dir := []string{"up", "down"}[d]
		charged := w.baseCr[u][d] + w.topReal[u][d] - cur[d]
		carried := car[d] - w.baseCar[u][d]
		if !rest && charged > carried {
			res.Violate("nevermore:"+dir, fmt.Sprintf("%s: user %d %s credit went down by %d bytes, only %d bytes crossed", when, u, dir, charged, carried), nil)
		}
		if rest && d == 0 && charged < carried && carried-charged <= upSlack {
			continue
		}
		if rest && charged != carried {
			k := "exact:" + dir
			if charged > carried {
				k = "nevermore:" + dir
			}
			res.Violate(k, fmt.Sprintf("%s: user %d %s credit went down by %d bytes, %d bytes were carried", when, u, dir, charged, carried), nil)
		}
	}
}
