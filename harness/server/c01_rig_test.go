package server

// C01, end to end (B2): the real ck-client relay (client.MakeSession + client.RouteTCP) and the real ck-server
// (dispatchConnection -> serveSession -> proxy target) in one process, joined by the in-memory network in gated
// mode: a pump goroutine releases the bytes in flight in random portions with random pauses, connection by
// connection, so that records are cut anywhere and connections overtake each other. Application connections send
// position-dependent data through the tunnel to an echoing proxy target and read it back. Real goroutines, real
// scheduler. Events go to TLC (spec/EchoTrace.tla); the driver checks the same thing itself.

import (
	"crypto/rand"
	"fmt"
	"io"
	"net"
	"sync"
	"sync/atomic"
	"testing"
	"time"

	"github.com/cbeuw/Cloak/internal/client"
	"github.com/cbeuw/Cloak/internal/common"
	"github.com/cbeuw/Cloak/internal/ecdh"
	mux "github.com/cbeuw/Cloak/internal/multiplex"
	"github.com/cbeuw/Cloak/internal/server/usermanager"
	kit "github.com/cbeuw/Cloak/internal/verifkit"
	log "github.com/sirupsen/logrus"
)

type c01Addr string

func (a c01Addr) Network() string { return "vnet" }
func (a c01Addr) String() string  { return string(a) }

// byte at absolute offset off of application connection k
func c01Byte(k int, off int64) byte {
	x := uint64(k)*0x9E3779B97F4A7C15 + uint64(off)*0xBF58476D1CE4E5B9
	x ^= x >> 29
	return byte(x*0x94D049BB133111EB>>56) ^ byte(off) ^ byte(off>>8)
}

func c01Fill(b []byte, k int, off int64) {
	for i := range b {
		b[i] = c01Byte(k, off+int64(i))
	}
}

// c01Locate returns the offset at which data matches connection k's pattern, trying the expected offset first
func c01Locate(data []byte, k int, expect int64) int64 {
	ok := true
	for i := range data {
		if data[i] != c01Byte(k, expect+int64(i)) {
			ok = false
			break
		}
	}
	if ok {
		return expect
	}
	return -1
}

var c01Sid atomic.Uint32

func TestVerifC01Rig(t *testing.T) {
	log.SetOutput(io.Discard)
	log.SetLevel(log.PanicLevel)
	log.StandardLogger().ExitFunc = func(int) { select {} } // RouteTCP calls log.Fatal when its listener closes
	res := kit.NewResult()
	defer func() { res.Save(true) }()
	tw := kit.NewTraceWriter("trace.ndjson")
	defer tw.Close()
	rng := kit.NewRng(kit.Seed())
	pv, pub, _ := ecdh.GenerateKey(rand.Reader)
	uid := []byte("verif-c01-uid-16")
	type scen struct {
		NumConn int
		Enc     string
		Streams int
		Browser string
		// Timeout > 0: StreamTimeout in seconds; the application connections then stay in use (ping-pong) for longer
		// than that, which an active connection must survive
		Timeout int
	}
	scens := []scen{{2, "plain", 6, "firefox", 0}, {4, "aes-256-gcm", 12, "chrome", 0}, {1, "chacha20-poly1305", 4, "safari", 0}, {0, "aes-128-gcm", 3, "firefox", 0}, {8, "aes-gcm", 20, "chrome", 0}, {2, "plain", 2, "firefox", 1}}
	if kit.Thorough() {
		more := []scen{}
		for i := 0; i < 25; i++ {
			more = append(more, scen{[]int{0, 1, 2, 4, 8}[rng.Intn(5)], []string{"plain", "aes-256-gcm", "aes-128-gcm", "chacha20-poly1305"}[rng.Intn(4)], 1 + rng.Intn(60), []string{"chrome", "firefox", "safari"}[rng.Intn(3)], 0})
		}
		scens = append(scens, more...)
	}
	for si, sc := range scens {
		vn := kit.NewVNet()   // tunnel side: gated, pumped
		appn := kit.NewVNet() // application and proxy-target side: plain
		srvL := vn.Listen()
		srvL.Gated = true
		proxyL, redirL, localL := appn.Listen(), appn.Listen(), appn.Listen()
		var arr [16]byte
		copy(arr[:], uid)
		sta := &State{
			ProxyBook: map[string]net.Addr{"echo": c01Addr("echo")}, ProxyDialer: proxyL,
			WorldState: common.WorldState{Rand: rand.Reader, Now: time.Now},
			BypassUID:  map[[16]byte]struct{}{arr: {}}, StaticPv: pv,
			RedirHost: &net.IPAddr{IP: net.IPv4(127, 0, 0, 1)}, RedirPort: "80", RedirDialer: redirL,
			UsedRandom: map[[32]byte]int64{},
			Panel: &userPanel{Manager: &usermanager.Voidmanager{}, activeUsers: make(map[[16]byte]*ActiveUser),
				usageUpdateQueue: make(map[[16]byte]*usagePair), uploadInterval: defaultUploadInterval},
		}
		stop := make(chan struct{})
		go func() { // server
			for {
				c, err := srvL.Accept()
				if err != nil {
					return
				}
				go dispatchConnection(c, sta)
			}
		}()
		go func() { // echoing proxy target
			for {
				c, err := proxyL.Accept()
				if err != nil {
					return
				}
				go func(c net.Conn) {
					buf := make([]byte, 32768)
					for {
						n, err := c.Read(buf)
						if n > 0 {
							if _, werr := c.Write(buf[:n]); werr != nil {
								return
							}
						}
						if err != nil {
							c.Close()
							return
						}
					}
				}(c)
			}
		}()
		go func() { // the adversarial network: random portions, random pauses, connection by connection
			pr := kit.NewRng(kit.Seed()*31 + int64(si))
			for {
				select {
				case <-stop:
					for _, l := range vn.Links() {
						l.ReleaseAll()
					}
					return
				default:
				}
				links := vn.Links()
				moved := 0
				for range links {
					l := links[pr.Intn(len(links))]
					from := pr.Intn(2)
					if l.Pending(from) == 0 {
						continue
					}
					k := []int{1, 3, 5, 40, 600, 5000, 17000, 70000}[pr.Intn(8)]
					moved += l.ReleaseBytes(from, k)
				}
				if moved == 0 || pr.Intn(4) == 0 {
					time.Sleep(time.Duration(20+pr.Intn(200)) * time.Microsecond)
				}
			}
		}()
		raw := client.RawConfig{ServerName: "www.example.com", ProxyMethod: "echo", EncryptionMethod: sc.Enc, UID: uid,
			PublicKey: ecdh.Marshal(pub), NumConn: sc.NumConn, LocalHost: "127.0.0.1", LocalPort: "1984",
			RemoteHost: "127.0.0.1", RemotePort: "443", BrowserSig: sc.Browser, Transport: "direct", StreamTimeout: sc.Timeout}
		local, remote, auth, err := raw.ProcessRawConfig(common.WorldState{Rand: rand.Reader, Now: time.Now})
		if err != nil {
			t.Fatal(err)
		}
		newSesh := func() *mux.Session {
			a := auth
			a.SessionId = c01Sid.Add(1)
			return client.MakeSession(remote, a, srvL)
		}
		go client.RouteTCP(localL, local.Timeout, remote.Singleplex, newSesh)
		tw.Emit(map[string]any{"ev": "Reset"})
		var wg sync.WaitGroup
		var totalSent, totalRcvd atomic.Int64
		for k := 0; k < sc.Streams; k++ {
			wg.Add(1)
			seed := rng.Uint64()
			go func(k int, seed uint64) {
				defer wg.Done()
				lr := kit.NewRng(int64(seed))
				c, err := localL.Dial("tcp", "local")
				if err != nil {
					return
				}
				total := int64([]int{1, 300, 20000, 70000, 200000}[lr.Intn(5)])
				pace := time.Duration(0)
				if sc.Timeout > 0 {
					// keep the connection in use for 2.5 x StreamTimeout: 25 small messages, one every tenth of the timeout
					total = 25 * 40
					pace = time.Duration(sc.Timeout) * time.Second / 10
				}
				var sent atomic.Int64
				rdone := make(chan struct{})
				go func() { // reader
					defer close(rdone)
					var off int64
					buf := make([]byte, 65536)
					for off < total {
						c.SetReadDeadline(time.Now().Add(60 * time.Second))
						n, err := c.Read(buf[:1+lr.Intn(len(buf)-1)])
						if n > 0 {
							at := c01Locate(buf[:n], k, off)
							tw.Emit(map[string]any{"ev": "R", "k": k, "off": at, "n": n})
							if at != off {
								res.Violate("bytes-wrong", fmt.Sprintf("application connection %d read %d bytes at offset %d that are not the bytes it sent there (NumConn %d, %s)", k, n, off, sc.NumConn, sc.Enc),
									map[string]any{"scenario": sc, "conn": k, "offset": off})
								return
							}
							if off+int64(n) > sent.Load() {
								res.Violate("bytes-wrong", fmt.Sprintf("application connection %d read back more than it had sent", k), nil)
								return
							}
							off += int64(n)
							totalRcvd.Add(int64(n))
						}
						if err != nil {
							res.Violate("bytes-missing", fmt.Sprintf("application connection %d: %v after %d of %d bytes came back although every connection is healthy (NumConn %d, %s, %d streams)", k, err, off, total, sc.NumConn, sc.Enc, sc.Streams),
								map[string]any{"scenario": sc, "conn": k, "got": off, "want": total})
							return
						}
					}
					tw.Emit(map[string]any{"ev": "E", "k": k, "clean": true})
				}()
				var off int64
				for off < total {
					n := int64([]int{1, 7, 1400, 16000, 16384, 50000}[lr.Intn(6)])
					if pace > 0 {
						n = 40
						time.Sleep(pace)
					}
					if off+n > total {
						n = total - off
					}
					b := make([]byte, n)
					c01Fill(b, k, off)
					sent.Add(n) // before the write: the echo may be back before Write returns
					tw.Emit(map[string]any{"ev": "S", "k": k, "n": n})
					if _, err := c.Write(b); err != nil {
						res.Violate("write-refused", fmt.Sprintf("application connection %d: write failed: %v", k, err), nil)
						break
					}
					off += n
					totalSent.Add(n)
					if lr.Intn(5) == 0 {
						time.Sleep(time.Duration(lr.Intn(300)) * time.Microsecond)
					}
				}
				<-rdone
				c.Close()
			}(k, seed)
		}
		fin := make(chan struct{})
		go func() { wg.Wait(); close(fin) }()
		select {
		case <-fin:
		case <-time.After(240 * time.Second):
			res.Note("scenario %d: application connections did not finish within 240 s", si)
			res.Stat("timeouts", 1)
		}
		close(stop)
		res.Count(fmt.Sprintf("%+v", sc), true)
		res.Stat("bytes_sent", totalSent.Load())
		res.Stat("bytes_echoed", totalRcvd.Load())
		res.Stat("tunnel_connections", int64(len(vn.Links())))
		if si == 0 {
			res.Sample(map[string]any{"scenario": sc, "bytes_sent": totalSent.Load(), "bytes_echoed": totalRcvd.Load(), "tunnel_connections": len(vn.Links())}, 1)
		}
		srvL.Close()
		proxyL.Close()
		time.Sleep(5 * time.Millisecond)
	}
	res.Stat("trace_events", tw.Events())
}
