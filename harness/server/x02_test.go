//go:build verif

package server

// X02 - the relay layer (spec/Relay.tla, behaviours from spec/RelayGen.tla): the REAL client.RouteTCP with the real
// client.MakeSession as session factory and the REAL dispatchConnection -> serveSession, joined by the in-memory
// network, one behaviour per testing/synctest bubble. Environment steps of the behaviour are executed one at a
// time (local application dial / write / read / close / reset, proxy application write / read / close, ONE frame
// released on the gated tunnel connection, reset of the tunnel connection, a proxy dial made to fail, 15 s of
// virtual time); after each, synctest.Wait() brings every Cloak goroutine to rest and what can be seen from outside
// is compared with the model's observation. Application links hold one write per direction (vnet Bound), so the
// copy goroutines can be blocked in Write as in the model.
//
// Verdicts are statements about the code, evaluated on what the code did (the model only says WHEN they are due):
//   relay-bytes-wrong / relay-crosstalk   content received by an application (tags in every 4-byte unit)
//   relay-bytes-missing                   at a quiescent point an application that is owed everything has less
//   relay-neighbour-closed                a connection / the shared session closed with no cause of its own
//   relay-orphan-conn                     a finished pair or a dead session leaves a connection open; goroutines remain
//   relay-closed-session-reused           a connection accepted while the current session is closed got no new one
//   relay-session-surplus                 more sessions made than needed
//   relay-singleplex-shared               singleplex: a connection without a session of its own
// Any other difference from the model is drift: the behaviour counts as "diverged" (the check is inconclusive).

import (
	"crypto/rand"
	"encoding/json"
	"errors"
	"fmt"
	"io"
	"net"
	"os"
	"runtime"
	"strings"
	"sync"
	"sync/atomic"
	"testing"
	"testing/synctest"
	"time"

	"github.com/cbeuw/Cloak/internal/client"
	"github.com/cbeuw/Cloak/internal/common"
	"github.com/cbeuw/Cloak/internal/ecdh"
	mux "github.com/cbeuw/Cloak/internal/multiplex"
	"github.com/cbeuw/Cloak/internal/server/usermanager"
	kit "github.com/cbeuw/Cloak/internal/verifkit"
	log "github.com/sirupsen/logrus"
)

const x02Tick = 15 * time.Second

type x02Ev struct {
	A    string `json:"a"`
	I    int    `json:"i"`
	S    int    `json:"s"`
	Side string `json:"side"`
}

type x02Obs struct {
	Lrel    []string `json:"lrel"`
	Prel    []string `json:"prel"`
	Nsess   int      `json:"nsess"`
	Cs      []string `json:"cs"`
	Ss      []string `json:"ss"`
	Sess    []int    `json:"sess"`
	Tq      [][]int  `json:"tq"`
	Pord    []int    `json:"pord"`
	Gor     int      `json:"gor"`
	GotUp   [][]int  `json:"gotUp"`
	GotDn   [][]int  `json:"gotDn"`
	EofUp   []bool   `json:"eofUp"`
	EofDn   []bool   `json:"eofDn"`
	WroteUp []int    `json:"wroteUp"`
	WroteDn []int    `json:"wroteDn"`
	Quiet   bool     `json:"quiet"`
	OwedUp  []bool   `json:"owedUp"`
	OwedDn  []bool   `json:"owedDn"`
	Own     []bool   `json:"own"`
	Kill    []string `json:"kill"`
	Hurt    []bool   `json:"hurt"`
	Frdl    []int    `json:"frdl"`
	Rpc     []string `json:"rpc"`
	Cst     []string `json:"cst"`
	Lapp    []string `json:"lapp"`
	Papp    []string `json:"papp"`
}

type x02Step struct {
	Ev  x02Ev  `json:"ev"`
	Obs x02Obs `json:"obs"`
}

type x02Behaviour struct {
	Gen    string    `json:"gen"`
	Single bool      `json:"single"`
	STO    int       `json:"sto"`
	NConn  int       `json:"nconn"`
	Steps  []x02Step `json:"steps"`
	// Corrupt (binding demonstration): the expected observation of this step (1-based) is falsified
	Corrupt int `json:"corrupt,omitempty"`
}

type x02Addr string

func (a x02Addr) Network() string { return "vnet" }
func (a x02Addr) String() string  { return string(a) }

// one 4-byte unit per model unit: marker|direction, connection, number, check
func x02Unit(dir, conn, k int) []byte {
	return []byte{byte(0xA0 | dir), byte(conn), byte(k), byte(0x5A ^ dir ^ conn<<2 ^ k<<5)}
}

// x02Parse splits received bytes into units; ok=false if the bytes are not a sequence of well-formed units of dir
func x02Parse(b []byte, dir int) (conns, ks []int, ok bool) {
	if len(b)%4 != 0 {
		return nil, nil, false
	}
	for p := 0; p < len(b); p += 4 {
		c, k := int(b[p+1]), int(b[p+2])
		if b[p] != byte(0xA0|dir) || b[p+3] != byte(0x5A^dir^c<<2^k<<5) {
			return nil, nil, false
		}
		conns = append(conns, c)
		ks = append(ks, k)
	}
	return conns, ks, true
}

// the proxy side: serveSession's ProxyDialer. A dial makes a link that holds one write per direction; the proxy
// application's end is taken from the link by the harness (dial order = the model's pord)
type x02Dialer struct {
	n       *kit.VNet
	armFail atomic.Bool
	dials   atomic.Int32
}

func (d *x02Dialer) Dial(network, address string) (net.Conn, error) {
	d.dials.Add(1)
	if d.armFail.CompareAndSwap(true, false) {
		return nil, errors.New("scripted proxy dial failure")
	}
	l := d.n.NewLink(false, false)
	l.Bound = 1
	return l.End(0), nil
}

// the local side: RouteTCP's listener
type x02Listener struct {
	ch   chan net.Conn
	once sync.Once
}

func (l *x02Listener) Accept() (net.Conn, error) {
	c, ok := <-l.ch
	if !ok {
		return nil, errors.New("x02: listener closed")
	}
	return c, nil
}
func (l *x02Listener) Close() error   { l.once.Do(func() { close(l.ch) }); return nil }
func (l *x02Listener) Addr() net.Addr { return x02Addr("local") }

type x02World struct {
	b                  *x02Behaviour
	vn, localn, proxyn *kit.VNet
	srvL               *kit.VListener
	localL             *x02Listener
	proxyD             *x02Dialer
	sta                *State
	uid                [16]byte
	mu                 sync.Mutex
	sessions           []*mux.Session // client sessions in the order newSeshFunc returned them
	srvSess            []*mux.Session // server-side session objects, same index (nil until seen)
	newCalls           int
	lapp               []net.Conn // local application ends (index conn-1)
	lclosed            []bool     // the local application closed / reset its end
	lwrote             []int
	ldialTick          []int
	attached           []int // session generation (1-based) the connection got, by the harness's reckoning
	papp               map[int]net.Conn
	plink              map[int]*kit.VLink
	pclosed            map[int]bool
	pwrote             map[int]int
	nplinks            int
	gotUp, gotDn       map[int][]int
	eofUp, eofDn       map[int]bool
	gated              int
	base, baseB        int
	ticks              int
	tfailed            map[int]bool
	powner             map[int]int // proxy connection (by the model's index) -> local connection whose bytes it carries
}

// goroutines of the current synctest bubble (exact: runtime.NumGoroutine also counts the process's transient
// finalizer / cleanup goroutines)
func x02BubbleGoroutines() int {
	buf := make([]byte, 1<<20)
	n := 0
	for _, line := range strings.Split(string(buf[:runtime.Stack(buf, true)]), "\n") {
		if strings.HasPrefix(line, "goroutine ") && strings.Contains(line, "synctest bubble") {
			n++
		}
	}
	return n
}

// relay goroutines alive beyond the baseline (fast path by the process-wide count, exact count if that differs)
func (w *x02World) extraGoroutines(expect int) int {
	if g := runtime.NumGoroutine() - w.base; g == expect {
		return g
	}
	return x02BubbleGoroutines() - w.baseB
}

type x02Verdict struct {
	key, what string
	step      int
}

type x02Run struct {
	w        *x02World
	verdicts []x02Verdict
	diverged string
	table    []string
}

func (r *x02Run) violate(step int, key, format string, a ...any) {
	for _, v := range r.verdicts {
		if v.key == key {
			return
		}
	}
	r.verdicts = append(r.verdicts, x02Verdict{key, fmt.Sprintf(format, a...), step})
}

func (r *x02Run) drift(step int, format string, a ...any) {
	if r.diverged == "" {
		r.diverged = fmt.Sprintf("step %d: ", step) + fmt.Sprintf(format, a...)
	}
}

func x02Setup(b *x02Behaviour) *x02World {
	w := &x02World{b: b, vn: kit.NewVNet(), localn: kit.NewVNet(), proxyn: kit.NewVNet(),
		papp: map[int]net.Conn{}, plink: map[int]*kit.VLink{}, pclosed: map[int]bool{}, pwrote: map[int]int{},
		gotUp: map[int][]int{}, gotDn: map[int][]int{}, eofUp: map[int]bool{}, eofDn: map[int]bool{}, tfailed: map[int]bool{}, powner: map[int]int{}}
	pv, pub, _ := ecdh.GenerateKey(rand.Reader)
	uid := []byte("verif-x02-uid-16")
	copy(w.uid[:], uid)
	w.srvL, w.localL = w.vn.Listen(), &x02Listener{ch: make(chan net.Conn)}
	redirL := kit.NewVNet().Listen()
	w.proxyD = &x02Dialer{n: w.proxyn}
	w.sta = &State{
		ProxyBook: map[string]net.Addr{"x02": x02Addr("x02")}, ProxyDialer: w.proxyD,
		WorldState: common.WorldState{Rand: rand.Reader, Now: time.Now},
		BypassUID:  map[[16]byte]struct{}{w.uid: {}}, StaticPv: pv,
		RedirHost: &net.IPAddr{IP: net.IPv4(127, 0, 0, 1)}, RedirPort: "80", RedirDialer: redirL,
		UsedRandom: map[[32]byte]int64{},
		Panel: &userPanel{Manager: &usermanager.Voidmanager{}, activeUsers: make(map[[16]byte]*ActiveUser),
			usageUpdateQueue: make(map[[16]byte]*usagePair), uploadInterval: defaultUploadInterval},
	}
	go func() { // server.Serve without its retry sleeps: the listener's end ends the loop
		for {
			c, err := w.srvL.Accept()
			if err != nil {
				return
			}
			go dispatchConnection(c, w.sta)
		}
	}()
	numConn := 1
	if b.Single {
		numConn = 0
	}
	raw := client.RawConfig{ServerName: "www.example.com", ProxyMethod: "x02", EncryptionMethod: "aes-gcm", UID: uid,
		PublicKey: ecdh.Marshal(pub), NumConn: numConn, LocalHost: "127.0.0.1", LocalPort: "1984",
		RemoteHost: "127.0.0.1", RemotePort: "443", BrowserSig: "firefox", Transport: "direct", StreamTimeout: b.STO * int(x02Tick/time.Second)}
	local, remote, auth, err := raw.ProcessRawConfig(common.WorldState{Rand: rand.Reader, Now: time.Now})
	if err != nil {
		panic(err)
	}
	if remote.Singleplex != b.Single || remote.NumConn != 1 || local.Timeout != time.Duration(b.STO)*x02Tick {
		panic(fmt.Sprintf("x02: configuration not as intended: %+v %+v", remote, local))
	}
	newSesh := func() *mux.Session {
		w.mu.Lock()
		w.newCalls++
		id := uint32(w.newCalls)
		w.mu.Unlock()
		a := auth
		a.SessionId = 1000 + id
		s := client.MakeSession(remote, a, w.srvL)
		w.mu.Lock()
		for len(w.sessions) < int(id) {
			w.sessions = append(w.sessions, nil)
			w.srvSess = append(w.srvSess, nil)
		}
		w.sessions[id-1] = s
		w.mu.Unlock()
		return s
	}
	go client.RouteTCP(w.localL, local.Timeout, remote.Singleplex, newSesh)
	synctest.Wait()
	w.base = runtime.NumGoroutine()
	w.baseB = x02BubbleGoroutines()
	return w
}

// server-side view of session generation g (1-based): registered in the user's table? the object (remembered)
func (w *x02World) serverSession(g int) (registered bool, s *mux.Session) {
	w.sta.Panel.activeUsersM.RLock()
	u := w.sta.Panel.activeUsers[w.uid]
	w.sta.Panel.activeUsersM.RUnlock()
	if u != nil {
		u.sessionsM.RLock()
		ss := u.sessions[uint32(1000+g)]
		u.sessionsM.RUnlock()
		if ss != nil {
			registered = true
			w.mu.Lock()
			if g-1 < len(w.srvSess) {
				w.srvSess[g-1] = ss
			}
			w.mu.Unlock()
		}
	}
	w.mu.Lock()
	if g-1 < len(w.srvSess) {
		s = w.srvSess[g-1]
	}
	w.mu.Unlock()
	return
}

func (w *x02World) userActive() bool {
	w.sta.Panel.activeUsersM.RLock()
	defer w.sta.Panel.activeUsersM.RUnlock()
	return w.sta.Panel.activeUsers[w.uid] != nil
}

// settle: all goroutines at rest; tunnel connections made during the step become gated from now on
func (w *x02World) settle() {
	synctest.Wait()
	ls := w.vn.Links()
	for ; w.gated < len(ls); w.gated++ {
		ls[w.gated].Gated = true
	}
	// remember the server-side session objects while they are registered
	w.mu.Lock()
	n := len(w.sessions)
	w.mu.Unlock()
	for g := 1; g <= n; g++ {
		w.serverSession(g)
	}
}

func (w *x02World) localLink(i int) *kit.VLink {
	ls := w.localn.Links()
	if i-1 < len(ls) {
		return ls[i-1]
	}
	return nil
}

func (w *x02World) tunnel(s int) *kit.VLink {
	ls := w.vn.Links()
	if s-1 < len(ls) {
		return ls[s-1]
	}
	return nil
}

// non-blocking read of whatever has arrived: data, EOF, or nothing
func x02ReadNow(c net.Conn) (data []byte, eof bool, err error) {
	buf := make([]byte, 4096)
	c.SetReadDeadline(time.Now())
	n, e := c.Read(buf)
	c.SetReadDeadline(time.Time{})
	if n > 0 {
		return buf[:n], false, nil
	}
	if e == io.EOF {
		return nil, true, nil
	}
	if e != nil && errors.Is(e, os.ErrDeadlineExceeded) {
		return nil, false, nil
	}
	return nil, false, e
}

// take what an application end can read; judge its content by the tags alone
func (r *x02Run) appRead(step int, local bool, i int) (units int, eof bool) {
	w := r.w
	var c net.Conn
	dir := 1 // bytes travelling up are read by the proxy application
	if local {
		c, dir = w.lapp[i-1], 2
	} else {
		c = w.papp[i]
	}
	if c == nil {
		r.drift(step, "read on a connection that does not exist (conn %d local=%v)", i, local)
		return 0, false
	}
	data, eof, err := x02ReadNow(c)
	if err != nil {
		// a reset where the model has EOF or data: the link was failed (LocalReset), not closed
		r.drift(step, "application read failed: %v (conn %d local=%v)", err, i, local)
		if local {
			w.eofDn[i] = true
		} else {
			w.eofUp[i] = true
		}
		return 0, false
	}
	if eof {
		if local {
			w.eofDn[i] = true
		} else {
			w.eofUp[i] = true
		}
		return 0, true
	}
	conns, ks, ok := x02Parse(data, dir)
	who := "proxy"
	if local {
		who = "local"
	}
	if !ok {
		r.violate(step, "relay-bytes-wrong", "%s application of connection %d received %x: not a sequence of units written by its counterpart", who, i, data)
		return 0, false
	}
	got := w.gotUp[i]
	wrote := 0
	if i >= 1 && i <= len(w.lwrote) {
		wrote = w.lwrote[i-1]
	}
	if local {
		got, wrote = w.gotDn[i], w.pwrote[i]
	}
	for n := range conns {
		if !local {
			// a proxy connection belongs to the local connection whose bytes arrive on it first (a statement about the code
			// alone); that this is the connection the model expects there is a matter of drift
			if w.powner[i] == 0 {
				w.powner[i] = conns[n]
			}
			if conns[n] != w.powner[i] {
				r.violate(step, "relay-crosstalk", "a proxy connection that carries the bytes of local connection %d received unit %d of local connection %d", w.powner[i], ks[n], conns[n])
				return 0, false
			}
			if conns[n] != i {
				r.drift(step, "the model's proxy connection of %d carries the bytes of local connection %d", i, conns[n])
				return 0, false
			}
		} else if conns[n] != i {
			r.violate(step, "relay-crosstalk", "%s application of connection %d received unit %d of connection %d", who, i, ks[n], conns[n])
			return 0, false
		}
		if ks[n] != len(got)+1 || ks[n] > wrote {
			r.violate(step, "relay-bytes-wrong", "%s application of connection %d received unit %d after %d units (its counterpart has written %d): lost, duplicated or out of order", who, i, ks[n], len(got), wrote)
			return 0, false
		}
		got = append(got, ks[n])
	}
	if local {
		w.gotDn[i] = got
	} else {
		w.gotUp[i] = got
	}
	return len(conns), false
}

func (r *x02Run) exec(step int, ev x02Ev, prev *x02Obs) {
	w := r.w
	switch ev.A {
	case "LocalDial":
		w.mu.Lock()
		before := w.newCalls
		var prevSesh *mux.Session
		if len(w.sessions) > 0 {
			prevSesh = w.sessions[len(w.sessions)-1]
		}
		w.mu.Unlock()
		prevClosed := prevSesh != nil && prevSesh.IsClosed()
		ll := w.localn.NewLink(false, false)
		ll.Bound = 1
		var c net.Conn = ll.End(0)
		w.localL.ch <- ll.End(1)
		w.lapp = append(w.lapp, c)
		w.lclosed = append(w.lclosed, false)
		w.lwrote = append(w.lwrote, 0)
		w.ldialTick = append(w.ldialTick, w.ticks)
		w.settle()
		w.mu.Lock()
		made := w.newCalls - before
		total := len(w.sessions)
		w.mu.Unlock()
		w.attached = append(w.attached, total)
		// (e), (f): statements about the code alone
		if w.b.Single {
			if made == 0 {
				r.violate(step, "relay-singleplex-shared", "singleplex: local connection %d was accepted without a session of its own being made (%d sessions for %d connections)", ev.I, total, ev.I)
			} else if made > 1 {
				r.violate(step, "relay-session-surplus", "singleplex: %d sessions were made for local connection %d", made, ev.I)
			}
		} else {
			need := 0
			if prevSesh == nil || prevClosed {
				need = 1
			}
			if made < need && prevClosed {
				r.violate(step, "relay-closed-session-reused", "local connection %d was accepted while the current session (generation %d) is closed, and no new session was made for it", ev.I, total)
			} else if made > need {
				r.violate(step, "relay-session-surplus", "%d sessions were made when local connection %d was accepted although %d were needed (current session open: %v)", made, ev.I, need, prevSesh != nil && !prevClosed)
			}
		}
		return
	case "LocalWrite":
		k := w.lwrote[ev.I-1] + 1
		w.lwrote[ev.I-1] = k
		if _, err := w.lapp[ev.I-1].Write(x02Unit(1, ev.I, k)); err != nil {
			w.lwrote[ev.I-1] = k - 1
			r.table = append(r.table, fmt.Sprintf("step %d: local write failed: %v", step, err))
		}
	case "LocalRead":
		r.appRead(step, true, ev.I)
	case "LocalClose":
		w.lapp[ev.I-1].Close()
		w.lclosed[ev.I-1] = true
	case "LocalReset":
		w.localLink(ev.I).Fail()
		w.lclosed[ev.I-1] = true
	case "ProxyWrite":
		c := w.papp[ev.I]
		if c == nil {
			r.drift(step, "the model's proxy connection of %d does not exist", ev.I)
			return
		}
		k := w.pwrote[ev.I] + 1
		w.pwrote[ev.I] = k
		if _, err := c.Write(x02Unit(2, ev.I, k)); err != nil {
			w.pwrote[ev.I] = k - 1
			r.table = append(r.table, fmt.Sprintf("step %d: proxy write failed: %v", step, err))
		}
	case "ProxyRead":
		r.appRead(step, false, ev.I)
	case "ProxyClose":
		c := w.papp[ev.I]
		if c == nil {
			r.drift(step, "the model's proxy connection of %d does not exist", ev.I)
			return
		}
		c.Close()
		w.pclosed[ev.I] = true
	case "Deliver":
		l := w.tunnel(ev.S)
		from := 0 // the client dialled: end 0 writes towards the server
		if ev.Side == "c" {
			from = 1
		}
		if l == nil || !l.ReleaseChunk(from) {
			r.drift(step, "no frame in flight towards %q on session %d", ev.Side, ev.S)
			return
		}
	case "TunnelFail":
		if l := w.tunnel(ev.S); l != nil {
			l.Fail()
			w.tfailed[ev.S] = true
		} else {
			r.drift(step, "no tunnel connection for session %d", ev.S)
			return
		}
	case "ArmDialFail":
		w.proxyD.armFail.Store(true)
	case "Advance":
		time.Sleep(x02Tick)
		w.ticks++
	default:
		r.drift(step, "unknown event %q", ev.A)
		return
	}
	w.settle()
}

func x02StateName(open bool) string {
	if open {
		return "open"
	}
	return "closed"
}

// compare what can be seen with the model's observation m; code-only predicates give verdicts, the rest is drift
func (r *x02Run) observe(step int, ev x02Ev, m *x02Obs) {
	w := r.w
	b := w.b
	// proxy connections dialled so far, in dial order = the model's pord
	pls := w.proxyn.Links()
	for ; w.nplinks < len(pls); w.nplinks++ {
		if w.nplinks >= len(m.Pord) {
			r.drift(step, "serveSession dialled proxy connection #%d, the model has %d", w.nplinks+1, len(m.Pord))
			return
		}
		i := m.Pord[w.nplinks]
		w.plink[i] = pls[w.nplinks]
		w.papp[i] = pls[w.nplinks].End(1)
	}
	if len(m.Pord) > w.nplinks {
		r.drift(step, "the model has proxy connection #%d (of local connection %d), serveSession has not dialled it", w.nplinks+1, m.Pord[w.nplinks])
	}
	w.mu.Lock()
	nsess := len(w.sessions)
	sessions := append([]*mux.Session(nil), w.sessions...)
	w.mu.Unlock()
	tunnelsIdle := true
	for s := 1; s <= nsess; s++ {
		if l := w.tunnel(s); l != nil && !w.tfailed[s] && (l.Pending(0) > 0 || l.Pending(1) > 0) && !(sessions[s-1] != nil && sessions[s-1].IsClosed()) {
			tunnelsIdle = false
		}
	}
	for i := 1; i <= b.NConn; i++ {
		// local connection: relay end
		lrel := "none"
		if l := w.localLink(i); l != nil && i <= len(w.lapp) {
			lrel = x02StateName(!l.ClosedBy(1))
		}
		prel := "none"
		if l := w.plink[i]; l != nil {
			prel = x02StateName(!l.ClosedBy(0))
		}
		// (c) closed without a cause of its own
		if (lrel == "closed" && m.Lrel[i-1] != "closed" || prel == "closed" && m.Prel[i-1] != "closed") && !m.Own[i-1] {
			r.violate(step, "relay-neighbour-closed", "after %s: connection %d was closed by the relay (local end %s, proxy end %s) although neither of its applications has closed, it has not timed out and nothing has happened to its session", x02EvName(ev), i, lrel, prel)
		}
		if m.Quiet && tunnelsIdle {
			r.orphans(step, "after "+x02EvName(ev)+", at rest", i, lrel, prel, sessions)
		}
		// (a) completeness where it is owed
		if m.Quiet && tunnelsIdle {
			if m.OwedUp[i-1] && i <= len(w.lwrote) && len(w.gotUp[i]) < w.lwrote[i-1] {
				r.violate(step, "relay-bytes-missing", "after %s, at rest: the local application of connection %d wrote %d units and closed, its session was not disturbed and the proxy application is still reading, but only %d units arrived", x02EvName(ev), i, w.lwrote[i-1], len(w.gotUp[i]))
			}
			if m.OwedDn[i-1] && len(w.gotDn[i]) < w.pwrote[i] {
				r.violate(step, "relay-bytes-missing", "after %s, at rest: the proxy application of connection %d wrote %d units and closed, its session was not disturbed and the local application is still reading, but only %d units arrived", x02EvName(ev), i, w.pwrote[i], len(w.gotDn[i]))
			}
		}
		// (f) singleplex: a finished connection that had a stream has closed its session
		if b.Single && m.Quiet && tunnelsIdle && lrel == "closed" && m.Cst[i-1] != "none" && i <= len(w.attached) && w.attached[i-1] >= 1 && w.attached[i-1] <= nsess {
			if cs := sessions[w.attached[i-1]-1]; cs != nil && !cs.IsClosed() {
				r.violate(step, "relay-orphan-conn", "after %s, at rest: singleplex connection %d is finished but its session %d is still open", x02EvName(ev), i, w.attached[i-1])
			}
		}
		// the rest: drift
		if lrel != m.Lrel[i-1] {
			r.drift(step, "local connection %d relay end: code %s, model %s", i, lrel, m.Lrel[i-1])
		}
		if prel != m.Prel[i-1] {
			r.drift(step, "proxy connection of %d relay end: code %s, model %s", i, prel, m.Prel[i-1])
		}
		if fmt.Sprint(w.gotUp[i]) != fmt.Sprint(x02Ks(m.GotUp[i-1])) || w.eofUp[i] != m.EofUp[i-1] {
			r.drift(step, "proxy application of %d has received %v eof=%v, model %v eof=%v", i, w.gotUp[i], w.eofUp[i], x02Ks(m.GotUp[i-1]), m.EofUp[i-1])
		}
		if fmt.Sprint(w.gotDn[i]) != fmt.Sprint(x02Ks(m.GotDn[i-1])) || w.eofDn[i] != m.EofDn[i-1] {
			r.drift(step, "local application of %d has received %v eof=%v, model %v eof=%v", i, w.gotDn[i], w.eofDn[i], x02Ks(m.GotDn[i-1]), m.EofDn[i-1])
		}
		lw := 0
		if i <= len(w.lwrote) {
			lw = w.lwrote[i-1]
		}
		if lw != m.WroteUp[i-1] || w.pwrote[i] != m.WroteDn[i-1] {
			r.drift(step, "writes of connection %d: code up %d down %d, model up %d down %d (a write was refused)", i, lw, w.pwrote[i], m.WroteUp[i-1], m.WroteDn[i-1])
		}
	}
	if nsess != m.Nsess {
		r.drift(step, "sessions made: code %d, model %d", nsess, m.Nsess)
	}
	for s := 1; s <= nsess && s <= len(m.Cs); s++ {
		if sessions[s-1] == nil {
			r.drift(step, "session %d is still being made", s)
			continue
		}
		cs := x02StateName(!sessions[s-1].IsClosed())
		reg, so := w.serverSession(s)
		ss := "closed"
		if so != nil && !so.IsClosed() {
			ss = "open"
		}
		if !b.Single && (cs == "closed" && m.Cs[s-1] == "open" || ss == "closed" && m.Ss[s-1] == "open") && m.Kill[s-1] == "" {
			r.violate(step, "relay-neighbour-closed", "after %s: the shared session %d was closed (client side %s, server side %s) although its connection has not failed, it has not been idle for 30 s and no proxy dial has failed", x02EvName(ev), s, cs, ss)
		}
		if cs != m.Cs[s-1] {
			r.drift(step, "client session %d: code %s, model %s", s, cs, m.Cs[s-1])
		}
		if ss != m.Ss[s-1] {
			r.drift(step, "server session %d: code %s, model %s", s, ss, m.Ss[s-1])
		}
		if reg != (m.Ss[s-1] == "open") {
			r.drift(step, "server session %d registered with its user: code %v, model %v", s, reg, m.Ss[s-1] == "open")
		}
		if l := w.tunnel(s); l != nil && !w.tfailed[s] {
			if m.Ss[s-1] == "open" && l.Pending(0) != m.Tq[s-1][0] {
				r.drift(step, "frames in flight towards the server on session %d: code %d, model %d", s, l.Pending(0), m.Tq[s-1][0])
			}
			if m.Cs[s-1] == "open" && l.Pending(1) != m.Tq[s-1][1] {
				r.drift(step, "frames in flight towards the client on session %d: code %d, model %d", s, l.Pending(1), m.Tq[s-1][1])
			}
		}
	}
	anyOpen := false
	for _, x := range m.Ss {
		anyOpen = anyOpen || x == "open"
	}
	if w.userActive() != anyOpen {
		r.drift(step, "user record active: code %v, model %v", w.userActive(), anyOpen)
	}
	if g := w.extraGoroutines(m.Gor-1) + 1; g != m.Gor {
		r.drift(step, "goroutines of the relay: code %d, model %d", g, m.Gor)
		if kit.Env("X02_DEBUG", "") != "" {
			buf := make([]byte, 1<<20)
			fmt.Fprintf(os.Stderr, "X02 goroutine dump at step %d:\n%s\n", step, buf[:runtime.Stack(buf, true)])
		}
	}
}

// (d), statements about the code alone, due whenever nothing is in flight and no goroutine can move:
// nothing of a pair whose application has closed remains; nothing hangs on a dead session (a connection still
// waiting for its first bytes is bounded by streamTimeout)
func (r *x02Run) orphans(step int, when string, i int, lrel, prel string, sessions []*mux.Session) {
	w := r.w
	lappClosed := i <= len(w.lclosed) && w.lclosed[i-1]
	if (lappClosed || w.pclosed[i]) && (lrel == "open" || prel == "open") {
		r.violate(step, "relay-orphan-conn", "%s: an application of connection %d has closed (local %v, proxy %v) but the relay still holds its local end %s and its proxy end %s", when, i, lappClosed, w.pclosed[i], lrel, prel)
	}
	if i <= len(w.attached) && w.attached[i-1] >= 1 && w.attached[i-1] <= len(sessions) {
		if cs := sessions[w.attached[i-1]-1]; cs != nil && cs.IsClosed() && lrel == "open" {
			waiting := w.lwrote[i-1] == 0 && w.ticks-w.ldialTick[i-1] < w.b.STO
			if !waiting {
				r.violate(step, "relay-orphan-conn", "%s: session %d is closed but local connection %d, which belongs to it, is still held open by the relay", when, w.attached[i-1], i)
			}
		}
	}
}

// after the code has left the model's path: bring it to rest without the model (every frame delivered, applications
// read what has arrived, nothing is closed) and judge by the statements that need no model
func (r *x02Run) restAfterDivergence(step int) {
	w := r.w
	for round := 0; round < 8; round++ {
		for _, l := range w.vn.Links() {
			l.ReleaseAll()
		}
		synctest.Wait()
		for i := range w.lapp {
			if !w.lclosed[i] && !w.eofDn[i+1] {
				r.appRead(step, true, i+1) // content is judged by its tags
			}
		}
		// proxy connections the model does not know are read as well (by dial order they belong to nobody)
		for n, l := range w.proxyn.Links() {
			owner := 0
			for i, pl := range w.plink {
				if pl == l {
					owner = i
				}
			}
			if owner == 0 {
				owner = 1000 + n
				w.plink[owner], w.papp[owner] = l, l.End(1)
			}
			if !w.pclosed[owner] && !w.eofUp[owner] {
				r.appRead(step, false, owner)
			}
		}
		synctest.Wait()
	}
	w.mu.Lock()
	sessions := append([]*mux.Session(nil), w.sessions...)
	w.mu.Unlock()
	pls := w.proxyn.Links()
	for i := 1; i <= len(w.lapp); i++ {
		lrel := x02StateName(!w.localLink(i).ClosedBy(1))
		prel := "none"
		if l := w.plink[i]; l != nil {
			prel = x02StateName(!l.ClosedBy(0))
		}
		r.orphans(step, "off the model's path, everything delivered and read", i, lrel, prel, sessions)
	}
	_ = pls
}

func x02Ks(us []int) []int {
	out := []int{}
	for _, u := range us {
		out = append(out, u%10)
	}
	return out
}

func x02EvName(ev x02Ev) string {
	switch ev.A {
	case "Deliver":
		return fmt.Sprintf("Deliver(session %d, towards %s)", ev.S, ev.Side)
	case "TunnelFail":
		return fmt.Sprintf("TunnelFail(session %d)", ev.S)
	case "ArmDialFail", "Advance":
		return ev.A
	}
	return fmt.Sprintf("%s(%d)", ev.A, ev.I)
}

// epilogue: everything is closed and given time; then nothing of the relay may remain (code-only statement)
func (r *x02Run) epilogue() {
	w := r.w
	for _, l := range w.vn.Links() {
		l.ReleaseAll()
	}
	synctest.Wait()
	for i, c := range w.lapp {
		if !w.lclosed[i] {
			c.Close()
		}
	}
	for i, c := range w.papp {
		if !w.pclosed[i] {
			c.Close()
		}
	}
	synctest.Wait()
	for _, l := range w.vn.Links() {
		l.ReleaseAll()
	}
	synctest.Wait()
	for t := 0; t < w.b.STO+3; t++ {
		time.Sleep(x02Tick)
		synctest.Wait()
	}
	step := len(w.b.Steps) + 1
	var left []string
	for i, l := range w.localn.Links() {
		if !l.ClosedBy(1) {
			left = append(left, fmt.Sprintf("local connection %d", i+1))
		}
	}
	for i, l := range w.proxyn.Links() {
		if !l.ClosedBy(0) {
			left = append(left, fmt.Sprintf("proxy connection #%d", i+1))
		}
	}
	w.mu.Lock()
	for g, s := range w.sessions {
		if s != nil && !s.IsClosed() {
			left = append(left, fmt.Sprintf("client session %d", g+1))
		}
	}
	for g, s := range w.srvSess {
		if s != nil && !s.IsClosed() {
			left = append(left, fmt.Sprintf("server session %d", g+1))
		}
	}
	w.mu.Unlock()
	for i, l := range w.vn.Links() {
		if !l.Failed() && (!l.ClosedBy(0) || !l.ClosedBy(1)) {
			left = append(left, fmt.Sprintf("tunnel connection %d (client end closed %v, server end closed %v)", i+1, l.ClosedBy(0), l.ClosedBy(1)))
		}
	}
	if w.userActive() {
		left = append(left, "the user's record in the panel")
	}
	if g := x02BubbleGoroutines() - w.baseB; g != 0 {
		left = append(left, fmt.Sprintf("%d goroutines", g))
	}
	if len(left) > 0 {
		r.violate(step, "relay-orphan-conn", "every application has closed, every frame was delivered and %v of virtual time have passed, but these remain: %s", time.Duration(w.b.STO+3)*x02Tick, strings.Join(left, ", "))
	}
}

// teardown: whatever happened, let every goroutine of the bubble end
func (w *x02World) teardown() bool {
	w.localL.Close()
	w.srvL.Close()
	for _, n := range []*kit.VNet{w.vn, w.localn, w.proxyn} {
		for _, l := range n.Links() {
			l.ReleaseAll()
			l.Fail()
		}
	}
	w.mu.Lock()
	ss := append(append([]*mux.Session(nil), w.sessions...), w.srvSess...)
	w.mu.Unlock()
	for _, s := range ss {
		if s != nil {
			s.Close()
		}
	}
	synctest.Wait()
	for t := 0; t < w.b.STO+3; t++ {
		time.Sleep(x02Tick)
		synctest.Wait()
	}
	return x02BubbleGoroutines()-w.baseB == -2 // RouteTCP's loop and the server's accept loop have ended
}

func x02RunBehaviour(b *x02Behaviour) (r *x02Run, clean bool) {
	w := x02Setup(b)
	r = &x02Run{w: w}
	var prev *x02Obs
	for n := range b.Steps {
		st := &b.Steps[n]
		r.exec(n+1, st.Ev, prev)
		if r.diverged == "" {
			m := st.Obs
			if b.Corrupt == n+1 {
				m.Lrel = append([]string(nil), m.Lrel...)
				m.Lrel[0] = map[string]string{"none": "open", "open": "closed", "closed": "open"}[m.Lrel[0]]
			}
			r.observe(n+1, st.Ev, &m)
		}
		r.table = append(r.table, fmt.Sprintf("%d %s", n+1, x02EvName(st.Ev)))
		prev = &st.Obs
		if r.diverged != "" {
			r.restAfterDivergence(n + 1)
			break
		}
	}
	r.epilogue()
	clean = w.teardown()
	return r, clean
}

// Known finding D23 (Relay.tla: SessionChosenAtAccept), one deterministic scenario on the virtual clock, run for every
// seed in both tiers: StreamTimeout 300 s, a local connection is accepted, stays silent for 31 s and then sends its
// first bytes. They must reach the proxy side. (RouteTCP chose the session when it accepted the connection; that
// session, without any stream, has closed itself after 30 s: OpenStream fails, the connection is dropped.)
const x02FirstBytesKey = "relay-first-bytes-lost:session-idled-out-before-first-read"

func x02FirstBytes(t *testing.T, res *kit.Result) {
	arrived, lrel, made, clean := false, "", 0, true
	synctest.Test(t, func(t *testing.T) {
		b := &x02Behaviour{Gen: "first-bytes", STO: 20, NConn: 1}
		w := x02Setup(b)
		r := &x02Run{w: w}
		r.exec(1, x02Ev{A: "LocalDial", I: 1}, nil)
		time.Sleep(31 * time.Second)
		w.settle()
		r.exec(2, x02Ev{A: "LocalWrite", I: 1}, nil)
		for round := 0; round < 4; round++ {
			for _, l := range w.vn.Links() {
				l.ReleaseAll()
			}
			synctest.Wait()
		}
		if pls := w.proxyn.Links(); len(pls) >= 1 {
			if data, _, err := x02ReadNow(pls[0].End(1)); err == nil {
				conns, ks, ok := x02Parse(data, 1)
				arrived = ok && len(conns) == 1 && conns[0] == 1 && ks[0] == 1
			}
		}
		lrel = x02StateName(!w.localLink(1).ClosedBy(1))
		w.mu.Lock()
		made = w.newCalls
		w.mu.Unlock()
		w.lapp[0].Close()
		for _, l := range w.proxyn.Links() {
			l.End(1).Close()
		}
		synctest.Wait()
		clean = w.teardown()
		if !clean {
			res.Note("first-bytes scenario: goroutines remained after the forced teardown")
			res.Save(false)
			os.Exit(4)
		}
	})
	res.Count("scenario:first-bytes-after-31s", true)
	res.Stat("gen:first-bytes", 1)
	if !arrived {
		res.Violate(x02FirstBytesKey, fmt.Sprintf("StreamTimeout 300 s; a local connection was accepted, stayed silent for 31 s and then sent its first bytes: they did not reach the proxy side "+
			"(relay end of the local connection now %s, sessions made %d): the session chosen at accept time had idled out, OpenStream failed", lrel, made),
			map[string]any{"scenario": "first-bytes-after-31s", "stream_timeout_s": 300, "silent_s": 31})
	}
}

func TestVerifX02Replay(t *testing.T) {
	log.SetOutput(io.Discard)
	log.SetLevel(log.PanicLevel)
	log.StandardLogger().ExitFunc = func(int) { runtime.Goexit() } // RouteTCP calls log.Fatal when its listener closes
	res := kit.NewResult()
	defer func() { res.Save(true) }()
	in := kit.Env("VERIF_IN", "")
	for n := 0; n < kit.EnvInt("X02_WAIT_S", 7200)*10; n++ { // the generator may still be running: wait for the input
		if _, err := os.Stat(in + ".ready"); err == nil {
			break
		}
		time.Sleep(100 * time.Millisecond)
	}
	var progress atomic.Int64
	go func() { // real-time watchdog (outside any bubble)
		last, idle := int64(-1), 0
		for {
			time.Sleep(time.Second)
			if p := progress.Load(); p != last {
				last, idle = p, 0
			} else if idle++; idle > 120 {
				res.Note("watchdog: no progress for 120 s")
				res.Save(false)
				os.Exit(3)
			}
		}
	}()
	if kit.Env("X02_FIRSTBYTES", "1") != "0" {
		x02FirstBytes(t, res)
	}
	idx := 0
	err := kit.ReadLines(in, func(line []byte) error {
		var b x02Behaviour
		if err := json.Unmarshal(line, &b); err != nil {
			return err
		}
		idx++
		progress.Add(1)
		res.SetRunning(map[string]any{"behaviour": json.RawMessage(append([]byte{}, line...))}, idx%50 == 1)
		var r *x02Run
		clean := true
		synctest.Test(t, func(t *testing.T) {
			r, clean = x02RunBehaviour(&b)
			if !clean {
				// goroutines that not even the forced teardown ends: this bubble can never finish. Report and stop.
				for _, v := range r.verdicts {
					res.Violate(v.key, v.what, map[string]any{"behaviour": b, "at_step": v.step, "executed": r.table, "diverged": r.diverged})
				}
				res.Note("behaviour %d: goroutines remained after the forced teardown; the run stops here", idx)
				res.Stat("unclean_teardown", 1)
				res.Save(false)
				os.Exit(4)
			}
		})
		var sig []string
		nontrivial := false
		for _, s := range b.Steps {
			sig = append(sig, x02EvName(s.Ev))
			if s.Ev.A == "Deliver" || s.Ev.A == "LocalClose" || s.Ev.A == "ProxyClose" || s.Ev.A == "TunnelFail" {
				nontrivial = true
			}
		}
		res.Count(fmt.Sprintf("%v/%d/%s", b.Single, b.STO, strings.Join(sig, " ")), nontrivial)
		res.Stat("steps", int64(len(b.Steps)))
		res.Stat("gen:"+b.Gen, 1)
		for _, v := range r.verdicts {
			res.Violate(v.key, v.what, map[string]any{"behaviour": b, "at_step": v.step, "executed": r.table, "diverged": r.diverged})
		}
		if r.diverged != "" {
			res.Stat("diverged", 1)
			res.Stat("diverged:"+b.Gen, 1)
			res.Note("behaviour %d (%s): %s | %s", idx, b.Gen, r.diverged, strings.Join(sig, " "))
			if len(r.verdicts) == 0 {
				res.Sample(map[string]any{"diverged": r.diverged, "behaviour": b}, 2)
			}
		}
		if idx%97 == 1 && r.diverged == "" {
			res.Sample(map[string]any{"steps": sig, "single": b.Single, "sto": b.STO}, 3)
		}
		return nil
	})
	if err != nil {
		t.Fatal(err)
	}
}
