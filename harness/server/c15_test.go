package server

// C15 (B2) - TestVerifC15Concurrent: N in {2, 8, 32} connections are admitted simultaneously (real parallelism,
// no gates) on a real userPanel through the admission sequence of dispatcher.go:231-252, for one or several
// (UID, session id) pairs, with a cap that the arrivals would exceed if check-then-create were not atomic.
// Every user keeps one long-lived session, so no termination interferes (that race is C17's).
// Decided: connections presenting the same (UID, session id) in one wave were given one session and one key;
// different pairs never share a session or key; live sessions of a user <= SessionsCap.

import (
	"fmt"
	"sync"
	"testing"

	mux "github.com/cbeuw/Cloak/internal/multiplex"
	kit "github.com/cbeuw/Cloak/internal/verifkit"
)

func TestVerifC15Concurrent(t *testing.T) {
	panelInstallHook()
	env := panelNewEnv(t)
	defer env.close()
	res := kit.NewResult()
	defer func() { res.Save(true) }()
	rng := kit.NewRng(kit.Seed()*31 + 5)
	rounds := kit.EnvInt("VERIF_C15_ROUNDS", 12)
	for r := 0; r < rounds; r++ {
		for _, n := range []int{2, 8, 32} {
			capv := 2 + rng.Intn(2) // anchor + 1 or 2 more
			cfg := panelCfg{Name: "c15conc", NU: 2, Caps: []int{capv, capv}, Creds: []int{9, 9}, Init: []int{10, 20}, Mode: "trace"}
			w, err := panelNewWorld(env, cfg, 0)
			if err != nil {
				t.Fatal(err)
			}
			w.trace = func(p *panelProc, name string, args []uint64) {}
			panelCur.Store(w)
			nsid := 1 + rng.Intn(3) // distinct session ids in the wave; with nsid > cap-1 some must be refused
			type answer struct {
				u, sid int
				res    string
				sesh   *mux.Session
				key    [32]byte
			}
			ans := make([]answer, n)
			start := make(chan struct{})
			var wg sync.WaitGroup
			for i := 0; i < n; i++ {
				u, sid := 1+rng.Intn(2), 1+rng.Intn(nsid)
				ans[i].u, ans[i].sid = u, sid
				p := &panelProc{id: i + 1, op: panelOp{K: "conn", U: u, S: sid}}
				wg.Add(1)
				go func(i int) {
					defer wg.Done()
					<-start
					r, _, sesh := panelConnFree(w, p, 1000+i)
					ans[i].res = r
					if s, ok := sesh.(*mux.Session); ok && s != nil {
						ans[i].sesh, ans[i].key = s, s.GetSessionKey()
					}
				}(i)
			}
			close(start)
			wg.Wait()
			sig := fmt.Sprintf("n=%d cap=%d nsid=%d", n, capv, nsid)
			byPair := map[[2]int]*mux.Session{}
			live := map[int]map[*mux.Session]bool{1: {}, 2: {}}
			for _, o := range w.objs {
				if !o.sesh.IsClosed() {
					live[o.u][o.sesh] = true
				}
			}
			for i, a := range ans {
				if a.sesh == nil {
					continue
				}
				k := [2]int{a.u, a.sid}
				if first, ok := byPair[k]; ok && first != a.sesh {
					res.Violate("onesession:concurrent-arrivals", fmt.Sprintf(
						"%s: two of the simultaneous connections for user %d session id %d were attached to different sessions (keys differ: %v)",
						sig, a.u, a.sid, first.GetSessionKey() != a.key), map[string]any{"wave": sig, "answers": fmt.Sprint(ans[i].res)})
				}
				byPair[k] = a.sesh
			}
			seenS := map[*mux.Session][2]int{}
			seenK := map[[32]byte][2]int{}
			for k, s := range byPair {
				if o, ok := seenS[s]; ok && o != k {
					res.Violate("onesession:shared", fmt.Sprintf("%s: pairs %v and %v share a session", sig, o, k), nil)
				}
				if o, ok := seenK[s.GetSessionKey()]; ok && o != k {
					res.Violate("onesession:shared", fmt.Sprintf("%s: pairs %v and %v share a key", sig, o, k), nil)
				}
				seenS[s], seenK[s.GetSessionKey()] = k, k
			}
			for u := 1; u <= 2; u++ {
				if len(live[u]) > capv {
					res.Violate("cap:exceeded", fmt.Sprintf("%s: user %d has %d live sessions, SessionsCap is %d", sig, u, len(live[u]), capv), nil)
				}
			}
			res.Count(sig, n >= 2)
			if r == 0 {
				res.Sample(map[string]any{"wave": sig, "sessions_created": len(w.objs) - 2}, 3)
			}
			w.shutdown()
			panelCur.Store(nil)
		}
	}
}
