package server

// C09 - unauthenticated peers see only the redirect target, byte for byte.
//
// TestVerifC09Replay   (B1) every behaviour exported by TLC from spec/DispatchGen.tla (abstract stream shape x
//                      segmentation x deadline x peer close x target script x target reachability, with the
//                      observation the specification expects at every quiescent point) is run against the real
//                      dispatchConnection inside a testing/synctest bubble: the peer is one end of an in-memory
//                      connection (kit.VNet), the redirect target is reached through State.RedirDialer and follows
//                      the script.  Abstract positions are mapped to concrete ones anchor by anchor (c09Map); each
//                      behaviour is run with several concrete streams (random bytes, genuine uTLS hellos built by
//                      the real client, mutated / replayed / mis-keyed Cloak hellos, HTTP requests ...).
// TestVerifC09Explore  the concrete families of the statement that no abstract case enumerates: all 256 first bytes,
//                      random streams, every truncation and byte mutation of Cloak hellos, declared lengths up to
//                      65535, HTTP corner cases, every cut position of short streams, random multi-cuts of long ones.
//
// Oracle (decides, evaluated at every quiescent point, from the statement only):
//   relay:target-not-prefix   the target received something that is not a prefix of what the peer sent
//   relay:peer-foreign-byte   the peer received a byte the target did not send (a server-made byte)
//   relay:target-missing      the peer sent a complete first record / request / something unrecognisable in time,
//                             is not an authenticated Cloak client, the target is reachable, nobody hung up - and
//                             the target has not received everything the peer sent (includes: closed or left
//                             hanging instead of redirected)
//   relay:peer-missing        same situation, the peer has not received everything the target replied
//   wedged                    the handler is still running at the end of the scenario / the bubble never settles
//   panic                     the process died (recorded by the python side from the persisted running scenario)
// The observation the model expects (outcome class, bytes forwarded, connection closed or not) is compared as well;
// a difference is DRIFT (model and code disagree without the statement being violated): counted, never a verdict.

import (
	"bytes"
	"crypto/rand"
	"encoding/base64"
	"encoding/hex"
	"encoding/json"
	"errors"
	"fmt"
	"io"
	"net"
	"os"
	"runtime"
	"strings"
	"sync"
	"sync/atomic"
	"testing"
	"testing/synctest"
	"time"

	"github.com/cbeuw/Cloak/internal/client"
	"github.com/cbeuw/Cloak/internal/common"
	"github.com/cbeuw/Cloak/internal/ecdh"
	"github.com/cbeuw/Cloak/internal/server/usermanager"
	kit "github.com/cbeuw/Cloak/internal/verifkit"
	log "github.com/sirupsen/logrus"
)

// --------------------------------------------------------------------------------- model behaviours

type c09Case struct {
	C struct {
		Kind    string `json:"kind"`
		Dlen    int    `json:"dlen"`
		Bl      int    `json:"bl"`
		Total   int    `json:"total"`
		Content string `json:"content"`
	} `json:"c"`
	Script string `json:"script"`
	Down   string `json:"down"`
	Port   struct {
		Cfg   string `json:"cfg"`   // fixed: RedirAddr names a port; none: it does not
		Lp    string `json:"lp"`    // listener (A / B) this connection arrived on
		First string `json:"first"` // listener of an earlier redirected connection of the same State (none / A / B)
	} `json:"port"`
}

// the model's ports: listeners A and B of one State, P = the port named in RedirAddr
var c09Ports = map[string]int{"A": 443, "B": 80, "P": 8080}

type c09Obs struct {
	Dial     string `json:"dial"`
	Outcome  string `json:"outcome"`
	Phase    string `json:"phase"`
	Consumed int    `json:"consumed"`
	Nt       int    `json:"nt"`
	Np       int    `json:"np"`
	Tout     int    `json:"tout"`
	PeerOpen bool   `json:"peerOpen"`
	TgtOpen  bool   `json:"tgtOpen"`
	Own      int    `json:"own"`
}

type c09MStep struct {
	A   string `json:"a"`
	N   int    `json:"n"`
	Pre c09Obs `json:"pre"`
}

type c09Behaviour struct {
	Case  c09Case    `json:"case"`
	Steps []c09MStep `json:"steps"`
	Fin   c09Obs     `json:"fin"`
	Dev   []string   `json:"dev"`
	Src   string     `json:"src"`
	K     struct {   // the constants the behaviour was generated with
		Buf, Hdr, Small, Big, LS, Trail, Banner int
	} `json:"k"`
}

// ----------------------------------------------------------------------------------------- scenarios

type c09Step struct {
	A    string `json:"a"`    // Deliver | Timeout | PeerClose
	Upto int    `json:"upto"` // Deliver: the peer has sent Stream[:Upto] after this step
}

// c09Scenario is one concrete run.  It is self-contained (replayable from its JSON form).
type c09Scenario struct {
	Label     string    `json:"label"`
	StreamHex string    `json:"stream_hex"`
	Steps     []c09Step `json:"steps"`
	Script    string    `json:"script"` // silent | banner | echo | close
	Down      string    `json:"down"`   // up | refuse | closeatonce
	// what the harness knows about the first packet (from how it was built)
	Class string `json:"class"` // garbage, badhello, badkey, replay, window, encmethod, method, uid, ok, nosession, none, short, bogus ...
	// Present the first packet once to the same server state before the scenario (class replay)
	PresentFirst bool `json:"present_first"`
	// redirect-port configuration: RedirAddr without a port (the target port is then the port the peer connected to,
	// dispatcher.go goWeb: conn.LocalAddr), the bind port this connection arrives on (0 = 443), and the bind ports of
	// earlier unauthenticated connections handled by the same State, in order
	NoRedirPort bool  `json:"redir_addr_without_port"`
	LocalPort   int   `json:"local_port"`
	Priors      []int `json:"earlier_connections_on_ports"`
	ClockSkewS  int   `json:"clock_skew_s"` // informational (the skew is sealed inside the hello)
	stream      []byte
	exp         []*c09Obs // model expectation after each step (nil for explored scenarios)
	m           *c09Map
	banner      int
}

func (sc *c09Scenario) bytes() []byte {
	if sc.stream == nil {
		sc.stream, _ = hex.DecodeString(sc.StreamHex)
	}
	return sc.stream
}

// authenticated: a valid fresh handshake of a known user (the statement is about everybody else)
func c09Authenticated(class string) bool { return class == "ok" || class == "nosession" }

// ----------------------------------------------------------------------------- independent reference

var c09Buf = firstPacketSize // the buffer size of the code under test (cross-checked with the value python parsed)

// c09Ref: has the peer sent "a complete first record or request, or something unrecognisable", and where does
// that first packet end.  Written from the statement and Appendix E 14, not from readFirstPacket.
func c09Ref(b []byte) (complete bool, stop int, kind string) {
	if len(b) == 0 {
		return false, 0, ""
	}
	switch b[0] {
	case 0x16:
		if len(b) < 5 {
			return false, 0, "tls"
		}
		d := int(b[3])<<8 | int(b[4])
		if d+5 > c09Buf {
			return true, 5, "tls-oversize"
		}
		if len(b) >= 5+d {
			return true, 5 + d, "tls"
		}
		return false, 0, "tls"
	case 0x47:
		start := 1
		for i := 1; i < len(b) && i < c09Buf; i++ {
			if b[i] == '\n' {
				if i-start == 1 && b[start] == '\r' {
					return true, i + 1, "http"
				}
				start = i + 1
			}
		}
		if len(b) >= c09Buf {
			return true, c09Buf, "http-overflow"
		}
		return false, 0, "http"
	}
	return true, 1, "other"
}

// ------------------------------------------------------------------------------------ position map

// c09Map maps abstract stream positions to concrete ones: anchors to anchors, interior points to interior points.
type c09Map struct{ a, c []int }

func (m *c09Map) add(a, c int) {
	if n := len(m.a); n > 0 && (a <= m.a[n-1] || c-m.c[n-1] < a-m.a[n-1]) {
		if a == m.a[n-1] && c == m.c[n-1] {
			return
		}
		panic(fmt.Sprintf("c09Map: anchor (%d,%d) after (%d,%d)", a, c, m.a[n-1], m.c[n-1]))
	}
	m.a, m.c = append(m.a, a), append(m.c, c)
}

func (m *c09Map) f(x int) int {
	for i := 0; i < len(m.a); i++ {
		if x == m.a[i] {
			return m.c[i]
		}
		if x < m.a[i] {
			if i == 0 {
				return x
			}
			da, dc := m.a[i]-m.a[i-1], m.c[i]-m.c[i-1]
			y := (x - m.a[i-1]) * dc / da
			if y < 1 {
				y = 1
			}
			if y > dc-1 {
				y = dc - 1
			}
			return m.c[i-1] + y
		}
	}
	return m.c[len(m.c)-1] + (x - m.a[len(m.a)-1])
}

// ------------------------------------------------------------------------------------- the factory

var c09UIDok = []byte("verif-c09-bypass")      // bypass user: authorised
var c09UIDnosesh = []byte("verif-c09-nosesh")  // known to the manager, new sessions refused
var c09UIDunknown = []byte("verif-c09-nobody") // unknown to the manager

type c09Mgr struct{ usermanager.Voidmanager }

func (m *c09Mgr) AuthenticateUser(uid []byte) (int64, int64, error) {
	if bytes.Equal(uid, c09UIDnosesh) {
		return 1 << 20, 1 << 20, nil
	}
	return 0, 0, usermanager.ErrUserNotFound
}
func (m *c09Mgr) AuthoriseNewSession(uid []byte, _ usermanager.AuthorisationInfo) error {
	return usermanager.ErrSessionsCapReached
}

type c09Keyset struct{ pv, pub, otherPub interface{} }

var c09KeysOnce sync.Once
var c09K c09Keyset

// fixed keys: saved scenarios stay valid across processes (the bubble clock always starts at the same instant)
func c09Keys() c09Keyset {
	c09KeysOnce.Do(func() {
		seed := bytes.Repeat([]byte("verif-c09-static-key-seed-0123456789"), 4)
		pv, pub, err := ecdh.GenerateKey(bytes.NewReader(seed))
		if err != nil {
			panic(err)
		}
		_, other, err := ecdh.GenerateKey(bytes.NewReader(seed[7:]))
		if err != nil {
			panic(err)
		}
		c09K = c09Keyset{pv, pub, other}
	})
	return c09K
}

type c09CapConn struct{ buf bytes.Buffer }

func (c *c09CapConn) Write(p []byte) (int, error)        { return c.buf.Write(p) }
func (c *c09CapConn) Read(p []byte) (int, error)         { return 0, io.EOF }
func (c *c09CapConn) Close() error                       { return nil }
func (c *c09CapConn) LocalAddr() net.Addr                { return &net.TCPAddr{IP: net.IPv4(127, 0, 0, 1), Port: 1} }
func (c *c09CapConn) RemoteAddr() net.Addr               { return &net.TCPAddr{IP: net.IPv4(127, 0, 0, 1), Port: 2} }
func (c *c09CapConn) SetDeadline(t time.Time) error      { return nil }
func (c *c09CapConn) SetReadDeadline(t time.Time) error  { return nil }
func (c *c09CapConn) SetWriteDeadline(t time.Time) error { return nil }

type c09HelloOpt struct {
	Browser  string
	UID      []byte
	Method   string
	Enc      int // -1: a valid one
	Skew     time.Duration
	WrongKey bool
	Name     string
	Real     bool // sealed for the real clock (tests that do not run in a bubble)
}

var c09Sid atomic.Uint32
var c09Epoch = time.Date(2000, 1, 1, 0, 0, 0, 0, time.UTC) // the start of every synctest bubble

// c09Hello runs the real client's direct-TLS handshake against a capturing connection and returns its first flight.
func c09Hello(o c09HelloOpt) []byte {
	k := c09Keys()
	pub := k.pub
	if o.WrongKey {
		pub = k.otherPub
	}
	if o.Name == "" {
		o.Name = "www.bing.com"
	}
	if o.Browser == "" {
		o.Browser = "firefox"
	}
	raw := client.RawConfig{ServerName: o.Name, ProxyMethod: o.Method, EncryptionMethod: "plain", UID: o.UID,
		PublicKey: ecdh.Marshal(pub), NumConn: 1, LocalHost: "127.0.0.1", LocalPort: "1984", RemoteHost: "127.0.0.1",
		RemotePort: "443", BrowserSig: o.Browser, Transport: "direct"}
	// every bubble starts at the same instant (c09Epoch, checked in c09Run): hellos sealed for that instant are fresh
	// in any bubble, so streams can be built outside and saved scenarios stay valid
	skew := o.Skew
	world := common.WorldState{Rand: rand.Reader, Now: func() time.Time { return c09Epoch.Add(skew) }}
	if o.Real {
		world.Now = func() time.Time { return time.Now().Add(skew) }
	}
	_, remote, auth, err := raw.ProcessRawConfig(world)
	if err != nil {
		panic(err)
	}
	auth.SessionId = 1000 + c09Sid.Add(1)
	if o.Enc >= 0 {
		auth.EncryptionMethod = byte(o.Enc)
	}
	conn := &c09CapConn{}
	tr := remote.Transport.CreateTransport()
	_, _ = tr.Handshake(conn, auth) // fails reading the ServerHello, after the ClientHello was written
	if conn.buf.Len() == 0 {
		panic("the client wrote no ClientHello")
	}
	return append([]byte{}, conn.buf.Bytes()...)
}

var c09HelloMu sync.Mutex
var c09HelloCache = map[string][]byte{}

// c09HelloOf returns a hello of an authentication class.  Every scenario has its own server state and every bubble
// starts at the same instant, so a hello can serve many scenarios: a dozen per class are built, then reused.
func c09HelloOf(class string, rng *kit.Rng) []byte {
	key := fmt.Sprintf("%s/%d", class, rng.Intn(12))
	c09HelloMu.Lock()
	defer c09HelloMu.Unlock()
	if h, ok := c09HelloCache[key]; ok {
		return h
	}
	h := c09BuildHelloOf(class, rng)
	c09HelloCache[key] = h
	return h
}

func c09BuildHelloOf(class string, rng *kit.Rng) []byte {
	o := c09HelloOpt{Browser: []string{"chrome", "firefox", "safari"}[rng.Intn(3)], UID: c09UIDok, Method: "echo", Enc: -1,
		Name: []string{"www.bing.com", "random", "cdn.example.net"}[rng.Intn(3)]}
	switch class {
	case "badkey":
		o.WrongKey = true
	case "window":
		o.Skew = []time.Duration{time.Hour, -time.Hour, 181 * time.Second, -181 * time.Second}[rng.Intn(4)]
	case "encmethod":
		o.Enc = []int{4, 0x7f, 0xff}[rng.Intn(3)]
	case "method":
		o.Method = []string{"nosuchmethod", "ECHO2", "shadowsocks"}[rng.Intn(3)]
	case "uid":
		o.UID = c09UIDunknown
	case "nosession":
		o.UID = c09UIDnosesh
	}
	return c09Hello(o)
}

// c09Hidden extracts random || session id || key share (what a CDN-mode client would put into its GET).
func c09Hidden(hello []byte) []byte {
	ch, err := parseClientHello(hello)
	if err != nil {
		panic(err)
	}
	ks, err := parseKeyShare(ch.extensions[[2]byte{0x00, 0x33}])
	if err != nil {
		panic(err)
	}
	return append(append(append([]byte{}, ch.random...), ch.sessionId...), ks...)
}

// c09Exts walks a ClientHello record and returns, per extension type, the offset of its header and its data length.
func c09Exts(h []byte) map[int][2]int {
	out := map[int][2]int{}
	p := 5 + 4 + 2 + 32
	if p >= len(h) {
		return out
	}
	p += 1 + int(h[p])
	if p+2 > len(h) {
		return out
	}
	p += 2 + (int(h[p])<<8 | int(h[p+1]))
	if p >= len(h) {
		return out
	}
	p += 1 + int(h[p])
	p += 2
	for p+4 <= len(h) {
		typ, l := int(h[p])<<8|int(h[p+1]), int(h[p+2])<<8|int(h[p+3])
		out[typ] = [2]int{p, l}
		p += 4 + l
	}
	return out
}

// c09BreakHello damages a genuine hello so that it no longer parses; the record length stays honest.  Callers pass
// the hello of a user that is NOT authorised, so that even a damage the parser tolerates can never be served.
func c09BreakHello(h []byte, rng *kit.Rng) ([]byte, string) {
	m := append([]byte{}, h...)
	fix := func() { m[3], m[4] = byte((len(m)-5)>>8), byte(len(m)-5) }
	exts := c09Exts(h)
	switch rng.Intn(10) {
	case 0:
		m[5] = 2
		return m, "handshake type 2"
	case 1:
		m[8]++
		return m, "handshake length + 1"
	case 2:
		m[1], m[2] = 3, 3
		return m, "record version 3.3"
	case 3:
		m[43] = 33
		return m, "session id length 33"
	case 4:
		if e, ok := exts[0x33]; ok {
			m[e[0]] = 0xff
		}
		return m, "no key_share extension"
	case 5:
		m = m[:len(m)-1-rng.Intn(20)]
		fix()
		return m, "record shortened, inner lengths untouched"
	case 6:
		m = append(m, rng.Bytes(1+rng.Intn(20))...)
		fix()
		return m, "record lengthened, inner lengths untouched"
	case 7:
		if e, ok := exts[0x33]; ok {
			p, end := e[0]+6, e[0]+4+e[1]
			for p+4 <= end {
				if m[p] == 0x00 && m[p+1] == 0x1d {
					m[p+3]++
					break
				}
				p += 4 + (int(m[p+2])<<8 | int(m[p+3]))
			}
		}
		return m, "x25519 key exchange length 33"
	case 8:
		if e, ok := exts[0x33]; ok {
			m[e[0]+4], m[e[0]+5] = 0xff, 0xff
		}
		return m, "key_share list length 65535"
	default:
		m = m[:5+4+2+32+1+rng.Intn(30)]
		fix()
		return m, "hello cut inside the session id"
	}
}

// ---- structured mutations of a ClientHello: it stays a well-formed record / handshake / hello as far as the outer
// lengths go, one extension is damaged from the inside (or repeated, removed, mis-declared)

type c09Ext struct {
	typ  int
	body []byte
}

// c09SplitHello cuts a genuine hello into everything before the extension block and the extensions.
func c09SplitHello(h []byte) (pre []byte, exts []c09Ext) {
	p := 5 + 4 + 2 + 32
	p += 1 + int(h[p])
	p += 2 + (int(h[p])<<8 | int(h[p+1]))
	p += 1 + int(h[p])
	pre = h[:p]
	p += 2
	for p+4 <= len(h) {
		typ, l := int(h[p])<<8|int(h[p+1]), int(h[p+2])<<8|int(h[p+3])
		exts = append(exts, c09Ext{typ, append([]byte{}, h[p+4:p+4+l]...)})
		p += 4 + l
	}
	return
}

// c09JoinHello rebuilds the record: extension block length, handshake length and record length are all honest.
// declared[i] >= 0 overrides the length field of extension i (the block length stays that of the real bytes).
func c09JoinHello(pre []byte, exts []c09Ext, declared map[int]int) []byte {
	var block []byte
	for i, e := range exts {
		l := len(e.body)
		if d, ok := declared[i]; ok {
			l = d
		}
		block = append(block, byte(e.typ>>8), byte(e.typ), byte(l>>8), byte(l))
		block = append(block, e.body...)
	}
	body := append(append([]byte{}, pre[9:]...), byte(len(block)>>8), byte(len(block)))
	body = append(body, block...)
	hs := append([]byte{1, byte(len(body) >> 16), byte(len(body) >> 8), byte(len(body))}, body...)
	return append([]byte{pre[0], pre[1], pre[2], byte(len(hs) >> 8), byte(len(hs))}, hs...)
}

type c09Mutant struct {
	label  string
	stream []byte
}

// c09StructMutants: for EVERY extension of the hello - body truncated at every length (dense = all of them, else all
// up to 40, every 13th, the last 40), every 16-bit and leading 8-bit inner length field set to +1 / -1 / 0 / max
// (dense = every offset, else offsets < 8 and bodies <= 48 bytes, plus every entry of a key_share list), the
// extension repeated, removed, and its own declared length off by +1 / -1 / 0xFFFF with an honest block length.
func c09StructMutants(h []byte, dense bool) []c09Mutant {
	pre, exts := c09SplitHello(h)
	var out []c09Mutant
	with := func(i int, body []byte) []c09Ext {
		cp := append([]c09Ext{}, exts...)
		cp[i] = c09Ext{exts[i].typ, body}
		return cp
	}
	for i, e := range exts {
		n := len(e.body)
		name := fmt.Sprintf("extension %#04x (%d bytes)", e.typ, n)
		for l := 0; l < n; l++ {
			if dense || l <= 40 || l >= n-40 || l%13 == 0 {
				out = append(out, c09Mutant{fmt.Sprintf("%s body truncated to %d", name, l), c09JoinHello(pre, with(i, e.body[:l]), nil)})
			}
		}
		offs := map[int]bool{}
		for o := 0; o+2 <= n; o++ {
			if dense || o < 8 || n <= 48 {
				offs[o] = true
			}
		}
		if e.typ == 0x33 && n >= 2 { // key_share: list length, then (group, length, key) entries
			for o := 2; o+4 <= n; {
				offs[o+2] = true
				o += 4 + (int(e.body[o+2])<<8 | int(e.body[o+3]))
			}
		}
		for o := range offs {
			v := int(e.body[o])<<8 | int(e.body[o+1])
			for _, nv := range []int{v + 1, v - 1, 0, 0xffff} {
				if nv < 0 || nv > 0xffff || nv == v {
					continue
				}
				b := append([]byte{}, e.body...)
				b[o], b[o+1] = byte(nv>>8), byte(nv)
				out = append(out, c09Mutant{fmt.Sprintf("%s 16-bit field at %d: %d -> %d", name, o, v, nv), c09JoinHello(pre, with(i, b), nil)})
			}
		}
		if n >= 1 {
			for _, nv := range []int{int(e.body[0]) + 1, int(e.body[0]) - 1, 0, 0xff} {
				if nv < 0 || nv > 0xff || nv == int(e.body[0]) {
					continue
				}
				b := append([]byte{}, e.body...)
				b[0] = byte(nv)
				out = append(out, c09Mutant{fmt.Sprintf("%s first byte %d -> %d", name, e.body[0], nv), c09JoinHello(pre, with(i, b), nil)})
			}
		}
		rep := append(append(append([]c09Ext{}, exts[:i+1]...), exts[i]), exts[i+1:]...)
		out = append(out, c09Mutant{name + " repeated", c09JoinHello(pre, rep, nil)})
		out = append(out, c09Mutant{name + " repeated at the end", c09JoinHello(pre, append(append([]c09Ext{}, exts...), exts[i]), nil)})
		out = append(out, c09Mutant{name + " removed", c09JoinHello(pre, append(append([]c09Ext{}, exts[:i]...), exts[i+1:]...), nil)})
		for _, d := range []int{n + 1, n - 1, 0xffff, 0} {
			if d >= 0 && d != n {
				out = append(out, c09Mutant{fmt.Sprintf("%s declared as %d bytes", name, d), c09JoinHello(pre, exts, map[int]int{i: d})})
			}
		}
	}
	return out
}

var c09StructOnce sync.Once
var c09StructPool []c09Mutant

// c09StructPick: a structured mutant of an UNAUTHORISED user's hello (class badext of the model)
func c09StructPick(rng *kit.Rng) c09Mutant {
	c09StructOnce.Do(func() {
		for _, b := range []string{"firefox", "chrome", "safari"} {
			for _, mu := range c09StructMutants(c09Hello(c09HelloOpt{Browser: b, UID: c09UIDunknown, Method: "echo", Enc: -1}), false) {
				if len(mu.stream) <= c09Buf { // the model's class is a record that fits the buffer (a repeated 1.2 KiB key_share does not)
					c09StructPool = append(c09StructPool, mu)
				}
			}
		}
	})
	return c09StructPool[rng.Intn(len(c09StructPool))]
}

func c09Get(lines []string) []byte {
	return []byte(strings.Join(lines, "\r\n") + "\r\n\r\n")
}

// c09GetSized: a GET whose blank line ends exactly at position n (n >= 40), optionally carrying a hidden header.
func c09GetSized(n int, hidden string, rng *kit.Rng) []byte {
	lines := []string{"GET /" + strings.Repeat("p", 1+rng.Intn(8)) + " HTTP/1.1", "Host: example.com"}
	if hidden != "" {
		lines = append(lines, "Upgrade: websocket", "Connection: Upgrade", "hidden: "+hidden)
	}
	base := len(c09Get(lines))
	if n > base {
		need := n - base
		for need > 0 {
			if need < 12 {
				// too short for another header line: stretch the previous one
				lines[len(lines)-1] += strings.Repeat("q", need)
				need = 0
				break
			}
			l := need
			if l > 900 {
				l = 700 + rng.Intn(150)
			}
			if need-l < 12 && need-l > 0 {
				l = need - 12
			}
			lines = append(lines, "X-Pad: "+strings.Repeat("z", l-9))
			need -= l
		}
	}
	return c09Get(lines)
}

// c09Concretise turns an abstract case into a concrete stream plus the position map.
func c09Concretise(b *c09Behaviour, rng *kit.Rng, variant int) (*c09Scenario, error) {
	k := b.K
	cs := b.Case.C
	sc := &c09Scenario{Script: b.Case.Script, Down: b.Case.Down, Class: cs.Content, m: &c09Map{}}
	if pc := b.Case.Port; pc.Cfg != "" {
		sc.NoRedirPort = pc.Cfg == "none"
		sc.LocalPort = c09Ports[pc.Lp]
		if pc.First != "none" {
			sc.Priors = []int{c09Ports[pc.First]}
		}
	}
	trail := rng.Bytes(2 + rng.Intn(300))
	if variant%3 == 1 {
		trail = rng.Bytes(k.Trail)
	}
	var full []byte
	m := sc.m
	m.add(0, 0)
	switch cs.Kind {
	case "other":
		first := byte(rng.Intn(256))
		for first == 0x16 || first == 0x47 {
			first = byte(rng.Intn(256))
		}
		n := cs.Total
		if n > 2 {
			n = c09Buf + 1 + rng.Intn(2000)
			if variant%2 == 1 {
				n = cs.Total + rng.Intn(500)
			}
		}
		full = append([]byte{first}, rng.Bytes(n-1)...)
		m.add(1, 1)
		if cs.Total > 1 {
			m.add(cs.Total, n)
		}
	case "tls":
		var body []byte
		hdr := []byte{0x16, 0x03, 0x01}
		switch {
		case cs.Dlen == 0:
		case cs.Dlen == k.Small:
			switch cs.Content {
			case "garbage":
				body = rng.Bytes(k.Small + rng.Intn(c09Buf-5-k.Small-1))
				if variant%2 == 1 {
					hdr = []byte{0x16, byte(rng.Intn(256)), byte(rng.Intn(256))}
				}
			case "badext":
				mu := c09StructPick(rng)
				sc.Label = mu.label
				hdr, body = mu.stream[:3], mu.stream[5:]
			case "badhello":
				h, how := c09BreakHello(c09HelloOf("uid", rng), rng)
				sc.Label = how
				hdr, body = h[:3], h[5:]
			default:
				h := c09HelloOf(cs.Content, rng)
				hdr, body = h[:3], h[5:]
				sc.PresentFirst = cs.Content == "replay"
			}
		case cs.Dlen == k.Buf-k.Hdr:
			body = rng.Bytes(c09Buf - 5)
		case cs.Dlen == k.Buf-k.Hdr+1:
			body = rng.Bytes(c09Buf - 4)
		case cs.Dlen == k.Big:
			n := 65535
			if variant%2 == 1 {
				n = c09Buf - 3 + rng.Intn(65535-c09Buf+3)
			}
			body = rng.Bytes(n)
		default:
			return nil, fmt.Errorf("unknown declared length class %d", cs.Dlen)
		}
		if len(body) < cs.Dlen && cs.Dlen != k.Big {
			return nil, fmt.Errorf("concrete body shorter than the abstract one")
		}
		full = append(append([]byte{}, hdr...), byte(len(body)>>8), byte(len(body)))
		full = append(append(full, body...), trail...)
		m.add(k.Hdr, 5)
		if cs.Dlen > 0 {
			m.add(k.Hdr+cs.Dlen, 5+len(body))
		}
		m.add(k.Hdr+cs.Dlen+k.Trail, 5+len(body)+len(trail))
	case "http":
		switch {
		case cs.Bl == k.LS:
			hidden := ""
			switch cs.Content {
			case "none":
			case "short":
				hidden = base64.StdEncoding.EncodeToString(rng.Bytes(1 + rng.Intn(95)))
				if variant%3 == 2 {
					hidden = "%%%not-base64%%%"
				}
			case "bogus":
				hidden = base64.StdEncoding.EncodeToString(rng.Bytes(96 + 10*(variant%2)))
			default:
				hidden = base64.StdEncoding.EncodeToString(c09Hidden(c09HelloOf(cs.Content, rng)))
				sc.PresentFirst = cs.Content == "replay"
			}
			req := c09GetSized(0, hidden, rng)
			if cs.Content == "none" && variant%4 == 3 {
				req = []byte("Gx\n\r\n") // nearly the shortest complete request ("G\r\n" itself is in the explored corpus)
			}
			full = append(req, trail...)
			m.add(1, 1)
			m.add(k.LS, len(req))
			m.add(k.LS+k.Trail, len(full))
		case cs.Bl > 0:
			// blank line at buffer-1, buffer, buffer+1
			end := c09Buf + (cs.Bl - k.Buf)
			req := c09GetSized(end, "", rng)
			if len(req) != end {
				return nil, fmt.Errorf("sized GET is %d bytes, wanted %d", len(req), end)
			}
			full = append(req, trail...)
			m.add(1, 1)
			if cs.Bl > k.Buf {
				m.add(k.Buf, c09Buf)
			}
			m.add(cs.Bl, end)
			m.add(cs.Bl+k.Trail, len(full))
		default:
			// never a blank line
			n := c09Buf + 1 + len(trail)
			var req []byte
			switch variant % 3 {
			case 0:
				req = append([]byte("GET /"), bytes.Repeat([]byte("a"), n)...)
			case 1:
				for len(req) < n {
					req = append(req, []byte("GET /index.html HTTP/1.1\r\nHost: example.com\r\nX-A: "+strings.Repeat("b", rng.Intn(200))+"\r\n")...)
				}
			default:
				for len(req) < n {
					req = append(req, []byte("GET / HTTP/1.1\n\nX: y\r\r\n\n\r")...) // bare LF "blank" lines, CR CR LF
				}
			}
			full = req[:n]
			m.add(1, 1)
			m.add(k.Buf, c09Buf)
			m.add(k.Buf+1+k.Trail, n)
		}
	default:
		return nil, fmt.Errorf("unknown kind %q", cs.Kind)
	}
	total := m.f(cs.Total)
	if total > len(full) {
		return nil, fmt.Errorf("mapped total %d beyond the concrete stream (%d)", total, len(full))
	}
	sc.stream = full[:total]
	sc.StreamHex = hex.EncodeToString(sc.stream)
	// steps and expectations
	sent := 0
	for i, st := range b.Steps {
		switch st.A {
		case "Deliver":
			sent += st.N
			sc.Steps = append(sc.Steps, c09Step{A: "Deliver", Upto: m.f(sent)})
		default:
			sc.Steps = append(sc.Steps, c09Step{A: st.A})
		}
		if i+1 < len(b.Steps) {
			sc.exp = append(sc.exp, &b.Steps[i+1].Pre)
		} else {
			sc.exp = append(sc.exp, &b.Fin)
		}
	}
	sc.Label = strings.TrimSpace(fmt.Sprintf("%s/%s dlen=%d bl=%d total=%d %s", cs.Kind, cs.Content, cs.Dlen, cs.Bl, cs.Total, sc.Label))
	return sc, nil
}

// ------------------------------------------------------------------------------------------ the rig

var c09Banner = []byte("HTTP/1.1 400 Bad Request\r\nServer: nginx\r\nContent-Length: 0\r\n\r\n")

type c09Target struct {
	mu     sync.Mutex
	recv   []byte
	sent   []byte
	closed bool // the target hung up
	sawEOF bool // the server side hung up
	dials  int
	conns  []net.Conn
}

type c09Dialer struct {
	tn     *kit.VNet
	sc     *c09Scenario
	tgt    *c09Target
	lastTo string
	mute   bool // an earlier connection of the same State is being handled: its target is a sink, nothing is recorded
}

func (d *c09Dialer) Dial(network, address string) (net.Conn, error) {
	d.tgt.mu.Lock()
	d.tgt.dials++
	d.lastTo = address
	mute := d.mute
	d.tgt.mu.Unlock()
	if mute {
		l := d.tn.NewLink(false, false)
		go func() { io.Copy(io.Discard, l.End(1)); l.End(1).Close() }()
		return l.End(0), nil
	}
	switch d.sc.Down {
	case "refuse":
		return nil, errors.New("dial tcp: connection refused")
	case "closeatonce":
		l := d.tn.NewLink(false, false)
		l.End(1).Close()
		return l.End(0), nil
	}
	l := d.tn.NewLink(false, false)
	d.tgt.mu.Lock()
	d.tgt.conns = append(d.tgt.conns, l.End(1))
	d.tgt.mu.Unlock()
	go d.tgt.serve(l.End(1), d.sc.Script)
	return l.End(0), nil
}

func (tg *c09Target) write(c net.Conn, p []byte) bool {
	tg.mu.Lock()
	tg.sent = append(tg.sent, p...) // recorded first: what the target has handed to its socket
	tg.mu.Unlock()
	_, err := c.Write(p)
	return err == nil
}

func (tg *c09Target) serve(c net.Conn, script string) {
	if script == "banner" {
		tg.write(c, c09Banner)
	}
	buf := make([]byte, 70000)
	for {
		n, err := c.Read(buf)
		if n > 0 {
			tg.mu.Lock()
			tg.recv = append(tg.recv, buf[:n]...)
			tg.mu.Unlock()
			switch script {
			case "echo":
				tg.write(c, buf[:n])
			case "close":
				tg.mu.Lock()
				tg.closed = true
				tg.mu.Unlock()
				c.Close()
				return
			}
		}
		if err != nil {
			tg.mu.Lock()
			tg.sawEOF = true
			tg.mu.Unlock()
			c.Close()
			return
		}
	}
}

func c09NewState(d common.Dialer, proxy common.Dialer) *State {
	k := c09Keys()
	var arr [16]byte
	copy(arr[:], c09UIDok)
	return &State{
		ProxyBook:   map[string]net.Addr{"echo": c09Addr("echo")},
		ProxyDialer: proxy,
		WorldState:  common.WorldState{Rand: rand.Reader, Now: time.Now},
		BypassUID:   map[[16]byte]struct{}{arr: {}},
		StaticPv:    k.pv,
		RedirHost:   &net.IPAddr{IP: net.IPv4(198, 51, 100, 7)},
		RedirPort:   "8080",
		RedirDialer: d,
		UsedRandom:  map[[32]byte]int64{},
		Panel: &userPanel{ // MakeUserPanel without its endless uploader goroutine
			Manager:          &c09Mgr{},
			activeUsers:      make(map[[16]byte]*ActiveUser),
			usageUpdateQueue: make(map[[16]byte]*usagePair),
			uploadInterval:   defaultUploadInterval,
		},
	}
}

// c09PortConn gives an in-memory connection the local address of a listener: goWeb takes the redirect port from
// conn.LocalAddr() when RedirAddr has none.
type c09PortConn struct {
	net.Conn
	port int
}

func (c c09PortConn) LocalAddr() net.Addr {
	return &net.TCPAddr{IP: net.IPv4(203, 0, 113, 5), Port: c.port}
}

type c09Addr string

func (a c09Addr) Network() string { return "vnet" }
func (a c09Addr) String() string  { return string(a) }

type c09Snapshot struct {
	Step       int    `json:"step"`
	Action     string `json:"action"`
	Sent       int    `json:"sent"`
	Nt         int    `json:"target_received"`
	Np         int    `json:"peer_received"`
	TgtSent    int    `json:"target_sent"`
	Dials      int    `json:"dials"`
	SrvClosed  bool   `json:"server_closed_peer_conn"`
	TgtClosed  bool   `json:"target_hung_up"`
	Handler    bool   `json:"handler_returned"`
	Outcome    string `json:"outcome"`
	Complete   bool   `json:"first_packet_complete"`
	GaveUpOK   bool   `json:"deadline_or_close_before_complete"`
	ExpOutcome string `json:"model_outcome,omitempty"`
	ExpNt      int    `json:"model_target_received,omitempty"`
	ExpNp      int    `json:"model_peer_received,omitempty"`
}

type c09Result struct {
	Key, What string
	Drift     []string
	Obs       []string // observations that are not violations
	Snaps     []c09Snapshot
	Outcome   string
}

// c09CrashSite names the innermost function of package server on the panicking goroutine's stack: crash:<function>.
func c09CrashSite() (key, where string) {
	buf := make([]byte, 1<<14)
	buf = buf[:runtime.Stack(buf, false)]
	lines := strings.Split(string(buf), "\n")
	for i, l := range lines {
		if !strings.Contains(l, "Cloak/internal/") || strings.Contains(l, "c09") || strings.Contains(l, "zzverif") {
			continue
		}
		fn := l
		if k := strings.LastIndex(fn, "("); k > 0 {
			fn = fn[:k]
		}
		fn = fn[strings.LastIndex(fn, "/")+1:]
		fn = strings.TrimPrefix(fn, "server.")
		loc := ""
		if i+1 < len(lines) {
			loc = strings.TrimSpace(lines[i+1])
			if k := strings.Index(loc, " +0x"); k > 0 {
				loc = loc[:k]
			}
			loc = loc[strings.LastIndex(loc, "/")+1:]
		}
		return "crash:" + fn, fn + " (" + loc + ")"
	}
	return "crash:unknown", "?"
}

// c09Run runs one scenario in a fresh bubble and judges it.
func c09Run(t *testing.T, sc *c09Scenario) (res c09Result) {
	stream := sc.bytes()
	viol := func(key, format string, a ...any) {
		if res.Key == "" {
			res.Key, res.What = key, fmt.Sprintf(format, a...)
		}
	}
	synctest.Test(t, func(t *testing.T) {
		if d := time.Since(c09Epoch); d < 0 || d > time.Second {
			t.Fatalf("the bubble does not start at %v (now %v): sealed timestamps would be stale", c09Epoch, time.Now())
		}
		vn, tn := kit.NewVNet(), kit.NewVNet()
		tgt := &c09Target{}
		dialer := &c09Dialer{tn: tn, sc: sc, tgt: tgt}
		// proxy side for the accepted (control) cases: a sink
		proxyL := tn.Listen()
		go func() {
			for {
				c, err := proxyL.Accept()
				if err != nil {
					return
				}
				go func() { io.Copy(io.Discard, c); c.Close() }()
			}
		}()
		sta := c09NewState(dialer, proxyL)
		if sc.PresentFirst {
			// an earlier connection presented the same first packet (whatever became of it)
			if ok, stop, kind := c09Ref(stream); ok {
				var tr Transport = TLS{}
				if strings.HasPrefix(kind, "http") {
					tr = WebSocket{}
				}
				_, _, _ = AuthFirstPacket(stream[:stop], tr, sta)
			}
		}
		if sc.NoRedirPort {
			sta.RedirPort = "" // what parseRedirAddr yields for a RedirAddr without a port
		}
		localPort := sc.LocalPort
		if localPort == 0 {
			localPort = 443
		}
		wantAddr := net.JoinHostPort(sta.RedirHost.String(), sta.RedirPort)
		if sc.NoRedirPort {
			wantAddr = net.JoinHostPort(sta.RedirHost.String(), fmt.Sprint(localPort))
		}
		// earlier unauthenticated connections on the same State, each on its own listener, each redirected and gone
		for _, p := range sc.Priors {
			dialer.mute = true
			l0 := vn.NewLink(false, false)
			go func() {
				defer func() { recover() }()
				dispatchConnection(c09PortConn{l0.End(1), p}, sta)
			}()
			l0.End(0).Write([]byte{0x00, 0x01, 0x02})
			synctest.Wait()
			l0.End(0).Close()
			synctest.Wait()
			tgt.mu.Lock()
			tgt.dials = 0
			dialer.mute = false
			tgt.mu.Unlock()
		}
		link := vn.NewLink(false, false)
		peer := link.End(0)
		var pmu sync.Mutex
		var peerRecv []byte
		go func() {
			buf := make([]byte, 70000)
			for {
				n, err := peer.Read(buf)
				pmu.Lock()
				peerRecv = append(peerRecv, buf[:n]...)
				if err != nil {
					pmu.Unlock()
					return
				}
				pmu.Unlock()
			}
		}()
		var handlerDone atomic.Bool
		go func() {
			// ck-server runs `go dispatchConnection(conn, sta)` with nothing above it: a panic in here ends the whole
			// server process.  The harness recovers it (so the run goes on) and records the verdict.
			defer func() {
				if r := recover(); r != nil {
					key, where := c09CrashSite()
					viol(key, "dispatchConnection panicked (in ck-server this kills the process): %v at %s; first packet of class %s, %d bytes", r, where, sc.Class, len(stream))
					handlerDone.Store(true)
				}
			}()
			dispatchConnection(c09PortConn{link.End(1), localPort}, sta)
			handlerDone.Store(true)
		}()
		synctest.Wait()
		sent := 0
		peerClosed := false
		gaveUpOK := false // the deadline passed or the peer hung up while the first packet was incomplete
		for i, st := range sc.Steps {
			complete, _, _ := c09Ref(stream[:sent])
			switch st.A {
			case "Deliver":
				if st.Upto > sent && st.Upto <= len(stream) && !peerClosed {
					peer.Write(stream[sent:st.Upto])
					sent = st.Upto
				}
			case "Timeout":
				if !complete {
					gaveUpOK = true
				}
				time.Sleep(15*time.Second + time.Millisecond)
			case "PeerClose":
				if !complete {
					gaveUpOK = true
				}
				peerClosed = true
				peer.Close()
			}
			synctest.Wait()
			complete, _, _ = c09Ref(stream[:sent])
			// ---- observe
			tgt.mu.Lock()
			tRecv := append([]byte{}, tgt.recv...)
			tSent := append([]byte{}, tgt.sent...)
			dials, tClosed := tgt.dials, tgt.closed
			tgt.mu.Unlock()
			pmu.Lock()
			pRecv := append([]byte{}, peerRecv...)
			pmu.Unlock()
			srvClosed := link.ClosedBy(1)
			snap := c09Snapshot{Step: i, Action: st.A, Sent: sent, Nt: len(tRecv), Np: len(pRecv), TgtSent: len(tSent), Dials: dials,
				SrvClosed: srvClosed, TgtClosed: tClosed, Handler: handlerDone.Load(), Complete: complete, GaveUpOK: gaveUpOK}
			foreign := !bytes.HasPrefix(tSent, pRecv)
			switch {
			case foreign && len(pRecv) > 0 && dials == 0:
				snap.Outcome = "accept"
			case dials > 0 && sc.Down == "up":
				snap.Outcome = "redirect"
			case dials > 0:
				snap.Outcome = "noredirect"
			case srvClosed:
				snap.Outcome = "close"
			case handlerDone.Load():
				snap.Outcome = "hang"
			default:
				snap.Outcome = "none"
			}
			res.Outcome = snap.Outcome
			// ---- THE PROPERTY
			authd := c09Authenticated(sc.Class)
			if !bytes.HasPrefix(stream[:sent], tRecv) {
				d := 0
				for d < len(tRecv) && d < sent && tRecv[d] == stream[d] {
					d++
				}
				viol("relay:target-not-prefix", "after step %d (%s) the target has received %d bytes that are not a prefix of the %d bytes the peer sent: first difference at offset %d",
					i, st.A, len(tRecv), sent, d)
			}
			tgt.mu.Lock()
			dialled := dialer.lastTo
			tgt.mu.Unlock()
			if dials > 0 && dialled != wantAddr {
				viol("relay:wrong-target", "after step %d (%s) the peer connected to port %d (RedirAddr %s, earlier connections of this server on ports %v) was relayed to %s; the configured redirect target for it is %s",
					i, st.A, localPort, map[bool]string{true: "without a port", false: "with port " + "8080"}[sc.NoRedirPort], sc.Priors, dialled, wantAddr)
			}
			if foreign && sc.Class != "ok" {
				d := 0
				for d < len(pRecv) && d < len(tSent) && pRecv[d] == tSent[d] {
					d++
				}
				viol("relay:peer-foreign-byte", "after step %d (%s) the peer has received %d bytes, the target sent %d: byte %d (%#02x ...) did not come from the target",
					i, st.A, len(pRecv), len(tSent), d, pRecv[d])
			}
			if complete && !gaveUpOK && !authd && sc.Down == "up" && !peerClosed && !tClosed {
				if len(tRecv) != sent {
					viol("relay:target-missing", "after step %d (%s) the peer (class %s) has sent a complete first packet and %d bytes in all; the target has received %d (dialled %d time(s), server closed the peer connection: %v, handler returned: %v)",
						i, st.A, sc.Class, sent, len(tRecv), dials, srvClosed, handlerDone.Load())
				} else if len(pRecv) != len(tSent) {
					viol("relay:peer-missing", "after step %d (%s) the target has replied %d bytes, the peer has received %d (server closed the peer connection: %v)",
						i, st.A, len(tSent), len(pRecv), srvClosed)
				}
			}
			if complete && !gaveUpOK && !authd && sc.Down != "up" && dials > 0 && !srvClosed && !peerClosed {
				res.Obs = append(res.Obs, "unreachable-target-leaves-peer-open")
			}
			// ---- the model's expectation (drift, never a verdict)
			if i < len(sc.exp) && sc.exp[i] != nil {
				e := sc.exp[i]
				snap.ExpOutcome, snap.ExpNt = e.Outcome, sc.m.f(e.Nt)
				if e.Nt == 0 {
					snap.ExpNt = 0
				}
				switch {
				case e.Outcome == "accept":
					snap.ExpNp = -1
				case sc.Script == "banner":
					snap.ExpNp = 0
					if e.Np > 0 {
						snap.ExpNp = len(c09Banner)
					}
				case sc.Script == "echo":
					snap.ExpNp = sc.m.f(e.Np)
					if e.Np == 0 {
						snap.ExpNp = 0
					}
				}
				var d []string
				if e.Outcome != snap.Outcome {
					d = append(d, fmt.Sprintf("outcome %s, model %s", snap.Outcome, e.Outcome))
				}
				if e.Dial != "" && e.Dial != "none" && dials > 0 && !strings.HasSuffix(dialled, fmt.Sprintf(":%d", c09Ports[e.Dial])) {
					d = append(d, fmt.Sprintf("dialled %s, model port %s", dialled, e.Dial))
				}
				// a target that hangs up after its first read may have read just the replayed prefix or more: both are
				// behaviours of the model (CopyUp and the target's close are concurrent); the prefix check above still applies
				raced := sc.Script == "close" && e.Outcome == "redirect" && snap.Nt >= 1 && snap.Nt <= sent
				if snap.ExpNt != snap.Nt && !raced {
					d = append(d, fmt.Sprintf("target has %d bytes, model %d", snap.Nt, snap.ExpNt))
				}
				if snap.ExpNp >= 0 && snap.ExpNp != snap.Np {
					d = append(d, fmt.Sprintf("peer has %d bytes, model %d", snap.Np, snap.ExpNp))
				}
				if snap.ExpNp < 0 && snap.Np == 0 {
					d = append(d, "peer has no reply, model accepts")
				}
				if e.PeerOpen == srvClosed && e.Outcome != "accept" {
					d = append(d, fmt.Sprintf("server closed the peer connection: %v, model peerOpen: %v", srvClosed, e.PeerOpen))
				}
				if len(d) > 0 {
					res.Drift = append(res.Drift, fmt.Sprintf("step %d (%s): %s", i, st.A, strings.Join(d, "; ")))
				}
			}
			res.Snaps = append(res.Snaps, snap)
		}
		// ---- nothing, however malformed, wedges the server: once the deadline has passed the handler is gone
		// (an accepted session keeps serving until its connection closes)
		timedOut := false
		for _, st := range sc.Steps {
			if st.A == "Timeout" {
				timedOut = true
			}
		}
		if !timedOut {
			time.Sleep(15*time.Second + time.Millisecond)
			synctest.Wait()
		}
		if !handlerDone.Load() && res.Outcome != "accept" {
			buf := make([]byte, 1<<16)
			n := runtime.Stack(buf, true)
			stack := ""
			for _, g := range strings.Split(string(buf[:n]), "\n\n") {
				if strings.Contains(g, "dispatchConnection") && !strings.Contains(g, "c09Run.func1 ") {
					stack = g
					break
				}
			}
			viol("wedged", "dispatchConnection has not returned 15 s after the last event although nothing is left to read (outcome %s): %s", res.Outcome, stack)
		}
		// ---- let everything end
		peer.Close()
		tgt.mu.Lock()
		for _, c := range tgt.conns {
			c.Close()
		}
		tgt.mu.Unlock()
		synctest.Wait()
		time.Sleep(40 * time.Second)
		synctest.Wait()
		proxyL.Close()
		synctest.Wait()
	})
	return res
}

// --------------------------------------------------------------------------------------- bookkeeping

var c09Res = kit.NewResult()

func c09Quiet() {
	log.SetOutput(io.Discard)
	log.StandardLogger().ExitFunc = func(int) {}
}

// c09Pool runs scenarios on several workers; the descriptors of the scenarios in flight are persisted so that a
// crash of the process (a panic on one of Cloak's goroutines) can be attributed.
type c09Pool struct {
	res      *kit.Result
	mu       sync.Mutex
	inflight map[int]any
	started  map[int]time.Time
	drift    atomic.Int64
	marked   bool
}

func (p *c09Pool) begin(w int, desc any) {
	p.mu.Lock()
	p.inflight[w] = desc
	p.started[w] = time.Now()
	first := !p.marked
	p.marked = true
	p.mu.Unlock()
	if first {
		p.res.SetRunning(map[string]any{"in_flight": "see running_w*.json"}, true)
	}
	// one small file per worker (persisting all of them in result.json before every scenario would cost more than the scenarios)
	b, _ := json.Marshal(desc)
	_ = os.WriteFile(fmt.Sprintf("%s/running_w%d.json", kit.OutDir(), w), b, 0o644)
}

func (p *c09Pool) end(w int) {
	p.mu.Lock()
	delete(p.inflight, w)
	delete(p.started, w)
	p.mu.Unlock()
}

// watchdog: a bubble that never settles (a goroutine spinning, or blocked on a lock) hangs synctest.Wait for ever.
func (p *c09Pool) watchdog(limit time.Duration, stop chan struct{}) {
	for {
		select {
		case <-stop:
			return
		case <-time.After(time.Second):
		}
		p.mu.Lock()
		var stuck any
		for w, t0 := range p.started {
			if time.Since(t0) > limit {
				stuck = p.inflight[w]
			}
		}
		p.mu.Unlock()
		if stuck == nil {
			continue
		}
		buf := make([]byte, 1<<20)
		n := runtime.Stack(buf, true)
		var culprit []string
		for _, g := range strings.Split(string(buf[:n]), "\n\n") {
			if (strings.Contains(g, "server.dispatchConnection") || strings.Contains(g, "common.Copy")) &&
				!strings.Contains(g, "sync.(*Cond).Wait") {
				culprit = append(culprit, g)
			}
		}
		if len(culprit) > 0 {
			p.res.Violate("wedged", fmt.Sprintf("a scenario did not settle within %v of real time; goroutines of the handler that are neither finished nor waiting for the network:\n%s",
				limit, strings.Join(culprit, "\n\n")), stuck)
		} else {
			p.res.Note("watchdog: a scenario did not settle within %v but no handler goroutine is to blame (machine overloaded?)", limit)
			p.res.Stat("watchdog_inconclusive", 1)
		}
		p.res.Save(true)
		os.Exit(3)
	}
}

func (p *c09Pool) record(sc *c09Scenario, r c09Result, family string, nontrivial bool, sig string) {
	res := p.res
	res.Count(sig, nontrivial)
	res.Stat("runs:"+family, 1)
	res.Stat("outcome:"+r.Outcome, 1)
	seenObs := map[string]bool{}
	for _, o := range r.Obs {
		if !seenObs[o] {
			seenObs[o] = true
			res.Stat("obs:"+o, 1) // once per scenario
		}
	}
	if r.Key != "" {
		res.Violate(r.Key, r.What+" ["+sc.Label+"]", map[string]any{"scenario": sc, "family": family, "table": r.Snaps})
	}
	if len(r.Drift) > 0 {
		res.Stat("drift", 1)
		if n := p.drift.Add(1); n <= 5 {
			res.Note("DRIFT %s [%s / %s / %s]: %s :: stream %s", family, sc.Label, sc.Script, sc.Down, strings.Join(r.Drift, " | "), c09Short(sc.StreamHex))
			b, _ := json.Marshal(map[string]any{"scenario": sc, "family": family, "drift": r.Drift, "table": r.Snaps})
			_ = os.WriteFile(fmt.Sprintf("%s/drift_%d.json", kit.OutDir(), n), b, 0o644)
		}
	}
}

func c09Short(h string) string {
	if len(h) > 160 {
		return h[:160] + fmt.Sprintf("...(%d bytes)", len(h)/2)
	}
	return h
}

func c09Workers() int {
	w := runtime.GOMAXPROCS(0)
	if w > 8 {
		w = 8
	}
	return kit.EnvInt("VERIF_C09_WORKERS", w)
}

func c09CheckBuf(t *testing.T) {
	if v := kit.EnvInt("VERIF_C09_BUF", 0); v != 0 && v != firstPacketSize {
		t.Fatalf("the checker read firstPacketSize = %d from the source, the code under test has %d", v, firstPacketSize)
	}
}

// ------------------------------------------------------------------------------ B1: model behaviours

func TestVerifC09Replay(t *testing.T) {
	c09Quiet()
	c09CheckBuf(t)
	res := c09Res
	defer func() { res.Save(true) }()
	if rp := kit.Env("VERIF_REPLAY", ""); rp != "" {
		c09ReplayFile(t, rp)
		return
	}
	pool := &c09Pool{res: res, inflight: map[int]any{}, started: map[int]time.Time{}}
	stop := make(chan struct{})
	go pool.watchdog(time.Duration(kit.EnvInt("VERIF_C09_WATCHDOG_S", 240))*time.Second, stop)
	defer close(stop)
	perB := kit.EnvInt("VERIF_C09_CONCS", 1)
	type job struct {
		idx  int
		line []byte
	}
	jobs := make(chan job, 512)
	var readErr error
	go func() {
		defer close(jobs)
		idx := 0
		readErr = kit.ReadLines(kit.Env("VERIF_IN", ""), func(line []byte) error {
			idx++
			jobs <- job{idx, append([]byte{}, line...)}
			return nil
		})
	}()
	var bad atomic.Int32
	t0 := time.Now()
	t.Run("bubbles", func(t *testing.T) {
		for w := 0; w < c09Workers(); w++ {
			t.Run(fmt.Sprintf("w%d", w), func(t *testing.T) {
				t.Parallel()
				for j := range jobs {
					var b c09Behaviour
					if err := json.Unmarshal(j.line, &b); err != nil {
						bad.Add(1)
						continue
					}
					if res.NumViolations() > 60 {
						continue
					}
					for v := 0; v < perB; v++ {
						rng := kit.NewRng(kit.Seed()*1000003 + int64(j.idx)*31 + int64(v))
						variant := j.idx + v
						sc, err := c09Concretise(&b, rng, variant)
						if err != nil {
							res.Note("behaviour %d cannot be concretised: %v", j.idx, err)
							res.Stat("concretise_errors", 1)
							continue
						}
						pool.begin(w, map[string]any{"test": "TestVerifC09Replay", "behaviour": j.idx, "variant": v, "scenario": sc})
						r := c09Run(t, sc)
						pool.end(w)
						cs := b.Case.C
						sig := fmt.Sprintf("%s/%d/%d/%d/%s/%s/%s/%v", cs.Kind, cs.Dlen, cs.Bl, cs.Total, cs.Content, b.Case.Script, b.Case.Down, b.Steps)
						nontrivial := b.Fin.Outcome == "redirect" || b.Fin.Outcome == "noredirect"
						pool.record(sc, r, "model:"+b.Src, nontrivial, sig)
						res.Stat("model_outcome:"+b.Fin.Outcome, 1)
						if j.idx%2503 == 1 && v == 0 {
							res.Sample(map[string]any{"behaviour": json.RawMessage(j.line), "label": sc.Label, "stream_bytes": len(sc.stream), "steps": sc.Steps, "observed": r.Snaps}, 4)
						}
					}
				}
			})
		}
	})
	if readErr != nil {
		t.Fatal(readErr)
	}
	if bad.Load() > 0 {
		t.Fatalf("%d unparsable behaviours", bad.Load())
	}
	res.Stat("replay_wall_ms", time.Since(t0).Milliseconds())
}

// ------------------------------------------------------------------------- concrete exploration

type c09Base struct {
	name   string
	class  string
	stream []byte
	replay bool
}

// c09Corpus: the concrete streams of the statement's quantifier.
func c09Corpus(rng *kit.Rng, thorough bool) []c09Base {
	var out []c09Base
	add := func(name, class string, s []byte) { out = append(out, c09Base{name: name, class: class, stream: s}) }
	// genuine browser-shaped hellos that are no Cloak handshake for this server (sealed for another key)
	for _, b := range []string{"chrome", "firefox", "safari"} {
		add("hello-"+b+"-foreign", "badkey", c09Hello(c09HelloOpt{Browser: b, UID: c09UIDok, Method: "echo", Enc: -1, WrongKey: true}))
		add("hello-"+b+"-unauthorised", "uid", c09Hello(c09HelloOpt{Browser: b, UID: c09UIDunknown, Method: "echo", Enc: -1}))
		add("hello-"+b+"-unknown-method", "method", c09Hello(c09HelloOpt{Browser: b, UID: c09UIDok, Method: "nosuch", Enc: -1}))
		add("hello-"+b+"-bad-encryption", "encmethod", c09Hello(c09HelloOpt{Browser: b, UID: c09UIDok, Method: "echo", Enc: 0x55}))
		add("hello-"+b+"-stale", "window", c09Hello(c09HelloOpt{Browser: b, UID: c09UIDok, Method: "echo", Enc: -1, Skew: -2 * time.Hour}))
		out = append(out, c09Base{name: "hello-" + b + "-replayed", class: "replay", replay: true,
			stream: c09Hello(c09HelloOpt{Browser: b, UID: c09UIDok, Method: "echo", Enc: -1})})
		h := c09Hello(c09HelloOpt{Browser: b, UID: c09UIDunknown, Method: "echo", Enc: -1})
		for i := 0; i < 9; i++ {
			m, how := c09BreakHello(h, rng)
			add("hello-"+b+"-broken: "+how, "badhello", m)
		}
	}
	// records by declared length
	for _, d := range []int{0, 1, 2, 64, c09Buf - 6, c09Buf - 5, c09Buf - 4, c09Buf - 3, 16384, 65534, 65535} {
		for _, present := range []int{0, 1, d / 2, d - 1, d, d + 1, d + 700} {
			if present < 0 || (present > d && d > c09Buf) && present != d+1 {
				continue
			}
			s := append([]byte{0x16, 3, byte(rng.Intn(4)), byte(d >> 8), byte(d)}, rng.Bytes(present)...)
			add(fmt.Sprintf("record-declared-%d-present-%d", d, present), "garbage", s)
		}
	}
	// HTTP
	get := func(name string, s []byte) { add(name, "none", s) }
	get("get-plain", c09Get([]string{"GET / HTTP/1.1", "Host: example.com", "User-Agent: curl/8.0"}))
	get("get-plain+body", append(c09Get([]string{"GET /a HTTP/1.1", "Host: h"}), rng.Bytes(500)...))
	get("get-shortest", []byte("G\r\n"))
	get("get-shortest+tail", append([]byte("G\r\n"), rng.Bytes(40)...))
	get("get-bare-lf", []byte("GET / HTTP/1.1\nHost: h\n\n"))
	get("get-no-blank-line", []byte("GET / HTTP/1.1\r\nHost: h\r\n"))
	get("get-http09", []byte("GET /\r\n\r\n"))
	get("get-hidden-short", c09Get([]string{"GET / HTTP/1.1", "Host: h", "hidden: " + base64.StdEncoding.EncodeToString(rng.Bytes(20))}))
	get("get-hidden-not-base64", c09Get([]string{"GET / HTTP/1.1", "Host: h", "hidden: ***"}))
	get("get-hidden-bogus-96", c09Get([]string{"GET / HTTP/1.1", "Host: h", "hidden: " + base64.StdEncoding.EncodeToString(rng.Bytes(96))}))
	get("get-hidden-bogus-97", c09Get([]string{"GET / HTTP/1.1", "Host: h", "hidden: " + base64.StdEncoding.EncodeToString(rng.Bytes(97))}))
	get("get-hidden-twice", c09Get([]string{"GET / HTTP/1.1", "Host: h", "hidden: " + base64.StdEncoding.EncodeToString(rng.Bytes(96)), "hidden: x"}))
	get("get-malformed-request-line", c09Get([]string{"GET", "Host: h"}))
	get("get-binary-header", append(append([]byte("GET / HTTP/1.1\r\nX: "), rng.Bytes(60)...), []byte("\r\n\r\n")...))
	for _, n := range []int{c09Buf - 2, c09Buf - 1, c09Buf, c09Buf + 1, c09Buf + 2} {
		get(fmt.Sprintf("get-blank-line-at-%d", n), append(c09GetSized(n, "", rng), rng.Bytes(30)...))
	}
	get("get-one-endless-line", append([]byte("GET /"), bytes.Repeat([]byte("a"), c09Buf+500)...))
	get("get-endless-line-exactly-buffer", append([]byte("GET /"), bytes.Repeat([]byte("a"), c09Buf-5)...))
	get("get-many-lines-no-end", bytes.Repeat([]byte("GET / HTTP/1.1\r\nA: b\r\n"), 200))
	for _, cl := range []string{"uid", "method", "replay", "window", "badkey", "encmethod"} {
		hid := base64.StdEncoding.EncodeToString(c09Hidden(c09HelloOf(cl, rng)))
		out = append(out, c09Base{name: "get-hidden-genuine-" + cl, class: cl, replay: cl == "replay",
			stream: c09Get([]string{"GET / HTTP/1.1", "Host: d2jkinvisak5y9.cloudfront.net", "Upgrade: websocket", "Connection: Upgrade",
				"Sec-WebSocket-Key: dGhlIHNhbXBsZSBub25jZQ==", "Sec-WebSocket-Version: 13", "hidden: " + hid})})
	}
	// random bytes
	n := 30
	if thorough {
		n = 300
	}
	for i := 0; i < n; i++ {
		s := rng.Bytes(1 + rng.Intn(4500))
		switch i % 5 {
		case 1:
			s[0] = 0x16
		case 2:
			s[0] = 0x47
		case 3:
			s[0] = 0x16
			if len(s) > 4 {
				s[1], s[2], s[3] = 3, 1, byte(rng.Intn(12))
			}
		}
		add(fmt.Sprintf("random-%d", i), "garbage", s)
	}
	return out
}

func c09CutsFor(n int, thorough bool) []int {
	var cuts []int
	seen := map[int]bool{}
	addc := func(c int) {
		if c >= 1 && c < n && !seen[c] {
			seen[c] = true
			cuts = append(cuts, c)
		}
	}
	for _, c := range []int{1, 2, 3, 4, 5, 6, 9, 10, 11, 43, 44, 76, 77, n - 2, n - 1, c09Buf - 1, c09Buf, c09Buf + 1, 2999, 3000, 3001} {
		addc(c)
	}
	if n <= 600 {
		step := 7
		if thorough {
			step = 1
		}
		for c := 1; c < n; c += step {
			addc(c)
		}
	}
	return cuts
}

func TestVerifC09Explore(t *testing.T) {
	c09Quiet()
	c09CheckBuf(t)
	res := c09Res
	defer func() { res.Save(true) }()
	thorough := kit.Thorough()
	rng := kit.NewRng(kit.Seed() + 909)
	pool := &c09Pool{res: res, inflight: map[int]any{}, started: map[int]time.Time{}}
	stop := make(chan struct{})
	go pool.watchdog(time.Duration(kit.EnvInt("VERIF_C09_WATCHDOG_S", 240))*time.Second, stop)
	defer close(stop)
	scripts := []string{"silent", "banner", "echo", "close"}
	type job struct {
		family string
		sc     *c09Scenario
	}
	var jobs []job
	k := 0
	mk := func(family, label, class string, stream []byte, steps []c09Step, replay bool) {
		k++
		down := "up"
		switch k % 23 {
		case 7:
			down = "refuse"
		case 15:
			down = "closeatonce"
		}
		jobs = append(jobs, job{family, &c09Scenario{Label: label, StreamHex: hex.EncodeToString(stream), stream: stream, Steps: steps,
			Script: scripts[k%4], Down: down, Class: class, PresentFirst: replay}})
	}
	whole := func(n int) []c09Step { return []c09Step{{A: "Deliver", Upto: n}, {A: "Timeout"}} }
	// F1: every first byte
	for b := 0; b < 256; b++ {
		for _, tail := range []int{0, 4, 60} {
			s := append([]byte{byte(b)}, rng.Bytes(tail)...)
			mk("first-byte", fmt.Sprintf("first byte %#02x + %d random bytes", b, tail), "garbage", s, whole(len(s)), false)
		}
	}
	corpus := c09Corpus(rng, thorough)
	for _, c := range corpus {
		n := len(c.stream)
		// F2: in one piece, then the deadline; in one piece, then the peer hangs up
		mk("whole", c.name, c.class, c.stream, whole(n), c.replay)
		mk("whole", c.name+" then close", c.class, c.stream, []c09Step{{A: "Deliver", Upto: n}, {A: "PeerClose"}, {A: "Timeout"}}, c.replay)
		// F3: two segments at every cut position (quick: every 7th and all boundaries), with and without a stall in between
		for i, cut := range c09CutsFor(n, thorough) {
			steps := []c09Step{{A: "Deliver", Upto: cut}, {A: "Deliver", Upto: n}, {A: "Timeout"}}
			if i%5 == 4 {
				steps = []c09Step{{A: "Deliver", Upto: cut}, {A: "Timeout"}, {A: "Deliver", Upto: n}}
			}
			if i%11 == 10 {
				steps = []c09Step{{A: "Deliver", Upto: cut}, {A: "PeerClose"}, {A: "Timeout"}}
			}
			mk("two-segments", fmt.Sprintf("%s cut at %d", c.name, cut), c.class, c.stream, steps, c.replay)
		}
		// F4: random multi-cuts
		rounds := 2
		if thorough {
			rounds = 12
		}
		for r := 0; r < rounds && n > 3; r++ {
			var steps []c09Step
			pos := 0
			for pos < n {
				step := 1 + rng.Intn(1+n/(1+rng.Intn(6)))
				pos += step
				if pos > n {
					pos = n
				}
				steps = append(steps, c09Step{A: "Deliver", Upto: pos})
			}
			steps = append(steps, c09Step{A: "Timeout"})
			mk("multi-segments", fmt.Sprintf("%s in %d segments", c.name, len(steps)-1), c.class, c.stream, steps, c.replay)
		}
	}
	// F4b: structured mutations of every extension of an unauthorised user's hello (never to be served, never to crash)
	for _, b := range []string{"firefox", "chrome", "safari"} {
		h := c09Hello(c09HelloOpt{Browser: b, UID: c09UIDunknown, Method: "echo", Enc: -1})
		for _, mu := range c09StructMutants(h, thorough) {
			mk("structured-hello", b+" hello, "+mu.label, "uid", mu.stream, whole(len(mu.stream)), false)
		}
	}
	// F5: every truncation and single-byte mutation of Cloak hellos of a user that is NOT authorised (no altered
	// copy may ever be accepted), and every truncation of an authorised one
	for _, b := range []string{"firefox", "chrome", "safari"} {
		hUn := c09Hello(c09HelloOpt{Browser: b, UID: c09UIDunknown, Method: "echo", Enc: -1})
		hOk := c09Hello(c09HelloOpt{Browser: b, UID: c09UIDok, Method: "echo", Enc: -1})
		step := 7
		if thorough {
			step = 1
		}
		for cut := 1; cut < len(hOk); cut += step {
			mk("truncated-hello", fmt.Sprintf("authorised %s hello truncated to %d of %d", b, cut, len(hOk)), "garbage", hOk[:cut], whole(cut), false)
		}
		for _, cut := range []int{1, 4, 5, 6, len(hOk) - 1} {
			mk("truncated-hello", fmt.Sprintf("authorised %s hello truncated to %d of %d", b, cut, len(hOk)), "garbage", hOk[:cut], whole(cut), false)
		}
		muts := 150
		if thorough {
			muts = len(hUn) * 2
		}
		for i := 0; i < muts; i++ {
			m := append([]byte{}, hUn...)
			pos := rng.Intn(len(m))
			if thorough && i < len(hUn) {
				pos = i
			}
			old := m[pos]
			for m[pos] == old {
				m[pos] = byte(rng.Intn(256))
			}
			if i%3 == 0 {
				m[pos] = old ^ (1 << uint(rng.Intn(8)))
			}
			mk("mutated-hello", fmt.Sprintf("unauthorised %s hello, byte %d: %#02x -> %#02x", b, pos, old, m[pos]), "uid", m, whole(len(m)), false)
		}
	}
	// F6: one State, two listeners, RedirAddr with and without a port: a sequence of unauthenticated connections
	// alternating between the listeners (A, B, A, B ...); every member of the sequence is judged in its own run with
	// the earlier ones replayed first.  Each peer must reach the target of ITS OWN port when RedirAddr has none.
	for _, noPort := range []bool{true, false} {
		for _, startPort := range []int{443, 80} {
			for length := 1; length <= 5; length++ {
				var priors []int
				port := startPort
				for i := 1; i < length; i++ {
					priors = append(priors, port)
					port = 443 + 80 - port
				}
				for ci, c := range corpus {
					if !(strings.HasPrefix(c.name, "get-plain") || strings.HasSuffix(c.name, "-unauthorised") || strings.HasSuffix(c.name, "-foreign") ||
						c.name == "record-declared-65535-present-1" || c.name == "random-0") {
						continue
					}
					mk("port-sequence", fmt.Sprintf("%s as connection %d of a sequence alternating between ports %d and %d", c.name, length, startPort, 443+80-startPort),
						c.class, c.stream, whole(len(c.stream)), c.replay)
					j := jobs[len(jobs)-1].sc
					j.NoRedirPort, j.LocalPort, j.Priors = noPort, port, append([]int{}, priors...)
					if ci%2 == 0 {
						j.Script, j.Down = "banner", "up"
					} else {
						j.Script, j.Down = "echo", "up"
					}
				}
			}
		}
	}
	// control: an authorised, fresh handshake is served (the rig can tell the difference)
	for _, b := range []string{"firefox", "chrome", "safari"} {
		h := c09Hello(c09HelloOpt{Browser: b, UID: c09UIDok, Method: "echo", Enc: -1})
		mk("control-accept", "authorised "+b+" hello", "ok", h, whole(len(h)), false)
		h2 := c09Hello(c09HelloOpt{Browser: b, UID: c09UIDnosesh, Method: "echo", Enc: -1})
		mk("control-hang", "authenticated "+b+" hello, session refused", "nosession", h2, whole(len(h2)), false)
	}
	if lim := kit.EnvInt("VERIF_C09_MAX", 0); lim > 0 && lim < len(jobs) {
		jobs = jobs[:lim]
	}
	ch := make(chan int, len(jobs))
	for i := range jobs {
		ch <- i
	}
	close(ch)
	t0 := time.Now()
	var accepted, hung atomic.Int32
	t.Run("bubbles", func(t *testing.T) {
		for w := 0; w < c09Workers(); w++ {
			t.Run(fmt.Sprintf("w%d", w), func(t *testing.T) {
				t.Parallel()
				for i := range ch {
					j := jobs[i]
					if res.NumViolations() > 60 {
						continue
					}
					pool.begin(w, map[string]any{"test": "TestVerifC09Explore", "index": i, "family": j.family, "scenario": j.sc})
					r := c09Run(t, j.sc)
					pool.end(w)
					ok, _, kind := c09Ref(j.sc.stream)
					sig := fmt.Sprintf("%s/%s/%s/%s/%s/%d", j.family, j.sc.Class, kind, j.sc.Script, j.sc.Down, len(j.sc.Steps))
					if j.family == "first-byte" || j.family == "truncated-hello" || j.family == "mutated-hello" || j.family == "structured-hello" {
						sig += "/" + j.sc.Label
					}
					pool.record(j.sc, r, j.family, ok && !c09Authenticated(j.sc.Class), sig)
					if j.family == "control-accept" && r.Outcome == "accept" {
						accepted.Add(1)
					}
					if j.family == "control-hang" && r.Outcome == "hang" {
						hung.Add(1)
					}
					if i%1777 == 3 {
						res.Sample(map[string]any{"family": j.family, "label": j.sc.Label, "class": j.sc.Class, "stream_bytes": len(j.sc.stream),
							"steps": j.sc.Steps, "script": j.sc.Script, "down": j.sc.Down, "observed": r.Snaps}, 8)
					}
				}
			})
		}
	})
	res.Stat("control_accepted", int64(accepted.Load()))
	res.Stat("control_hung", int64(hung.Load()))
	res.Stat("explore_scenarios", int64(len(jobs)))
	res.Stat("explore_wall_ms", time.Since(t0).Milliseconds())
}

// ------------------------------------------------------------------- concurrent presentations

type c09ConcTarget struct {
	mu    sync.Mutex
	conns []net.Conn
	recv  [][]byte
}

type c09ConcDialer struct {
	tn *kit.VNet
	tg *c09ConcTarget
}

func (d *c09ConcDialer) Dial(network, address string) (net.Conn, error) {
	l := d.tn.NewLink(false, false)
	d.tg.mu.Lock()
	idx := len(d.tg.conns)
	d.tg.conns = append(d.tg.conns, l.End(1))
	d.tg.recv = append(d.tg.recv, nil)
	d.tg.mu.Unlock()
	go func() { // a silent target: whatever reaches the peer did not come from here
		buf := make([]byte, 8192)
		for {
			n, err := l.End(1).Read(buf)
			d.tg.mu.Lock()
			d.tg.recv[idx] = append(d.tg.recv[idx], buf[:n]...)
			d.tg.mu.Unlock()
			if err != nil {
				return
			}
		}
	}()
	return l.End(0), nil
}

// TestVerifC09Concurrent: ONE valid, fresh hello of an authorised user arrives on N = 2..12 connections at the same
// moment (real goroutines released by a barrier, real clock, no bubble).  Only one of them can be the fresh
// presentation; every other one is a replay, i.e. a peer the statement is about: it must be relayed byte-exactly and
// must not get a byte made by the server.  The redirect target is silent, so any byte a peer receives is the server's.
func TestVerifC09Concurrent(t *testing.T) {
	c09Quiet()
	res := c09Res
	defer func() { res.Save(true) }()
	rounds := kit.EnvInt("VERIF_C09_ROUNDS", 400)
	if kit.Thorough() {
		rounds = kit.EnvInt("VERIF_C09_ROUNDS", 4000)
	}
	t0 := time.Now()
	browsers := []string{"firefox", "safari", "chrome"}
	for r := 0; r < rounds && res.NumViolations() < 20; r++ {
		n := 2 + r%11
		hello := c09Hello(c09HelloOpt{Browser: browsers[r%3], UID: c09UIDok, Method: "echo", Enc: -1, Real: true})
		vn, tn := kit.NewVNet(), kit.NewVNet()
		tg := &c09ConcTarget{}
		proxyL := tn.Listen()
		go func() {
			for {
				c, err := proxyL.Accept()
				if err != nil {
					return
				}
				go func() { io.Copy(io.Discard, c); c.Close() }()
			}
		}()
		sta := c09NewState(&c09ConcDialer{tn: tn, tg: tg}, proxyL)
		peers := make([]net.Conn, n)
		got := make([][]byte, n)
		var gmu sync.Mutex
		var crashed atomic.Int32
		var crashKey, crashWhat atomic.Value
		start := make(chan struct{})
		var ready, done sync.WaitGroup
		for i := 0; i < n; i++ {
			l := vn.NewLink(false, false)
			peers[i] = l.End(0)
			peers[i].Write(hello) // already in the socket buffer when the handler starts
			go func(i int) {
				buf := make([]byte, 4096)
				for {
					k, err := peers[i].Read(buf)
					gmu.Lock()
					got[i] = append(got[i], buf[:k]...)
					gmu.Unlock()
					if err != nil {
						return
					}
				}
			}(i)
			ready.Add(1)
			done.Add(1)
			go func(c net.Conn) {
				defer done.Done()
				defer func() {
					if rec := recover(); rec != nil {
						k, where := c09CrashSite()
						crashKey.Store(k)
						crashWhat.Store(fmt.Sprintf("%v at %s", rec, where))
						crashed.Add(1)
					}
				}()
				ready.Done()
				<-start
				dispatchConnection(c, sta)
			}(l.End(1))
		}
		ready.Wait()
		close(start)
		// settle: every connection is either answered by the server or has its whole hello at the target
		served, relayed, garbled := 0, 0, 0
		deadline := time.Now().Add(10 * time.Second)
		for {
			served, relayed, garbled = 0, 0, 0
			gmu.Lock()
			for i := range got {
				if len(got[i]) > 0 {
					served++
				}
			}
			gmu.Unlock()
			tg.mu.Lock()
			for _, b := range tg.recv {
				switch {
				case bytes.Equal(b, hello):
					relayed++
				case !bytes.HasPrefix(hello, b):
					garbled++
				}
			}
			tg.mu.Unlock()
			if served+relayed+int(crashed.Load()) >= n || time.Now().After(deadline) {
				break
			}
			time.Sleep(200 * time.Microsecond)
		}
		time.Sleep(300 * time.Microsecond) // a late second answer would show up here
		gmu.Lock()
		served = 0
		for i := range got {
			if len(got[i]) > 0 {
				served++
			}
		}
		gmu.Unlock()
		replay := map[string]any{"kind": "concurrent", "connections": n, "round": r, "browser": browsers[r%3], "served": served, "relayed": relayed,
			"hello_hex": hex.EncodeToString(hello)}
		res.Count(fmt.Sprintf("concurrent/%d/%s", n, browsers[r%3]), true)
		res.Stat("concurrent_rounds", 1)
		res.Stat(fmt.Sprintf("concurrent_served_%d", served), 1)
		switch {
		case crashed.Load() > 0:
			res.Violate(crashKey.Load().(string), "dispatchConnection panicked while one valid hello was presented on "+fmt.Sprint(n)+" connections at once: "+crashWhat.Load().(string), replay)
		case served > 1:
			res.Violate("relay:replayed-hello-served", fmt.Sprintf("one valid, fresh hello presented on %d connections at the same moment: %d of them were answered with a ServerHello (server-made bytes), "+
				"%d were relayed to the redirect target; at most one presentation is fresh, every other one is a replay and must be relayed byte for byte", n, served, relayed), replay)
		case garbled > 0:
			res.Violate("relay:target-not-prefix", fmt.Sprintf("%d of %d simultaneous presentations reached the target with bytes that are not a prefix of the hello", garbled, n), replay)
		case served+relayed < n:
			res.Stat("concurrent_unsettled", 1)
			res.Note("concurrent round %d: %d connections, %d served, %d relayed after 10 s", r, n, served, relayed)
		}
		for _, p := range peers {
			p.Close()
		}
		tg.mu.Lock()
		for _, c := range tg.conns {
			c.Close()
		}
		tg.mu.Unlock()
		proxyL.Close()
		done.Wait()
	}
	res.Stat("concurrent_wall_ms", time.Since(t0).Milliseconds())
}

// ------------------------------------------------------------------------------------------- replay

func c09ReplayFile(t *testing.T, path string) {
	raw, err := os.ReadFile(path)
	if err != nil {
		t.Fatal(err)
	}
	var rf struct {
		Replay json.RawMessage `json:"replay"`
	}
	if err := json.Unmarshal(raw, &rf); err != nil {
		t.Fatal(err)
	}
	var one struct {
		Scenario *c09Scenario `json:"scenario"`
		InFlight []struct {
			Scenario *c09Scenario `json:"scenario"`
		} `json:"in_flight"`
	}
	if err := json.Unmarshal(rf.Replay, &one); err != nil {
		t.Fatal(err)
	}
	var scs []*c09Scenario
	if one.Scenario != nil {
		scs = append(scs, one.Scenario)
	}
	for _, f := range one.InFlight {
		if f.Scenario != nil {
			scs = append(scs, f.Scenario)
		}
	}
	for _, sc := range scs {
		fmt.Printf("REPLAY %s: %d bytes, script %s, target %s, class %s, steps %+v\n", sc.Label, len(sc.bytes()), sc.Script, sc.Down, sc.Class, sc.Steps)
		r := c09Run(t, sc)
		for _, s := range r.Snaps {
			b, _ := json.Marshal(s)
			fmt.Println("  ", string(b))
		}
		fmt.Printf("REPLAY-RESULT key=%q what=%q\n", r.Key, r.What)
	}
}
