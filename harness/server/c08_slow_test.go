package server

// C08 with a SLOW first packet (the ReplayCache model treats a presentation as one instant; the dispatcher does not:
// readFirstPacket may take up to its 15 s time-out, and the cache may be swept meanwhile).  A recorded handshake of a
// client whose clock runs 175 s fast is accepted at T0; the replayer connects at T0+352 s (the stamp is still inside the
// window), sends six bytes and stalls; the real cleaner sweeps at T0+362 s (the entry of T0 is old enough to go); the
// rest arrives at T0+363 s, when the stamp is outside the window.  Whatever the dispatcher judges the window by, the
// replay must not be answered.  Real dispatchConnection, real UsedRandomCleaner, virtual clock (synctest).

import (
	"bytes"
	"crypto/rand"
	"fmt"
	"net"
	"testing"
	"testing/synctest"
	"time"

	"github.com/cbeuw/Cloak/internal/common"
	"github.com/cbeuw/Cloak/internal/server/usermanager"
	kit "github.com/cbeuw/Cloak/internal/verifkit"
)

func TestVerifC08SlowPacket(t *testing.T) {
	c08Quiet()
	res := kit.NewResult()
	defer func() { res.Save(true) }()
	c08InstallCleanerExit()
	period := replayCacheAgeLimit
	const marker = "HTTP/1.1 418 c08-redirect-target\r\n\r\n"
	type scen struct {
		skew, connectAt, sweepAt, restAt int // seconds after T0
		head                            int // bytes sent before the stall
	}
	scens := []scen{{175, 352, 362, 363, 6}, {179, 356, 362, 364, 1}, {170, 348, 362, 362, 40}, {175, 352, 362, 366, 300}}
	for si, sc := range scens {
		synctest.Test(t, func(t *testing.T) {
			epoch := time.Now()
			c08Epoch.Store(epoch.UnixNano())
			vn := kit.NewVNet()
			redirL := vn.Listen()
			go func() {
				for {
					c, err := redirL.Accept()
					if err != nil {
						return
					}
					go func(c net.Conn) {
						buf := make([]byte, 4096)
						c.SetReadDeadline(time.Now().Add(5 * time.Second))
						c.Read(buf)
						c.Write([]byte(marker))
						c.Close()
					}(c)
				}
			}()
			uid := []byte("verif-c08-uid-16")
			var arr [16]byte
			copy(arr[:], uid)
			sta := &State{
				ProxyBook: map[string]net.Addr{"shadowsocks": nil}, ProxyDialer: vn.Listen(),
				WorldState: common.WorldState{Rand: rand.Reader, Now: time.Now},
				BypassUID:  map[[16]byte]struct{}{arr: {}}, StaticPv: c08GetKeys().pv,
				RedirHost:  &net.IPAddr{IP: net.IPv4(127, 0, 0, 1)}, RedirPort: "80", RedirDialer: redirL,
				UsedRandom: map[[32]byte]int64{},
				Panel: &userPanel{Manager: &usermanager.Voidmanager{}, activeUsers: make(map[[16]byte]*ActiveUser),
					usageUpdateQueue: make(map[[16]byte]*usagePair), uploadInterval: defaultUploadInterval},
			}
			go sta.UsedRandomCleaner() // sweeps at epoch + period
			fire := epoch.Add(period)
			t0 := fire.Add(-time.Duration(sc.sweepAt) * time.Second)
			time.Sleep(time.Until(t0))
			p, err := c08MakePacket("TLS", func() time.Time { return time.Now().Add(time.Duration(sc.skew) * time.Second) })
			if err != nil {
				t.Fatal(err)
			}
			_, _, err = AuthFirstPacket(p.raw, TLS{}, sta)
			first := err == nil
			_, _, err = AuthFirstPacket(p.raw, TLS{}, sta)
			immediate := err == nil
			// the slow replay
			time.Sleep(time.Until(t0.Add(time.Duration(sc.connectAt) * time.Second)))
			link := vn.NewLink(false, false)
			go dispatchConnection(link.End(1), sta)
			peer := link.End(0)
			head := sc.head
			if head > len(p.raw)-1 {
				head = len(p.raw) - 1
			}
			peer.Write(p.raw[:head])
			time.Sleep(time.Until(t0.Add(time.Duration(sc.restAt) * time.Second)))
			peer.Write(p.raw[head:])
			peer.SetReadDeadline(time.Now().Add(20 * time.Second))
			buf := make([]byte, 512)
			n, _ := peer.Read(buf)
			outcome := "silent"
			switch {
			case n > 0 && bytes.HasPrefix(buf[:n], []byte("HTTP/1.1 418")):
				outcome = "redirect"
			case n >= 3 && buf[0] == 0x16 && buf[1] == 0x03:
				outcome = "reply"
			case n > 0:
				outcome = "other"
			}
			peer.Close()
			res.Count(fmt.Sprintf("slow %+v", sc), true)
			res.Stat("slow_packet_scenarios", 1)
			replay := map[string]any{"kind": "slow-first-packet", "scenario": sc, "first_accepted": first, "immediate_replay_accepted": immediate, "slow_replay": outcome}
			switch {
			case !first:
				res.Stat("slow_first_not_accepted", 1)
				res.Note("scenario %d: the genuine handshake (client clock %d s fast) was not accepted", si, sc.skew)
			case immediate:
				res.Violate("replay-same-packet", "an accepted first packet authenticated again at once", replay)
			case outcome == "reply":
				res.Violate("replay-slow-first-packet", fmt.Sprintf("a recorded handshake (client clock %d s fast, accepted at T0) was answered again: the replayer connected at T0+%d s, sent %d bytes, "+
					"stalled across the clean-up of T0+%d s and sent the rest at T0+%d s", sc.skew, sc.connectAt, head, sc.sweepAt, sc.restAt), replay)
			}
			redirL.Close()
			time.Sleep(period + time.Hour) // the cleaner's next firing retires it
			synctest.Wait()
		})
	}
}
