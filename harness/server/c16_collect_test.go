package server

// C16 at the grain of the collection step (spec/ValveCollect.tla): metering (valve.AddRx / AddTx, what deplex and send of
// every connection do) goes on while upload rounds collect (updateUsageQueue -> valve.Nullify) and hand the usage to the
// manager (commitUpdate -> UploadStatus); rounds overlap.  At rest everything metered must have been reported to the
// manager exactly once: the sum of the usage the manager was given equals the sum metered, per user and direction.

import (
	"fmt"
	"io"
	"sync"
	"sync/atomic"
	"testing"
	"time"

	mux "github.com/cbeuw/Cloak/internal/multiplex"
	"github.com/cbeuw/Cloak/internal/server/usermanager"
	kit "github.com/cbeuw/Cloak/internal/verifkit"
	log "github.com/sirupsen/logrus"
)

type c16SumManager struct {
	mu   sync.Mutex
	up   map[string]int64
	down map[string]int64
}

func (m *c16SumManager) AuthenticateUser([]byte) (int64, int64, error) { return 1 << 50, 1 << 50, nil }
func (m *c16SumManager) AuthoriseNewSession([]byte, usermanager.AuthorisationInfo) error {
	return nil
}
func (m *c16SumManager) UploadStatus(ups []usermanager.StatusUpdate) ([]usermanager.StatusResponse, error) {
	m.mu.Lock()
	defer m.mu.Unlock()
	for _, u := range ups {
		m.up[string(u.UID)] += u.UpUsage
		m.down[string(u.UID)] += u.DownUsage
	}
	return nil, nil
}
func (m *c16SumManager) ListAllUsers() ([]usermanager.UserInfo, error) { return nil, nil }
func (m *c16SumManager) GetUserInfo([]byte) (usermanager.UserInfo, error) {
	return usermanager.UserInfo{}, nil
}
func (m *c16SumManager) WriteUserInfo(usermanager.UserInfo) error { return nil }
func (m *c16SumManager) DeleteUser([]byte) error                  { return nil }

func TestVerifC16Collect(t *testing.T) {
	log.SetOutput(io.Discard)
	log.SetLevel(log.PanicLevel)
	res := kit.NewResult()
	defer func() { res.Save(true) }()
	rounds := 4
	dur := 600 * time.Millisecond
	if kit.Thorough() {
		rounds, dur = 12, 2*time.Second
	}
	for r := 0; r < rounds && res.NumViolations() == 0; r++ {
		mgr := &c16SumManager{up: map[string]int64{}, down: map[string]int64{}}
		panel := &userPanel{Manager: mgr, activeUsers: make(map[[16]byte]*ActiveUser),
			usageUpdateQueue: make(map[[16]byte]*usagePair), uploadInterval: defaultUploadInterval}
		nUsers := 1 + r%3
		type meter struct{ rx, tx atomic.Int64 }
		meters := make([]*meter, nUsers)
		users := make([]*ActiveUser, nUsers)
		uids := make([][]byte, nUsers)
		for i := range users {
			uids[i] = []byte(fmt.Sprintf("c16-collect-u%03d", i))
			u, err := panel.GetUser(uids[i])
			if err != nil {
				t.Fatal(err)
			}
			users[i], meters[i] = u, &meter{}
		}
		var stop atomic.Bool
		var wg sync.WaitGroup
		for i := range users {
			for g := 0; g < 3; g++ { // several connections of the user metering at once
				wg.Add(1)
				go func(i, g int) {
					defer wg.Done()
					n := int64(1 + g*7)
					for !stop.Load() {
						users[i].valve.AddRx(n)
						meters[i].rx.Add(n)
						users[i].valve.AddTx(n + 1)
						meters[i].tx.Add(n + 1)
					}
				}(i, g)
			}
		}
		var uw sync.WaitGroup
		var nrounds atomic.Int64
		for g := 0; g < 2; g++ { // overlapping upload rounds
			uw.Add(1)
			go func() {
				defer uw.Done()
				for !stop.Load() {
					panel.updateUsageQueue()
					if err := panel.commitUpdate(); err != nil {
						res.Note("commitUpdate: %v", err)
					}
					nrounds.Add(1)
				}
			}()
		}
		time.Sleep(dur)
		stop.Store(true)
		wg.Wait()
		uw.Wait()
		// at rest: one more round
		panel.updateUsageQueue()
		_ = panel.commitUpdate()
		for i := range users {
			mgr.mu.Lock()
			gu, gd := mgr.up[string(uids[i])], mgr.down[string(uids[i])]
			mgr.mu.Unlock()
			wu, wd := meters[i].rx.Load(), meters[i].tx.Load()
			for _, c := range []struct {
				dir       string
				got, want int64
			}{{"up", gu, wu}, {"down", gd, wd}} {
				if c.got != c.want {
					kind := "undercharged"
					if c.got > c.want {
						kind = "overcharged"
					}
					res.Violate("exact:"+c.dir+":collection-overlapping-traffic", fmt.Sprintf("user %d, %s: %d bytes were metered while %d upload rounds ran, the manager was told %d (%s by %d)",
						i, c.dir, c.want, nrounds.Load(), c.got, kind, abs64(c.got-c.want)), map[string]any{"round": r, "users": nUsers, "metered": c.want, "reported": c.got})
				}
			}
		}
		res.Count(fmt.Sprintf("round %d users %d", r, nUsers), true)
		res.Stat("collect_rounds", nrounds.Load())
		var tot int64
		for i := range meters {
			tot += meters[i].rx.Load() + meters[i].tx.Load()
		}
		res.Stat("metered_bytes", tot)
		if r == 0 {
			res.Sample(map[string]any{"users": nUsers, "upload_rounds": nrounds.Load(), "metered_bytes": tot}, 1)
		}
	}
}

func abs64(x int64) int64 {
	if x < 0 {
		return -x
	}
	return x
}

// TestVerifC16Orphan: usage metered on a session that lives on a record the panel has already forgotten (the lookup gap of
// known finding D9: a connection resolved its ActiveUser just before the user's last session closed) must still be charged,
// once, when that session ends.  Sequential calls, the interleaving is fixed by their order.
func TestVerifC16Orphan(t *testing.T) {
	log.SetOutput(io.Discard)
	log.SetLevel(log.PanicLevel)
	res := kit.NewResult()
	defer func() { res.Save(true) }()
	for r := 0; r < 6; r++ {
		mgr := &c16SumManager{up: map[string]int64{}, down: map[string]int64{}}
		panel := &userPanel{Manager: mgr, activeUsers: make(map[[16]byte]*ActiveUser),
			usageUpdateQueue: make(map[[16]byte]*usagePair), uploadInterval: defaultUploadInterval}
		uid := []byte(fmt.Sprintf("c16-orphan-u%04d", r))
		var key [32]byte
		obfs, err := mux.MakeObfuscator(mux.EncryptionMethodPlain, key)
		if err != nil {
			t.Fatal(err)
		}
		cfg := mux.SessionConfig{Obfuscator: obfs, MsgOnWireSizeLimit: appDataMaxLength}
		a, err := panel.GetUser(uid) // connection 1 resolves the user ...
		if err != nil {
			t.Fatal(err)
		}
		if _, _, err := a.GetSession(1, cfg); err != nil {
			t.Fatal(err)
		}
		b, err := panel.GetUser(uid) // connection 2 resolves the same record ...
		if err != nil {
			t.Fatal(err)
		}
		var up1, dn1 int64 = int64(100 + r), int64(200 + r)
		a.valve.AddRx(up1)
		a.valve.AddTx(dn1)
		if r%2 == 1 { // a round in between collects what session 1 carried
			panel.updateUsageQueue()
			_ = panel.commitUpdate()
		}
		a.CloseSession(1, "") // ... the user's last session ends: the record is terminated and forgotten
		if _, _, err := b.GetSession(2, cfg); err != nil { // ... and connection 2 creates its session on that record
			res.Note("round %d: GetSession on the terminated record refused: %v", r, err)
			res.Count(fmt.Sprintf("orphan %d refused", r), true)
			continue
		}
		var up2, dn2 int64 = int64(3000 + r), int64(7000 + r)
		b.valve.AddRx(up2)
		b.valve.AddTx(dn2)
		b.CloseSession(2, "")
		panel.updateUsageQueue()
		_ = panel.commitUpdate()
		panel.updateUsageQueue()
		_ = panel.commitUpdate()
		mgr.mu.Lock()
		gu, gd := mgr.up[string(uid)], mgr.down[string(uid)]
		mgr.mu.Unlock()
		// the closing notices of the two sessions are metered as download on top (no connection: nothing is sent, nothing metered)
		for _, c := range []struct {
			dir       string
			got, want int64
		}{{"up", gu, up1 + up2}, {"down", gd, dn1 + dn2}} {
			if c.got != c.want {
				res.Violate("exact:"+c.dir+":session-on-forgotten-record", fmt.Sprintf("a session created on a record the panel had just forgotten carried %d bytes (%s) after %d on the user's previous session; at rest the manager was told %d, not %d",
					map[string]int64{"up": up2, "down": dn2}[c.dir], c.dir, map[string]int64{"up": up1, "down": dn1}[c.dir], c.got, c.want), map[string]any{"round": r, "reported": c.got, "metered": c.want})
			}
		}
		res.Count(fmt.Sprintf("orphan %d", r), true)
	}
}
