package server

// Shared driver of C15, C16 and C17 (spec/UserPanel.tla): a real userPanel (built literally, without the
// ticker goroutine), the real usermanager.localManager on a bolt file, real mux sessions whose connections
// are message-mode verifkit links, so that traffic crosses switchboard.send / deplex and is metered by the
// user's valve.
//
// TestVerifPanelReplay (B1) replays behaviours exported by TLC from spec/UserPanelGen.tla. A behaviour is a
// program (goroutines: connection admissions, session reaping, updateUsageQueue, commitUpdate) and a
// sequence of environment steps. "go p" releases goroutine p from the labelled schedule point it is parked
// at; it then runs until it parks at the next enabled point (verifhook callback = gate), returns, or blocks
// on a panel lock that a parked goroutine holds (found by reading the goroutine dump twice). So the
// interleaving of critical sections is exactly the one TLC chose. After every step the observable state
// (who is parked/blocked/done and where, activeUsers, every session handed out: live / reachable from the
// panel / key, database records) is compared with the model's expectation.
//   - a mismatch that does not break a property predicate is a divergence (model drift, never a verdict);
//   - the property predicates are evaluated on what the real code shows; their keys name the predicate and,
//     when the model (which carries the deviations the code is known to have) predicts the same failure,
//     the model's explanation of it (e.g. owned:lookup-gap-vs-terminate).
// Connection admission mirrors dispatcher.go:231-252 (GetUser; hook dispatch.user.resolved; GetSession; on
// error CloseSession; reply key = sesh.GetSessionKey(); AddConnection) - dispatchConnection itself needs a
// full client hello and offers no place to park between its steps other than the same hook.

import (
	"bytes"
	"encoding/json"
	"fmt"
	"io"
	"os"
	"path/filepath"
	"regexp"
	"runtime"
	"sort"
	"strconv"
	"strings"
	"sync"
	"sync/atomic"
	"testing"
	"time"

	"github.com/cbeuw/Cloak/internal/common"
	mux "github.com/cbeuw/Cloak/internal/multiplex"
	"github.com/cbeuw/Cloak/internal/server/usermanager"
	"github.com/cbeuw/Cloak/internal/verifhook"
	kit "github.com/cbeuw/Cloak/internal/verifkit"
	log "github.com/sirupsen/logrus"
)

// ------------------------------------------------------------------------------------------ input

type panelOp struct {
	K string `json:"k"`
	U int    `json:"u"`
	S int    `json:"s"`
}

type panelEv struct {
	A string `json:"a"`
	P int    `json:"p"`
	O int    `json:"o"`
	D string `json:"d"`
	U int    `json:"u"`
}

type panelAmt struct {
	Rx int64 `json:"rx"`
	Tx int64 `json:"tx"`
	Nt []int `json:"nt"` // sessions whose closing notice is part of the amount
}

type panelStatus struct {
	K string   `json:"k"`
	H string   `json:"h"`
	W []string `json:"w"`
}

type panelRes struct {
	T string `json:"t"`
	O int    `json:"o"`
}

type panelObjObs struct {
	U    int    `json:"u"`
	S    int    `json:"s"`
	R    int    `json:"r"`
	K    int    `json:"k"`
	Live bool   `json:"live"`
	Own  bool   `json:"own"`
	Why  string `json:"why"`
	Cut  bool   `json:"cut"`
}

type panelDbObs struct {
	X    bool     `json:"x"`
	E    bool     `json:"e"`
	C    panelAmt `json:"c"`
	Auth bool     `json:"auth"`
}

type panelObs struct {
	St    []panelStatus `json:"st"`
	Res   []panelRes    `json:"res"`
	Act   []int         `json:"act"`
	Obj   []panelObjObs `json:"obj"`
	Ent   []int         `json:"ent"`
	Ruid  []int         `json:"ruid"`
	Term  []bool        `json:"term"`
	Db    []panelDbObs  `json:"db"`
	Rest  []bool        `json:"rest"`
	Car   []panelAmt    `json:"car"`
	Chg   []panelAmt    `json:"chg"`  // usage contained in completed uploads (units, notices by session)
	Lost  []panelAmt    `json:"lost"` // crossed a pool after the final collection of its record
	Drp   []panelAmt    `json:"drp"`  // uploaded for a user that no longer exists
	Upl   []bool        `json:"upl"`  // per user: nothing left in the active valve, the queue or in flight
	Evt   []bool        `json:"evt"`  // per user: has been terminated at least once
	Multi []bool        `json:"multi"` // commitUpdate has verdicts for several users: its terminations do not park
	Quiet bool          `json:"quiet"`
	Dead  bool          `json:"dead"`
}

type panelStep struct {
	Ev  panelEv  `json:"ev"`
	Obs panelObs `json:"obs"`
}

type panelCfg struct {
	Name    string   `json:"name"`
	NU      int      `json:"nu"`
	Caps    []int    `json:"caps"`  // per user
	Creds   []int    `json:"creds"` // per user, in units
	Init    []int    `json:"init"`  // u*10+sid, sorted
	Gates   []string `json:"gates"`
	Mode    string   `json:"mode"` // "strict": the model is the code's; "probe": only the schedule is used
	Traffic bool     `json:"traffic"`
	Dev     []string `json:"dev"`
}

type panelBehaviour struct {
	Cfg   panelCfg    `json:"cfg"`
	Prog  []panelOp   `json:"prog"`
	Steps []panelStep `json:"steps"`
}

// ------------------------------------------------------------------------------------------ world

const (
	panelUnit     = 4096 // nominal bytes per traffic unit (credits are seeded in multiples of it)
	panelPayload  = 4000
	panelTopUpK   = 2
	panelBigRate  = int64(1) << 40
	panelHugeCred = int64(1) << 50
)

var panelHookNames = map[string]string{
	"dispatch.user.resolved":     "resolved",
	"user.getsession.miss":       "miss",
	"user.closesession.unlocked": "unlocked",
	"panel.terminate.queued":     "queued",
	"panel.terminate.closed":     "closed",
	"panel.update.lockedA":       "lockedA",
	"panel.commit.lockedQ":       "lockedQ",
	"panel.commit.collected":     "collected",
}

// panelMgr wraps the real manager: AuthenticateUser becomes a schedule point ("auth": inside GetUser, between the
// look-up and the store). On the unchanged tree the caller parks there holding activeUsersM, so a second first
// connection of the same user blocks on the lock instead of reaching the point - which is what the hypothesis
// schedules of the deviation GetUserCheckThenAct find out.
type panelMgr struct {
	usermanager.UserManager
	w *panelWorld
}

func (m panelMgr) AuthenticateUser(uid []byte) (int64, int64, error) {
	if m.w.trace == nil {
		if v, ok := m.w.byGoid.Load(panelGoid()); ok {
			m.w.at(v.(*panelProc), "auth", nil)
		}
	}
	return m.UserManager.AuthenticateUser(uid)
}

type panelEnv struct {
	mgr   usermanager.UserManager
	now   atomic.Int64
	rng   *kit.Rng
	dir   string
	close func()
}

func panelNewEnv(t *testing.T) *panelEnv {
	log.SetOutput(io.Discard)
	log.SetLevel(log.PanicLevel)
	e := &panelEnv{rng: kit.NewRng(kit.Seed())}
	base := ""
	if st, err := os.Stat("/dev/shm"); err == nil && st.IsDir() {
		base = "/dev/shm"
	}
	dir, err := os.MkdirTemp(base, "verifpanel")
	if err != nil {
		t.Fatal(err)
	}
	e.dir = dir
	e.now.Store(1_000_000)
	world := common.WorldState{Rand: panelRand{e}, Now: func() time.Time { return time.Unix(e.now.Load(), 0) }}
	mgr, err := usermanager.MakeLocalManager(filepath.Join(dir, "userinfo.db"), world)
	if err != nil {
		t.Fatal(err)
	}
	e.mgr = mgr
	e.close = func() { mgr.Close(); os.RemoveAll(dir) }
	return e
}

type panelRand struct{ e *panelEnv }

func (r panelRand) Read(b []byte) (int, error) { copy(b, r.e.rng.Bytes(len(b))); return len(b), nil }

type panelObj struct {
	idx      int
	u        int
	sid      uint32
	rec      *ActiveUser
	sesh     *mux.Session
	key      [32]byte
	keyOwner int
	client   *mux.Session
	links    []*kit.VLink
	cs, ss   io.ReadWriteCloser
	warm     bool
	base     [2]int64 // link bytes when the behaviour starts
	units    [2]int64 // traffic units sent since then, per direction
}

type panelProc struct {
	id   int
	op   panelOp
	goid int64
	gate chan struct{}
	// driver-side view
	st    string // init, run, gate, blk, done
	hook  string
	lock  string
	fn    string
	res   string
	obj   int
	user  *ActiveUser
	panic string
	// set by the driver before it releases the goroutine: the order in which commitUpdate terminates several
	// users is the Go map's, so such a tail runs without parking (spec: multi)
	skipTerm atomic.Bool
}

type panelEvent struct {
	p    int
	kind string // gate, done
	h    string
}

type panelWorld struct {
	cfg     panelCfg
	env     *panelEnv
	panel   *userPanel
	uid     [][]byte // 1..NU
	method  byte
	vn      *kit.VNet
	mu      sync.Mutex
	recs    []*ActiveUser // index-1
	recIdx  map[*ActiveUser]int
	objs    []*panelObj
	objIdx  map[*mux.Session]int
	procs   []*panelProc // index-1
	byGoid  sync.Map
	events  chan panelEvent
	gates   map[string]bool
	gateOff atomic.Bool
	trace   func(p *panelProc, name string, args []uint64) // B2: log instead of park
	unit    int64                                          // measured bytes per traffic unit (after warm-up)
	baseCr  [][2]int64                                     // credit baseline per user (up, down)
	baseCar [][2]int64
	topReal [][2]int64
	table   []string
	dumps   []string
	inexact bool // a traffic unit went through a session whose first (padded) frames had not been sent: sizes unknown
	structOK bool // the current step agrees with the model in everything but stored credits
	prevExp  *panelObs // the model's view of the previous step
}

var panelCur atomic.Pointer[panelWorld]
var panelTok atomic.Uint32
var panelHookOnce sync.Once

func panelInstallHook() {
	panelHookOnce.Do(func() {
		log.AddHook(panelLogGate{})
		verifhook.Set(func(point string, args ...uint64) {
			name, ok := panelHookNames[point]
			if !ok {
				return
			}
			w := panelCur.Load()
			if w == nil {
				return
			}
			v, ok := w.byGoid.Load(panelGoid())
			if !ok {
				return
			}
			w.at(v.(*panelProc), name, args)
		})
	})
}

// panelLogGate makes the debug line that Session.SetTerminalMsg emits a schedule point ("closing"): CloseSession calls
// SetTerminalMsg right before Session.Close, i.e. at the moment the session has (or, with the deviation
// CloseAfterUnlock, has not) left the table and is still fully open. logrus fires hooks without holding its lock.
// closeAllSessions passes the same line; it is not a schedule point.
type panelLogGate struct{}

func (panelLogGate) Levels() []log.Level { return []log.Level{log.DebugLevel} }
func (panelLogGate) Fire(e *log.Entry) error {
	if !strings.HasPrefix(e.Message, "terminal message set to") {
		return nil
	}
	w := panelCur.Load()
	if w == nil || w.trace != nil || !w.gates["closing"] {
		return nil
	}
	v, ok := w.byGoid.Load(panelGoid())
	if !ok {
		return nil
	}
	pcs := make([]uintptr, 24)
	frames := runtime.CallersFrames(pcs[:runtime.Callers(2, pcs)])
	for {
		f, more := frames.Next()
		if strings.HasSuffix(f.Function, ".closeAllSessions") {
			return nil
		}
		if strings.HasSuffix(f.Function, ".CloseSession") {
			w.at(v.(*panelProc), "closing", nil)
			return nil
		}
		if !more {
			return nil
		}
	}
}

var panelGoidRe = regexp.MustCompile(`^goroutine (\d+) \[([^\],]+)`)

func panelGoid() int64 {
	var buf [64]byte
	n := runtime.Stack(buf[:], false)
	s := buf[:n]
	s = s[len("goroutine "):]
	i := bytes.IndexByte(s, ' ')
	id, _ := strconv.ParseInt(string(s[:i]), 10, 64)
	return id
}

func (w *panelWorld) logf(format string, a ...any) {
	w.table = append(w.table, fmt.Sprintf(format, a...))
}

// at is the schedule point: called on goroutine p at hook `name` (verifhook callback or harness gate)
func (w *panelWorld) at(p *panelProc, name string, args []uint64) {
	if w.trace != nil {
		w.trace(p, name, args)
		return
	}
	if w.gateOff.Load() || !w.gates[name] {
		return
	}
	if p.skipTerm.Load() && (name == "queued" || name == "closed") {
		return
	}
	w.events <- panelEvent{p: p.id, kind: "gate", h: name}
	<-p.gate
}

func panelNewWorld(env *panelEnv, cfg panelCfg, nproc int) (*panelWorld, error) {
	w := &panelWorld{cfg: cfg, env: env, vn: kit.NewVNet(), recIdx: map[*ActiveUser]int{}, objIdx: map[*mux.Session]int{},
		events: make(chan panelEvent, 4096), gates: map[string]bool{"start": true, "serve": true}}
	for _, g := range cfg.Gates {
		w.gates[g] = true
	}
	if w.gates["closing"] {
		log.SetLevel(log.DebugLevel) // the schedule point is a debug line; output stays discarded
	} else {
		log.SetLevel(log.PanicLevel)
	}
	w.panel = &userPanel{
		Manager:          panelMgr{env.mgr, w},
		activeUsers:      make(map[[16]byte]*ActiveUser),
		usageUpdateQueue: make(map[[16]byte]*usagePair),
		uploadInterval:   defaultUploadInterval,
	}
	w.method = []byte{mux.EncryptionMethodPlain, mux.EncryptionMethodAES256GCM, mux.EncryptionMethodChaha20Poly1305}[env.rng.Intn(3)]
	w.uid = make([][]byte, cfg.NU+1)
	w.baseCr = make([][2]int64, cfg.NU+1)
	w.baseCar = make([][2]int64, cfg.NU+1)
	w.topReal = make([][2]int64, cfg.NU+1)
	w.recs = make([]*ActiveUser, cfg.NU)
	for u := 1; u <= cfg.NU; u++ {
		w.uid[u] = env.rng.Bytes(16)
		cred := panelHugeCred
		if !cfg.Traffic {
			cred = int64(cfg.Creds[u-1]) * panelUnit
		}
		err := env.mgr.WriteUserInfo(usermanager.UserInfo{UID: w.uid[u],
			SessionsCap: usermanager.JustInt32(int32(cfg.Caps[u-1])),
			UpRate:      usermanager.JustInt64(panelBigRate), DownRate: usermanager.JustInt64(panelBigRate),
			UpCredit: usermanager.JustInt64(cred), DownCredit: usermanager.JustInt64(cred),
			ExpiryTime: usermanager.JustInt64(env.now.Load() + 1_000_000)})
		if err != nil {
			return nil, err
		}
	}
	w.unit = panelUnit
	// the sessions of InitSess, established one after the other
	for i, x := range cfg.Init {
		u, sid := x/10, uint32(x%10)
		user, err := w.panel.GetUser(w.uid[u])
		if err != nil {
			return nil, fmt.Errorf("setup GetUser(%d): %v", u, err)
		}
		w.recs[u-1] = user
		w.recIdx[user] = u
		var key [32]byte
		copy(key[:], env.rng.Bytes(32))
		sesh, existing, err := user.GetSession(sid, w.seshConfig(key))
		if err != nil || existing {
			return nil, fmt.Errorf("setup GetSession(%d,%d): %v existing=%v", u, sid, err, existing)
		}
		o := w.register(sesh, user, u, sid, key, 100+i+1)
		w.attach(o, false)
	}
	if cfg.Traffic {
		if err := w.warmup(); err != nil {
			return nil, err
		}
	}
	for u := 1; u <= cfg.NU; u++ {
		up, down, _, _ := w.dbRead(u)
		w.baseCr[u] = [2]int64{up, down}
		w.baseCar[u] = w.carriedRaw(u)
	}
	for _, o := range w.objs {
		o.base = w.linkBytes(o)
		o.units = [2]int64{}
	}
	w.inexact = false
	w.procs = make([]*panelProc, nproc)
	return w, nil
}

func (w *panelWorld) seshConfig(key [32]byte) mux.SessionConfig {
	obfs, err := mux.MakeObfuscator(w.method, key)
	if err != nil {
		panic(err)
	}
	// as dispatcher.go:193-198, plus a long inactivity timeout so that idle sessions of a long run are not reaped by the timer
	return mux.SessionConfig{Obfuscator: obfs, Valve: nil, Unordered: false, MsgOnWireSizeLimit: appDataMaxLength, InactivityTimeout: time.Hour}
}

func (w *panelWorld) register(sesh *mux.Session, user *ActiveUser, u int, sid uint32, key [32]byte, owner int) *panelObj {
	w.mu.Lock()
	defer w.mu.Unlock()
	o := &panelObj{idx: len(w.objs) + 1, u: u, sid: sid, rec: user, sesh: sesh, key: key, keyOwner: owner}
	w.objs = append(w.objs, o)
	w.objIdx[sesh] = o.idx
	return o
}

func (w *panelWorld) recOf(user *ActiveUser) int {
	w.mu.Lock()
	defer w.mu.Unlock()
	if i, ok := w.recIdx[user]; ok {
		return i
	}
	w.recs = append(w.recs, user)
	w.recIdx[user] = len(w.recs)
	return len(w.recs)
}

// attach gives the server session one more connection (the dispatcher's sesh.AddConnection(preparedConn)) and
// the client end to the peer session.
func (w *panelWorld) attach(o *panelObj, existing bool) {
	link := w.vn.NewLink(false, true)
	o.sesh.AddConnection(link.End(1))
	w.mu.Lock()
	if o.client == nil {
		obfs, _ := mux.MakeObfuscator(w.method, o.key)
		o.client = mux.MakeSession(o.sid, mux.SessionConfig{Obfuscator: obfs, InactivityTimeout: time.Hour})
	}
	o.links = append(o.links, link)
	w.mu.Unlock()
	o.client.AddConnection(link.End(0))
}

type panelDeadliner interface{ SetReadDeadline(time.Time) error }

func panelReadFull(r io.Reader, n int) error {
	if d, ok := r.(panelDeadliner); ok {
		d.SetReadDeadline(time.Now().Add(5 * time.Second))
	}
	buf := make([]byte, n)
	_, err := io.ReadFull(r, buf)
	return err
}

// unit sends one traffic unit through the session in direction d and waits until the receiving side's
// application has read it (deplex meters before it delivers).
func (w *panelWorld) unitTraffic(o *panelObj, d string) error {
	if !o.warm {
		w.inexact = true
	}
	if d == "rx" {
		atomic.AddInt64(&o.units[0], 1)
	} else {
		atomic.AddInt64(&o.units[1], 1)
	}
	payload := kit.TokenBytes(uint64(o.idx)<<32|uint64(panelTok.Add(1)), panelPayload)
	if o.cs == nil {
		s, err := o.client.OpenStream()
		if err != nil {
			return fmt.Errorf("client OpenStream: %v", err)
		}
		o.cs = s
	}
	if d == "rx" || o.ss == nil {
		if _, err := o.cs.Write(payload); err != nil {
			return fmt.Errorf("client write: %v", err)
		}
		if o.ss == nil {
			c, err := o.sesh.Accept()
			if err != nil {
				return fmt.Errorf("server accept: %v", err)
			}
			o.ss = c
		}
		if err := panelReadFull(o.ss, len(payload)); err != nil {
			return fmt.Errorf("server read: %v", err)
		}
		if d == "rx" {
			return nil
		}
	}
	if _, err := o.ss.Write(payload); err != nil {
		return fmt.Errorf("server write: %v", err)
	}
	if err := panelReadFull(o.cs, len(payload)); err != nil {
		return fmt.Errorf("client read: %v", err)
	}
	return nil
}

// warmup passes the padded first frames of every stream (obfs.go pads frames with Seq < 5), measures the size
// of an unpadded unit, flushes the usage with one upload round and sets the credits the behaviour starts with.
func (w *panelWorld) warmup() error {
	var unit int64
	for _, o := range w.objs {
		for d := 0; d < 2; d++ {
			dir := []string{"rx", "tx"}[d]
			var last int64
			for i := 0; i < 7; i++ {
				before := w.linkBytes(o)
				if err := w.unitTraffic(o, dir); err != nil {
					return fmt.Errorf("warm-up: %v", err)
				}
				after := w.linkBytes(o)
				last = after[d] - before[d]
			}
			if unit == 0 {
				unit = last
			} else if unit != last {
				return fmt.Errorf("warm-up: unit size not stable (%d vs %d)", unit, last)
			}
		}
		o.warm = true
	}
	if unit != 0 {
		w.unit = unit
	}
	w.panel.updateUsageQueue()
	if err := w.panel.commitUpdate(); err != nil {
		return err
	}
	for u := 1; u <= w.cfg.NU; u++ {
		c := int64(w.cfg.Creds[u-1]) * w.unit
		if err := w.env.mgr.WriteUserInfo(usermanager.UserInfo{UID: w.uid[u], UpCredit: usermanager.JustInt64(c), DownCredit: usermanager.JustInt64(c)}); err != nil {
			return err
		}
	}
	return nil
}

func (w *panelWorld) linkBytes(o *panelObj) [2]int64 {
	var r [2]int64
	w.mu.Lock()
	links := append([]*kit.VLink(nil), o.links...)
	w.mu.Unlock()
	for _, l := range links {
		b0, _ := l.Stats(0)
		b1, _ := l.Stats(1)
		r[0] += b0 // written by the client end: rx of the server
		r[1] += b1
	}
	return r
}

// carriedRaw: bytes that crossed the connection pools of all sessions ever handed out for user u
func (w *panelWorld) carriedRaw(u int) [2]int64 {
	var r [2]int64
	w.mu.Lock()
	objs := append([]*panelObj(nil), w.objs...)
	w.mu.Unlock()
	for _, o := range objs {
		if o.u == u {
			b := w.linkBytes(o)
			r[0] += b[0]
			r[1] += b[1]
		}
	}
	return r
}

func (w *panelWorld) dbRead(u int) (up, down int64, exists, expired bool) {
	info, err := w.env.mgr.GetUserInfo(w.uid[u])
	if err != nil {
		return 0, 0, false, false
	}
	return *info.UpCredit, *info.DownCredit, true, *info.ExpiryTime < w.env.now.Load()
}

func (w *panelWorld) admin(a string, u int) error {
	m := w.env.mgr
	up, down, exists, _ := w.dbRead(u)
	if !exists {
		return fmt.Errorf("admin %s: user %d does not exist", a, u)
	}
	switch a {
	case "topup":
		k := panelTopUpK * w.unit
		w.topReal[u][0] += k
		w.topReal[u][1] += k
		return m.WriteUserInfo(usermanager.UserInfo{UID: w.uid[u], UpCredit: usermanager.JustInt64(up + k), DownCredit: usermanager.JustInt64(down + k)})
	case "drain":
		w.topReal[u][0] -= up
		w.topReal[u][1] -= down
		return m.WriteUserInfo(usermanager.UserInfo{UID: w.uid[u], UpCredit: usermanager.JustInt64(0), DownCredit: usermanager.JustInt64(0)})
	case "expire":
		return m.WriteUserInfo(usermanager.UserInfo{UID: w.uid[u], ExpiryTime: usermanager.JustInt64(w.env.now.Load() - 10)})
	case "unexpire":
		return m.WriteUserInfo(usermanager.UserInfo{UID: w.uid[u], ExpiryTime: usermanager.JustInt64(w.env.now.Load() + 1_000_000)})
	case "delete":
		return m.DeleteUser(w.uid[u])
	}
	return fmt.Errorf("unknown admin op %q", a)
}

// ------------------------------------------------------------------------------------------ goroutines

func (w *panelWorld) hgate(p *panelProc, name string) { w.at(p, name, nil) }

func (w *panelWorld) launch(p *panelProc) {
	p.st = "run"
	go func() {
		p.goid = panelGoid()
		w.byGoid.Store(p.goid, p)
		defer func() {
			if r := recover(); r != nil {
				p.panic = fmt.Sprint(r)
			}
			w.byGoid.Delete(p.goid)
			w.events <- panelEvent{p: p.id, kind: "done"}
		}()
		switch p.op.K {
		case "conn", "connr":
			w.runConn(p)
		case "serve":
			// the goroutine serving a pre-established session: serveSession -> user.CloseSession(sid, "")
			p.user.CloseSession(uint32(p.op.S), "")
		case "update":
			w.panel.updateUsageQueue()
		case "commit":
			if err := w.panel.commitUpdate(); err != nil {
				p.panic = "commitUpdate: " + err.Error()
			}
		}
	}()
}

// runConn mirrors dispatchConnection from the user lookup to the reply (dispatcher.go:231-252)
func (w *panelWorld) runConn(p *panelProc) {
	uid, sid := w.uid[p.op.U], uint32(p.op.S)
	var key [32]byte
	// dispatcher.go:176: a fresh session key per connection
	copy(key[:], w.env.rng.Bytes(32))
	user, err := w.panel.GetUser(uid)
	if err != nil {
		p.res = "unauth" // goWeb()
		return
	}
	p.user = user
	w.recOf(user)
	verifhook.At("dispatch.user.resolved", uint64(sid))
	sesh, existing, err := user.GetSession(sid, w.seshConfig(key))
	if err != nil {
		p.res = "refused"
		w.hgate(p, "failed")
		user.CloseSession(sid, "")
		return
	}
	// reply sealed with sesh.GetSessionKey(); sesh.AddConnection(preparedConn)
	if existing {
		// the creator registers the session right after its GetSession returns; a connection that was blocked on
		// sessionsM behind the creator can get here first
		idx := 0
		for i := 0; i < 2000 && idx == 0; i++ {
			w.mu.Lock()
			idx = w.objIdx[sesh]
			w.mu.Unlock()
			if idx == 0 {
				time.Sleep(50 * time.Microsecond)
			}
		}
		if idx == 0 {
			p.panic = "GetSession returned a session nobody created"
			return
		}
		p.res, p.obj = "hit", idx
		w.attach(w.objs[idx-1], true)
		return
	}
	o := w.register(sesh, user, p.op.U, sid, key, p.id)
	p.res, p.obj = "new", o.idx
	w.attach(o, false)
	if p.op.K == "connr" {
		// serveSession: blocks in Accept until the session is closed, then reaps it
		w.hgate(p, "serve")
		user.CloseSession(sid, "")
	}
}

// panelConnFree is runConn without gates: the admission sequence of dispatcher.go:231-252
func panelConnFree(w *panelWorld, p *panelProc, keyID int) (string, int, any) {
	uid, sid := w.uid[p.op.U], uint32(p.op.S)
	var key [32]byte
	w.mu.Lock()
	copy(key[:], w.env.rng.Bytes(32))
	w.mu.Unlock()
	user, err := w.panel.GetUser(uid)
	if err != nil {
		return "unauth", 0, nil
	}
	p.user = user
	w.recOf(user)
	verifhook.At("dispatch.user.resolved", uint64(sid))
	sesh, existing, err := user.GetSession(sid, w.seshConfig(key))
	if err != nil {
		w.at(p, "failed", nil)
		user.CloseSession(sid, "")
		return "refused", 0, nil
	}
	if existing {
		idx := 0
		for i := 0; i < 20000 && idx == 0; i++ {
			w.mu.Lock()
			idx = w.objIdx[sesh]
			w.mu.Unlock()
			if idx == 0 {
				time.Sleep(50 * time.Microsecond)
			}
		}
		if idx == 0 {
			p.panic = "GetSession returned a session nobody created"
			return "hit", -1, nil
		}
		w.attach(w.objs[idx-1], true)
		return "hit", w.objs[idx-1].keyOwner, sesh
	}
	o := w.register(sesh, user, p.op.U, sid, key, keyID)
	w.attach(o, false)
	return "new", keyID, sesh
}

// ------------------------------------------------------------------------------------------ settling

type panelGor struct {
	state string
	fn    string // first Cloak function on the stack
	lock  string // panel lock it waits for, if it is blocked in a Lock/RLock of the bookkeeping code
	text  string
}

func panelDump() map[int64]panelGor {
	buf := make([]byte, 1<<20)
	for {
		n := runtime.Stack(buf, true)
		if n < len(buf) {
			buf = buf[:n]
			break
		}
		buf = make([]byte, 2*len(buf))
	}
	out := map[int64]panelGor{}
	for _, blk := range strings.Split(string(buf), "\n\n") {
		m := panelGoidRe.FindStringSubmatch(blk)
		if m == nil {
			continue
		}
		id, _ := strconv.ParseInt(m[1], 10, 64)
		g := panelGor{state: m[2], text: blk}
		if strings.HasPrefix(g.state, "sync.Mutex.Lock") || strings.HasPrefix(g.state, "sync.RWMutex.") {
			rw := false
			for _, line := range strings.Split(blk, "\n")[1:] {
				if strings.HasPrefix(line, "\t") {
					continue
				}
				if strings.HasPrefix(line, "sync.(*RWMutex)") {
					rw = true
				}
				if strings.HasPrefix(line, "github.com/cbeuw/Cloak/") {
					g.fn = strings.TrimPrefix(line[:strings.LastIndex(line, "(")], "github.com/cbeuw/Cloak/internal/")
					g.lock = panelLockOf(g.fn, rw)
					break
				}
			}
		}
		out[id] = g
	}
	return out
}

func panelLockOf(fn string, rw bool) string {
	switch {
	case strings.HasPrefix(fn, "server.(*ActiveUser)."):
		return "S"
	case strings.HasPrefix(fn, "server.(*userPanel).updateUsageQueueForOne"):
		return "Q"
	case strings.HasPrefix(fn, "server.(*userPanel).updateUsageQueue"), strings.HasPrefix(fn, "server.(*userPanel).commitUpdate"):
		if rw {
			return "A"
		}
		return "Q"
	case strings.HasPrefix(fn, "server.(*userPanel)."):
		if rw {
			return "A"
		}
		return "Q"
	}
	return ""
}

func (w *panelWorld) apply(ev panelEvent) {
	p := w.procs[ev.p-1]
	switch ev.kind {
	case "gate":
		p.st, p.hook, p.lock = "gate", ev.h, ""
	case "done":
		p.st, p.hook, p.lock = "done", "", ""
	}
}

func (w *panelWorld) drainEvents() bool {
	got := false
	for {
		select {
		case ev := <-w.events:
			w.apply(ev)
			got = true
		default:
			return got
		}
	}
}

// settle waits until every launched goroutine is parked at a gate, has returned, or is blocked on a panel lock
// (seen in two goroutine dumps in a row while nothing else can run).
func (w *panelWorld) settle(recheckBlocked bool) error {
	if recheckBlocked {
		for _, p := range w.procs {
			if p != nil && p.st == "blk" {
				p.st = "run"
			}
		}
	}
	deadline := time.Now().Add(20 * time.Second)
	spins := 0
	for {
		w.drainEvents()
		var running []*panelProc
		for _, p := range w.procs {
			if p != nil && p.st == "run" {
				running = append(running, p)
			}
		}
		if len(running) == 0 {
			return nil
		}
		if time.Now().After(deadline) {
			d := panelDump()
			for _, p := range running {
				w.dumps = append(w.dumps, d[p.goid].text)
			}
			return fmt.Errorf("goroutine(s) %v neither parked, blocked on a panel lock nor finished after 20 s", panelIds(running))
		}
		if spins < 20 {
			spins++
			select {
			case ev := <-w.events:
				w.apply(ev)
			case <-time.After(50 * time.Microsecond):
			}
			continue
		}
		d1 := panelDump()
		all := true
		for _, p := range running {
			if g, ok := d1[p.goid]; !ok || g.lock == "" {
				all = false
			}
		}
		if !all {
			select {
			case ev := <-w.events:
				w.apply(ev)
			case <-time.After(300 * time.Microsecond):
			}
			continue
		}
		time.Sleep(1500 * time.Microsecond)
		if w.drainEvents() {
			continue
		}
		d2 := panelDump()
		same := true
		for _, p := range running {
			if d2[p.goid].lock != d1[p.goid].lock || d2[p.goid].fn != d1[p.goid].fn {
				same = false
			}
		}
		if !same || w.drainEvents() {
			continue
		}
		for _, p := range running {
			p.st, p.lock, p.fn = "blk", d2[p.goid].lock, d2[p.goid].fn
		}
		w.dumps = w.dumps[:0]
		for _, p := range running {
			w.dumps = append(w.dumps, "first dump:\n"+d1[p.goid].text, "second dump (+1.5 ms):\n"+d2[p.goid].text)
		}
		return nil
	}
}

func panelIds(ps []*panelProc) []int {
	var r []int
	for _, p := range ps {
		r = append(r, p.id)
	}
	return r
}

// deadlocked: some goroutines are blocked on panel locks and nothing is left that could release them
func (w *panelWorld) deadlocked() (bool, string) {
	var blk []string
	for _, p := range w.procs {
		if p == nil {
			continue
		}
		switch p.st {
		case "run":
			return false, ""
		case "gate":
			if p.hook != "serve" {
				return false, ""
			}
		case "blk":
			fn := p.fn
			if i := strings.LastIndex(fn, "."); i >= 0 {
				fn = fn[i+1:]
			}
			blk = append(blk, fn+"/"+p.lock)
		}
	}
	if len(blk) == 0 {
		return false, ""
	}
	sort.Strings(blk)
	return true, strings.Join(blk, "+")
}

// confirmDeadlock reads the goroutine dump twice, 3 ms apart: every blocked goroutine must sit in the same
// Lock/RLock call of the bookkeeping code both times.
func (w *panelWorld) confirmDeadlock() ([]string, bool) {
	d1 := panelDump()
	time.Sleep(3 * time.Millisecond)
	w.drainEvents()
	d2 := panelDump()
	var ev []string
	for _, p := range w.procs {
		if p == nil || p.st != "blk" {
			continue
		}
		g1, g2 := d1[p.goid], d2[p.goid]
		if g1.lock == "" || g1.lock != g2.lock || g1.fn != g2.fn {
			return nil, false
		}
		ev = append(ev, fmt.Sprintf("goroutine %d (%s), first dump:\n%s", p.id, p.op.K, g1.text), fmt.Sprintf("goroutine %d (%s), second dump (+3 ms):\n%s", p.id, p.op.K, g2.text))
	}
	return ev, len(ev) > 0
}

// ------------------------------------------------------------------------------------------ observation

func (w *panelWorld) observe(nproc int) panelObs {
	var o panelObs
	for i := 0; i < nproc; i++ {
		p := w.procs[i]
		st := panelStatus{W: []string{}}
		res := panelRes{T: "none"}
		switch {
		case p == nil:
			st.K = "idle"
		case p.st == "init":
			st.K, st.H = "gate", "start"
			if p.op.K == "serve" {
				st.H = "serve"
			}
		case p.st == "gate":
			st.K, st.H = "gate", p.hook
		case p.st == "blk":
			st.K, st.W = "blk", []string{p.lock}
		default:
			st.K = p.st
		}
		if p != nil && p.res != "" {
			res = panelRes{T: p.res, O: p.obj}
		}
		o.St = append(o.St, st)
		o.Res = append(o.Res, res)
	}
	active := map[int]*ActiveUser{}
	for u := 1; u <= w.cfg.NU; u++ {
		var arr [16]byte
		copy(arr[:], w.uid[u])
		r := 0
		if user, ok := w.panel.activeUsers[arr]; ok {
			r = w.recOf(user)
			active[u] = user
		}
		o.Act = append(o.Act, r)
		up, down, x, e := w.dbRead(u)
		o.Db = append(o.Db, panelDbObs{X: x, E: e, C: panelAmt{Rx: up, Tx: down}, Auth: x && !e && up > 0 && down > 0})
	}
	w.mu.Lock()
	objs := append([]*panelObj(nil), w.objs...)
	recs := append([]*ActiveUser(nil), w.recs...)
	w.mu.Unlock()
	for _, ob := range objs {
		live := !ob.sesh.IsClosed()
		own := active[ob.u] == ob.rec && ob.rec.sessions[ob.sid] == ob.sesh
		o.Obj = append(o.Obj, panelObjObs{U: ob.u, S: int(ob.sid), R: w.recIdx[ob.rec], K: ob.keyOwner, Live: live, Own: own})
	}
	for i, r := range recs {
		if r == nil {
			o.Ent = append(o.Ent, 0)
			o.Ruid = append(o.Ruid, i+1)
			continue
		}
		o.Ent = append(o.Ent, len(r.sessions))
		ru := 0
		for u := 1; u <= w.cfg.NU; u++ {
			if bytes.Equal(r.arrUID[:], w.uid[u]) {
				ru = u
			}
		}
		o.Ruid = append(o.Ruid, ru)
	}
	o.Quiet = true
	for _, p := range w.procs {
		if p != nil && (p.st == "blk" || p.st == "run" || (p.st == "gate" && p.hook != "serve")) {
			o.Quiet = false
		}
	}
	o.Dead, _ = w.deadlocked()
	return o
}

func panelSameSet(a, b []string) bool {
	if len(a) != len(b) {
		return false
	}
	x, y := append([]string(nil), a...), append([]string(nil), b...)
	sort.Strings(x)
	sort.Strings(y)
	for i := range x {
		if x[i] != y[i] {
			return false
		}
	}
	return true
}

// compare returns what differs between the model's expectation and the code (structure only; amounts are
// compared by sign, since the model counts units and the code bytes)
func (w *panelWorld) compare(exp, got *panelObs) []string {
	d, c := w.compare2(exp, got)
	return append(d, c...)
}

// compare2 separates what differs in structure (d) from what differs only in the stored credits (c)
func (w *panelWorld) compare2(exp, got *panelObs) (d, c []string) {
	for i := range exp.St {
		e, g := exp.St[i], got.St[i]
		if e.K != g.K || e.H != g.H {
			d = append(d, fmt.Sprintf("goroutine %d: model %s%s code %s%s", i+1, e.K, ":"+e.H, g.K, ":"+g.H))
		} else if e.K == "blk" {
			ok := false
			for _, l := range e.W {
				if len(g.W) == 1 && g.W[0] == l {
					ok = true
				}
			}
			if !ok {
				d = append(d, fmt.Sprintf("goroutine %d blocked on %v, model says %v", i+1, g.W, e.W))
			}
		}
		if exp.Res[i] != got.Res[i] && !(exp.Res[i].T == "refused" && got.Res[i].T == "none") {
			d = append(d, fmt.Sprintf("goroutine %d: outcome model %v code %v", i+1, exp.Res[i], got.Res[i]))
		}
	}
	for u := range exp.Act {
		if exp.Act[u] != got.Act[u] {
			d = append(d, fmt.Sprintf("activeUsers[user %d]: model record %d code record %d", u+1, exp.Act[u], got.Act[u]))
		}
		e, g := exp.Db[u], got.Db[u]
		if e.X != g.X || (e.X && e.E != g.E) {
			d = append(d, fmt.Sprintf("database record of user %d: model %+v code %+v", u+1, e, g))
		} else if e.X && (e.Auth != g.Auth || (e.C.Rx <= 0) != (g.C.Rx <= 0) || (e.C.Tx <= 0) != (g.C.Tx <= 0)) {
			c = append(c, fmt.Sprintf("database record of user %d: model %+v code %+v", u+1, e, g))
		} else if e.X && !w.inexact && u < len(exp.Chg) {
			want := w.expectedCharged(exp.Chg[u])
			have := [2]int64{w.baseCr[u+1][0] + w.topReal[u+1][0] - g.C.Rx, w.baseCr[u+1][1] + w.topReal[u+1][1] - g.C.Tx}
			if want != have {
				c = append(c, fmt.Sprintf("credit of user %d: the uploads so far contained %v bytes (up, down) by the model's account, %v were deducted", u+1, want, have))
			}
		}
	}
	if len(exp.Obj) != len(got.Obj) {
		d = append(d, fmt.Sprintf("sessions created: model %d code %d", len(exp.Obj), len(got.Obj)))
	} else {
		for i := range exp.Obj {
			e, g := exp.Obj[i], got.Obj[i]
			if e.U != g.U || e.S != g.S || e.R != g.R || e.K != g.K || e.Live != g.Live || e.Own != g.Own {
				d = append(d, fmt.Sprintf("session %d: model %+v code %+v", i+1, e, g))
			}
		}
	}
	if len(exp.Ent) != len(got.Ent) {
		d = append(d, fmt.Sprintf("records created: model %d code %d", len(exp.Ent), len(got.Ent)))
	} else {
		for i := range exp.Ent {
			if exp.Ent[i] != got.Ent[i] {
				d = append(d, fmt.Sprintf("record %d holds %d sessions, model says %d", i+1, got.Ent[i], exp.Ent[i]))
			}
		}
	}
	if exp.Quiet != got.Quiet || exp.Dead != got.Dead {
		d = append(d, fmt.Sprintf("quiet/dead: model %v/%v code %v/%v", exp.Quiet, exp.Dead, got.Quiet, got.Dead))
	}
	return d, c
}

// ------------------------------------------------------------------------------------------ predicates

type panelVerdict struct {
	Key  string
	What string
	Ev   []string
}

// noticeBytes: what the session put on its links towards the client beyond the counted traffic units, i.e. its
// closing notice (one unit = one frame of w.unit bytes once the padded first frames are out)
func (w *panelWorld) noticeBytes(o *panelObj) int64 {
	return w.linkBytes(o)[1] - o.base[1] - w.unit*atomic.LoadInt64(&o.units[1])
}

// expectedCharged prices the model's account of what completed uploads contained, in bytes (up, down)
func (w *panelWorld) expectedCharged(a panelAmt) [2]int64 {
	r := [2]int64{a.Rx * w.unit, a.Tx * w.unit}
	for _, oi := range a.Nt {
		if oi >= 1 && oi <= len(w.objs) {
			r[1] += w.noticeBytes(w.objs[oi-1])
		}
	}
	return r
}

func panelWhyKey(why string) string {
	switch why {
	case "getuser-check-then-act":
		return "getuser-check-then-act"
	case "close-after-unlock":
		return "close-after-unlock"
	case "lookup-gap":
		return "lookup-gap-vs-terminate"
	case "stale-terminate":
		return "stale-terminate-removes-new-record"
	}
	return why
}

// predicates evaluates the statements of C15, C16 and C17 on what the code shows. exp is the model's view of
// the same moment (nil in probe mode); it only contributes the explanation of a failure that it predicts as
// well, the moments at which the usage is at rest, and which sessions an upload obliged the server to close.
func (w *panelWorld) predicates(got *panelObs, exp *panelObs, prev *panelObs, agreed, agreedBefore bool) []panelVerdict {
	return w.predicates2(got, exp, prev, agreed, agreedBefore, false)
}

// tail: the observation was made after the code had left the model's path (strict mode) and everything was
// released at once. Sessions sitting on a record that is not the panel's are then left out: that is what the known
// deviations (lookup gap, stale terminate) produce, and without the model's account it cannot be told apart from
// them. A live session that is missing from the sessions table of the record the panel DOES hold, two live
// sessions for one id on it, or more live sessions on it than the cap, have no such excuse.
func (w *panelWorld) predicates2(got *panelObs, exp *panelObs, prev *panelObs, agreed, agreedBefore, tail bool) []panelVerdict {
	var v []panelVerdict
	skip := func(ob panelObjObs) bool { return tail && got.Act[ob.U-1] != ob.R }
	why := func(i int) string {
		if exp != nil && agreed && i < len(exp.Obj) && exp.Obj[i].Live && !exp.Obj[i].Own && exp.Obj[i].Why != "" {
			return panelWhyKey(exp.Obj[i].Why)
		}
		if exp != nil && i < len(exp.Obj) && !exp.Obj[i].Live {
			return "closed-in-model"
		}
		return "unexplained"
	}
	// ---- C17 deadlock
	if dead, cyc := w.deadlocked(); dead {
		if ev, ok := w.confirmDeadlock(); ok {
			v = append(v, panelVerdict{Key: "deadlock:" + cyc,
				What: "bookkeeping goroutines are blocked on each other's locks (" + cyc + "): all of them were found in Lock/RLock of the panel code in two goroutine dumps in a row while every other goroutine had returned or was not inside an operation",
				Ev:   ev})
		}
	}
	// ---- C17 Owned / TerminatedHasNone at quiescent moments
	unownedWhy := ""
	if got.Quiet {
		for i, ob := range got.Obj {
			if ob.Live && !ob.Own && !skip(ob) {
				k := why(i)
				if unownedWhy == "" {
					unownedWhy = k
				}
				key := "owned:" + k
				if k == "closed-in-model" {
					key = "terminated:session-still-live"
				}
				v = append(v, panelVerdict{Key: key, What: fmt.Sprintf(
					"at a quiescent moment session %d (user %d, id %d, key of connection %d) is live but not reachable from panel.activeUsers (record %d; activeUsers[user] = record %d)",
					i+1, ob.U, ob.S, ob.K, ob.R, got.Act[ob.U-1])})
			}
		}
	}
	// ---- C15 OneSession: live sessions with the same (uid, sid); distinct sessions must have distinct keys
	for i := range got.Obj {
		for j := i + 1; j < len(got.Obj); j++ {
			a, b := got.Obj[i], got.Obj[j]
			if !a.Live || !b.Live || skip(a) || skip(b) {
				continue
			}
			if a.U == b.U && a.S == b.S {
				k := "unexplained"
				for _, x := range []int{i, j} {
					if got.Obj[x].Live && !got.Obj[x].Own {
						k = why(x)
					}
				}
				v = append(v, panelVerdict{Key: "onesession:" + k, What: fmt.Sprintf(
					"two live sessions for user %d session id %d: connection %d was given the key of session %d, connection %d the key of session %d",
					a.U, a.S, a.K, i+1, b.K, j+1)})
			}
			if w.objs[i].sesh == w.objs[j].sesh || w.objs[i].key == w.objs[j].key {
				v = append(v, panelVerdict{Key: "onesession:shared", What: fmt.Sprintf("sessions %d and %d share an object or a key", i+1, j+1)})
			}
		}
	}
	for i, ob := range w.objs {
		if ob.sesh.GetSessionKey() != ob.key {
			v = append(v, panelVerdict{Key: "onesession:key-mismatch", What: fmt.Sprintf("session %d does not carry the key of the connection that created it", i+1)})
		}
	}
	// ---- C15 Cap
	for u := 1; u <= w.cfg.NU; u++ {
		n, k := 0, ""
		for i, ob := range got.Obj {
			if ob.U == u && ob.Live && !skip(ob) {
				n++
				if !ob.Own {
					k = why(i)
				}
			}
		}
		if n > w.cfg.Caps[u-1] {
			if k == "" {
				k = "exceeded"
			}
			v = append(v, panelVerdict{Key: "cap:" + k, What: fmt.Sprintf("user %d has %d live sessions, SessionsCap is %d", u, n, w.cfg.Caps[u-1])})
		}
	}
	// ---- C15 NoStartWhenBroke: a session created while the stored record allowed none (before and after the step)
	if prev != nil {
		for i := len(prev.Obj); i < len(got.Obj); i++ {
			u := got.Obj[i].U
			if !prev.Db[u-1].Auth && !got.Db[u-1].Auth {
				v = append(v, panelVerdict{Key: "start:broke", What: fmt.Sprintf(
					"session %d was created for user %d whose record (exists=%v expired=%v up=%d down=%d) allows none",
					i+1, u, got.Db[u-1].X, got.Db[u-1].E, got.Db[u-1].C.Rx, got.Db[u-1].C.Tx)})
			}
		}
	}
	// ---- C15 NoStartWhenBroke, by usage: the model (followed in structure up to the previous step) says the user's credit
	// is used up / the user is expired or deleted, before and after this step - whatever the database was left with
	if prev != nil && exp != nil && agreedBefore && w.prevExp != nil {
		for i := len(prev.Obj); i < len(got.Obj); i++ {
			u := got.Obj[i].U
			if !exp.Db[u-1].Auth && !w.prevExp.Db[u-1].Auth {
				want := w.expectedCharged(exp.Chg[u-1])
				v = append(v, panelVerdict{Key: "start:exhausted", What: fmt.Sprintf(
					"session %d was created for user %d although completed uploads contained %v bytes (up, down) of its usage against a credit of %v (+%v topped up), or the user is expired / deleted (model: %+v); the stored record says up=%d down=%d",
					i+1, u, want, w.baseCr[u], w.topReal[u], exp.Db[u-1], got.Db[u-1].C.Rx, got.Db[u-1].C.Tx)})
			}
		}
	}
	// ---- C16
	for u := 1; u <= w.cfg.NU; u++ {
		db := got.Db[u-1]
		if !db.X {
			continue
		}
		car := w.carriedRaw(u)
		cur := [2]int64{db.C.Rx, db.C.Tx}
		for d := 0; d < 2; d++ {
			dir := []string{"up", "down"}[d]
			charged := w.baseCr[u][d] + w.topReal[u][d] - cur[d]
			carried := car[d] - w.baseCar[u][d]
			if charged > carried {
				v = append(v, panelVerdict{Key: "nevermore:" + dir, What: fmt.Sprintf(
					"user %d: %s credit went down by %d bytes but only %d bytes crossed the user's connection pools", u, dir, charged, carried)})
			}
			// usage contained in a completed upload must have been deducted - also by the upload that terminates the
			// user. The model (followed by the code up to the previous step, and in everything but credits in this
			// one) says what the completed uploads contained; it is priced with the measured frame sizes.
			if exp != nil && agreedBefore && w.structOK && !w.inexact && u-1 < len(exp.Chg) {
				if want := w.expectedCharged(exp.Chg[u-1])[d]; charged < want {
					k := "exact:" + dir
					if (u-1 < len(exp.Evt) && exp.Evt[u-1]) || !exp.Db[u-1].Auth {
						k += ":terminating-upload"
					}
					v = append(v, panelVerdict{Key: k, What: fmt.Sprintf(
						"user %d: the completed uploads contained %d bytes of %s usage (carried: %d), only %d were deducted from the stored credit",
						u, want, dir, carried, charged)})
				}
			}
			if exp != nil && agreed && exp.Rest[u-1] && got.Quiet && charged != carried {
				v = append(v, panelVerdict{Key: "exact:" + dir, What: fmt.Sprintf(
					"user %d (active throughout, traffic stopped, upload completed): %s credit went down by %d bytes, %d bytes were carried", u, dir, charged, carried)})
			}
		}
	}
	// CutOff: the model (which the code has followed up to the previous step) says which sessions were live when an
	// upload answered TERMINATE for their user; the stored record confirms that the user is indeed without
	// credit / expired / deleted, and the round is over
	if exp != nil && agreedBefore && got.Quiet {
		for i, ob := range exp.Obj {
			if ob.Cut && i < len(got.Obj) && got.Obj[i].Live && !got.Db[ob.U-1].Auth {
				k := "session-open"
				if !got.Obj[i].Own && exp.Obj[i].Live {
					k = why(i)
				}
				v = append(v, panelVerdict{Key: "cutoff:" + k, What: fmt.Sprintf(
					"an upload found user %d without credit / expired / deleted, yet session %d is still open after the round", ob.U, i+1)})
			}
		}
	}
	return v
}

// ------------------------------------------------------------------------------------------ replay

type panelOutcome struct {
	Verdicts []panelVerdict
	Refuted  string // hypo mode: where the code stopped following the deviant model
	Diverged string
	Table    []string
	Steps    int
}

func (w *panelWorld) releaseAll() {
	w.gateOff.Store(true)
	for round := 0; round < 50; round++ {
		any := false
		for _, p := range w.procs {
			if p != nil && p.st == "gate" && p.hook != "serve" && p.hook != "start" {
				p.st = "run"
				p.gate <- struct{}{}
				any = true
			}
		}
		w.settle(true)
		if !any {
			break
		}
	}
}

func (w *panelWorld) shutdown() {
	w.gateOff.Store(true)
	for _, p := range w.procs {
		if p != nil && p.st == "gate" && p.hook == "serve" {
			// a goroutine still serving its session simply goes away with the world
			p.st = "done"
			p.op.K = "abandoned"
		}
	}
	log.SetLevel(log.PanicLevel)
	for _, o := range w.objs {
		o.sesh.Close()
		if o.client != nil {
			o.client.Close()
		}
		for _, l := range o.links {
			l.Fail()
		}
	}
}

func panelRun(env *panelEnv, b *panelBehaviour) (out panelOutcome) {
	w, err := panelNewWorld(env, b.Cfg, len(b.Prog))
	if err != nil {
		out.Diverged = "setup: " + err.Error()
		return
	}
	panelCur.Store(w)
	defer func() {
		w.releaseAll()
		w.shutdown()
		panelCur.Store(nil)
		out.Table = w.table
	}()
	for i, op := range b.Prog {
		if op.K == "none" {
			continue
		}
		p := &panelProc{id: i + 1, op: op, gate: make(chan struct{}), st: "init"}
		if op.K == "serve" {
			p.user = w.recs[op.U-1]
		}
		w.procs[i] = p
	}
	// strict: the model is the code's, a mismatch is drift. hypo: the model carries a deviation the code may or may
	// not have; while the code follows it the model explains what is seen, once it stops following only the
	// schedule is used. probe: schedule only.
	strict := b.Cfg.Mode == "strict"
	hypo := b.Cfg.Mode == "hypo"
	seen := map[string]bool{}
	add := func(vs []panelVerdict) {
		for _, v := range vs {
			if !seen[v.Key] {
				seen[v.Key] = true
				out.Verdicts = append(out.Verdicts, v)
			}
		}
	}
	prev := w.observe(len(b.Prog))
	agreed := true
	creditDrift := ""
	defer func() {
		if out.Diverged == "" && creditDrift != "" && strict {
			out.Diverged = creditDrift
		}
	}()
	for i := range b.Steps {
		st := &b.Steps[i]
		out.Steps = i + 1
		ran := false
		for j, m := range st.Obs.Multi {
			if j < len(w.procs) && w.procs[j] != nil {
				w.procs[j].skipTerm.Store(m)
			}
		}
		switch st.Ev.A {
		case "go":
			p := w.procs[st.Ev.P-1]
			switch {
			case p == nil:
				out.Diverged = fmt.Sprintf("step %d: goroutine %d is not in the program", i+1, st.Ev.P)
				return
			case p.st == "init":
				w.launch(p)
				ran = true
			case p.st == "gate":
				p.st = "run"
				p.gate <- struct{}{}
				ran = true
			default:
				if strict {
					out.Diverged = fmt.Sprintf("step %d: goroutine %d should be parked, it is %s", i+1, p.id, p.st)
					return
				}
				agreed = false
			}
		case "traffic":
			var err error
			if st.Ev.O > len(w.objs) {
				err = fmt.Errorf("no such session")
			} else {
				err = w.unitTraffic(w.objs[st.Ev.O-1], st.Ev.D)
			}
			if err != nil {
				if strict {
					out.Diverged = fmt.Sprintf("step %d: traffic on session %d: %v", i+1, st.Ev.O, err)
					return
				}
				agreed = false
			}
		default:
			if err := w.admin(st.Ev.A, st.Ev.U); err != nil {
				if strict {
					out.Diverged = fmt.Sprintf("step %d: %v", i+1, err)
					return
				}
				agreed = false
			}
		}
		if err := w.settle(ran); err != nil {
			out.Diverged = fmt.Sprintf("step %d: %v", i+1, err)
			w.table = append(w.table, w.dumps...)
			return
		}
		got := w.observe(len(b.Prog))
		for _, p := range w.procs {
			if p != nil && p.panic != "" {
				out.Diverged = fmt.Sprintf("step %d: goroutine %d: %s", i+1, p.id, p.panic)
				return
			}
		}
		var exp *panelObs
		var diffs []string
		before := agreed
		if strict || (hypo && agreed) {
			exp = &st.Obs
			sd, cd := w.compare2(exp, &got)
			diffs = sd
			w.structOK = len(sd) == 0
			agreed = agreed && len(sd) == 0
			if len(cd) > 0 && creditDrift == "" {
				// stored credits differ from the model's account: recorded (drift unless a predicate fails), the schedule goes on
				creditDrift = fmt.Sprintf("step %d (%s): %s", i+1, panelEvString(st.Ev), strings.Join(cd, "; "))
				w.logf("   MODEL (credits): %s", strings.Join(cd, "; "))
			}
			if hypo && !agreed {
				out.Refuted = fmt.Sprintf("step %d (%s): %s", i+1, panelEvString(st.Ev), strings.Join(diffs, "; "))
				exp = nil
			}
		}
		w.logf("%2d %-22s st=%s act=%v obj=%s%s", i+1, panelEvString(st.Ev), panelStString(got.St), got.Act, panelObjString(got.Obj),
			map[bool]string{true: "", false: "   MODEL: " + strings.Join(diffs, "; ")}[len(diffs) == 0])
		add(w.predicates(&got, exp, &prev, agreed, before))
		if strict && len(diffs) > 0 && out.Diverged == "" {
			out.Diverged = fmt.Sprintf("step %d (%s): %s", i+1, panelEvString(st.Ev), strings.Join(diffs, "; "))
		}
		if out.Diverged != "" && strict {
			break
		}
		prev = got
		w.prevExp = exp
	}
	if (strict || hypo) && len(b.Steps) > 0 {
		if last := b.Steps[len(b.Steps)-1].Obs; !last.Quiet && !last.Dead && out.Diverged == "" && agreed {
			// the behaviour stops in mid-flight: what is released below runs in no particular order
			w.logf("   (behaviour ends with goroutines parked; the uncontrolled tail is not judged)")
			return
		}
	}
	if strict && out.Diverged != "" {
		// the code left the model's path: what follows runs uncontrolled and the model cannot explain it
		w.releaseAll()
		got := w.observe(len(b.Prog))
		w.logf("   %-22s st=%s act=%v obj=%s", "(diverged; released)", panelStString(got.St), got.Act, panelObjString(got.Obj))
		add(w.predicates2(&got, nil, nil, false, false, true))
		return
	}
	// whatever is still parked runs to completion; the predicates must hold at the final quiescent moment too
	w.releaseAll()
	got := w.observe(len(b.Prog))
	w.logf("   %-22s st=%s act=%v obj=%s", "(all released)", panelStString(got.St), got.Act, panelObjString(got.Obj))
	var exp *panelObs
	if (strict || hypo) && agreed && out.Diverged == "" && len(b.Steps) > 0 {
		exp = &b.Steps[len(b.Steps)-1].Obs
	}
	add(w.predicates(&got, exp, nil, agreed && exp != nil, agreed && exp != nil))
	return
}

func panelEvString(e panelEv) string {
	switch e.A {
	case "go":
		return fmt.Sprintf("go %d", e.P)
	case "traffic":
		return fmt.Sprintf("traffic s%d %s", e.O, e.D)
	}
	return fmt.Sprintf("%s u%d", e.A, e.U)
}

func panelStString(st []panelStatus) string {
	var s []string
	for _, x := range st {
		switch x.K {
		case "gate":
			s = append(s, "@"+x.H)
		case "blk":
			s = append(s, "BLOCKED:"+strings.Join(x.W, ""))
		default:
			s = append(s, x.K)
		}
	}
	return "[" + strings.Join(s, " ") + "]"
}

func panelObjString(objs []panelObjObs) string {
	var s []string
	for i, o := range objs {
		f := ""
		if !o.Live {
			f = "closed"
		} else if o.Own {
			f = "live"
		} else {
			f = "LIVE-UNREACHABLE"
		}
		s = append(s, fmt.Sprintf("s%d(u%d,id%d,rec%d,key%d,%s)", i+1, o.U, o.S, o.R, o.K, f))
	}
	return "[" + strings.Join(s, " ") + "]"
}

func panelNontrivial(b *panelBehaviour) bool {
	// at least two goroutines were inside an operation at the same time, or one was blocked
	for _, st := range b.Steps {
		n := 0
		for _, s := range st.Obs.St {
			if s.K == "blk" || (s.K == "gate" && s.H != "start" && s.H != "serve") {
				n++
			}
		}
		if n >= 2 {
			return true
		}
		for _, s := range st.Obs.St {
			if s.K == "blk" {
				return true
			}
		}
	}
	return false
}

func panelSig(b *panelBehaviour) string {
	var sb strings.Builder
	fmt.Fprintf(&sb, "%v|%v|", b.Cfg, b.Prog)
	for _, s := range b.Steps {
		fmt.Fprintf(&sb, "%v;", s.Ev)
	}
	return sb.String()
}

func TestVerifPanelReplay(t *testing.T) {
	panelInstallHook()
	env := panelNewEnv(t)
	defer env.close()
	if rp := kit.Env("VERIF_REPLAY", ""); rp != "" {
		panelReplayFile(t, env, rp)
		return
	}
	res := kit.NewResult()
	defer func() { res.Save(true) }()
	idx, diverged := 0, 0
	confirmed := map[string]int{}
	t0 := time.Now()
	err := kit.ReadLines(kit.Env("VERIF_IN", ""), func(line []byte) error {
		var b panelBehaviour
		if err := json.Unmarshal(line, &b); err != nil {
			return err
		}
		idx++
		// persisted, so that a crash of the test binary (a fatal runtime error on a Cloak goroutine) leaves a record
		res.SetRunning(map[string]any{"behaviour": idx, "cfg": b.Cfg.Name, "prog": b.Prog}, true)
		out := panelRun(env, &b)
		res.Count(panelSig(&b), panelNontrivial(&b))
		res.Stat("steps", int64(out.Steps))
		fresh := false
		for _, v := range out.Verdicts {
			if confirmed[v.Key] < 3 {
				fresh = true
			}
		}
		if fresh {
			// deterministic schedule: the same verdicts must come out of a second run (done for the first
			// occurrences of every key; later occurrences of a key already confirmed are only counted)
			out2 := panelRun(env, &b)
			keys2 := map[string]bool{}
			for _, v := range out2.Verdicts {
				keys2[v.Key] = true
			}
			for _, v := range out.Verdicts {
				if keys2[v.Key] {
					confirmed[v.Key]++
					res.Violate(v.Key, v.What, map[string]any{"behaviour": b, "table": out.Table, "evidence": v.Ev})
				} else {
					res.Stat("unstable", 1)
					res.Note("unstable verdict %q on behaviour %d (%s)", v.Key, idx, b.Cfg.Name)
				}
			}
		} else {
			for _, v := range out.Verdicts {
				res.Violate(v.Key, v.What, map[string]any{"behaviour": b, "table": out.Table, "evidence": v.Ev})
			}
		}
		if out.Refuted != "" {
			res.Stat("hypothesis_refuted:"+b.Cfg.Name, 1)
		} else if b.Cfg.Mode == "hypo" {
			res.Stat("hypothesis_followed:"+b.Cfg.Name, 1)
		}
		if out.Diverged != "" && b.Cfg.Mode == "strict" {
			diverged++
			res.Stat("diverged", 1)
			if diverged <= 10 {
				res.Note("behaviour %d (%s) diverged: %s", idx, b.Cfg.Name, out.Diverged)
			}
			if diverged <= 2 {
				res.Sample(map[string]any{"diverged": out.Diverged, "table": out.Table}, 8)
			}
		}
		if idx%997 == 1 {
			res.Sample(map[string]any{"cfg": b.Cfg.Name, "prog": b.Prog, "table": out.Table}, 4)
		}
		return nil
	})
	if err != nil {
		t.Fatal(err)
	}
	res.Stat("behaviours", int64(idx))
	res.Stat("replay_ms", time.Since(t0).Milliseconds())
}

func panelReplayFile(t *testing.T, env *panelEnv, path string) {
	var rf struct {
		Replay struct {
			Behaviour panelBehaviour `json:"behaviour"`
		} `json:"replay"`
	}
	raw, err := os.ReadFile(path)
	if err != nil {
		t.Fatal(err)
	}
	if err := json.Unmarshal(raw, &rf); err != nil {
		t.Fatal(err)
	}
	out := panelRun(env, &rf.Replay.Behaviour)
	for _, l := range out.Table {
		fmt.Println(l)
	}
	keys := []string{}
	for _, v := range out.Verdicts {
		keys = append(keys, v.Key)
		fmt.Printf("VERDICT %s: %s\n", v.Key, v.What)
	}
	fmt.Printf("REPLAY-RESULT keys=%q diverged=%q refuted=%q\n", keys, out.Diverged, out.Refuted)
}
