package usermanager

// C18 - user database and admin API act as a keyed store and never crash the server.
// Behaviours exported by TLC from spec/UserDBGen.tla are stepped through the real APIRouter
// (net/http/httptest) on top of a real localManager on a bolt file in a temp dir. After EVERY step
// the whole store is read back (GET each UID + LIST) and compared with the store the model expects;
// then the consumers (AuthenticateUser, AuthoriseNewSession, UploadStatus, ListAllUsers,
// GetUserInfo) run under recover, and the store is read back once more.
// Decides: read-back != model, a rejected request changed the store, a panic.
// Logged only: HTTP status codes, the verdicts of the consumers.

import (
	"bytes"
	"encoding/base64"
	"encoding/json"
	"fmt"
	"io"
	"math"
	"net/http"
	"net/http/httptest"
	"os"
	"path/filepath"
	"runtime"
	"runtime/debug"
	"sort"
	"strings"
	"sync"
	"sync/atomic"
	"testing"
	"time"

	"github.com/cbeuw/Cloak/internal/common"
	kit "github.com/cbeuw/Cloak/internal/verifkit"
	log "github.com/sirupsen/logrus"
	bolt "go.etcd.io/bbolt"
)

// field order of spec/UserDBGen.tla FieldSeq
var c18Fields = []string{"SessionsCap", "UpRate", "DownRate", "UpCredit", "DownCredit", "ExpiryTime"}

const (
	c18MaxV = 1000000 // spec/UserDB.tla MAXV
	c18MinV = -c18MaxV - 1
)

type c18Cell []int64 // <<>> never written, <<v>> written

type c18Step struct {
	O  string               `json:"o"`
	P  string               `json:"p"`
	B  string               `json:"b"`
	W  []c18Cell            `json:"w"`
	Up int64                `json:"up"`
	Dn int64                `json:"dn"`
	Ok bool                 `json:"ok"`
	S  map[string][]c18Cell `json:"s"`
	C  map[string]string    `json:"c"`
	A  map[string]string    `json:"a"`
	T  map[string][]string  `json:"t"`
	R  []string             `json:"r"`
}

type c18Behaviour struct {
	Steps []c18Step `json:"steps"`
}

// c18Conc is the concretisation of one behaviour: which concrete UID plays u1, and how bodies are laid out.
type c18Conc struct {
	Swap  bool `json:"swap"`
	Decor int  `json:"decor"`
}

// two 16-byte UIDs whose URL-safe and standard base64 forms differ ('-' '_' vs '+' '/'), in both byte orders
var c18UIDa = []byte{0xfb, 0xef, 0xbe, 0xff, 0xff, 0xfe, 0x00, 0x10, 0x83, 0x10, 0x51, 0x87, 0x20, 0x92, 0x8b, 0x3f}
var c18UIDb = []byte{0x03, 0xff, 0xfe, 0xfb, 0xf0, 0x0f, 0x55, 0xaa, 0x00, 0x00, 0x00, 0x00, 0x00, 0x00, 0x00, 0x01}

func (c c18Conc) uid(u string) []byte {
	if (u == "u1") != c.Swap {
		return c18UIDa
	}
	return c18UIDb
}

// c18Concrete maps a point of the model's compressed number line to the Go integer it stands for.
func c18Concrete(x int64, field int) int64 {
	max, min := int64(math.MaxInt64), int64(math.MinInt64)
	if field == 0 { // SessionsCap is an int32
		max, min = math.MaxInt32, math.MinInt32
	}
	switch {
	case x > c18MaxV/2:
		return max - (c18MaxV - x)
	case x < c18MinV/2:
		return min + (x - c18MinV)
	}
	return x
}

// ---------------------------------------------------------------------------------------------

type c18Env struct {
	dir    string
	mgr    *localManager
	router *APIRouter
	conc   c18Conc
	table  []string
	status map[string]int
	uses   int
	// the step table is only built when verbose is set (replays, and the re-run of a failing behaviour)
	verbose bool
	// the concurrent driver leaves bolt's fdatasync on (slower commits: wider overlap windows)
	keepSync bool
}

func (e *c18Env) open() error {
	m, err := MakeLocalManager(filepath.Join(e.dir, "userinfo.db"), common.WorldOfTime(time.Unix(0, 0)))
	if err != nil {
		return err
	}
	// every Update still writes its pages to the file before it returns; only the fdatasync is skipped
	// (the file lives on a tmpfs, and the property is about Close/reopen, not about power loss)
	m.db.NoSync = !e.keepSync
	e.mgr = m
	e.router = APIRouterOf(m)
	return nil
}

func c18NewEnv(tmp string) *c18Env {
	dir, err := os.MkdirTemp(tmp, "c18db")
	if err != nil {
		panic(err)
	}
	e := &c18Env{dir: dir, status: map[string]int{}}
	if err := e.open(); err != nil {
		panic(err)
	}
	return e
}

func (e *c18Env) destroy() {
	if e.mgr != nil {
		c18Safe(func() { e.mgr.Close() })
	}
	os.RemoveAll(e.dir)
}

// recycle empties the database behind the manager's back so that the next behaviour starts from an empty
// store without paying for a new file and a new mmap (the bolt file keeps its free pages: more varied
// layouts than a fresh file; every 64th behaviour gets a new file anyway).
func (e *c18Env) recycle() bool {
	e.uses++
	if e.mgr == nil || e.uses%64 == 0 {
		return false
	}
	err := e.mgr.db.Update(func(tx *bolt.Tx) error {
		var names [][]byte
		_ = tx.ForEach(func(name []byte, _ *bolt.Bucket) error {
			names = append(names, append([]byte{}, name...))
			return nil
		})
		for _, n := range names {
			if err := tx.DeleteBucket(n); err != nil {
				return err
			}
		}
		return nil
	})
	e.table = nil
	return err == nil
}

func (e *c18Env) logf(format string, a ...any) {
	if e.verbose {
		e.table = append(e.table, fmt.Sprintf(format, a...))
	}
}

// c18Safe runs f and returns the panic (value and the innermost Cloak / library frames), if any.
func c18Safe(f func()) (p string) {
	defer func() {
		if r := recover(); r != nil {
			p = fmt.Sprintf("%v | %s", r, c18Frames(string(debug.Stack())))
		}
	}()
	f()
	return ""
}

func c18Frames(stack string) string {
	var out []string
	for _, l := range strings.Split(stack, "\n") {
		if strings.HasPrefix(l, "github.com/") && !strings.Contains(l, "c18") && !strings.Contains(l, "verifkit") {
			if i := strings.LastIndex(l, "("); i > 0 {
				l = l[:i]
			}
			out = append(out, l[strings.LastIndex(l, "/")+1:])
			if len(out) == 4 {
				break
			}
		}
	}
	return strings.Join(out, " < ")
}

// do sends one request through the router; a panicking handler is reported, not propagated.
func (e *c18Env) do(method, path, body string) (code int, resp []byte, pan string) {
	pan = c18Safe(func() {
		var rd io.Reader
		if body != "\x00nobody" {
			rd = strings.NewReader(body)
		}
		req := httptest.NewRequest(method, "http://srv"+path, rd)
		rr := httptest.NewRecorder()
		e.router.ServeHTTP(rr, req)
		code = rr.Code
		resp = rr.Body.Bytes()
	})
	return
}

func c18Path(uid []byte) string { return "/admin/users/" + base64.URLEncoding.EncodeToString(uid) }

// c18Body renders a UserInfo JSON document by hand so that layout, field order and extras are under control.
func c18Body(uid []byte, w []c18Cell, decor int, override func(field int) (string, bool)) string {
	parts := []string{fmt.Sprintf(`"UID":%q`, base64.StdEncoding.EncodeToString(uid))}
	for i, f := range c18Fields {
		if override != nil {
			if s, ok := override(i); ok {
				parts = append(parts, fmt.Sprintf(`%q:%s`, f, s))
				continue
			}
		}
		if i < len(w) && len(w[i]) == 1 {
			parts = append(parts, fmt.Sprintf(`%q:%d`, f, c18Concrete(w[i][0], i)))
		}
	}
	sep := ","
	switch decor % 3 {
	case 1: // reversed member order, an unknown member with nested content
		for i, j := 0, len(parts)-1; i < j; i, j = i+1, j-1 {
			parts[i], parts[j] = parts[j], parts[i]
		}
		parts = append(parts[:len(parts)/2], append([]string{`"Bogus":{"x":[1,2,{"UID":"AAAA"}]}`}, parts[len(parts)/2:]...)...)
	case 2: // white space
		sep = " ,\n\t"
	}
	return "{" + strings.Join(parts, sep) + "}"
}

// observed store: uid (u1/u2) -> nil (no such user) or six optional values
type c18Rec []*int64
type c18Store map[string]c18Rec

func c18FromInfo(ui *UserInfo) c18Rec {
	r := make(c18Rec, 6)
	if ui.SessionsCap != nil {
		v := int64(*ui.SessionsCap)
		r[0] = &v
	}
	for i, p := range []MaybeInt64{ui.UpRate, ui.DownRate, ui.UpCredit, ui.DownCredit, ui.ExpiryTime} {
		if p != nil {
			v := *p
			r[i+1] = &v
		}
	}
	return r
}

func (r c18Rec) String() string {
	if r == nil {
		return "-"
	}
	var sb strings.Builder
	sb.WriteByte('[')
	for i, p := range r {
		if i > 0 {
			sb.WriteByte(' ')
		}
		if p == nil {
			sb.WriteString("null")
		} else {
			fmt.Fprintf(&sb, "%d", *p)
		}
	}
	sb.WriteByte(']')
	return sb.String()
}

func c18StoreString(s c18Store) string {
	return "u1=" + s["u1"].String() + " u2=" + s["u2"].String()
}

// readBack reads the whole store through the API: GET for each UID and LIST. It returns the store as seen
// by GET, the store as seen by LIST, and a problem description (panic / undecodable answer / unknown user).
func (e *c18Env) readBack() (get, list c18Store, key, what string) {
	get, list = c18Store{}, c18Store{}
	for _, u := range []string{"u1", "u2"} {
		code, resp, pan := e.do("GET", c18Path(e.conc.uid(u)), "\x00nobody")
		if pan != "" {
			return nil, nil, "panic:GetUserInfo", "GET " + u + " panicked: " + pan
		}
		e.status[fmt.Sprintf("status:get:%d", code)]++
		switch {
		case code == http.StatusNotFound:
			get[u] = nil
		case code == http.StatusOK:
			var ui UserInfo
			if err := json.Unmarshal(resp, &ui); err != nil {
				return nil, nil, "readback:undecodable", fmt.Sprintf("GET %s answered 200 with %q: %v", u, resp, err)
			}
			if !bytes.Equal(ui.UID, e.conc.uid(u)) {
				return nil, nil, "readback:wrong-uid", fmt.Sprintf("GET %s answered the record of UID %x", u, ui.UID)
			}
			get[u] = c18FromInfo(&ui)
		default:
			return nil, nil, "readback:get-failed", fmt.Sprintf("GET %s answered %d %q", u, code, resp)
		}
	}
	code, resp, pan := e.do("GET", "/admin/users", "\x00nobody")
	if pan != "" {
		return nil, nil, "panic:ListAllUsers", "LIST panicked: " + pan
	}
	e.status[fmt.Sprintf("status:list:%d", code)]++
	if code != http.StatusOK {
		return nil, nil, "readback:list-failed", fmt.Sprintf("LIST answered %d %q", code, resp)
	}
	var infos []UserInfo
	if err := json.Unmarshal(resp, &infos); err != nil {
		return nil, nil, "readback:undecodable", fmt.Sprintf("LIST answered %q: %v", resp, err)
	}
	list["u1"], list["u2"] = nil, nil
	for i := range infos {
		var u string
		switch {
		case bytes.Equal(infos[i].UID, e.conc.uid("u1")):
			u = "u1"
		case bytes.Equal(infos[i].UID, e.conc.uid("u2")):
			u = "u2"
		default:
			return nil, nil, "readback:unknown-user", fmt.Sprintf("LIST shows a user %x nobody created", infos[i].UID)
		}
		if list[u] != nil {
			return nil, nil, "readback:duplicate-user", "LIST shows " + u + " twice"
		}
		list[u] = c18FromInfo(&infos[i])
	}
	return get, list, "", ""
}

// c18Diff compares an observed store with the model's. A field the model never wrote may be null or 0;
// a field the model wrote as 0 may likewise come back as null (the statement does not choose).
func c18Diff(obs c18Store, exp map[string][]c18Cell) string {
	for _, u := range []string{"u1", "u2"} {
		o, x := obs[u], exp[u]
		if (o == nil) != (len(x) == 0) {
			if o == nil {
				return u + " should exist and does not"
			}
			return u + " should not exist and does: " + o.String()
		}
		if o == nil {
			continue
		}
		for i := range c18Fields {
			want := int64(0)
			if len(x[i]) == 1 {
				want = c18Concrete(x[i][0], i)
			}
			got := int64(0)
			if o[i] != nil {
				got = *o[i]
			}
			if got != want {
				return fmt.Sprintf("%s.%s reads %d, the operations so far imply %d", u, c18Fields[i], got, want)
			}
		}
	}
	return ""
}

func c18ExpString(exp map[string][]c18Cell) string {
	var sb strings.Builder
	for _, u := range []string{"u1", "u2"} {
		x := exp[u]
		sb.WriteString(u + "=")
		if len(x) == 0 {
			sb.WriteString("- ")
			continue
		}
		sb.WriteByte('[')
		for i := range x {
			if i > 0 {
				sb.WriteByte(' ')
			}
			if len(x[i]) == 0 {
				sb.WriteString("null")
			} else {
				fmt.Fprintf(&sb, "%d", c18Concrete(x[i][0], i))
			}
		}
		sb.WriteString("] ")
	}
	return strings.TrimSpace(sb.String())
}

// check reads back and compares; keyOnDiff names the class of the step that was just executed.
func (e *c18Env) check(exp map[string][]c18Cell, keyOnDiff, ctx string) (key, what string) {
	get, list, key, what := e.readBack()
	if key != "" {
		e.logf("  %s: %s", ctx, what)
		if key == "readback:unknown-user" && strings.HasPrefix(keyOnDiff, "rejected-changed-state:") {
			key = keyOnDiff // the rejected request created a user of its own
		}
		return key, ctx + ": " + what
	}
	if e.verbose {
		e.logf("  %s: expected %s | GET %s | LIST %s", ctx, c18ExpString(exp), c18StoreString(get), c18StoreString(list))
	}
	if d := c18Diff(get, exp); d != "" {
		return keyOnDiff, ctx + ": GET: " + d
	}
	if d := c18Diff(list, exp); d != "" {
		return keyOnDiff, ctx + ": LIST: " + d
	}
	return "", ""
}

type c18Malformed struct {
	kind, method, path, body string
}

func (e *c18Env) malformed() []c18Malformed {
	var out []c18Malformed
	seven := []c18Cell{{7777}, {7777}, {7777}, {7777}, {7777}, {7777}}
	for _, u := range []string{"u1", "u2"} {
		uid := e.conc.uid(u)
		good := c18Body(uid, seven, 0, nil)
		std := base64.StdEncoding.EncodeToString(uid) // contains '+' or '/': not URL-safe
		out = append(out,
			c18Malformed{"badpath", "POST", "/admin/users/" + strings.ReplaceAll(std, "/", "%2F"), good},
			c18Malformed{"badpath", "POST", "/admin/users/!!not*base64!!", good},
			c18Malformed{"badpath", "POST", c18Path(uid) + "A", good},
			c18Malformed{"badpath", "DELETE", "/admin/users/" + strings.ReplaceAll(std, "/", "%2F"), "\x00nobody"},
			c18Malformed{"badpath", "DELETE", "/admin/users/!!not*base64!!", "\x00nobody"},
			c18Malformed{"badpath", "GET", "/admin/users/!!not*base64!!", "\x00nobody"},
			c18Malformed{"garbage", "POST", c18Path(uid), "{{{ not json"},
			c18Malformed{"garbage", "POST", c18Path(uid), "[" + good + "]"},
			c18Malformed{"garbage", "POST", c18Path(uid), `"` + std + `"`},
			c18Malformed{"garbage", "POST", c18Path(uid), "null"},
			c18Malformed{"garbage", "POST", c18Path(uid), good[:len(good)/2]},
			c18Malformed{"emptybody", "POST", c18Path(uid), ""},
			c18Malformed{"emptybody", "POST", c18Path(uid), "\x00nobody"},
			c18Malformed{"emptybody", "POST", c18Path(uid), "{}"},
			c18Malformed{"cap-overflow", "POST", c18Path(uid), c18Body(uid, seven, 0, func(f int) (string, bool) { return "2147483648", f == 0 })},
			c18Malformed{"cap-overflow", "POST", c18Path(uid), c18Body(uid, seven, 1, func(f int) (string, bool) { return "-2147483649", f == 0 })},
			c18Malformed{"cap-overflow", "POST", c18Path(uid), c18Body(uid, seven, 0, func(f int) (string, bool) { return "9223372036854775807", f == 0 })},
			c18Malformed{"value-not-int", "POST", c18Path(uid), c18Body(uid, seven, 0, func(f int) (string, bool) { return `"abc"`, f == 1 })},
			c18Malformed{"value-not-int", "POST", c18Path(uid), c18Body(uid, seven, 0, func(f int) (string, bool) { return "1.5", f == 3 })},
			c18Malformed{"value-not-int", "POST", c18Path(uid), c18Body(uid, seven, 0, func(f int) (string, bool) { return "9223372036854775808", f == 5 })},
			c18Malformed{"value-not-int", "POST", c18Path(uid), c18Body(uid, seven, 0, func(f int) (string, bool) { return "[1]", f == 4 })},
			c18Malformed{"baduid-body", "POST", c18Path(uid), strings.Replace(good, std, "***", 1)},
			c18Malformed{"baduid-body", "POST", c18Path(uid), strings.Replace(good, `"`+std+`"`, "5", 1)},
			c18Malformed{"baduid-body", "POST", c18Path(uid), strings.Replace(good, std, "", 1)},
			// a well-formed UID that is not the one in the path
			c18Malformed{"uid-mismatch", "POST", c18Path(uid), strings.Replace(good, std, std[:8], 1)},
			c18Malformed{"uid-mismatch", "POST", c18Path(uid), strings.Replace(good, std, base64.StdEncoding.EncodeToString(append([]byte{0x77}, uid[1:]...)), 1)},
		)
	}
	return out
}

// consumers runs what the data path does with the records, each call under recover.
func (e *c18Env) consumers(st *c18Step, res *kit.Result) (key, what string) {
	var ups []StatusUpdate
	for _, u := range []string{"u1", "u2"} {
		uid := e.conc.uid(u)
		var err error
		var upRate, downRate int64
		if p := c18Safe(func() { upRate, downRate, err = e.mgr.AuthenticateUser(uid) }); p != "" {
			return "panic:AuthenticateUser", "AuthenticateUser(" + u + ") panicked: " + p
		}
		got := c18Verdict(err)
		want := st.C[u]
		if want == "norate" { // the rate is looked at by userPanel.GetUser, not by the manager
			want = "ok"
		}
		e.logf("  AuthenticateUser(%s) = (%d, %d, %v), model %s", u, upRate, downRate, err, st.C[u])
		if got != want {
			res.Stat("consumer_result_diff", 1)
			res.Note("AuthenticateUser(%s): model %s, code %v on %s", u, st.C[u], err, c18ExpString(st.S))
		}
		if p := c18Safe(func() { err = e.mgr.AuthoriseNewSession(uid, AuthorisationInfo{NumExistingSessions: 0}) }); p != "" {
			return "panic:AuthoriseNewSession", "AuthoriseNewSession(" + u + ") panicked: " + p
		}
		e.logf("  AuthoriseNewSession(%s) = %v, model %s", u, err, st.A[u])
		if got := c18Verdict(err); got != st.A[u] {
			res.Stat("consumer_result_diff", 1)
			res.Note("AuthoriseNewSession(%s): model %s, code %v on %s", u, st.A[u], err, c18ExpString(st.S))
		}
		if p := c18Safe(func() { _, _ = e.mgr.GetUserInfo(uid) }); p != "" {
			return "panic:GetUserInfo", "GetUserInfo(" + u + ") panicked: " + p
		}
		ups = append(ups, StatusUpdate{UID: uid, Active: true, NumSession: 1, Timestamp: 1})
	}
	if p := c18Safe(func() { _, _ = e.mgr.ListAllUsers() }); p != "" {
		return "panic:ListAllUsers", "ListAllUsers panicked: " + p
	}
	// a usage report of 0/0 for both users: must not panic, must not change what is stored
	var resps []StatusResponse
	var err error
	if p := c18Safe(func() { resps, err = e.mgr.UploadStatus(ups) }); p != "" {
		return "panic:UploadStatus", "UploadStatus(0,0) panicked: " + p
	}
	for _, u := range []string{"u1", "u2"} {
		got := c18Terminations(resps, e.conc.uid(u))
		want := append([]string{}, st.T[u]...)
		sort.Strings(want)
		e.logf("  UploadStatus(%s,0,0) = %v (%v), model %v", u, got, err, want)
		if strings.Join(got, ",") != strings.Join(want, ",") {
			res.Stat("consumer_result_diff", 1)
			res.Note("UploadStatus(%s,0,0): model %v, code %v on %s", u, want, got, c18ExpString(st.S))
		}
	}
	return "", ""
}

func c18Verdict(err error) string {
	switch err {
	case nil:
		return "ok"
	case ErrUserNotFound:
		return "notfound"
	case ErrNoUpCredit:
		return "noup"
	case ErrNoDownCredit:
		return "nodown"
	case ErrUserExpired:
		return "expired"
	case ErrSessionsCapReached:
		return "cap"
	}
	return "error:" + err.Error()
}

func c18Terminations(resps []StatusResponse, uid []byte) []string {
	out := []string{}
	for _, r := range resps {
		if !bytes.Equal(r.UID, uid) || r.Action != TERMINATE {
			continue
		}
		switch r.Message {
		case "User no longer exists":
			out = append(out, "gone")
		case "No upload credit left":
			out = append(out, "noup")
		case "No download credit left":
			out = append(out, "nodown")
		case "User has expired":
			out = append(out, "expired")
		default:
			out = append(out, r.Message)
		}
	}
	sort.Strings(out)
	return out
}

// c18Run steps one behaviour through an empty database. Returns the violation key ("" if none).
func c18Run(b *c18Behaviour, conc c18Conc, res *kit.Result, e *c18Env) (key, what string, table []string) {
	e.conc = conc
	e.table = nil
	defer func() {
		for k, v := range e.status {
			res.Stat(k, int64(v))
		}
		e.status = map[string]int{}
		table = e.table
	}()
	prev := map[string][]c18Cell{"u1": {}, "u2": {}}
	if key, what = e.check(prev, "readback:fresh", "empty database"); key != "" {
		return
	}
	for si := range b.Steps {
		st := &b.Steps[si]
		keyOnDiff := "readback:" + st.O
		switch st.O {
		case "post":
			path := c18Path(e.conc.uid(st.P))
			w := st.W
			class := "post"
			if st.P != st.B {
				w = []c18Cell{{7777}, {7777}, {7777}, {7777}, {7777}, {7777}} // values that occur nowhere else
				class = "uid-mismatch"
				keyOnDiff = "rejected-changed-state:uid-mismatch"
			}
			body := c18Body(e.conc.uid(st.B), w, e.conc.Decor+si, nil)
			code, resp, pan := e.do("POST", path, body)
			if e.verbose {
				e.logf("step %d POST %s body %s -> %d %q (model: ok=%v)", si, st.P, body, code, strings.TrimSpace(string(resp)), st.Ok)
			}
			if pan != "" {
				return "panic:WriteUserInfo", fmt.Sprintf("step %d: POST panicked: %s", si, pan), nil
			}
			e.status[fmt.Sprintf("status:%s:%d", class, code)]++
			if st.Ok && code >= 400 && (e.conc.Decor+si)%3 == 1 {
				// the statement does not say whether unknown members are tolerated: if the decorated body is
				// refused and nothing changed, send the plain one
				if k, _ := e.check(prev, "x", "after refused decorated POST"); k == "" {
					res.Stat("unknown_member_refused", 1)
					body = c18Body(e.conc.uid(st.B), w, 0, nil)
					code, resp, pan = e.do("POST", path, body)
					e.logf("step %d POST %s body %s -> %d %q", si, st.P, body, code, resp)
					if pan != "" {
						return "panic:WriteUserInfo", fmt.Sprintf("step %d: POST panicked: %s", si, pan), nil
					}
				}
			}
		case "malformed":
			ms := e.malformed()
			for mi, m := range ms {
				code, resp, pan := e.do(m.method, m.path, m.body)
				if e.verbose {
					e.logf("step %d malformed/%s %s %s body %q -> %d %q", si, m.kind, m.method, m.path, strings.TrimPrefix(m.body, "\x00"), code, strings.TrimSpace(string(resp)))
				}
				if pan != "" {
					return "panic:handler:" + m.kind, fmt.Sprintf("step %d: %s %s panicked: %s", si, m.method, m.path, pan), nil
				}
				e.status[fmt.Sprintf("status:malformed-%s:%d", m.kind, code)]++
				if mi+1 < len(ms) && ms[mi+1].kind == m.kind {
					continue // the store is read back after the last request of each kind (per user)
				}
				if key, what = e.check(st.S, "rejected-changed-state:"+m.kind, fmt.Sprintf("step %d after malformed/%s", si, m.kind)); key != "" {
					return
				}
			}
		case "delete":
			code, resp, pan := e.do("DELETE", c18Path(e.conc.uid(st.P)), "\x00nobody")
			if e.verbose {
				e.logf("step %d DELETE %s -> %d %q (model: ok=%v)", si, st.P, code, strings.TrimSpace(string(resp)), st.Ok)
			}
			if pan != "" {
				return "panic:DeleteUser", fmt.Sprintf("step %d: DELETE panicked: %s", si, pan), nil
			}
			if st.Ok {
				e.status[fmt.Sprintf("status:delete:%d", code)]++
			} else {
				e.status[fmt.Sprintf("status:delete-missing:%d", code)]++
				keyOnDiff = "rejected-changed-state:delete-missing"
			}
		case "reopen":
			if err := e.mgr.Close(); err != nil {
				panic(err)
			}
			e.mgr = nil
			if err := e.open(); err != nil {
				return "reopen-failed", fmt.Sprintf("step %d: the database file cannot be opened again: %v", si, err), nil
			}
			e.logf("step %d Close + MakeLocalManager", si)
		case "upload":
			up := StatusUpdate{UID: e.conc.uid(st.P), Active: true, NumSession: 1, Timestamp: 1,
				UpUsage: c18Concrete(st.Up, 1), DownUsage: c18Concrete(st.Dn, 1)}
			var resps []StatusResponse
			var uerr error
			if p := c18Safe(func() { resps, uerr = e.mgr.UploadStatus([]StatusUpdate{up}) }); p != "" {
				return "panic:UploadStatus", fmt.Sprintf("step %d: UploadStatus panicked: %s", si, p), nil
			}
			got := c18Terminations(resps, up.UID)
			want := append([]string{}, st.R...)
			sort.Strings(want)
			e.logf("step %d UploadStatus(%s, up=%d, down=%d) = %v (%v), model %v", si, st.P, up.UpUsage, up.DownUsage, got, uerr, want)
			if strings.Join(got, ",") != strings.Join(want, ",") {
				res.Stat("consumer_result_diff", 1)
				res.Note("UploadStatus(%s,%d,%d): model %v, code %v", st.P, up.UpUsage, up.DownUsage, want, got)
			}
			if !st.Ok {
				keyOnDiff = "rejected-changed-state:upload-missing"
			}
		default:
			panic("unknown step " + st.O)
		}
		if key, what = e.check(st.S, keyOnDiff, fmt.Sprintf("step %d after %s", si, st.O)); key != "" {
			return
		}
		if key, what = e.consumers(st, res); key != "" {
			what = fmt.Sprintf("step %d (store %s): %s", si, c18ExpString(st.S), what)
			return
		}
		if key, what = e.check(st.S, "consumer-changed-state", fmt.Sprintf("step %d after the consumers", si)); key != "" {
			return
		}
		prev = st.S
	}
	// integer extremes in a usage report: only "does not panic" is demanded of this last call
	var extreme []StatusUpdate
	for _, u := range []string{"u1", "u2"} {
		for _, amt := range []int64{math.MaxInt64, math.MinInt64, -1} {
			extreme = append(extreme, StatusUpdate{UID: e.conc.uid(u), UpUsage: amt, DownUsage: amt})
		}
	}
	if p := c18Safe(func() { _, _ = e.mgr.UploadStatus(extreme) }); p != "" {
		return "panic:UploadStatus", "final UploadStatus with extreme usage panicked: " + p, nil
	}
	for _, u := range []string{"u1", "u2"} {
		if p := c18Safe(func() { _, _ = e.mgr.GetUserInfo(e.conc.uid(u)); _, _, _ = e.mgr.AuthenticateUser(e.conc.uid(u)) }); p != "" {
			return "panic:AuthenticateUser", "after extreme usage reports: " + p, nil
		}
	}
	return "", "", nil
}

func c18Nontrivial(b *c18Behaviour) bool {
	// non-trivial: an accepted write of a proper subset of the fields, or a rejected request / reopen
	// after at least one accepted write
	written := false
	for _, st := range b.Steps {
		n := 0
		for _, c := range st.W {
			n += len(c)
		}
		if st.O == "post" && st.Ok {
			if n < 6 {
				return true
			}
			written = true
		} else if written && (!st.Ok || st.O == "reopen") {
			return true
		}
	}
	return false
}

func c18Sig(b *c18Behaviour) string {
	var sb strings.Builder
	for _, st := range b.Steps {
		fmt.Fprintf(&sb, "%s %s %s %v %d %d;", st.O, st.P, st.B, st.W, st.Up, st.Dn)
	}
	return sb.String()
}

func c18Silence() {
	log.SetOutput(io.Discard)
	log.StandardLogger().ExitFunc = func(int) { panic("logrus exit") }
}

func TestVerifC18Replay(t *testing.T) {
	c18Silence()
	res := kit.NewResult()
	defer func() { res.Save(true) }()
	tmp := t.TempDir()
	if rp := kit.Env("VERIF_REPLAY", ""); rp != "" {
		c18ReplayFile(t, rp, res, tmp)
		return
	}
	type job struct {
		idx  int
		line []byte
	}
	jobs := make(chan job, 256)
	var wg sync.WaitGroup
	seed := int(kit.Seed())
	var seenM sync.Mutex
	seen := map[string]int{} // violations per key: every behaviour is still run, only the first few are re-run
	workers := runtime.GOMAXPROCS(0)
	for w := 0; w < workers; w++ {
		wg.Add(1)
		go func() {
			defer wg.Done()
			var env *c18Env
			defer func() {
				if env != nil {
					env.destroy()
				}
			}()
			for j := range jobs {
				var b c18Behaviour
				if err := json.Unmarshal(j.line, &b); err != nil {
					res.Note("undecodable behaviour %d: %v", j.idx, err)
					res.Stat("undecodable", 1)
					continue
				}
				concs := []c18Conc{{Swap: (j.idx+seed)%2 == 1, Decor: (j.idx/2 + seed) % 3}}
				if kit.Thorough() && len(b.Steps) <= 3 { // the other byte order of the UIDs, another body layout
					concs = append(concs, c18Conc{Swap: !concs[0].Swap, Decor: (concs[0].Decor + 1) % 3})
				}
				for _, c := range concs {
					if env == nil || !env.recycle() {
						if env != nil {
							env.destroy()
						}
						env = c18NewEnv(tmp)
					}
					reused := env.uses > 0
					key, what, table := c18Run(&b, c, res, env)
					res.Count(c18Sig(&b), c18Nontrivial(&b))
					res.Stat("steps", int64(len(b.Steps)))
					if key != "" {
						// a failing run never hands its database on; the first few per key are run again on a
						// brand-new file with the step table switched on
						env.destroy()
						env = nil
						key2 := "not-tried"
						seenM.Lock()
						seen[key]++
						first := seen[key] <= 3
						seenM.Unlock()
						if first {
							env = c18NewEnv(tmp)
							env.verbose = true
							key2, _, table = c18Run(&b, c, res, env)
							env.destroy()
							env = nil
						}
						res.Violate(key, what, map[string]any{"behaviour": b, "concretisation": c, "table": table,
							"database_reused": reused, "key_on_new_file": key2})
					}
				}
				if j.idx%9973 == 1 {
					res.Sample(map[string]any{"behaviour": json.RawMessage(j.line)}, 3)
				}
			}
		}()
	}
	idx := 0
	err := kit.ReadLines(kit.Env("VERIF_IN", ""), func(line []byte) error {
		idx++
		jobs <- job{idx, append([]byte{}, line...)}
		return nil
	})
	close(jobs)
	wg.Wait()
	if err != nil {
		t.Fatal(err)
	}
	res.Stat("behaviours", int64(idx))
}

func c18ReplayFile(t *testing.T, path string, res *kit.Result, tmp string) {
	var rf struct {
		Replay struct {
			Behaviour      c18Behaviour `json:"behaviour"`
			Concretisation c18Conc      `json:"concretisation"`
		} `json:"replay"`
	}
	raw, err := os.ReadFile(path)
	if err != nil {
		t.Fatal(err)
	}
	if err := json.Unmarshal(raw, &rf); err != nil {
		t.Fatal(err)
	}
	env := c18NewEnv(tmp)
	env.verbose = true
	defer env.destroy()
	key, what, table := c18Run(&rf.Replay.Behaviour, rf.Replay.Concretisation, res, env)
	for _, l := range table {
		fmt.Println(l)
	}
	fmt.Printf("REPLAY-RESULT key=%q what=%q\n", key, what)
}

// ------------------------------------------------------------------------------------------- B2
// Overlapping admin requests: 2-4 goroutines fire requests at the real APIRouter (usage uploads at the
// manager) on 1-2 UIDs at the same moment; call/return events are recorded under one lock (global order);
// after each episode the whole store is read back. TLC validates the recording against
// spec/UserDBTrace.tla (every episode must be explained by SOME order of its operations that respects
// real time). Second formulation here: brute force over the permutations of each episode's concurrent
// operations on a small reference map; its verdicts are handed to c18.py for cross-checking, TLC decides.

type c18Op struct {
	Op string    `json:"op"`
	Pu string    `json:"pu"`
	W  []c18Cell `json:"w,omitempty"`
	Up int64     `json:"up,omitempty"`
	Dn int64     `json:"dn,omitempty"`
}

type c18Episode struct {
	Setup []c18Op `json:"setup"`
	Conc  []c18Op `json:"conc"`
	Fresh bool    `json:"fresh,omitempty"` // run on a brand-new database file (its mmap grows within the first commits)
}

// what one operation / read returned
type c18Seen struct {
	Code  int                  `json:"code"`
	Rec   []c18Cell            `json:"rec"`   // GET: six cells, or empty when 404
	Users map[string][]c18Cell `json:"users"` // LIST
	Panic string               `json:"panic,omitempty"`
}

func c18NoCells() []c18Cell { return []c18Cell{{}, {}, {}, {}, {}, {}} }

func c18One(field int, v int64) []c18Cell {
	w := c18NoCells()
	w[field] = c18Cell{v}
	return w
}

func c18All(v int64) []c18Cell {
	w := c18NoCells()
	for i := range w {
		w[i] = c18Cell{v}
	}
	return w
}

// c18Abstract is the inverse of c18Concrete; values that are not on the model's number line become 555555.
func c18Abstract(v int64, field int) int64 {
	max, min := int64(math.MaxInt64), int64(math.MinInt64)
	if field == 0 {
		max, min = math.MaxInt32, math.MinInt32
	}
	switch {
	case v >= -c18MaxV/2 && v <= c18MaxV/2:
		return v
	case v > 0 && max-v < c18MaxV/2:
		return c18MaxV - (max - v)
	case v < 0 && v-min < c18MaxV/2:
		return c18MinV + (v - min)
	}
	return 555555
}

func c18CellsOf(r c18Rec) []c18Cell {
	if r == nil {
		return []c18Cell{}
	}
	out := make([]c18Cell, 6)
	for i, p := range r {
		if p == nil {
			out[i] = c18Cell{}
		} else {
			out[i] = c18Cell{c18Abstract(*p, i)}
		}
	}
	return out
}

type c18Recorder struct {
	mu  sync.Mutex
	tw  *kit.TraceWriter
	seq int64
}

func (r *c18Recorder) emit(ev map[string]any) int64 {
	r.mu.Lock()
	defer r.mu.Unlock()
	r.seq++
	r.tw.Emit(ev)
	return r.seq
}

// exec performs one operation against the real code and records call and return.
func (e *c18Env) exec(rec *c18Recorder, t int, op c18Op) (seen c18Seen, callSeq, retSeq int64) {
	w := op.W
	if w == nil {
		w = c18NoCells()
	}
	bu := ""
	if op.Op == "post" {
		bu = op.Pu
	}
	callSeq = rec.emit(map[string]any{"ev": "call", "t": t, "op": op.Op, "pu": op.Pu, "bu": bu, "w": w, "up": op.Up, "dn": op.Dn})
	seen = c18Seen{Rec: []c18Cell{}, Users: map[string][]c18Cell{"u1": {}, "u2": {}}}
	// a read of unmapped memory (SIGSEGV at an "unexpected fault address") is fatal for a Go process; turn it
	// into a panic of this goroutine so that the driver survives and can report it as the crash it is
	defer debug.SetPanicOnFault(debug.SetPanicOnFault(true))
	switch op.Op {
	case "post":
		seen.Code, _, seen.Panic = e.do("POST", c18Path(e.conc.uid(op.Pu)), c18Body(e.conc.uid(op.Pu), w, t, nil))
	case "delete":
		seen.Code, _, seen.Panic = e.do("DELETE", c18Path(e.conc.uid(op.Pu)), "\x00nobody")
	case "upload":
		up := StatusUpdate{UID: e.conc.uid(op.Pu), Active: true, NumSession: 1, Timestamp: 1,
			UpUsage: c18Concrete(op.Up, 1), DownUsage: c18Concrete(op.Dn, 1)}
		seen.Panic = c18Safe(func() { _, _ = e.mgr.UploadStatus([]StatusUpdate{up}) })
	case "get":
		var resp []byte
		seen.Code, resp, seen.Panic = e.do("GET", c18Path(e.conc.uid(op.Pu)), "\x00nobody")
		if seen.Code == http.StatusOK {
			var ui UserInfo
			if err := json.Unmarshal(resp, &ui); err != nil || !bytes.Equal(ui.UID, e.conc.uid(op.Pu)) {
				seen.Panic = fmt.Sprintf("GET answered 200 with %q", resp)
			} else {
				seen.Rec = c18CellsOf(c18FromInfo(&ui))
			}
		} else if seen.Code != http.StatusNotFound && seen.Panic == "" {
			seen.Panic = fmt.Sprintf("GET answered %d %q", seen.Code, resp)
		}
	case "list":
		var resp []byte
		seen.Code, resp, seen.Panic = e.do("GET", "/admin/users", "\x00nobody")
		var infos []UserInfo
		if seen.Panic == "" {
			if err := json.Unmarshal(resp, &infos); err != nil || seen.Code != http.StatusOK {
				seen.Panic = fmt.Sprintf("LIST answered %d %q", seen.Code, resp)
			}
		}
		for i := range infos {
			switch {
			case bytes.Equal(infos[i].UID, e.conc.uid("u1")) && len(seen.Users["u1"]) == 0:
				seen.Users["u1"] = c18CellsOf(c18FromInfo(&infos[i]))
			case bytes.Equal(infos[i].UID, e.conc.uid("u2")) && len(seen.Users["u2"]) == 0:
				seen.Users["u2"] = c18CellsOf(c18FromInfo(&infos[i]))
			default:
				seen.Panic = fmt.Sprintf("LIST shows an unexpected or repeated user %x", infos[i].UID)
			}
		}
	default:
		panic("unknown op " + op.Op)
	}
	if seen.Panic != "" {
		seen.Rec, seen.Users = []c18Cell{}, map[string][]c18Cell{"u1": {}, "u2": {}}
	}
	retSeq = rec.emit(map[string]any{"ev": "ret", "t": t, "code": seen.Code, "rec": seen.Rec, "users": seen.Users, "void": seen.Panic != ""})
	return
}

// reference store of the second formulation: uid -> nil | six values (absent == 0)
type c18Ref map[string]*[6]int64

func (r c18Ref) clone() c18Ref {
	out := c18Ref{}
	for k, v := range r {
		if v != nil {
			c := *v
			out[k] = &c
		}
	}
	return out
}

func (r c18Ref) apply(op c18Op) {
	switch op.Op {
	case "post":
		if r[op.Pu] == nil {
			r[op.Pu] = &[6]int64{}
		}
		for i, c := range op.W {
			if len(c) == 1 {
				r[op.Pu][i] = c[0]
			}
		}
	case "delete":
		delete(r, op.Pu)
	case "upload":
		if r[op.Pu] != nil {
			r[op.Pu][3] -= op.Up
			r[op.Pu][4] -= op.Dn
		}
	}
}

func (r c18Ref) matches(u string, cells []c18Cell) bool {
	if r[u] == nil {
		return len(cells) == 0
	}
	if len(cells) != 6 {
		return false
	}
	for i, c := range cells {
		v := int64(0)
		if len(c) == 1 {
			v = c[0]
		}
		if v != r[u][i] {
			return false
		}
	}
	return true
}

func (r c18Ref) agrees(op c18Op, seen c18Seen) bool {
	switch op.Op {
	case "get":
		return r.matches(op.Pu, seen.Rec)
	case "list":
		return r.matches("u1", seen.Users["u1"]) && r.matches("u2", seen.Users["u2"])
	}
	return true
}

// c18Explainable: is there an order of the concurrent operations (any order: weaker than what TLC demands,
// which also respects real time) under which every read, concurrent or in the read-back, saw the store?
func c18Explainable(ep *c18Episode, concSeen []c18Seen, back []c18Op, backSeen []c18Seen) bool {
	base := c18Ref{}
	for _, op := range ep.Setup {
		base.apply(op)
	}
	n := len(ep.Conc)
	perm := make([]int, n)
	used := make([]bool, n)
	var try func(k int, st c18Ref) bool
	try = func(k int, st c18Ref) bool {
		if k == n {
			for i, op := range back {
				if !st.agrees(op, backSeen[i]) {
					return false
				}
			}
			return true
		}
		for i := 0; i < n; i++ {
			if used[i] || !st.agrees(ep.Conc[i], concSeen[i]) {
				continue
			}
			used[i], perm[k] = true, i
			next := st.clone()
			next.apply(ep.Conc[i])
			if try(k+1, next) {
				return true
			}
			used[i] = false
		}
		return false
	}
	return try(0, base)
}

// c18CrashKey names a request that died. A fault (read of memory that is no longer mapped) inside the LIST
// handler is the bolt key slice that ListAllUsers hands out of its transaction: in a real server that is a
// fatal SIGSEGV, not a panic.
func c18CrashKey(op, pan string) string {
	if strings.Contains(pan, "fault address") || strings.Contains(pan, "invalid memory address") {
		if op == "list" {
			return "list-uid-outlives-transaction"
		}
		return "server-crash:fault:" + op
	}
	if strings.Contains(pan, " | ") {
		return "panic:concurrent:" + op
	}
	return "concurrent-read-failed:" + op
}

func c18EpisodeKey(ep *c18Episode) string {
	var names []string
	for _, op := range ep.Conc {
		names = append(names, op.Op)
	}
	sort.Strings(names)
	return "not-linearizable:" + strings.Join(names, "+")
}

// c18MakeEpisode draws one episode. The first three shapes are the classic lost-update / resurrection /
// undone-deduction races, the rest is random over the whole operation set.
func c18MakeEpisode(rng *kit.Rng, n int) c18Episode {
	v := func(i int) int64 { return int64(10 + 10*(n%7) + i) } // values that identify episode and thread
	full := c18Op{Op: "post", Pu: "u1", W: c18All(5)}
	switch n % 6 {
	case 0:
		f := rng.Intn(6)
		g := (f + 1 + rng.Intn(5)) % 6
		return c18Episode{Setup: []c18Op{full}, Conc: []c18Op{{Op: "post", Pu: "u1", W: c18One(f, v(1))}, {Op: "post", Pu: "u1", W: c18One(g, v(2))}}}
	case 1:
		return c18Episode{Setup: []c18Op{full}, Conc: []c18Op{{Op: "delete", Pu: "u1"}, {Op: "post", Pu: "u1", W: c18One(rng.Intn(6), v(2))}}}
	case 2:
		f := []int{0, 1, 2, 5}[rng.Intn(4)]
		return c18Episode{Setup: []c18Op{{Op: "post", Pu: "u1", W: c18All(100)}}, Conc: []c18Op{{Op: "upload", Pu: "u1", Up: 1 + int64(rng.Intn(3)), Dn: 4 + int64(rng.Intn(3))}, {Op: "post", Pu: "u1", W: c18One(f, v(2))}}}
	}
	if n%6 == 3 {
		// a new file: bolt remaps it (munmap + mmap) when it outgrows the initial 32 KiB, i.e. during these writes
		ep := c18Episode{Fresh: true, Setup: []c18Op{full}}
		ep.Conc = []c18Op{{Op: "list"}, {Op: "post", Pu: "u2", W: c18All(v(2))}, {Op: "post", Pu: "u1", W: c18One(rng.Intn(6), v(3))}, {Op: "list"}}
		if rng.Intn(2) == 0 {
			ep.Conc[3] = c18Op{Op: "get", Pu: "u1"}
		}
		return ep
	}
	ep := c18Episode{}
	switch rng.Intn(4) {
	case 0: // empty database
	case 1:
		ep.Setup = []c18Op{{Op: "post", Pu: "u1", W: c18One(rng.Intn(6), 3)}} // a partial record
	case 2:
		ep.Setup = []c18Op{full}
	case 3:
		ep.Setup = []c18Op{full, {Op: "post", Pu: "u2", W: c18All(c18MaxV)}}
	}
	k := 2 + rng.Intn(3)
	for i := 1; i <= k; i++ {
		u := "u1"
		if rng.Intn(5) == 0 {
			u = "u2"
		}
		var op c18Op
		switch rng.Intn(9) {
		case 0, 1, 2:
			op = c18Op{Op: "post", Pu: u, W: c18One(rng.Intn(6), v(i))}
		case 3:
			w := c18All(v(i))
			w[rng.Intn(6)] = c18Cell{}
			op = c18Op{Op: "post", Pu: u, W: w}
		case 4:
			op = c18Op{Op: "post", Pu: u, W: c18NoCells()}
		case 5:
			op = c18Op{Op: "delete", Pu: u}
		case 6:
			op = c18Op{Op: "upload", Pu: u, Up: int64(rng.Intn(4)), Dn: int64(1 + rng.Intn(4))}
		case 7:
			op = c18Op{Op: "get", Pu: u}
		case 8:
			op = c18Op{Op: "list"}
		}
		ep.Conc = append(ep.Conc, op)
	}
	return ep
}

// c18RunEpisode executes one episode; returns what the concurrent operations and the read-back saw, and
// whether at least two operations really overlapped.
func (e *c18Env) runEpisode(rec *c18Recorder, res *kit.Result, ep *c18Episode) (concSeen []c18Seen, back []c18Op, backSeen []c18Seen, overlapped bool, pan string) {
	rec.emit(map[string]any{"ev": "Reset"})
	for _, op := range ep.Setup {
		if s, _, _ := e.exec(rec, 0, op); s.Panic != "" {
			res.Violate(c18CrashKey(op.Op, s.Panic), "set-up: "+s.Panic, map[string]any{"episode": ep})
			return nil, nil, nil, false, "set-up " + op.Op + ": " + s.Panic
		}
	}
	n := len(ep.Conc)
	concSeen = make([]c18Seen, n)
	calls, rets := make([]int64, n), make([]int64, n)
	var ready atomic.Int32
	var wg sync.WaitGroup
	for i := range ep.Conc {
		wg.Add(1)
		go func(i int) {
			defer wg.Done()
			ready.Add(1)
			for int(ready.Load()) < n { // spin: all goroutines leave the barrier within nanoseconds of each other
				runtime.Gosched()
			}
			concSeen[i], calls[i], rets[i] = e.exec(rec, i+1, ep.Conc[i])
		}(i)
	}
	wg.Wait()
	for i := 0; i < n; i++ {
		if concSeen[i].Panic != "" {
			pan = ep.Conc[i].Op + ": " + concSeen[i].Panic
			res.Violate(c18CrashKey(ep.Conc[i].Op, concSeen[i].Panic), "overlapping requests: "+pan,
				map[string]any{"episode": ep, "fresh_file": ep.Fresh})
		}
		for j := 0; j < n; j++ {
			if i != j && calls[i] < rets[j] && calls[j] < rets[i] {
				overlapped = true
			}
		}
	}
	back = []c18Op{{Op: "get", Pu: "u1"}, {Op: "get", Pu: "u2"}, {Op: "list"}}
	for _, op := range back {
		s, _, _ := e.exec(rec, 0, op)
		if s.Panic != "" {
			pan = "read-back " + op.Op + ": " + s.Panic
			res.Violate(c18CrashKey(op.Op, s.Panic), pan, map[string]any{"episode": ep})
		}
		backSeen = append(backSeen, s)
	}
	return
}

// c18ListSchedule forces, without any timing, the one interleaving of two requests that the random episodes
// hit only now and then: LIST has fetched the records (listAllUsersHlr: ar.manager.ListAllUsers()), other
// requests commit enough new users for bolt to remap the file, LIST then serialises what it fetched
// (json.Marshal(infos)). Both steps are the handler's own two statements, executed here one after the other.
func c18ListSchedule(tmp string, users int) (key, what string) {
	dir, err := os.MkdirTemp(tmp, "c18sched")
	if err != nil {
		panic(err)
	}
	e := &c18Env{dir: dir, status: map[string]int{}, keepSync: true}
	if err := e.open(); err != nil {
		panic(err)
	}
	defer e.destroy()
	if code, _, pan := e.do("POST", c18Path(c18UIDa), c18Body(c18UIDa, c18All(5), 0, nil)); pan != "" || code >= 400 {
		return "", ""
	}
	var infos []UserInfo
	if p := c18Safe(func() { infos, _ = e.mgr.ListAllUsers() }); p != "" || len(infos) != 1 {
		return "", ""
	}
	for i := 0; i < users; i++ { // the other requests: new users until the file has outgrown its mapping
		uid := append([]byte{0x10, byte(i >> 8), byte(i)}, c18UIDb[3:]...)
		e.do("POST", c18Path(uid), c18Body(uid, c18All(int64(i)), 0, nil))
	}
	var out []byte
	p := c18Safe(func() {
		defer debug.SetPanicOnFault(debug.SetPanicOnFault(true))
		out, _ = json.Marshal(infos)
	})
	if p != "" {
		return c18CrashKey("list", p), fmt.Sprintf("LIST fetched 1 user, %d POSTs of other users committed, LIST's json.Marshal reads unmapped memory (fatal SIGSEGV in a server): %s", users, p)
	}
	var back []UserInfo
	if err := json.Unmarshal(out, &back); err != nil || len(back) != 1 || !bytes.Equal(back[0].UID, c18UIDa) {
		return "list-uid-outlives-transaction", fmt.Sprintf("LIST fetched user %x, %d POSTs of other users committed, LIST then answered a user nobody created: %s", c18UIDa, users, out)
	}
	return "", ""
}

func TestVerifC18Linear(t *testing.T) {
	c18Silence()
	res := kit.NewResult()
	defer func() { res.Save(true) }()
	tmp := t.TempDir()
	rng := kit.NewRng(kit.Seed()*7919 + 18)
	rec := &c18Recorder{tw: kit.NewTraceWriter("c18_trace.ndjson")}
	defer rec.tw.Close()
	index := kit.NewTraceWriter("c18_episodes.ndjson")
	defer index.Close()
	episodes := kit.EnvInt("VERIF_C18_EPISODES", 600)
	var replay *c18Episode
	if rp := kit.Env("VERIF_REPLAY", ""); rp != "" {
		var rf struct {
			Replay struct {
				Episode c18Episode `json:"episode"`
				Users   int        `json:"users"`
			} `json:"replay"`
		}
		raw, err := os.ReadFile(rp)
		if err != nil {
			t.Fatal(err)
		}
		if err := json.Unmarshal(raw, &rf); err != nil {
			t.Fatal(err)
		}
		if rf.Replay.Users > 0 {
			key, what := c18ListSchedule(tmp, rf.Replay.Users)
			fmt.Printf("REPLAY-RESULT key=%q what=%q\n", key, what)
			return
		}
		replay = &rf.Replay.Episode
		episodes = 300
	}
	newEnv := func() *c18Env {
		dir, err := os.MkdirTemp(tmp, "c18lin")
		if err != nil {
			t.Fatal(err)
		}
		e := &c18Env{dir: dir, status: map[string]int{}, keepSync: true}
		if err := e.open(); err != nil {
			t.Fatal(err)
		}
		return e
	}
	env := newEnv()
	defer func() { env.destroy() }()
	if replay == nil {
		for _, users := range []int{40, 150, 600} {
			key, what := c18ListSchedule(tmp, users)
			res.Count(fmt.Sprintf("list-schedule-%d", users), true)
			if key != "" {
				res.Violate(key, what, map[string]any{"schedule": "ListAllUsers | POST x N | json.Marshal", "users": users})
			}
		}
	}
	flagged, overlaps, crashed := 0, 0, 0
	for n := 0; n < episodes; n++ {
		ep := c18MakeEpisode(rng, n)
		if replay != nil {
			ep = *replay
		}
		if ep.Fresh {
			env.destroy()
			env = newEnv()
		} else {
			env.uses = 1
			if !env.recycle() { // empties the store (bucket deletion behind the manager's back)
				t.Fatal("cannot empty the database")
			}
		}
		env.conc = c18Conc{Swap: (n+int(kit.Seed()))%2 == 1}
		first := rec.seq + 1
		concSeen, back, backSeen, overlapped, pan := env.runEpisode(rec, res, &ep)
		if overlapped {
			overlaps++
		}
		key := c18EpisodeKey(&ep)
		sig, _ := json.Marshal(ep)
		res.Count(string(sig), len(ep.Conc) >= 2)
		if pan != "" {
			// a request crashed (already reported under its own key); its return is "void" in the recording and
			// this episode is not judged by the permutation check
			crashed++
			if concSeen == nil {
				continue
			}
			index.Emit(map[string]any{"n": n, "first": first, "last": rec.seq, "key": key, "episode": ep,
				"conc_seen": concSeen, "back_seen": backSeen, "explainable": true, "overlapped": overlapped, "crashed": pan})
			continue
		}
		ok := c18Explainable(&ep, concSeen, back, backSeen)
		index.Emit(map[string]any{"n": n, "first": first, "last": rec.seq, "key": key, "episode": ep,
			"conc_seen": concSeen, "back_seen": backSeen, "explainable": ok, "overlapped": overlapped})
		if !ok {
			flagged++
			if replay != nil && flagged <= 3 {
				fmt.Printf("attempt %d: no order of %s explains read-back %v\n", n, sig, backSeen)
			}
		}
		if n%151 == 3 {
			res.Sample(map[string]any{"episode": ep}, 3)
		}
	}
	res.Stat("episodes", int64(episodes))
	res.Stat("episodes_overlapped", int64(overlaps))
	res.Stat("episodes_with_a_crashed_request", int64(crashed))
	res.Stat("episodes_flagged_by_permutation_check", int64(flagged))
	res.Stat("trace_events", rec.seq)
	if replay != nil {
		fmt.Printf("REPLAY-RESULT %d of %d attempts not explainable by any order\n", flagged, episodes)
	}
}
