//go:build verif

package main

// X03 - what ck-server (package main) does with BindAddr and with the environment of a Shadowsocks plugin host.
// Rows of spec/ServerConfigGen.tla over BindAddr x Mode x SSRemote, with the expected set of listening addresses
// (ServerConfig!Listen), are checked at two levels:
//   function level: server.ParseConfig -> resolveBindAddr -> (plugin mode) parseSSBindAddr; the resulting address list
//                   must be the expected set, with nothing in it twice; malformed addresses must give an error;
//   process level:  main() itself, in a child process of this test binary that lives in its own network namespace
//                   (CLONE_NEWNET: private ports, nothing reachable), started like `ck-server -c <file>` or with the SS_*
//                   environment; the verdict is read from the child's LISTEN sockets in /proc/<pid>/net/tcp{,6}. This is
//                   the only way to reach the :443/:80 default and the plugin-mode glue, which are inline in main().

import (
	"bufio"
	"bytes"
	"encoding/base64"
	"encoding/json"
	"flag"
	"fmt"
	"net"
	"os"
	"os/exec"
	"path/filepath"
	"sort"
	"strings"
	"sync"
	"syscall"
	"testing"
	"time"
	"unsafe"

	"github.com/cbeuw/Cloak/internal/server"
	kit "github.com/cbeuw/Cloak/internal/verifkit"
)

type x03mExp struct {
	Outcome    string   `json:"outcome"`
	RedirHost  string   `json:"redirHost"`
	RedirPort  string   `json:"redirPort"`
	ProxyBook  []string `json:"proxyBook"`
	Bypass     []string `json:"bypass"`
	PrivKey    string   `json:"privKey"`
	AdminUID   string   `json:"adminUID"`
	KeepAlive  string   `json:"keepAlive"`
	Panel      string   `json:"panel"`
	DbFile     string   `json:"dbFile"`
	BindRaw    string   `json:"bindRaw"`
	Listen     []string `json:"listen"`
	Listenable string   `json:"listenable"`
	PluginBook []string `json:"pluginBook"`
}

type x03mRow struct {
	Cfg map[string]string `json:"cfg"`
	Exp x03mExp           `json:"exp"`
}

type x03mConc struct {
	Variant uint64 `json:"variant"`
	PortP   int    `json:"portP"`
	PortQ   int    `json:"portQ"`
	SSLocal string `json:"ssLocalPort"`
	Key     []byte `json:"privateKey"`
	Admin   []byte `json:"adminUID"`
	Bypass  []byte `json:"bypassUID"`
}

func x03mConcretise(variant uint64) x03mConc {
	r := kit.NewRng(int64(variant))
	ps := []int{8443, 2053, 4430, 10443}
	qs := []int{8080, 2083, 8880}
	return x03mConc{Variant: variant, PortP: ps[r.Intn(len(ps))], PortQ: qs[r.Intn(len(qs))],
		SSLocal: []string{"8388", "51443"}[r.Intn(2)], Key: r.Bytes(32), Admin: r.Bytes(16), Bypass: r.Bytes(16)}
}

func x03mBindList(v string, c *x03mConc) any {
	p, q := c.PortP, c.PortQ
	switch v {
	case "empty":
		return []string{}
	case "example":
		return []string{":443", ":80"}
	case "all":
		return []string{fmt.Sprintf(":%d", p)}
	case "any4":
		return []string{fmt.Sprintf("0.0.0.0:%d", p)}
	case "any6":
		return []string{fmt.Sprintf("[::]:%d", p)}
	case "both":
		return []string{fmt.Sprintf("0.0.0.0:%d", p), fmt.Sprintf("[::]:%d", p)}
	case "ip4":
		return []string{fmt.Sprintf("127.0.0.1:%d", p)}
	case "ip6":
		return []string{fmt.Sprintf("[::1]:%d", p)}
	case "otherport":
		return []string{fmt.Sprintf(":%d", q)}
	case "noport":
		return []string{"127.0.0.1"}
	case "badport":
		return []string{"127.0.0.1:99999"}
	case "notlist":
		return fmt.Sprintf(":%d", p)
	}
	return nil
}

// x03mToken: "all:P" -> ":8443" etc.
func x03mToken(tok string, c *x03mConc) string {
	f := strings.SplitN(tok, ":", 2)
	port := map[string]string{"P": fmt.Sprint(c.PortP), "Q": fmt.Sprint(c.PortQ), "443": "443", "80": "80"}[f[1]]
	host := map[string]string{"all": "", "any4": "0.0.0.0", "any6": "[::]", "ip4": "127.0.0.1", "ip6": "[::1]"}[f[0]]
	return host + ":" + port
}

func x03mSSHost(v string) string {
	return map[string]string{"both": "::|0.0.0.0", "any4": "0.0.0.0", "any6": "::", "ip4": "127.0.0.1", "ip6": "::1", "badport": "0.0.0.0"}[v]
}

func x03mSSPort(v string, c *x03mConc) string {
	if v == "badport" {
		return "no-such-port"
	}
	return fmt.Sprint(c.PortP)
}

func x03mConfig(row *x03mRow, c *x03mConc, dir string) []byte {
	b64 := base64.StdEncoding.EncodeToString
	o := map[string]any{
		"ProxyBook":    map[string]any{"shadowsocks": []string{"tcp", "127.0.0.1:8388"}, "openvpn": []string{"udp", "127.0.0.1:8389"}, "tor": []string{"tcp", "127.0.0.1:9001"}},
		"BypassUID":    []string{b64(c.Bypass)},
		"RedirAddr":    "1.2.3.4",
		"PrivateKey":   b64(c.Key),
		"AdminUID":     b64(c.Admin),
		"DatabasePath": filepath.Join(dir, "userinfo.db"),
	}
	if v := row.Cfg["BindAddr"]; v != "absent" {
		b := x03mBindList(v, c)
		if b == nil {
			panic("unknown BindAddr class " + v)
		}
		o["BindAddr"] = b
	}
	js, err := json.MarshalIndent(o, "", "  ")
	if err != nil {
		panic(err)
	}
	return js
}

type x03mFinding struct{ Key, What string }

type x03mCase struct {
	Row   x03mRow  `json:"row"`
	Conc  x03mConc `json:"concretisation"`
	Text  string   `json:"configuration"`
	Env   []string `json:"environment"`
	Level string   `json:"level"`
}

func x03mSorted(xs []string) []string {
	out := append([]string{}, xs...)
	sort.Strings(out)
	return out
}

func x03mInvalidKey(row *x03mRow) string {
	if v := row.Cfg["BindAddr"]; v == "noport" || v == "badport" || v == "notlist" {
		return "accepted-invalid:BindAddr:" + v
	}
	return "accepted-invalid:SSRemote:" + row.Cfg["SSRemote"]
}

// x03mFunctions: ParseConfig -> resolveBindAddr -> parseSSBindAddr, as main() chains them.
func x03mFunctions(row *x03mRow, c *x03mConc, cfgPath string, verbose bool) (fs []x03mFinding, table []string, dup bool) {
	add := func(key, format string, a ...any) { fs = append(fs, x03mFinding{key, "functions: " + fmt.Sprintf(format, a...)}) }
	tab := func(format string, a ...any) {
		if verbose {
			table = append(table, "functions: "+fmt.Sprintf(format, a...))
		}
	}
	var got []string
	errText, stage := "", "ParseConfig"
	func() {
		defer func() {
			if p := recover(); p != nil {
				add("panic:"+stage, "%s panicked: %v", stage, p)
				errText = "panic"
			}
		}()
		raw, err := server.ParseConfig(cfgPath)
		if err != nil {
			errText = err.Error()
			return
		}
		stage = "resolveBindAddr"
		addrs, err := resolveBindAddr(raw.BindAddr)
		if err != nil {
			errText = err.Error()
			return
		}
		if row.Cfg["Mode"] == "plugin" {
			stage = "parseSSBindAddr"
			if err := parseSSBindAddr(x03mSSHost(row.Cfg["SSRemote"]), x03mSSPort(row.Cfg["SSRemote"], c), &addrs); err != nil {
				errText = err.Error()
				return
			}
		}
		for _, a := range addrs {
			got = append(got, a.String())
		}
	}()
	if len(fs) > 0 {
		return
	}
	wantErr := len(row.Exp.Listen) == 1 && row.Exp.Listen[0] == "error"
	tab("expected %v; observed %v err=%q (%s)", row.Exp.Listen, got, errText, stage)
	if wantErr {
		if errText == "" {
			add(x03mInvalidKey(row), "malformed bind address accepted, resulting list %v", got)
		}
		return
	}
	if errText != "" {
		add("rejected-valid:BindAddr:"+row.Cfg["BindAddr"], "%s refused a well-formed address list: %s", stage, errText)
		return
	}
	if row.Cfg["Mode"] == "standalone" && len(got) == 0 {
		tab("the :443/:80 default is applied inside main(): judged at process level only")
		return
	}
	var want []string
	for _, tok := range row.Exp.Listen {
		a, err := net.ResolveTCPAddr("tcp", x03mToken(tok, c))
		if err != nil {
			panic(err)
		}
		want = append(want, a.String())
	}
	seen := map[string]bool{}
	for _, g := range got {
		if seen[g] {
			dup = true
		}
		seen[g] = true
	}
	if dup {
		add("field:BindAddr", "BindAddr %v with SS_REMOTE_HOST=%q SS_REMOTE_PORT=%s gives the address list %v: the same address twice (the second net.Listen fails and ck-server exits)",
			x03mBindList(row.Cfg["BindAddr"], c), x03mSSHost(row.Cfg["SSRemote"]), x03mSSPort(row.Cfg["SSRemote"], c), got)
	}
	var uniq []string
	for g := range seen {
		uniq = append(uniq, g)
	}
	if fmt.Sprint(x03mSorted(want)) != fmt.Sprint(x03mSorted(uniq)) {
		add("field:BindAddr", "BindAddr=%s mode=%s SS_REMOTE_HOST=%q: documented addresses to listen on are %v, the code arrives at %v",
			row.Cfg["BindAddr"], row.Cfg["Mode"], x03mSSHost(row.Cfg["SSRemote"]), x03mSorted(want), x03mSorted(got))
	}
	return
}

// ------------------------------------------------------------------------------------------------ child processes

const x03mChildEnv = "X03M_CHILD"

func x03mLoopbackUp() error {
	fd, err := syscall.Socket(syscall.AF_INET, syscall.SOCK_DGRAM, 0)
	if err != nil {
		return err
	}
	defer syscall.Close(fd)
	var ifr [40]byte
	copy(ifr[:15], "lo")
	if _, _, e := syscall.Syscall(syscall.SYS_IOCTL, uintptr(fd), syscall.SIOCGIFFLAGS, uintptr(unsafe.Pointer(&ifr[0]))); e != 0 {
		return e
	}
	flags := (*uint16)(unsafe.Pointer(&ifr[16]))
	*flags |= syscall.IFF_UP | syscall.IFF_RUNNING
	if _, _, e := syscall.Syscall(syscall.SYS_IOCTL, uintptr(fd), syscall.SIOCSIFFLAGS, uintptr(unsafe.Pointer(&ifr[0]))); e != 0 {
		return e
	}
	return nil
}

var x03mCalibPorts = map[string]int{"all": 7001, "any4": 7002, "any6": 7003, "ip4": 7004, "ip6": 7005}

// TestVerifX03Child is the body of the child processes (never selected by -run of a normal check).
func TestVerifX03Child(t *testing.T) {
	mode := os.Getenv(x03mChildEnv)
	if mode == "" {
		t.Skip("only meaningful as a child of TestVerifX03Main")
	}
	time.AfterFunc(60*time.Second, func() { os.Exit(97) }) // never outlive the parent by much
	if err := x03mLoopbackUp(); err != nil {
		fmt.Fprintln(os.Stderr, "x03: cannot bring lo up:", err)
		os.Exit(98)
	}
	switch mode {
	case "calibrate":
		// how does the Go runtime turn each address form into a socket, here? (trusted: package net)
		for form, port := range x03mCalibPorts {
			host := map[string]string{"all": "", "any4": "0.0.0.0", "any6": "[::]", "ip4": "127.0.0.1", "ip6": "[::1]"}[form]
			if _, err := net.Listen("tcp", fmt.Sprintf("%s:%d", host, port)); err != nil {
				fmt.Fprintf(os.Stderr, "x03: calibrate %s: %v\n", form, err)
			}
		}
		fmt.Fprintln(os.Stderr, "x03: calibrated")
		select {}
	case "main":
		if p := os.Getenv("X03M_CONFIG"); p != "" {
			os.Args = []string{"ck-server", "-c", p}
		} else {
			os.Args = []string{"ck-server"}
		}
		flag.CommandLine = flag.NewFlagSet("ck-server", flag.ExitOnError)
		main()
		os.Exit(96) // main() returned: it never should while listening
	}
	os.Exit(95)
}

type x03mSock struct {
	V6   bool
	IP   string
	Port int
}

// x03mListeners reads the LISTEN sockets of the network namespace process pid lives in.
func x03mListeners(pid int) (out []x03mSock, err error) {
	for _, f := range []string{"tcp", "tcp6"} {
		b, e := os.ReadFile(fmt.Sprintf("/proc/%d/net/%s", pid, f))
		if e != nil {
			return nil, e
		}
		sc := bufio.NewScanner(bytes.NewReader(b))
		sc.Scan()
		for sc.Scan() {
			fl := strings.Fields(sc.Text())
			if len(fl) < 4 || fl[3] != "0A" {
				continue
			}
			hp := strings.Split(fl[1], ":")
			var port int
			fmt.Sscanf(hp[1], "%X", &port)
			out = append(out, x03mSock{V6: f == "tcp6", IP: hp[0], Port: port})
		}
	}
	return
}

// x03mBuf: what the child says, readable while it is still talking
type x03mBuf struct {
	mu sync.Mutex
	b  bytes.Buffer
}

func (b *x03mBuf) Write(p []byte) (int, error) {
	b.mu.Lock()
	defer b.mu.Unlock()
	return b.b.Write(p)
}

func (b *x03mBuf) String() string {
	b.mu.Lock()
	defer b.mu.Unlock()
	return b.b.String()
}

type x03mChild struct {
	cmd    *exec.Cmd
	stderr *x03mBuf
	done   chan struct{}
}

func x03mStart(mode string, env []string) (*x03mChild, error) {
	cmd := exec.Command(os.Args[0], "-test.run", "^TestVerifX03Child$", "-test.timeout", "90s")
	for _, e := range os.Environ() {
		if !strings.HasPrefix(e, "SS_") && !strings.HasPrefix(e, "VERIF_OUT=") {
			cmd.Env = append(cmd.Env, e)
		}
	}
	cmd.Env = append(cmd.Env, x03mChildEnv+"="+mode, "VERIF_OUT="+os.TempDir())
	cmd.Env = append(cmd.Env, env...)
	cmd.SysProcAttr = &syscall.SysProcAttr{Cloneflags: syscall.CLONE_NEWNET}
	ch := &x03mChild{cmd: cmd, stderr: &x03mBuf{}, done: make(chan struct{})}
	cmd.Stderr = ch.stderr
	cmd.Stdout = ch.stderr
	if err := cmd.Start(); err != nil {
		return nil, err
	}
	go func() { cmd.Wait(); close(ch.done) }()
	return ch, nil
}

func (ch *x03mChild) exited() bool {
	select {
	case <-ch.done:
		return true
	default:
		return false
	}
}

func (ch *x03mChild) kill() {
	ch.cmd.Process.Kill()
	<-ch.done
}

func (ch *x03mChild) tail() string {
	s := strings.TrimSpace(ch.stderr.String())
	if len(s) > 400 {
		s = "..." + s[len(s)-400:]
	}
	return s
}

// x03mCalibrate: address form -> how its socket shows up in /proc/net (or absent if it cannot be bound here)
func x03mCalibrate() (map[string]x03mSock, error) {
	ch, err := x03mStart("calibrate", nil)
	if err != nil {
		return nil, err
	}
	defer ch.kill()
	deadline := time.Now().Add(30 * time.Second)
	for !strings.Contains(ch.stderr.String(), "x03: calibrated") {
		if ch.exited() || time.Now().After(deadline) {
			return nil, fmt.Errorf("calibration child failed: %s", ch.tail())
		}
		time.Sleep(10 * time.Millisecond)
	}
	socks, err := x03mListeners(ch.cmd.Process.Pid)
	if err != nil {
		return nil, err
	}
	out := map[string]x03mSock{}
	for form, port := range x03mCalibPorts {
		for _, s := range socks {
			if s.Port == port {
				out[form] = x03mSock{V6: s.V6, IP: s.IP}
			}
		}
	}
	return out, nil
}

func x03mSockSet(socks []x03mSock) []string {
	var out []string
	for _, s := range socks {
		out = append(out, fmt.Sprintf("%s/%s:%d", map[bool]string{false: "tcp4", true: "tcp6"}[s.V6], s.IP, s.Port))
	}
	sort.Strings(out)
	return out
}

// x03mProcess runs main() in a child and compares its listening sockets with the documented set.
func x03mProcess(row *x03mRow, c *x03mConc, cfgPath string, calib map[string]x03mSock, dupKey bool, stat func(string), verbose bool) (fs []x03mFinding, table []string, env []string) {
	add := func(key, format string, a ...any) { fs = append(fs, x03mFinding{key, "ck-server process: " + fmt.Sprintf(format, a...)}) }
	tab := func(format string, a ...any) {
		if verbose {
			table = append(table, "process: "+fmt.Sprintf(format, a...))
		}
	}
	wantErr := len(row.Exp.Listen) == 1 && row.Exp.Listen[0] == "error"
	var want []x03mSock
	if !wantErr {
		if row.Exp.Listenable != "yes" {
			stat("process:skipped-addresses-share-a-port")
			tab("skipped: the documented addresses %v share a port, their coexistence is up to the OS", row.Exp.Listen)
			return
		}
		for _, tok := range row.Exp.Listen {
			f := strings.SplitN(tok, ":", 2)
			cs, ok := calib[f[0]]
			if !ok {
				stat("process:skipped-form-not-bindable-here")
				tab("skipped: address form %s cannot be bound in this sandbox", f[0])
				return
			}
			var port int
			addr := x03mToken(tok, c)
			fmt.Sscan(addr[strings.LastIndex(addr, ":")+1:], &port)
			want = append(want, x03mSock{V6: cs.V6, IP: cs.IP, Port: port})
		}
	}
	if row.Cfg["Mode"] == "plugin" {
		env = []string{"SS_LOCAL_HOST=127.0.0.1", "SS_LOCAL_PORT=" + c.SSLocal, "SS_REMOTE_HOST=" + x03mSSHost(row.Cfg["SSRemote"]),
			"SS_REMOTE_PORT=" + x03mSSPort(row.Cfg["SSRemote"], c), "SS_PLUGIN_OPTIONS=" + cfgPath}
	} else {
		env = []string{"X03M_CONFIG=" + cfgPath}
	}
	ch, err := x03mStart("main", env)
	if err != nil {
		stat("process:spawn-failed")
		tab("could not start a child: %v", err)
		return
	}
	defer ch.kill()
	stat("process:started")
	wantSet := x03mSockSet(want)
	deadline := time.Now().Add(20 * time.Second)
	var got []string
	matched := 0
	for time.Now().Before(deadline) && !ch.exited() {
		socks, err := x03mListeners(ch.cmd.Process.Pid)
		if err != nil {
			// /proc/<pid>/net is gone: the child is exiting; give Wait a moment to notice
			select {
			case <-ch.done:
			case <-time.After(5 * time.Second):
			}
			break
		}
		got = x03mSockSet(socks)
		if !wantErr && fmt.Sprint(got) == fmt.Sprint(wantSet) {
			matched++
			if matched >= 3 {
				break
			}
		} else {
			matched = 0
		}
		time.Sleep(15 * time.Millisecond)
	}
	exited := ch.exited()
	tab("expected %v; observed listening sockets %v, process exited=%v; its last words: %s", map[bool]any{true: "exit with an error", false: wantSet}[wantErr], got, exited, ch.tail())
	if wantErr {
		switch {
		case exited:
		case len(got) > 0:
			add(x03mInvalidKey(row), "started and listens on %v", got)
		default:
			stat("process:timeout")
		}
		return
	}
	if matched >= 3 && !exited {
		return
	}
	if !exited && len(got) == 0 {
		stat("process:timeout")
		return
	}
	_ = dupKey
	add("field:BindAddr", "BindAddr=%v mode=%s %v: documented listening sockets %v; observed %v, process exited=%v: %s",
		x03mBindList(row.Cfg["BindAddr"], c), row.Cfg["Mode"], env, wantSet, got, exited, ch.tail())
	return
}

func x03mRun(dir string, row *x03mRow, variant uint64, calib map[string]x03mSock, stat func(string), verbose bool) (fs []x03mFinding, cs x03mCase, table []string) {
	c := x03mConcretise(variant)
	work, err := os.MkdirTemp(dir, "case-")
	if err != nil {
		panic(err)
	}
	defer os.RemoveAll(work)
	js := x03mConfig(row, &c, work)
	cfgPath := filepath.Join(work, "ckserver.json")
	if err := os.WriteFile(cfgPath, js, 0o600); err != nil {
		panic(err)
	}
	f1, t1, dup := x03mFunctions(row, &c, cfgPath, verbose)
	var f2 []x03mFinding
	var t2, env []string
	if calib != nil {
		f2, t2, env = x03mProcess(row, &c, cfgPath, calib, dup, stat, verbose)
	}
	cs = x03mCase{Row: *row, Conc: c, Text: string(js), Env: env}
	return append(f1, f2...), cs, append(t1, t2...)
}

func TestVerifX03Main(t *testing.T) {
	res := kit.NewResult()
	defer func() { res.Save(true) }()
	dir, err := os.MkdirTemp("/dev/shm", "x03m-")
	if err != nil {
		dir = t.TempDir()
	} else {
		t.Cleanup(func() { os.RemoveAll(dir) })
	}
	calib, err := x03mCalibrate()
	if err != nil {
		res.Note("no child processes in a private network namespace: %v", err)
		calib = nil
	} else {
		for form, s := range calib {
			res.Note("calibration: %s -> %s", form, x03mSockSet([]x03mSock{s})[0])
		}
	}
	if rp := kit.Env("VERIF_REPLAY", ""); rp != "" {
		var rf struct {
			Replay struct {
				Bind x03mCase `json:"bind"`
			} `json:"replay"`
		}
		raw, err := os.ReadFile(rp)
		if err != nil {
			t.Fatal(err)
		}
		if err := json.Unmarshal(raw, &rf); err != nil {
			t.Fatal(err)
		}
		row := rf.Replay.Bind.Row
		fs, cs, table := x03mRun(dir, &row, rf.Replay.Bind.Conc.Variant, calib, func(string) {}, true)
		fmt.Println("configuration:\n" + cs.Text)
		fmt.Println("environment:", cs.Env)
		for _, l := range table {
			fmt.Println(l)
		}
		if len(fs) == 0 {
			fmt.Println(`REPLAY-RESULT key="" what=""`)
		}
		for _, f := range fs {
			fmt.Printf("REPLAY-RESULT key=%q what=%q\n", f.Key, f.What)
		}
		return
	}
	x03mWaitReady(t, kit.Env("VERIF_IN", ""))
	variants := kit.EnvInt("VERIF_X03_VARIANTS", 1)
	seed := uint64(kit.Seed())
	type job struct {
		idx uint64
		row x03mRow
	}
	jobs := make(chan job, 64)
	var wg sync.WaitGroup
	for w := 0; w < kit.EnvInt("VERIF_X03_WORKERS", 8); w++ {
		wg.Add(1)
		go func() {
			defer wg.Done()
			for j := range jobs {
				sig := j.row.Cfg["BindAddr"] + "|" + j.row.Cfg["Mode"] + "|" + j.row.Cfg["SSRemote"]
				for v := 0; v < variants; v++ {
					variant := seed*0x9E3779B97F4A7C15 + j.idx*1000003 + uint64(v)
					stat := func(s string) { res.Stat(s, 1) }
					fs, cs, _ := x03mRun(dir, &j.row, variant, calib, stat, false)
					res.Count("bind|"+sig, sig != "example|standalone|na")
					if len(fs) > 0 {
						_, _, table := x03mRun(dir, &j.row, variant, calib, func(string) {}, true)
						for _, f := range fs {
							res.Violate(f.Key, f.What, map[string]any{"bind": cs, "table": table})
						}
					}
					if j.idx%23 == 5 && v == 0 {
						res.Sample(cs, 2)
					}
				}
			}
		}()
	}
	idx := uint64(0)
	err = kit.ReadLines(kit.Env("VERIF_IN", ""), func(line []byte) error {
		var row x03mRow
		dec := json.NewDecoder(bytes.NewReader(line))
		dec.DisallowUnknownFields()
		if err := dec.Decode(&row); err != nil {
			return err
		}
		for _, name := range []string{"BindAddr", "Mode", "SSRemote"} {
			if _, ok := row.Cfg[name]; !ok {
				return fmt.Errorf("row lacks option %s", name)
			}
		}
		idx++
		jobs <- job{idx, row}
		return nil
	})
	close(jobs)
	wg.Wait()
	if err != nil {
		t.Fatal(err)
	}
	res.Stat("rows", int64(idx))
}

// x03mWaitReady: the runner starts `go test` before TLC has produced the rows (the build overlaps the enumeration) and
// creates <input>.ready when the input files are complete, <input>.abort when there will be none.
func x03mWaitReady(t *testing.T, path string) {
	if kit.EnvInt("VERIF_X03_WAIT", 0) == 0 {
		return
	}
	for i := 0; i < 20*3600; i++ {
		if _, err := os.Stat(path + ".ready"); err == nil {
			return
		}
		if _, err := os.Stat(path + ".abort"); err == nil {
			t.Fatal("the runner gave up before the rows were written")
		}
		time.Sleep(50 * time.Millisecond)
	}
	t.Fatal("no input after an hour")
}
