//go:build verif

package main

// X06 - where ck-client listens and where it dials, as a function of where each address part was given
// (spec/ClientCLI.tla).  Rows of the table are judged on the real main(): this test binary re-executes itself, the
// child sets up flags / a json file / the SS_* variables the way the row says, starts main() and finds out
//   - on which socket ck-client listens (its own file descriptors: type, SO_ACCEPTCONN, local address),
//   - which of the candidate (host, port) listeners it dials once a proxy program talks to it.
// Sources are told apart by value: flag 127.0.0.2 / json 127.0.0.3 / env 127.0.0.4 / default 127.0.0.1 for hosts, one
// free port per source (defaults 1984 and 443).

import (
	"encoding/base64"
	"encoding/json"
	"fmt"
	"net"
	"os"
	"os/exec"
	"path/filepath"
	"regexp"
	"sort"
	"strconv"
	"strings"
	"sync"
	"syscall"
	"testing"
	"time"

	kit "github.com/cbeuw/Cloak/internal/verifkit"
)

const x06ChildEnv = "VERIF_X06_CHILD"

type x06Row struct {
	Mode    string              `json:"mode"`
	Has     map[string][]string `json:"has"`
	UDPFlag string              `json:"udpFlag"`
	UDPJson string              `json:"udpJson"`
	Starts  bool                `json:"starts"`
	Proto   string              `json:"proto"`
	Eff     map[string]string   `json:"eff"`
}

type x06Case struct {
	Row   x06Row            `json:"row"`
	Ports map[string]string `json:"ports"` // source -> port, separately for Local / Remote: "flag:L", "json:R", ...
}

type x06Obs struct {
	Listen []string `json:"listen"` // proto/host:port of ck-client's listening sockets
	Dial   string   `json:"dial"`   // host:port of the candidate listener ck-client connected to ("" if none)
}

var x06Hosts = map[string]string{"flag": "127.0.0.2", "json": "127.0.0.3", "env": "127.0.0.4", "default": "127.0.0.1"}

func x06Contains(l []string, s string) bool {
	for _, x := range l {
		if x == s {
			return true
		}
	}
	return false
}

func x06Value(c *x06Case, f, src string) string {
	switch f {
	case "LocalHost", "RemoteHost":
		return x06Hosts[src]
	case "LocalPort":
		if src == "default" {
			return "1984"
		}
		return c.Ports[src+":L"]
	default:
		if src == "default" {
			return "443"
		}
		return c.Ports[src+":R"]
	}
}

func x06FreePorts(n int) ([]string, error) {
	var ls []net.Listener
	var out []string
	for i := 0; i < n; i++ {
		l, err := net.Listen("tcp", "127.0.0.1:0")
		if err != nil {
			return nil, err
		}
		ls = append(ls, l)
		_, p, _ := net.SplitHostPort(l.Addr().String())
		out = append(out, p)
	}
	for _, l := range ls {
		l.Close()
	}
	return out, nil
}

// TestVerifX06Child runs the real main(); only meaningful when started by TestVerifX06Main.
func TestVerifX06Child(t *testing.T) {
	spec, isChild := os.LookupEnv(x06ChildEnv)
	if !isChild {
		t.Skip("helper of TestVerifX06Main")
	}
	var c x06Case
	if err := json.Unmarshal([]byte(spec), &c); err != nil {
		t.Fatal(err)
	}
	fail := func(format string, a ...any) {
		fmt.Printf("\nX06CHILD-FAILED %s\n", fmt.Sprintf(format, a...))
		os.Exit(3)
	}
	// candidate remote ends: every source's host x every source's port
	type cand struct {
		l    net.Listener
		addr string
	}
	var cands []cand
	dialed := make(chan string, 64)
	own := map[int]bool{}
	for _, hs := range []string{"flag", "json", "env"} {
		for _, ps := range []string{"flag", "json", "env", "default"} {
			if ps == "default" && c.Row.Eff["RemotePort"] != "default" {
				continue // port 443 is shared by all children: only rows that need it (run one at a time) take it
			}
			addr := net.JoinHostPort(x06Hosts[hs], x06Value(&c, "RemotePort", ps))
			l, err := net.Listen("tcp", addr)
			if err != nil {
				fail("listen %s: %v", addr, err)
			}
			cands = append(cands, cand{l, addr})
			_, p, _ := net.SplitHostPort(addr)
			pi, _ := strconv.Atoi(p)
			own[pi] = true
			go func(l net.Listener, addr string) {
				for {
					conn, err := l.Accept()
					if err != nil {
						return
					}
					dialed <- addr
					go func() { buf := make([]byte, 4096); conn.Read(buf); time.Sleep(5 * time.Second); conn.Close() }()
				}
			}(l, addr)
		}
	}
	for _, k := range []string{"SS_LOCAL_HOST", "SS_LOCAL_PORT", "SS_REMOTE_HOST", "SS_REMOTE_PORT", "SS_PLUGIN_OPTIONS"} {
		os.Unsetenv(k)
	}
	r := kit.NewRng(int64(len(spec)))
	cfg := map[string]any{"ProxyMethod": "shadowsocks", "EncryptionMethod": "plain", "UID": base64.StdEncoding.EncodeToString(r.Bytes(16)),
		"PublicKey": base64.StdEncoding.EncodeToString(r.Bytes(32)), "ServerName": "www.bing.com", "BrowserSig": "firefox", "StreamTimeout": 300, "NumConn": 1}
	for _, f := range []string{"LocalHost", "LocalPort", "RemoteHost", "RemotePort"} {
		if x06Contains(c.Row.Has[f], "json") {
			cfg[f] = x06Value(&c, f, "json")
		}
	}
	if c.Row.UDPJson != "absent" {
		cfg["UDP"] = c.Row.UDPJson == "true"
	}
	dir, err := os.MkdirTemp("", "x06-")
	if err != nil {
		fail("temp dir: %v", err)
	}
	defer os.RemoveAll(dir)
	if c.Row.Mode == "plugin" {
		var parts []string
		keys := make([]string, 0, len(cfg))
		for k := range cfg {
			keys = append(keys, k)
		}
		sort.Strings(keys)
		for _, k := range keys {
			v := fmt.Sprint(cfg[k])
			v = strings.ReplaceAll(strings.ReplaceAll(strings.ReplaceAll(v, `\`, `\\`), `=`, `\=`), `;`, `\;`)
			parts = append(parts, k+"="+v)
		}
		os.Setenv("SS_PLUGIN_OPTIONS", strings.Join(parts, ";"))
		envName := map[string]string{"LocalHost": "SS_LOCAL_HOST", "LocalPort": "SS_LOCAL_PORT", "RemoteHost": "SS_REMOTE_HOST", "RemotePort": "SS_REMOTE_PORT"}
		for f, name := range envName {
			if x06Contains(c.Row.Has[f], "env") {
				os.Setenv(name, x06Value(&c, f, "env"))
			}
		}
		os.Args = []string{"ck-client"}
	} else {
		p := filepath.Join(dir, "ckclient.json")
		b, _ := json.Marshal(cfg)
		if err := os.WriteFile(p, b, 0o600); err != nil {
			fail("write config: %v", err)
		}
		args := []string{"ck-client", "-c", p}
		flagName := map[string]string{"LocalHost": "-i", "LocalPort": "-l", "RemoteHost": "-s", "RemotePort": "-p"}
		for _, f := range []string{"LocalHost", "LocalPort", "RemoteHost", "RemotePort"} {
			if x06Contains(c.Row.Has[f], "flag") {
				args = append(args, flagName[f], x06Value(&c, f, "flag"))
			}
		}
		if c.Row.UDPFlag != "absent" {
			args = append(args, "-u="+c.Row.UDPFlag)
		}
		os.Args = args
	}
	go func() {
		main() // ends up in client.RouteTCP / RouteUDP and never returns (or exits the process through log.Fatal)
		fail("main() returned")
	}()
	// ck-client's listening socket among the child's own descriptors
	var obs x06Obs
	find := func() []string {
		var out []string
		for fd := 3; fd < 512; fd++ {
			typ, err := syscall.GetsockoptInt(fd, syscall.SOL_SOCKET, syscall.SO_TYPE)
			if err != nil {
				continue
			}
			sa, err := syscall.Getsockname(fd)
			if err != nil {
				continue
			}
			sa4, ok := sa.(*syscall.SockaddrInet4)
			if !ok || own[sa4.Port] {
				continue
			}
			host := net.IP(sa4.Addr[:]).String()
			switch typ {
			case syscall.SOCK_STREAM:
				if acc, _ := syscall.GetsockoptInt(fd, syscall.SOL_SOCKET, syscall.SO_ACCEPTCONN); acc == 1 {
					out = append(out, fmt.Sprintf("tcp/%s:%d", host, sa4.Port))
				}
			case syscall.SOCK_DGRAM:
				if _, err := syscall.Getpeername(fd); err != nil && sa4.Port != 0 { // unconnected and bound
					out = append(out, fmt.Sprintf("udp/%s:%d", host, sa4.Port))
				}
			}
		}
		sort.Strings(out)
		return out
	}
	deadline := time.Now().Add(8 * time.Second)
	for len(obs.Listen) == 0 && time.Now().Before(deadline) {
		time.Sleep(20 * time.Millisecond)
		obs.Listen = find()
	}
	if len(obs.Listen) == 1 {
		// a proxy program talks to ck-client: it now dials its session
		parts := strings.SplitN(obs.Listen[0], "/", 2)
		if parts[0] == "tcp" {
			if conn, err := net.Dial("tcp", parts[1]); err == nil {
				conn.Write([]byte("hello"))
				defer conn.Close()
			}
		} else {
			if conn, err := net.Dial("udp", parts[1]); err == nil {
				conn.Write([]byte("hello"))
				defer conn.Close()
			}
		}
		select {
		case obs.Dial = <-dialed:
		case <-time.After(8 * time.Second):
		}
	}
	b, _ := json.Marshal(obs)
	fmt.Printf("\nX06CHILD-RESULT %s\n", b)
	os.Exit(0)
}

var x06ResultRe = regexp.MustCompile(`(?m)^X06CHILD-RESULT (.*)$`)
var x06FailedRe = regexp.MustCompile(`(?m)^X06CHILD-FAILED (.*)$`)

func x06RunChild(c *x06Case) (obs *x06Obs, exited bool, problem string) {
	spec, _ := json.Marshal(c)
	cmd := exec.Command(os.Args[0], "-test.run", "^TestVerifX06Child$", "-test.count=1")
	cmd.Env = append(os.Environ(), x06ChildEnv+"="+string(spec))
	done := make(chan struct{})
	var out []byte
	var err error
	go func() { out, err = cmd.CombinedOutput(); close(done) }()
	select {
	case <-done:
	case <-time.After(40 * time.Second):
		cmd.Process.Kill()
		<-done
		return nil, false, "child timed out"
	}
	if m := x06ResultRe.FindSubmatch(out); m != nil {
		var o x06Obs
		if e := json.Unmarshal(m[1], &o); e != nil {
			return nil, false, "unreadable result: " + e.Error()
		}
		return &o, false, ""
	}
	if m := x06FailedRe.FindSubmatch(out); m != nil {
		return nil, false, string(m[1])
	}
	if ee, ok := err.(*exec.ExitError); ok && ee.ExitCode() == 1 {
		if strings.Contains(string(out), "address already in use") || strings.Contains(string(out), "cannot assign requested address") {
			return nil, false, "port taken by another process" // not a refusal: somebody else got the port first
		}
		return nil, true, "" // log.Fatal: ck-client refused to start
	}
	tail := string(out)
	if len(tail) > 400 {
		tail = tail[len(tail)-400:]
	}
	return nil, false, fmt.Sprintf("no result (err=%v): %s", err, tail)
}

func TestVerifX06Main(t *testing.T) {
	if _, isChild := os.LookupEnv(x06ChildEnv); isChild {
		t.Skip("child")
	}
	res := kit.NewResult()
	defer func() { res.Save(true) }()
	var rows []x06Row
	err := kit.ReadLines(kit.Env("VERIF_IN", ""), func(line []byte) error {
		var r x06Row
		if err := json.Unmarshal(line, &r); err != nil {
			return err
		}
		rows = append(rows, r)
		return nil
	})
	if err != nil {
		t.Fatal(err)
	}
	privileged := true
	if l, err := net.Listen("tcp", "127.0.0.2:443"); err != nil {
		privileged = false
		res.Note("cannot listen on port 443 (%v): rows whose remote port is the default are skipped", err)
	} else {
		l.Close()
	}
	if l, err := net.Listen("tcp", "127.0.0.4:0"); err != nil {
		res.Note("loopback aliases are not available: %v", err)
		res.Stat("no-loopback-aliases", 1)
		return
	} else {
		l.Close()
	}
	var defaultsMu sync.Mutex // rows that use a default port share 1984 / 443: one at a time
	sem := make(chan struct{}, kit.EnvInt("VERIF_X06_CHILDREN", 8))
	var wg sync.WaitGroup
	for i := range rows {
		row := rows[i]
		usesDefault := row.Eff["LocalPort"] == "default" || row.Eff["RemotePort"] == "default"
		if row.Eff["RemotePort"] == "default" && !privileged {
			res.Stat("skipped_privileged_port", 1)
			continue
		}
		wg.Add(1)
		sem <- struct{}{}
		go func(i int, row x06Row) {
			defer wg.Done()
			defer func() { <-sem }()
			if usesDefault {
				defaultsMu.Lock()
				defer defaultsMu.Unlock()
			}
			ports, err := x06FreePorts(6)
			if err != nil {
				res.Stat("child_problems", 1)
				return
			}
			c := x06Case{Row: row, Ports: map[string]string{"flag:L": ports[0], "json:L": ports[1], "env:L": ports[2], "flag:R": ports[3], "json:R": ports[4], "env:R": ports[5]}}
			obs, exited, problem := x06RunChild(&c)
			for try := 0; try < 3 && (problem != "" || (exited && row.Starts)); try++ {
				// ports are picked free and released before the child binds them: another process may get in between
				if ports, err = x06FreePorts(6); err != nil {
					break
				}
				c.Ports = map[string]string{"flag:L": ports[0], "json:L": ports[1], "env:L": ports[2], "flag:R": ports[3], "json:R": ports[4], "env:R": ports[5]}
				res.Stat("retries", 1)
				obs, exited, problem = x06RunChild(&c)
			}
			sig := fmt.Sprintf("%s %v u=%s/%s", row.Mode, row.Has, row.UDPFlag, row.UDPJson)
			nontrivial := false
			for _, srcs := range row.Has {
				if len(srcs) > 1 {
					nontrivial = true
				}
			}
			res.Count(sig, nontrivial)
			if problem != "" {
				res.Stat("child_problems", 1)
				res.Note("row %d: %s", i, problem)
				return
			}
			replay := map[string]any{"case": c, "observed": obs, "exited": exited}
			if !row.Starts {
				if !exited {
					res.Violate("started-without-address", fmt.Sprintf("%s mode, parts given %v: a required address part is missing, ck-client must refuse to start; it listens on %v", row.Mode, row.Has, obs.Listen), replay)
				}
				res.Stat("rows:refused", 1)
				return
			}
			if exited {
				res.Violate("refused-complete-address", fmt.Sprintf("%s mode, parts given %v: every address part is available, ck-client exited instead of starting", row.Mode, row.Has), replay)
				return
			}
			wantL := fmt.Sprintf("%s/%s", row.Proto, net.JoinHostPort(x06Value(&c, "LocalHost", row.Eff["LocalHost"]), x06Value(&c, "LocalPort", row.Eff["LocalPort"])))
			wantR := net.JoinHostPort(x06Value(&c, "RemoteHost", row.Eff["RemoteHost"]), x06Value(&c, "RemotePort", row.Eff["RemotePort"]))
			if len(obs.Listen) != 1 || obs.Listen[0] != wantL {
				key := "listen:precedence"
				if len(obs.Listen) == 1 && strings.SplitN(obs.Listen[0], "/", 2)[0] != row.Proto {
					key = "listen:protocol"
				}
				res.Violate(key, fmt.Sprintf("%s mode, parts given %v, -u %s, json UDP %s: ck-client must listen on %s (local host from %s, local port from %s), it listens on %v",
					row.Mode, row.Has, row.UDPFlag, row.UDPJson, wantL, row.Eff["LocalHost"], row.Eff["LocalPort"], obs.Listen), replay)
				return
			}
			if obs.Dial != wantR {
				res.Violate("dial:precedence", fmt.Sprintf("%s mode, parts given %v: ck-client must dial %s (remote host from %s, remote port from %s), it dialed %q",
					row.Mode, row.Has, wantR, row.Eff["RemoteHost"], row.Eff["RemotePort"], obs.Dial), replay)
				return
			}
			res.Stat("rows:started", 1)
			if i%500 == 0 {
				res.Sample(map[string]any{"row": row, "observed": obs}, 3)
			}
		}(i, row)
	}
	wg.Wait()
}
