//go:build verif

package main

// C20 - what reaches the socket: the `dialer` column of spec/ClientConfig.tla.
// ProcessRawConfig turns KeepAlive into RemoteConnConfig.KeepAlive, but the net.Dialer that consumes it is built
// inline in main(). Rows of ClientConfigGen (KeepAlive x NumConn, rest at the example configuration) are therefore
// judged on the real main(): this test binary re-executes itself; the child starts main() the way a user would
//   plugin : SS_LOCAL_HOST/SS_LOCAL_PORT/SS_REMOTE_HOST/SS_REMOTE_PORT + SS_PLUGIN_OPTIONS (semicolon options, '\=' escapes)
//   file   : ck-client -c <json file> -s 127.0.0.1 -p <port> -i 127.0.0.1 -l <port>
//   options: ck-client -c "<semicolon options>" -s ... (the other syntax of -c)
// against a listener on the loopback that plays the Cloak server's TCP end, connects a "proxy program" to
// ck-client's local port so that a session is dialed, waits for the ClientHello of every dialed connection (net.Dialer
// has finished with the socket by then) and reads SO_KEEPALIVE / TCP_KEEPIDLE / TCP_KEEPINTVL of those sockets from
// inside the child (they are the child's own file descriptors). README: "KeepAlive is the number of seconds to tell
// the OS to wait after no activity before sending TCP KeepAlive probes ... Zero or negative value disables it.
// Default is 0 (disabled)".

import (
	"encoding/base64"
	"encoding/json"
	"fmt"
	"net"
	"os"
	"os/exec"
	"path/filepath"
	"regexp"
	"strconv"
	"strings"
	"sync"
	"syscall"
	"testing"
	"time"

	kit "github.com/cbeuw/Cloak/internal/verifkit"
)

const c20mChildEnv = "VERIF_C20_CHILD"

type c20mRow struct {
	Cfg map[string]string `json:"cfg"`
	Exp struct {
		Outcome    string `json:"outcome"`
		Dialer     string `json:"dialer"`
		Singleplex string `json:"singleplex"`
	} `json:"exp"`
}

// c20mCase is everything the child needs; it is also the replay record.
type c20mCase struct {
	Row       c20mRow `json:"row"`
	Variant   uint64  `json:"variant"`
	Launch    string  `json:"launch"` // plugin | file | options
	KeepAlive int     `json:"keepAlive"`
	NumConn   int     `json:"numConn"`
	JSON      string  `json:"json_file,omitempty"`
	Options   string  `json:"option_string,omitempty"`
}

type c20mSock struct {
	KA    int `json:"so_keepalive"`
	Idle  int `json:"tcp_keepidle"`
	Intvl int `json:"tcp_keepintvl"`
}

func c20mEscape(s string) string {
	s = strings.ReplaceAll(s, `\`, `\\`)
	s = strings.ReplaceAll(s, `=`, `\=`)
	return strings.ReplaceAll(s, `;`, `\;`)
}

func c20mConcretise(row *c20mRow, variant uint64, launch string) c20mCase {
	r := kit.NewRng(int64(variant))
	c := c20mCase{Row: *row, Variant: variant, Launch: launch}
	switch row.Cfg["KeepAlive"] {
	case "neg":
		c.KeepAlive = []int{-1, -5, -3600}[r.Intn(3)]
	case "pos":
		c.KeepAlive = []int{1, 7, 30, 45, 600, 7200}[r.Intn(6)]
	}
	switch row.Cfg["NumConn"] {
	case "neg":
		c.NumConn = []int{-1, -4}[r.Intn(2)]
	case "pos":
		c.NumConn = []int{1, 2, 4}[r.Intn(3)]
	}
	type kv struct {
		k string
		v any
	}
	opts := []kv{
		{"ProxyMethod", "shadowsocks"}, {"EncryptionMethod", "plain"},
		{"UID", base64.StdEncoding.EncodeToString(r.Bytes(16))}, {"PublicKey", base64.StdEncoding.EncodeToString(r.Bytes(32))},
		{"ServerName", "www.bing.com"}, {"BrowserSig", []string{"chrome", "firefox", "safari"}[r.Intn(3)]}, {"StreamTimeout", 300},
	}
	if tr := row.Cfg["Transport"]; tr != "absent" && tr != "" {
		opts = append(opts, kv{"Transport", tr}) // the abstract value is the literal name
	}
	if row.Cfg["NumConn"] != "absent" {
		opts = append(opts, kv{"NumConn", c.NumConn})
	}
	if row.Cfg["KeepAlive"] != "absent" {
		opts = append(opts, kv{"KeepAlive", c.KeepAlive})
	}
	for i := len(opts) - 1; i > 0; i-- { // key order is free in both syntaxes
		j := r.Intn(i + 1)
		opts[i], opts[j] = opts[j], opts[i]
	}
	m := map[string]any{}
	var parts []string
	for _, o := range opts {
		m[o.k] = o.v
		if s, ok := o.v.(string); ok {
			parts = append(parts, o.k+"="+c20mEscape(s))
		} else {
			parts = append(parts, fmt.Sprintf("%s=%v", o.k, o.v))
		}
	}
	if launch == "file" {
		b, _ := json.MarshalIndent(m, "", "  ")
		c.JSON = string(b)
	} else {
		c.Options = strings.Join(parts, ";")
	}
	return c
}

func c20mFreePort() (string, error) {
	l, err := net.Listen("tcp", "127.0.0.1:0")
	if err != nil {
		return "", err
	}
	defer l.Close()
	_, p, _ := net.SplitHostPort(l.Addr().String())
	return p, nil
}

// TestVerifC20Child runs the real main(); only meaningful when started by TestVerifC20Main.
func TestVerifC20Child(t *testing.T) {
	spec, isChild := os.LookupEnv(c20mChildEnv)
	if !isChild {
		t.Skip("helper of TestVerifC20Main")
	}
	var c c20mCase
	if err := json.Unmarshal([]byte(spec), &c); err != nil {
		t.Fatal(err)
	}
	tmpDir := ""
	fail := func(format string, a ...any) {
		if tmpDir != "" {
			os.RemoveAll(tmpDir)
		}
		fmt.Printf("\nC20CHILD-FAILED %s\n", fmt.Sprintf(format, a...))
		os.Exit(3)
	}
	server, err := net.Listen("tcp", "127.0.0.1:0")
	if err != nil {
		fail("listen: %v", err)
	}
	_, serverPort, _ := net.SplitHostPort(server.Addr().String())
	localPort, err := c20mFreePort()
	if err != nil {
		fail("no free port: %v", err)
	}
	for _, k := range []string{"SS_LOCAL_HOST", "SS_LOCAL_PORT", "SS_REMOTE_HOST", "SS_REMOTE_PORT", "SS_PLUGIN_OPTIONS"} {
		os.Unsetenv(k)
	}
	switch c.Launch {
	case "plugin":
		os.Setenv("SS_LOCAL_HOST", "127.0.0.1")
		os.Setenv("SS_LOCAL_PORT", localPort)
		os.Setenv("SS_REMOTE_HOST", "127.0.0.1")
		os.Setenv("SS_REMOTE_PORT", serverPort)
		os.Setenv("SS_PLUGIN_OPTIONS", c.Options)
		os.Args = []string{"ck-client"}
	case "file":
		dir, err := os.MkdirTemp("", "c20m-")
		if err != nil {
			fail("temp dir: %v", err)
		}
		tmpDir = dir
		p := filepath.Join(dir, "ckclient.json")
		if err := os.WriteFile(p, []byte(c.JSON), 0o600); err != nil {
			fail("write config: %v", err)
		}
		os.Args = []string{"ck-client", "-c", p, "-s", "127.0.0.1", "-p", serverPort, "-i", "127.0.0.1", "-l", localPort}
	case "options":
		os.Args = []string{"ck-client", "-c", c.Options, "-s", "127.0.0.1", "-p", serverPort, "-i", "127.0.0.1", "-l", localPort}
	default:
		fail("unknown launch mode %q", c.Launch)
	}
	go func() {
		main() // ends up in client.RouteTCP and never returns
		fail("main() returned")
	}()

	// the far end: count the connections whose first flight (the ClientHello) has arrived
	var mu sync.Mutex
	hellos := 0
	var keep []net.Conn
	go func() {
		for {
			conn, err := server.Accept()
			if err != nil {
				return
			}
			mu.Lock()
			keep = append(keep, conn)
			mu.Unlock()
			go func() {
				buf := make([]byte, 4096)
				if n, _ := conn.Read(buf); n > 0 {
					mu.Lock()
					hellos++
					mu.Unlock()
				}
			}()
		}
	}()
	// the proxy program connects: ck-client dials its session now
	var proxy net.Conn
	for i := 0; i < 200; i++ {
		if proxy, err = net.Dial("tcp", net.JoinHostPort("127.0.0.1", localPort)); err == nil {
			break
		}
		time.Sleep(25 * time.Millisecond)
	}
	if err != nil {
		fail("ck-client is not listening on its local port: %v", err)
	}
	defer proxy.Close()
	want := 1
	if c.Row.Exp.Singleplex == "no" && c.NumConn > 0 {
		want = c.NumConn
	}
	deadline := time.Now().Add(10 * time.Second)
	for {
		mu.Lock()
		n := hellos
		mu.Unlock()
		if n >= want {
			break
		}
		if time.Now().After(deadline) {
			if n > 0 {
				break
			}
			fail("ck-client did not dial the remote within 10 s")
		}
		time.Sleep(10 * time.Millisecond)
	}
	wantPeer, _ := strconv.Atoi(serverPort)
	var socks []c20mSock
	for fd := 0; fd < 1024; fd++ {
		pa, err := syscall.Getpeername(fd)
		if err != nil {
			continue
		}
		pa4, ok := pa.(*syscall.SockaddrInet4)
		if !ok || pa4.Port != wantPeer {
			continue
		}
		ka, e1 := syscall.GetsockoptInt(fd, syscall.SOL_SOCKET, syscall.SO_KEEPALIVE)
		idle, e2 := syscall.GetsockoptInt(fd, syscall.IPPROTO_TCP, syscall.TCP_KEEPIDLE)
		intvl, e3 := syscall.GetsockoptInt(fd, syscall.IPPROTO_TCP, syscall.TCP_KEEPINTVL)
		if e1 != nil || e2 != nil || e3 != nil {
			fail("getsockopt: %v %v %v", e1, e2, e3)
		}
		socks = append(socks, c20mSock{ka, idle, intvl})
	}
	if tmpDir != "" {
		os.RemoveAll(tmpDir)
	}
	b, _ := json.Marshal(socks)
	fmt.Printf("\nC20CHILD-RESULT %s\n", b)
	os.Exit(0)
}

var c20mResultRe = regexp.MustCompile(`C20CHILD-RESULT (\[.*\])`)
var c20mFailedRe = regexp.MustCompile(`C20CHILD-FAILED (.*)`)

// c20mRunChild starts one child and returns the sockets it dialed the "server" with.
func c20mRunChild(c *c20mCase) (socks []c20mSock, problem string) {
	spec, _ := json.Marshal(c)
	cmd := exec.Command(os.Args[0], "-test.run=^TestVerifC20Child$", "-test.v", "-test.timeout=60s")
	cmd.Env = append(os.Environ(), c20mChildEnv+"="+string(spec))
	done := make(chan struct{})
	var out []byte
	var err error
	go func() { out, err = cmd.CombinedOutput(); close(done) }()
	select {
	case <-done:
	case <-time.After(45 * time.Second):
		if cmd.Process != nil {
			cmd.Process.Kill()
		}
		<-done
		return nil, "child timed out"
	}
	if m := c20mResultRe.FindSubmatch(out); m != nil {
		if e := json.Unmarshal(m[1], &socks); e != nil {
			return nil, "unreadable result: " + e.Error()
		}
		if len(socks) == 0 {
			return nil, "the child found no socket connected to the server port"
		}
		return socks, ""
	}
	if m := c20mFailedRe.FindSubmatch(out); m != nil {
		return nil, string(m[1])
	}
	tail := string(out)
	if len(tail) > 600 {
		tail = tail[len(tail)-600:]
	}
	return nil, fmt.Sprintf("no result (err=%v): %s", err, tail)
}

func c20mJudge(c *c20mCase, socks []c20mSock) (key, what string) {
	v := c.Row.Cfg["KeepAlive"]
	given := "key absent"
	if v != "absent" {
		given = strconv.Itoa(c.KeepAlive)
	}
	for _, s := range socks {
		switch c.Row.Exp.Dialer {
		case "off":
			if s.KA != 0 {
				return "KeepAlive:" + v + ":dialer", fmt.Sprintf("KeepAlive=%s (%s, launch mode %s) is documented as disabled, but ck-client dialed the server with SO_KEEPALIVE on "+
					"(first probe after %d s idle, then every %d s)", v, given, c.Launch, s.Idle, s.Intvl)
			}
		case "idle=N":
			if s.KA != 1 || s.Idle != c.KeepAlive {
				return "KeepAlive:" + v + ":dialer", fmt.Sprintf("KeepAlive=%d (launch mode %s) must make the OS probe after %d s without activity; the dialed socket has "+
					"SO_KEEPALIVE=%d TCP_KEEPIDLE=%d s", c.KeepAlive, c.Launch, c.KeepAlive, s.KA, s.Idle)
			}
		}
	}
	return "", ""
}

func TestVerifC20Main(t *testing.T) {
	if _, isChild := os.LookupEnv(c20mChildEnv); isChild {
		t.Skip("child")
	}
	res := kit.NewResult()
	defer func() { res.Save(true) }()
	if rp := kit.Env("VERIF_REPLAY", ""); rp != "" {
		var rf struct {
			Replay struct {
				Main c20mCase `json:"main"`
			} `json:"replay"`
		}
		raw, err := os.ReadFile(rp)
		if err != nil {
			t.Fatal(err)
		}
		if err := json.Unmarshal(raw, &rf); err != nil {
			t.Fatal(err)
		}
		c := rf.Replay.Main
		socks, problem := c20mRunChild(&c)
		fmt.Printf("launch=%s\njson file:\n%s\noption string:\n%s\nexpected dialer=%s observed sockets=%+v problem=%q\n", c.Launch, c.JSON, c.Options, c.Row.Exp.Dialer, socks, problem)
		key, what := c20mJudge(&c, socks)
		fmt.Printf("REPLAY-RESULT key=%q what=%q\n", key, what)
		return
	}
	if l, err := net.Listen("tcp", "127.0.0.1:0"); err != nil {
		res.Note("loopback TCP is not available: %v", err)
		res.Stat("main:no-loopback", 1)
		return
	} else {
		l.Close()
	}
	launches := []string{"plugin", "file", "options"}
	perRow := kit.EnvInt("VERIF_C20_LAUNCHES", 1)
	seed := uint64(kit.Seed())
	var cases []c20mCase
	idx := uint64(0)
	err := kit.ReadLines(kit.Env("VERIF_IN", ""), func(line []byte) error {
		var row c20mRow
		if err := json.Unmarshal(line, &row); err != nil {
			return err
		}
		idx++
		if row.Exp.Outcome != "ok" {
			return nil
		}
		for k := 0; k < perRow; k++ {
			launch := launches[(int(idx)+k+int(seed))%3]
			cases = append(cases, c20mConcretise(&row, seed*0x9E3779B97F4A7C15+idx*131+uint64(k), launch))
		}
		return nil
	})
	if err != nil {
		t.Fatal(err)
	}
	res.Stat("main:rows", int64(idx))
	sem := make(chan struct{}, kit.EnvInt("VERIF_C20_CHILDREN", 6))
	var wg sync.WaitGroup
	for i := range cases {
		wg.Add(1)
		sem <- struct{}{}
		go func(c *c20mCase) {
			defer wg.Done()
			defer func() { <-sem }()
			socks, problem := c20mRunChild(c)
			if problem != "" { // one more try: a port may have been taken between probing and use
				socks, problem = c20mRunChild(c)
			}
			if problem != "" {
				res.Stat("main:child-failed", 1)
				res.Note("child failed (%s, KeepAlive=%s NumConn=%s): %s", c.Launch, c.Row.Cfg["KeepAlive"], c.Row.Cfg["NumConn"], problem)
				return
			}
			res.Stat("main:children", 1)
			res.Stat("main:sockets", int64(len(socks)))
			res.Stat(fmt.Sprintf("main:launch=%s", c.Launch), 1)
			res.Count(fmt.Sprintf("main|%s|%s|%s", c.Row.Cfg["KeepAlive"], c.Row.Cfg["NumConn"], c.Launch), true)
			res.Stat(fmt.Sprintf("main:KeepAlive=%s -> SO_KEEPALIVE=%d idle=%d", c.Row.Cfg["KeepAlive"], socks[0].KA, socks[0].Idle*socks[0].KA), 1)
			if key, what := c20mJudge(c, socks); key != "" {
				res.Violate(key, what, map[string]any{"main": c, "sockets": socks})
			}
			res.Sample(map[string]any{"main": map[string]any{"launch": c.Launch, "KeepAlive": c.Row.Cfg["KeepAlive"], "NumConn": c.Row.Cfg["NumConn"], "sockets": socks}}, 3)
		}(&cases[i])
	}
	wg.Wait()
}
