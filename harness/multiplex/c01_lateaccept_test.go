package multiplex

// C01 with a late acceptor: the peer opens more streams than the accept queue holds (1024) before the application
// starts accepting, writes a few messages on each and closes it.  Every healthy connection keeps its place in line
// (the receive loop waits for the queue), so once the application accepts, every stream must deliver exactly the bytes
// written on it, then the end of the stream - nothing may have been dropped while the queue was full.

import (
	"bytes"
	"errors"
	"fmt"
	"io"
	"sync"
	"testing"
	"time"

	kit "github.com/cbeuw/Cloak/internal/verifkit"
	log "github.com/sirupsen/logrus"
)

func TestVerifC01LateAcceptor(t *testing.T) {
	log.SetOutput(io.Discard)
	log.SetLevel(log.PanicLevel)
	res := kit.NewResult()
	defer func() { res.Save(true) }()
	methods := []byte{EncryptionMethodPlain, EncryptionMethodAES256GCM, EncryptionMethodChaha20Poly1305, EncryptionMethodAES128GCM}
	rounds := 2
	if kit.Thorough() {
		rounds = 8
	}
	for r := 0; r < rounds && res.NumViolations() == 0; r++ {
		nStreams := []int{1500, 1100, 2600, 1025}[r%4]
		p := c13NewPair(1+r%3, methods[r%4], kit.Seed()*53+int64(r))
		p.vn.Tap = nil // no wire decoding here: volume
		msg := func(sid uint32, k int) []byte {
			b := make([]byte, 24+k*7)
			kit.FillToken(b, uint64(sid)<<8|uint64(k))
			return b
		}
		var wgW sync.WaitGroup
		wgW.Add(1)
		go func() {
			defer wgW.Done()
			for i := 0; i < nStreams; i++ {
				st, err := p.c.OpenStream()
				if err != nil {
					return
				}
				for k := 0; k < 3; k++ {
					st.Write(msg(st.id, k))
				}
				st.Close()
			}
		}()
		time.Sleep(150 * time.Millisecond) // the accept queue fills up, the receive loops wait
		type result struct {
			sid uint32
			bad string
		}
		results := make(chan result, nStreams)
		var wgR sync.WaitGroup
		accepted := 0
		deadline := time.Now().Add(60 * time.Second)
		for accepted < nStreams && time.Now().Before(deadline) {
			type ar struct {
				st  *Stream
				err error
			}
			ch := make(chan ar, 1)
			go func() {
				c, err := p.s.Accept()
				if err != nil {
					ch <- ar{nil, err}
					return
				}
				ch <- ar{c.(*Stream), nil}
			}()
			var a ar
			select {
			case a = <-ch:
			case <-time.After(10 * time.Second):
				a = ar{nil, errors.New("no stream to accept for 10 s")}
			}
			if a.err != nil {
				res.Violate("bytes-missing", fmt.Sprintf("late acceptor: %d streams were opened and written by the peer on healthy connections, only %d could be accepted: %v", nStreams, accepted, a.err),
					map[string]any{"round": r, "streams": nStreams, "accepted": accepted})
				break
			}
			accepted++
			wgR.Add(1)
			go func(st *Stream) {
				defer wgR.Done()
				want := append(append(append([]byte{}, msg(st.id, 0)...), msg(st.id, 1)...), msg(st.id, 2)...)
				var got []byte
				buf := make([]byte, 4096)
				for {
					st.SetReadDeadline(time.Now().Add(15 * time.Second))
					n, err := st.Read(buf)
					got = append(got, buf[:n]...)
					if err != nil {
						if !errors.Is(err, ErrBrokenStream) {
							results <- result{st.id, fmt.Sprintf("read %d of %d bytes, then %v", len(got), len(want), err)}
							return
						}
						break
					}
				}
				if !bytes.Equal(got, want) {
					results <- result{st.id, fmt.Sprintf("read %d bytes that are not the %d bytes written before the close", len(got), len(want))}
					return
				}
				results <- result{st.id, ""}
			}(a.st)
		}
		wgR.Wait()
		close(results)
		for x := range results {
			if x.bad != "" {
				res.Violate("bytes-missing", fmt.Sprintf("late acceptor (%d streams opened before the application accepted): stream %d %s", nStreams, x.sid, x.bad),
					map[string]any{"round": r, "streams": nStreams, "stream": x.sid})
				break
			}
		}
		wgW.Wait()
		res.Count(fmt.Sprintf("late-acceptor %d streams", nStreams), true)
		res.Stat("late_acceptor_streams", int64(accepted))
		p.c.Close() // the client first: the server's deplex is then not holding the table lock
		time.Sleep(20 * time.Millisecond)
		for _, l := range p.links {
			l.Fail()
		}
	}
}
