package multiplex

// C11 - forged, foreign or modified frames are rejected; garbage never breaks a session.
// B1: the tamper cases exported by TLC from spec/FrameCodecGen.tla (method x padded/unpadded x tamper
// kind x touched fields, with the symbolic decoder's verdict) form the expectation table. The driver
// expands every class on messages produced by the real obfuscate: every bit of every position, all
// truncations, extensions, corruptions, foreign keys / methods, arbitrary byte strings. Each concrete
// input is classified back to its abstract case and fed to the real Obfuscator.deobfuscate and to
// Session.recvDataFromRemote. An accepted modified message is a violation under the key of the region
// it touches; the model's verdict is only used to detect drift between model and code.

import (
	"bytes"
	"encoding/binary"
	"encoding/hex"
	"encoding/json"
	"fmt"
	"io"
	"net"
	"net/http"
	"os"
	"runtime"
	"sort"
	"strings"
	"sync"
	"testing"
	"time"

	"github.com/cbeuw/Cloak/internal/common"
	kit "github.com/cbeuw/Cloak/internal/verifkit"
	"github.com/gorilla/websocket"
	log "github.com/sirupsen/logrus"
)

type c11Case struct {
	Method     string   `json:"method"`
	MethodByte int      `json:"methodByte"`
	Padded     bool     `json:"padded"`
	Tamper     string   `json:"tamper"`
	Touched    []string `json:"touched"`
	Detail     string   `json:"detail"`
	Expect     string   `json:"expect"`
}

func c11TblKey(method string, padded bool, tamper string, touched []string, detail string) string {
	t := append([]string{}, touched...)
	sort.Strings(t)
	return fmt.Sprintf("%s|%v|%s|%s|%s", method, padded, tamper, strings.Join(t, ","), detail)
}

var c11MethodNames = map[byte]string{EncryptionMethodPlain: "plain", EncryptionMethodAES256GCM: "aes-256-gcm",
	EncryptionMethodChaha20Poly1305: "chacha20-poly1305", EncryptionMethodAES128GCM: "aes-128-gcm"}

// c11Op is a replayable description of how the delivered bytes were derived from the original message.
type c11Op struct {
	Kind string `json:"kind"` // xor | prefix | dropfront | append | raw
	Pos  []int  `json:"pos,omitempty"`
	Mask []int  `json:"mask,omitempty"`
	N    int    `json:"n,omitempty"`
	Hex  string `json:"hex,omitempty"`
}

func (op *c11Op) apply(orig []byte) []byte {
	switch op.Kind {
	case "xor":
		out := append([]byte{}, orig...)
		for i, p := range op.Pos {
			out[p] ^= byte(op.Mask[i])
		}
		return out
	case "prefix":
		return append([]byte{}, orig[:op.N]...)
	case "dropfront":
		return append([]byte{}, orig[op.N:]...)
	case "append":
		b, _ := hex.DecodeString(op.Hex)
		return append(append([]byte{}, orig...), b...)
	}
	b, _ := hex.DecodeString(op.Hex)
	return b
}

type c11Replay struct {
	Method int    `json:"method"`
	Key    string `json:"key"`
	Orig   string `json:"orig"`
	Sid    uint32 `json:"sid"`
	Seq    uint64 `json:"seq"`
	Len    int    `json:"len"`
	Op     c11Op  `json:"op"`
	Tamper string `json:"tamper"`
	Path   string `json:"path"`
}

type c11Snap struct {
	closed                  bool
	streams, backlog, count int
}

func c11Snapshot(s *Session) c11Snap {
	s.streamsM.Lock()
	n := len(s.streams)
	s.streamsM.Unlock()
	return c11Snap{closed: s.IsClosed(), streams: n, backlog: len(s.acceptCh), count: int(s.streamCount())}
}

func c11NewSession(o Obfuscator) *Session {
	return MakeSession(0, SessionConfig{Obfuscator: o, MsgOnWireSizeLimit: kit.EnvInt("VERIF_WIRE_LIMIT", 16401), InactivityTimeout: 24 * time.Hour})
}

// c11Job carries one receiver (key, method) and the message under attack.
type c11Job struct {
	res        *kit.Result
	tbl        map[string]string
	rng        *kit.Rng
	method     byte
	mname      string
	padded     bool
	key        [32]byte
	o          Obfuscator
	sesh       *Session
	orig       []byte
	sid        uint32
	seq        uint64
	plen       int
	closing    byte
	extra      int
	scratchA   []byte
	scratchB   []byte
	unexpected int
	nextSid    uint32
}

func (j *c11Job) deobf(data []byte) (accepted bool, fr Frame, pan any) {
	defer func() {
		if r := recover(); r != nil {
			pan = r
		}
	}()
	err := j.o.deobfuscate(&fr, data)
	return err == nil, fr, nil
}

func (j *c11Job) recv(data []byte) (accepted bool, effect string, pan any) {
	defer func() {
		if r := recover(); r != nil {
			pan = r
			j.sesh = c11NewSession(j.o)
		}
	}()
	before := c11Snapshot(j.sesh)
	err := j.sesh.recvDataFromRemote(data)
	after := c11Snapshot(j.sesh)
	if err == nil || before != after {
		effect = fmt.Sprintf("err=%v closed %v->%v streams %d->%d backlog %d->%d", err, before.closed, after.closed, before.streams, after.streams, before.backlog, after.backlog)
		j.sesh = c11NewSession(j.o) // never reuse a session that processed a forged frame
		return true, effect, nil
	}
	return false, "", nil
}

// recvPlain: under plain arbitrary bytes are "frames" by design; keep the session usable for the next input.
func (j *c11Job) recvPlain(data []byte) (processed bool, pan any) {
	defer func() {
		if r := recover(); r != nil {
			pan = r
			j.sesh = c11NewSession(j.o)
		}
	}()
	err := j.sesh.recvDataFromRemote(data)
	for len(j.sesh.acceptCh) > 0 {
		<-j.sesh.acceptCh
	}
	if j.sesh.IsClosed() { // a junk closing byte: legitimate under plain
		j.sesh = c11NewSession(j.o)
	}
	return err == nil, nil
}

func (j *c11Job) replay(op c11Op, tamper, path string) c11Replay {
	return c11Replay{Method: int(j.method), Key: hex.EncodeToString(j.key[:]), Orig: hex.EncodeToString(j.orig), Sid: j.sid, Seq: j.seq,
		Len: j.plen, Op: op, Tamper: tamper, Path: path}
}

// try delivers one modified message on both paths. vkey is the violation key of the touched region.
func (j *c11Job) try(data []byte, op c11Op, tamper string, touched []string, detail, vkey, sig string) {
	if bytes.Equal(data, j.orig) {
		return // not a modification
	}
	tk := c11TblKey(j.mname, j.padded, tamper, touched, detail)
	exp, covered := j.tbl[tk]
	if !covered {
		j.res.Stat("uncovered:"+tk, 1)
	}
	j.res.Count(sig, true)
	j.res.Stat("cases:"+tamper, 1)
	a := append(j.scratchA[:0], data...)
	accA, fr, panA := j.deobf(a)
	b := append(j.scratchB[:0], data...)
	accB, effect, panB := j.recv(b)
	if panA != nil || panB != nil {
		j.res.Violate("panic:"+j.mname, fmt.Sprintf("%s: panic while processing a received message: %v %v", tamper, panA, panB), j.replay(op, tamper, "panic"))
		j.unexpected++
		return
	}
	if accA || accB {
		what := fmt.Sprintf("%s under %s (closing=%d frame, payload %d, pad %d): modified message accepted", tamper, j.mname, j.closing, j.plen, j.extra-16)
		if accA {
			what += fmt.Sprintf("; deobfuscate returned sid=%d seq=%d closing=%d payload=%d bytes (sent sid=%d seq=%d closing=%d payload=%d)", fr.StreamID, fr.Seq, fr.Closing, len(fr.Payload), j.sid, j.seq, j.closing, j.plen)
		}
		if accB {
			what += "; recvDataFromRemote processed it: " + effect
		}
		j.res.Violate(vkey, what, j.replay(op, tamper, "both"))
		if exp == "yes" {
			j.res.Stat("model-accept-confirmed:"+tamper, 1)
		} else {
			j.res.Stat("accept-not-in-model:"+tamper, 1)
			j.unexpected++
		}
		if accA != accB {
			j.res.Stat("paths-disagree:"+tamper, 1)
		}
		return
	}
	if exp == "yes" {
		j.res.Stat("drift:"+tamper+"/"+detail, 1) // the code-faithful model predicts acceptance, the code rejects
	}
}

// field of a byte position of the original message
func (j *c11Job) field(pos int) (name string, vkey string) {
	n := len(j.orig)
	pad := j.extra - 16
	switch {
	case pos < 4:
		return "sid", fmt.Sprintf("aead:header-byte-%d", pos)
	case pos < 12:
		return "seq", fmt.Sprintf("aead:header-byte-%d", pos)
	case pos == 12:
		return "closing", "aead:header-byte-12"
	case pos == 13:
		return "extra", "aead:header-byte-13"
	case pos < frameHeaderLength+j.plen:
		return "payload", "aead:payload"
	case pos < frameHeaderLength+j.plen+pad:
		return "pad", "aead:pad"
	case pos < n-8:
		return "tagLo", "aead:tag"
	}
	return "tagHi", "aead:tag"
}

func c11TamperName(field string) string {
	return map[string]string{"sid": "FlipSid", "seq": "FlipSeq", "closing": "FlipClosing", "extra": "FlipExtra", "payload": "FlipPayload",
		"pad": "FlipPad", "tagLo": "FlipTagLo", "tagHi": "FlipTagHi"}[field]
}

// xor applies masks at positions and classifies the result against the model's tamper kinds.
func (j *c11Job) xor(pos []int, mask []byte, sigExtra string) {
	data := append([]byte{}, j.orig...)
	fields := map[string]bool{}
	vkeys := map[string]bool{}
	op := c11Op{Kind: "xor"}
	newExtra := j.extra
	for i, p := range pos {
		if mask[i] == 0 {
			continue
		}
		data[p] ^= mask[i]
		f, k := j.field(p)
		fields[f] = true
		vkeys[k] = true
		if p == 13 {
			newExtra ^= int(mask[i])
		}
		op.Pos = append(op.Pos, p)
		op.Mask = append(op.Mask, int(mask[i]))
	}
	if len(fields) == 0 {
		return
	}
	var touched []string
	for f := range fields {
		touched = append(touched, f)
	}
	detail := ""
	if fields["extra"] {
		detail = "overflows"
		if newExtra <= len(j.orig)-frameHeaderLength {
			detail = "fits"
		}
	}
	tamper := "Corrupt"
	if len(touched) == 1 {
		tamper = c11TamperName(touched[0])
	}
	// violation key: the region hit; several regions = "aead:multi" unless all of them are the unbound header tail
	vkey := "aead:multi"
	if len(vkeys) == 1 {
		for k := range vkeys {
			vkey = k
		}
	} else if len(vkeys) == 2 && vkeys["aead:header-byte-12"] && vkeys["aead:header-byte-13"] {
		vkey = "aead:header-byte-12"
	}
	j.try(data, op, tamper, touched, detail, vkey, fmt.Sprintf("%s|%v|%d|c%d|%s|%s", j.mname, j.padded, j.plen, j.closing, tamper, sigExtra))
}

// seal builds a message with the REAL encoder under the given method/key; padded selects the seq side.
func c11Seal(method byte, key [32]byte, sid uint32, seq uint64, closing byte, payload []byte, wantPad int) ([]byte, error) {
	o, err := MakeObfuscator(method, key)
	if err != nil {
		return nil, err
	}
	buf := make([]byte, frameHeaderLength+len(payload)+maxExtraLen+64)
	tag := 16
	if method == EncryptionMethodPlain {
		tag = salsa20NonceSize
	}
	for tries := 0; tries < 200; tries++ {
		f := &Frame{StreamID: sid, Seq: seq, Closing: closing, Payload: payload}
		n, err := o.obfuscate(f, buf, 0)
		if err != nil {
			return nil, err
		}
		pad := n - frameHeaderLength - len(payload) - tag
		if wantPad < 0 || (wantPad == 0 && pad == 0) || (wantPad > 0 && pad > 0) {
			return append([]byte{}, buf[:n]...), nil
		}
	}
	return nil, fmt.Errorf("could not obtain a message with padding class %d for seq %d", wantPad, seq)
}

func (j *c11Job) alive(where string) {
	defer func() {
		if r := recover(); r != nil {
			j.res.Violate("panic:"+j.mname, fmt.Sprintf("panic while processing a VALID frame after %s: %v", where, r), nil)
			j.sesh = c11NewSession(j.o)
		}
	}()
	if j.sesh.IsClosed() {
		if j.method != EncryptionMethodPlain {
			j.res.Violate("keeps-working:"+j.mname, "session is closed after "+where, nil)
		}
		j.sesh = c11NewSession(j.o)
	}
	for len(j.sesh.acceptCh) > 0 { // plain: junk streams opened by unauthenticated garbage
		<-j.sesh.acceptCh
	}
	j.nextSid++
	sid := 0x40000000 + j.nextSid
	payload := kit.TokenBytes(uint64(sid), 48)
	msg, err := c11Seal(j.method, j.key, sid, 0, closingNothing, payload, -1)
	if err != nil {
		j.res.Note("alive: cannot encode: %v", err)
		return
	}
	if err := j.sesh.recvDataFromRemote(msg); err != nil {
		j.res.Violate("keeps-working:"+j.mname, fmt.Sprintf("valid frame refused after %s: %v", where, err), nil)
		j.sesh = c11NewSession(j.o)
		return
	}
	select {
	case st := <-j.sesh.acceptCh:
		if st == nil {
			j.res.Violate("keeps-working:"+j.mname, "accept queue closed after "+where, nil)
			j.sesh = c11NewSession(j.o)
			return
		}
		st.SetReadDeadline(time.Now().Add(3 * time.Second))
		got := make([]byte, len(payload))
		n, err := io.ReadFull(st, got)
		if err != nil || !bytes.Equal(got[:n], payload) {
			j.res.Violate("keeps-working:"+j.mname, fmt.Sprintf("valid frame after %s not readable on its stream: %d bytes, %v", where, n, err), nil)
		}
		j.res.Stat("alive-checks", 1)
	case <-time.After(3 * time.Second):
		j.res.Violate("keeps-working:"+j.mname, "valid frame after "+where+" did not open its stream", nil)
	}
}

func c11Positions(n, plen int, rng *kit.Rng) []int {
	var out []int
	if kit.Thorough() || n <= 600 {
		for p := 0; p < n; p++ {
			out = append(out, p)
		}
		return out
	}
	seen := map[int]bool{}
	add := func(p int) {
		if p >= 0 && p < n && !seen[p] {
			seen[p] = true
			out = append(out, p)
		}
	}
	for p := 0; p < frameHeaderLength+32; p++ {
		add(p)
	}
	for p := n - 16; p < n; p++ {
		add(p)
	}
	for p := frameHeaderLength + plen - 4; p < frameHeaderLength+plen+4; p++ { // payload / pad border
		add(p)
	}
	for i := 0; i < 400; i++ {
		add(rng.Intn(n))
	}
	return out
}

func c11Cuts(n int, rng *kit.Rng) []int {
	var out []int
	if kit.Thorough() || n <= 1400 {
		for k := 0; k < n; k++ {
			out = append(out, k)
		}
		return out
	}
	for k := 0; k < 64; k++ {
		out = append(out, k, n-1-k)
	}
	for i := 0; i < 300; i++ {
		out = append(out, 64+rng.Intn(n-128))
	}
	return out
}

func (j *c11Job) abort() bool { return j.unexpected > 40 }

// c11RecConn records what a session sends.
type c11RecConn struct {
	mu     sync.Mutex
	msgs   [][]byte
	closed chan struct{}
	once   sync.Once
}

func (c *c11RecConn) Write(b []byte) (int, error) {
	c.mu.Lock()
	c.msgs = append(c.msgs, append([]byte(nil), b...))
	c.mu.Unlock()
	return len(b), nil
}
func (c *c11RecConn) count() int                         { c.mu.Lock(); defer c.mu.Unlock(); return len(c.msgs) }
func (c *c11RecConn) Read(b []byte) (int, error)         { <-c.closed; return 0, io.EOF }
func (c *c11RecConn) Close() error                       { c.once.Do(func() { close(c.closed) }); return nil }
func (c *c11RecConn) LocalAddr() net.Addr                { return &net.TCPAddr{} }
func (c *c11RecConn) RemoteAddr() net.Addr               { return &net.TCPAddr{} }
func (c *c11RecConn) SetDeadline(t time.Time) error      { return nil }
func (c *c11RecConn) SetReadDeadline(t time.Time) error  { return nil }
func (c *c11RecConn) SetWriteDeadline(t time.Time) error { return nil }

// c11RealClosingFrames lets a real sending session produce its closing frames: after `writes` data frames the
// stream is closed (closeStream: closing=1, random payload of 1..256 bytes) and then the session (closing=2).
func c11RealClosingFrames(method byte, key [32]byte, writes int) ([][]byte, error) {
	o, err := MakeObfuscator(method, key)
	if err != nil {
		return nil, err
	}
	s := c11NewSession(o)
	rc := &c11RecConn{closed: make(chan struct{})}
	s.AddConnection(rc)
	st, err := s.OpenStream()
	if err != nil {
		return nil, err
	}
	for i := 0; i < writes; i++ {
		if _, err := st.Write([]byte{byte(i), 0x55}); err != nil {
			return nil, err
		}
	}
	n0 := rc.count()
	if err := st.Close(); err != nil {
		return nil, err
	}
	if rc.count() != n0+1 {
		return nil, fmt.Errorf("Stream.Close sent %d messages", rc.count()-n0)
	}
	n1 := rc.count()
	if err := s.Close(); err != nil {
		return nil, err
	}
	if rc.count() != n1+1 {
		return nil, fmt.Errorf("Session.Close sent %d messages", rc.count()-n1)
	}
	rc.Close()
	return [][]byte{rc.msgs[n0], rc.msgs[n1]}, nil // the stream-close frame, then the session-close frame
}

// c11Attack runs every tamper class of the model against one message.
func (j *c11Job) attack() {
	n := len(j.orig)
	sigBase := fmt.Sprintf("%s|%v|%d|c%d", j.mname, j.padded, j.plen, j.closing)
	// every bit at every position
	for _, p := range c11Positions(n, j.plen, j.rng) {
		for bit := 0; bit < 8 && !j.abort(); bit++ {
			j.xor([]int{p}, []byte{1 << bit}, fmt.Sprintf("%d.%d", p, bit))
		}
	}
	// whole-region overwrites (invert, zero) incl. the complete tag
	pad := j.extra - 16
	regions := [][2]int{{0, 4}, {4, 12}, {12, 13}, {13, 14}, {14, 14 + j.plen}, {14 + j.plen, 14 + j.plen + pad}, {n - 16, n - 8}, {n - 8, n}, {n - 16, n}, {0, 12}, {0, 14}}
	for ri, r := range regions {
		if r[1] <= r[0] || j.abort() {
			continue
		}
		for variant := 0; variant < 2; variant++ {
			var pos []int
			var mask []byte
			for p := r[0]; p < r[1]; p++ {
				m := byte(0xFF)
				if variant == 1 {
					m = j.orig[p] // xor with itself = overwrite with zero
				}
				pos, mask = append(pos, p), append(mask, m)
			}
			// the model's Corrupt covers pairs of fields: {sid,seq,closing,extra} as a whole is classified by its first two
			if ri == 10 {
				continue
			}
			j.xor(pos, mask, fmt.Sprintf("region%d.%d", ri, variant))
		}
	}
	// random multi-byte corruption inside one field or a pair of fields
	rounds := 150
	if kit.Thorough() {
		rounds = 1500
	}
	fieldRange := map[string][2]int{"sid": {0, 4}, "seq": {4, 12}, "closing": {12, 13}, "extra": {13, 14}, "payload": {14, 14 + j.plen},
		"pad": {14 + j.plen, 14 + j.plen + pad}, "tagLo": {n - 16, n - 8}, "tagHi": {n - 8, n}}
	names := []string{"sid", "seq", "closing", "extra", "payload", "tagLo", "tagHi"}
	if pad > 0 {
		names = append(names, "pad")
	}
	for r := 0; r < rounds && !j.abort(); r++ {
		k := 1 + j.rng.Intn(2)
		perm := j.rng.Perm(len(names))
		var pos []int
		var mask []byte
		seen := map[int]bool{}
		for _, fi := range perm[:k] {
			fr := fieldRange[names[fi]]
			for c := 1 + j.rng.Intn(3); c > 0; c-- {
				p := fr[0] + j.rng.Intn(fr[1]-fr[0])
				if !seen[p] {
					seen[p] = true
					pos, mask = append(pos, p), append(mask, byte(1+j.rng.Intn(255)))
				}
			}
		}
		j.xor(pos, mask, fmt.Sprintf("rnd%d", r))
	}
	// truncations: every proper prefix, and dropped leading bytes
	for _, k := range c11Cuts(n, j.rng) {
		if j.abort() {
			break
		}
		detail := "long"
		if k < frameHeaderLength+salsa20NonceSize {
			detail = "short"
		}
		j.try(j.orig[:k], c11Op{Kind: "prefix", N: k}, "Truncate", []string{"length"}, detail, "aead:truncate", fmt.Sprintf("%s|Truncate|%d", sigBase, k))
		if k > 0 {
			detail = "long"
			if n-k < frameHeaderLength+salsa20NonceSize {
				detail = "short"
			}
			j.try(j.orig[k:], c11Op{Kind: "dropfront", N: k}, "Truncate", []string{"length"}, detail, "aead:truncate", fmt.Sprintf("%s|DropFront|%d", sigBase, k))
		}
	}
	// extensions by 1..32 bytes: random, zero, repeated tail
	for k := 1; k <= 32 && !j.abort(); k++ {
		exts := [][]byte{j.rng.Bytes(k), make([]byte, k)}
		if k <= n {
			exts = append(exts, j.orig[n-k:])
		}
		for variant, ext := range exts {
			j.try(append(append([]byte{}, j.orig...), ext...), c11Op{Kind: "append", Hex: hex.EncodeToString(ext)}, "Extend", []string{"length"}, "",
				"aead:extend", fmt.Sprintf("%s|Extend|%d.%d", sigBase, k, variant))
		}
	}
	payload := kit.TokenBytes(uint64(j.sid), j.plen)
	wantPad := 0
	if j.padded {
		wantPad = 1
	}
	// the same frame sealed under other keys (random; one bit away in either half)
	for v := 0; v < 4 && !j.abort(); v++ {
		k2 := j.key
		switch v {
		case 0:
			copy(k2[:], j.rng.Bytes(32))
		case 1:
			k2[0] ^= 1
		case 2:
			k2[31] ^= 0x80
		case 3:
			k2[16] ^= 1
		}
		msg, err := c11Seal(j.method, k2, j.sid, j.seq, closingNothing, payload, wantPad)
		if err != nil {
			j.res.Note("otherkey: %v", err)
			continue
		}
		j.try(msg, c11Op{Kind: "raw", Hex: hex.EncodeToString(msg)}, "OtherKey", []string{"key"}, "", "aead:otherkey", fmt.Sprintf("%s|OtherKey|%d", sigBase, v))
	}
	// ... and under the other methods with this key
	for m2 := byte(0); m2 < 4 && !j.abort(); m2++ {
		if m2 == j.method {
			continue
		}
		msg, err := c11Seal(m2, j.key, j.sid, j.seq, closingNothing, payload, wantPad)
		if err != nil {
			j.res.Note("othermethod: %v", err)
			continue
		}
		j.try(msg, c11Op{Kind: "raw", Hex: hex.EncodeToString(msg)}, "OtherMethod", []string{"method"}, c11MethodNames[m2], "aead:othermethod", fmt.Sprintf("%s|OtherMethod|%d", sigBase, m2))
	}
	j.alive("the tamper series on " + sigBase)
}

func c11NewJob(res *kit.Result, tbl map[string]string, method byte, seed int64) (*c11Job, error) {
	j := &c11Job{res: res, tbl: tbl, rng: kit.NewRng(seed), method: method, mname: c11MethodNames[method]}
	copy(j.key[:], j.rng.Bytes(32))
	o, err := MakeObfuscator(method, j.key)
	if err != nil {
		return nil, err
	}
	j.o = o
	j.sesh = c11NewSession(o)
	j.scratchA = make([]byte, 0, 21000)
	j.scratchB = make([]byte, 0, 21000)
	return j, nil
}

// c11Garbage feeds arbitrary byte strings of every length (all four methods).
func (j *c11Job) garbage(lengths []int, contents int) {
	bufSize := j.sesh.connReceiveBufferSize
	valid, _ := c11Seal(j.method, j.key, 77, 9, closingNothing, kit.TokenBytes(77, bufSize/2), -1)
	for li, n := range lengths {
		for c := 0; c < contents; c++ {
			var data []byte
			switch (li + c) % 5 {
			case 0, 1:
				data = j.rng.Bytes(n)
			case 2:
				data = make([]byte, n)
			case 3:
				data = bytes.Repeat([]byte{0xFF}, n)
			case 4: // a valid message with random bytes from the middle on
				data = j.rng.Bytes(n)
				copy(data, valid[:min(len(valid), n/2)])
			}
			detail := "long"
			if n < frameHeaderLength+salsa20NonceSize {
				detail = "short"
			}
			sig := fmt.Sprintf("%s|Garbage|%d.%d", j.mname, n, c)
			if j.method != EncryptionMethodPlain {
				j.try(data, c11Op{Kind: "raw", Hex: hex.EncodeToString(data)}, "Garbage", []string{"all"}, detail, "aead:garbage", sig)
				continue
			}
			// plain: nothing is authenticated by design - only "no panic" and "keeps working" are decided
			j.res.Count(sig, true)
			j.res.Stat("cases:Garbage", 1)
			if _, ok := j.tbl[c11TblKey(j.mname, false, "Garbage", []string{"all"}, detail)]; !ok {
				j.res.Stat("uncovered:plain-garbage-"+detail, 1)
			}
			_, _, panA := j.deobf(append(j.scratchA[:0], data...))
			acc, panB := j.recvPlain(append(j.scratchB[:0], data...))
			if panA != nil || panB != nil {
				j.res.Violate("panic:"+j.mname, fmt.Sprintf("panic on %d arbitrary bytes: %v %v", n, panA, panB), j.replay(c11Op{Kind: "raw", Hex: hex.EncodeToString(data)}, "Garbage", "panic"))
			}
			if acc {
				j.res.Stat("plain-garbage-processed", 1)
			}
		}
		if j.method == EncryptionMethodPlain && li%256 == 255 {
			j.sesh = c11NewSession(j.o) // drop the junk streams unauthenticated garbage has opened
		}
		if li%512 == 511 {
			j.alive(fmt.Sprintf("%d arbitrary inputs", (li+1)*contents))
		}
	}
	j.alive("the garbage series")
}

func TestVerifC11Replay(t *testing.T) {
	log.SetOutput(io.Discard)
	log.StandardLogger().ExitFunc = func(int) {}
	res := kit.NewResult()
	defer func() { res.Save(true) }()
	if rp := kit.Env("VERIF_REPLAY", ""); rp != "" {
		c11ReplayFile(t, rp)
		return
	}
	tbl := map[string]string{}
	err := kit.ReadLines(kit.Env("VERIF_IN", ""), func(line []byte) error {
		var c c11Case
		if err := json.Unmarshal(line, &c); err != nil {
			return err
		}
		tbl[c11TblKey(c.Method, c.Padded, c.Tamper, c.Touched, c.Detail)] = c.Expect
		return nil
	})
	if err != nil || len(tbl) == 0 {
		t.Fatalf("no cases: %v", err)
	}
	probe := c11NewSession(Obfuscator{})
	maxPayload, bufSize := probe.maxStreamUnitWrite, probe.connReceiveBufferSize
	res.Stat("code:maxStreamUnitWrite", int64(maxPayload))
	res.Stat("code:connReceiveBufferSize", int64(bufSize))
	sizes := []int{1, 2, 15, 16, 255, 1024, maxPayload}
	var work []func()
	var mu sync.Mutex
	seed := kit.Seed() * 7919
	next := func() int64 { mu.Lock(); defer mu.Unlock(); seed++; return seed }
	aead := []byte{EncryptionMethodAES256GCM, EncryptionMethodChaha20Poly1305, EncryptionMethodAES128GCM}
	for _, m := range aead {
		for _, padded := range []bool{false, true} {
			for _, size := range sizes {
				m, padded, size := m, padded, size
				work = append(work, func() {
					j, err := c11NewJob(res, tbl, m, next())
					if err != nil {
						res.Note("job: %v", err)
						return
					}
					j.padded, j.plen = padded, size
					j.sid = 1 + uint32(j.rng.Intn(1<<20))
					wantPad := 0
					if padded {
						j.seq, wantPad = uint64(j.rng.Intn(padFirstNFrames)), 1
					} else {
						j.seq = padFirstNFrames + j.rng.Uint64()%(1<<40)
					}
					res.SetRunning(map[string]any{"method": j.mname, "padded": padded, "size": size}, true)
					msg, err := c11Seal(m, j.key, j.sid, j.seq, closingNothing, kit.TokenBytes(uint64(j.sid), size), wantPad)
					if err != nil {
						res.Note("seal %s/%v/%d: %v", j.mname, padded, size, err)
						res.Stat("unsealed-jobs", 1)
						return
					}
					j.orig, j.extra = msg, len(msg)-frameHeaderLength-size
					// the unmodified message must be accepted on both paths (otherwise nothing below means anything)
					okA, fr, _ := j.deobf(append([]byte{}, msg...))
					okB, _, _ := j.recv(append([]byte{}, msg...))
					if !okA || !okB || fr.StreamID != j.sid || fr.Seq != j.seq || !bytes.Equal(fr.Payload, kit.TokenBytes(uint64(j.sid), size)) {
						res.Violate("valid-frame-rejected:"+j.mname, fmt.Sprintf("the untouched message is not accepted as sent (deobfuscate=%v recv=%v)", okA, okB), j.replay(c11Op{Kind: "xor"}, "none", "both"))
						return
					}
					j.attack()
					res.Sample(map[string]any{"method": j.mname, "padded": padded, "payload": size, "message_bytes": len(msg), "extra": j.extra}, 6)
				})
			}
		}
	}
	// closing frames (closing=1 stream close, closing=2 session close) as the REAL code paths produce them:
	// Stream.Close -> closeStream(active) and Session.Close, captured from the sending session's connection
	for _, m := range aead {
		for _, pre := range []int{1, 6} { // stream-close frame with seq 1 (padded) / seq 6 (unpadded)
			m, pre := m, pre
			work = append(work, func() {
				j, err := c11NewJob(res, tbl, m, next())
				if err != nil {
					return
				}
				res.SetRunning(map[string]any{"method": j.mname, "closing_frames_after_writes": pre}, true)
				frames, err := c11RealClosingFrames(m, j.key, pre)
				if err != nil {
					res.Note("closing frames %s/%d: %v", j.mname, pre, err)
					res.Stat("unsealed-jobs", 1)
					return
				}
				if pre != 1 {
					frames = frames[:1] // the stream-close frame only: one session-close frame per method is enough
				}
				for _, msg := range frames {
					var fr Frame
					if err := j.o.deobfuscate(&fr, append([]byte{}, msg...)); err != nil || fr.Closing == closingNothing {
						res.Violate("valid-frame-rejected:"+j.mname, fmt.Sprintf("closing frame produced by the real close path is not accepted: %v (closing=%d)", err, fr.Closing), nil)
						continue
					}
					j.orig, j.sid, j.seq, j.closing, j.plen = msg, fr.StreamID, fr.Seq, fr.Closing, len(fr.Payload)
					j.extra = len(msg) - frameHeaderLength - j.plen
					j.padded = j.extra > 16
					j.unexpected = 0
					res.Stat(fmt.Sprintf("closing-frames-attacked:closing=%d", fr.Closing), 1)
					j.attack()
					res.Sample(map[string]any{"method": j.mname, "closing": fr.Closing, "seq": fr.Seq, "payload": j.plen, "message_bytes": len(msg)}, 9)
				}
			})
		}
	}
	// arbitrary byte strings, all four methods
	var lengths []int
	if kit.Thorough() {
		for n := 0; n <= bufSize; n++ {
			lengths = append(lengths, n)
		}
	} else {
		rng := kit.NewRng(kit.Seed())
		for n := 0; n <= 64; n++ {
			lengths = append(lengths, n)
		}
		wire := kit.EnvInt("VERIF_WIRE_LIMIT", 16401)
		for d := -2; d <= 2; d++ {
			lengths = append(lengths, wire+d)
		}
		lengths = append(lengths, bufSize-2, bufSize-1, bufSize)
		for i := 0; i < 400; i++ {
			lengths = append(lengths, 65+rng.Intn(bufSize-65))
		}
	}
	contents := 1
	if kit.Thorough() {
		contents = 2
	}
	for m := byte(0); m < 4; m++ {
		for part := 0; part < 4; part++ { // four slices per method so that the work spreads over the cores
			m, part := m, part
			work = append(work, func() {
				j, err := c11NewJob(res, tbl, m, next())
				if err != nil {
					res.Note("job: %v", err)
					return
				}
				var mine []int
				for i, n := range lengths {
					if i%4 == part {
						mine = append(mine, n)
					}
				}
				res.SetRunning(map[string]any{"method": j.mname, "garbage_part": part}, true)
				j.garbage(mine, contents)
			})
		}
	}
	// plain: bit flips on valid messages must not panic and must leave the session usable
	for _, size := range []int{1, 16, 1024} {
		size := size
		work = append(work, func() {
			j, err := c11NewJob(res, tbl, EncryptionMethodPlain, next())
			if err != nil {
				return
			}
			msg, err := c11Seal(EncryptionMethodPlain, j.key, 5, 1, closingNothing, kit.TokenBytes(5, size), -1)
			if err != nil {
				return
			}
			for p := 0; p < len(msg); p++ {
				for bit := 0; bit < 8; bit++ {
					d := append([]byte{}, msg...)
					d[p] ^= 1 << bit
					_, _, panA := j.deobf(append([]byte{}, d...))
					_, _, panB := j.recv(d)
					res.Count(fmt.Sprintf("plain|flip|%d|%d.%d", size, p, bit), true)
					if panA != nil || panB != nil {
						res.Violate("panic:plain", fmt.Sprintf("panic on a bit flip at %d.%d: %v %v", p, bit, panA, panB), nil)
					}
				}
			}
			j.alive("bit flips under plain")
		})
	}
	ch := make(chan func(), len(work))
	// big jobs first
	for i := len(work) - 1; i >= 0; i-- {
		ch <- work[i]
	}
	close(ch)
	var wg sync.WaitGroup
	for w := 0; w < runtime.GOMAXPROCS(0); w++ {
		wg.Add(1)
		go func() {
			defer wg.Done()
			for f := range ch {
				f()
			}
		}()
	}
	wg.Wait()
	res.Stat("jobs", int64(len(work)))
	c11ConnStage(res)
	c11CrossStage(res)
}

// ---------------------------------------------------------------- garbage through a real connection (deplex)

// c11Link is one underlying connection of a live Session: the session end was handed to AddConnection (so
// switchboard.deplex reads it), the peer end is what the adversary / the remote writes to.
type c11Link struct {
	transport string
	send      func(msg []byte) error  // one message (pipe: one Write; tls: one record body; ws: one binary message)
	raw       func(kind string) error // transport-specific oddities (empty record, text / ping / empty binary message)
	rawKinds  []string
	close     func()
}

func c11PipeLink(s *Session) (*c11Link, error) {
	cli, srv := net.Pipe()
	s.AddConnection(srv)
	w := func(b []byte) error {
		cli.SetWriteDeadline(time.Now().Add(10 * time.Second))
		_, err := cli.Write(b)
		return err
	}
	return &c11Link{transport: "pipe", send: w, close: func() { cli.Close() }}, nil
}

func c11TLSLink(s *Session) (*c11Link, error) {
	cli, srv := net.Pipe()
	s.AddConnection(common.NewTLSConn(srv))
	tc := common.NewTLSConn(cli)
	l := &c11Link{transport: "tls", close: func() { cli.Close() }, rawKinds: []string{"empty-record", "empty-handshake-record"}}
	l.send = func(b []byte) error {
		cli.SetWriteDeadline(time.Now().Add(10 * time.Second))
		_, err := tc.Write(b)
		return err
	}
	l.raw = func(kind string) error {
		cli.SetWriteDeadline(time.Now().Add(10 * time.Second))
		typ := byte(0x17)
		if kind == "empty-handshake-record" {
			typ = 0x16
		}
		_, err := cli.Write([]byte{typ, 3, 3, 0, 0})
		return err
	}
	return l, nil
}

func c11WSLink(s *Session) (*c11Link, error) {
	ln, err := net.Listen("tcp", "127.0.0.1:0")
	if err != nil {
		return nil, err
	}
	got := make(chan *websocket.Conn, 1)
	srv := &http.Server{Handler: http.HandlerFunc(func(w http.ResponseWriter, r *http.Request) {
		up := websocket.Upgrader{ReadBufferSize: 16480, WriteBufferSize: 16480}
		c, err := up.Upgrade(w, r, nil)
		if err != nil {
			got <- nil
			return
		}
		got <- c
	})}
	go srv.Serve(ln)
	cli, _, err := (&websocket.Dialer{HandshakeTimeout: 10 * time.Second}).Dial("ws://"+ln.Addr().String()+"/", nil)
	if err != nil {
		srv.Close()
		return nil, err
	}
	sc := <-got
	if sc == nil {
		srv.Close()
		return nil, fmt.Errorf("websocket upgrade failed")
	}
	s.AddConnection(&common.WebSocketConn{Conn: sc})
	go func() { // the peer must read so that pongs / close frames do not pile up
		for {
			if _, _, err := cli.NextReader(); err != nil {
				return
			}
		}
	}()
	var mu sync.Mutex
	wr := func(t int, b []byte) error {
		mu.Lock()
		defer mu.Unlock()
		cli.SetWriteDeadline(time.Now().Add(10 * time.Second))
		return cli.WriteMessage(t, b)
	}
	l := &c11Link{transport: "ws", rawKinds: []string{"text-message", "empty-text-message", "empty-binary-message", "ping", "pong"},
		close: func() { cli.Close(); srv.Close() }}
	l.send = func(b []byte) error { return wr(websocket.BinaryMessage, b) }
	l.raw = func(kind string) error {
		switch kind {
		case "text-message":
			return wr(websocket.TextMessage, []byte("hello from a middlebox"))
		case "empty-text-message":
			return wr(websocket.TextMessage, nil)
		case "empty-binary-message":
			return wr(websocket.BinaryMessage, nil)
		case "ping":
			return wr(websocket.PingMessage, []byte("p"))
		}
		return wr(websocket.PongMessage, nil)
	}
	return l, nil
}

type c11ConnItem struct {
	Kind string `json:"kind"` // garbage | raw:<kind> | tampered
	Len  int    `json:"len"`
	Hex  string `json:"hex,omitempty"`
}

// c11ConnStage delivers the garbage classes through real connection objects into a live Session (AddConnection ->
// switchboard.deplex -> recvDataFromRemote). After EVERY item a valid frame sent on the same connection must be
// readable on its stream and the session must still be open.
func c11ConnStage(res *kit.Result) {
	rng := kit.NewRng(kit.Seed()*131 + 7)
	lengths := []int{}
	for n := 0; n <= 30; n++ {
		lengths = append(lengths, n)
	}
	lengths = append(lengths, 100, 1000, 16401)
	extra := 12
	if kit.Thorough() {
		for n := 31; n <= 300; n++ {
			lengths = append(lengths, n)
		}
		extra = 300
	}
	for i := 0; i < extra; i++ {
		lengths = append(lengths, 31+rng.Intn(16401-31))
	}
	links := map[string]func(*Session) (*c11Link, error){"pipe": c11PipeLink, "tls": c11TLSLink, "ws": c11WSLink}
	for method := byte(0); method < 4; method++ {
		mname := c11MethodNames[method]
		for _, tr := range []string{"pipe", "tls", "ws"} {
			var key [32]byte
			copy(key[:], rng.Bytes(32))
			o, err := MakeObfuscator(method, key)
			if err != nil {
				res.Note("conn stage: %v", err)
				continue
			}
			var sesh *Session
			var link *c11Link
			var stream *Stream
			seq := uint64(0)
			broken := 0
			vkey := "session-broken:conn-" + tr
			// (re)builds session + connection and opens stream 1 with a first valid frame
			setup := func() bool {
				if link != nil {
					link.close()
				}
				sesh = c11NewSession(o)
				link, err = links[tr](sesh)
				if err != nil {
					res.Note("conn stage: transport %s not available: %v", tr, err)
					res.Stat("conn-transport-unavailable:"+tr, 1)
					return false
				}
				seq = 0
				stream = nil
				return true
			}
			// sends a valid frame on stream 1 and reads it back; "" = fine
			valid := func() string {
				payload := kit.TokenBytes(seq+1000, 40)
				msg, err := c11Seal(method, key, 1, seq, closingNothing, payload, -1)
				if err != nil {
					return "" // cannot encode: C04's business
				}
				seq++
				if err := link.send(msg); err != nil {
					return fmt.Sprintf("writing a valid frame to the connection fails: %v", err)
				}
				if stream == nil {
					select {
					case st := <-sesh.acceptCh:
						if st == nil {
							return "the session's accept queue is closed"
						}
						for st.id != 1 { // plain: junk streams opened by unauthenticated garbage
							select {
							case st = <-sesh.acceptCh:
								if st == nil {
									return "the session's accept queue is closed"
								}
							case <-time.After(10 * time.Second):
								return "the valid frame did not open its stream"
							}
						}
						stream = st
					case <-time.After(10 * time.Second):
						return fmt.Sprintf("the valid frame did not open its stream (session closed=%v)", sesh.IsClosed())
					}
				}
				stream.SetReadDeadline(time.Now().Add(10 * time.Second))
				got := make([]byte, len(payload))
				n, err := io.ReadFull(stream, got)
				if err != nil || !bytes.Equal(got, payload) {
					return fmt.Sprintf("the valid frame is not delivered to the reader of its stream: %d bytes, %v (session closed=%v, terminal msg %q)", n, err, sesh.IsClosed(), sesh.TerminalMsg())
				}
				if sesh.IsClosed() {
					return "the session is closed: " + sesh.TerminalMsg()
				}
				return ""
			}
			if !setup() {
				continue
			}
			if w := valid(); w != "" {
				res.Violate("valid-frame-rejected:conn-"+tr, mname+": a valid frame through a fresh connection: "+w, nil)
				link.close()
				continue
			}
			item := func(it c11ConnItem, deliver func() error, decides bool) {
				if broken >= 5 {
					return
				}
				res.Count(fmt.Sprintf("conn|%s|%s|%s|%d", mname, tr, it.Kind, it.Len), true)
				res.Stat("conn-items:"+tr, 1)
				for len(sesh.acceptCh) > 0 && stream != nil { // plain: junk streams
					<-sesh.acceptCh
				}
				err := deliver()
				w := ""
				if err != nil {
					w = fmt.Sprintf("writing the item fails: %v", err)
				} else {
					w = valid()
				}
				if w == "" {
					return
				}
				if !decides { // plain and a full-size "frame": unauthenticated junk may legitimately close things
					res.Stat("conn-plain-junk-effect", 1)
				} else {
					broken++
					res.Violate(vkey, fmt.Sprintf("%s over %s: after %s of %d bytes %s", mname, tr, it.Kind, it.Len, w),
						map[string]any{"conn": true, "method": method, "transport": tr, "item": it})
				}
				setup()
				valid()
			}
			minLen := frameHeaderLength + salsa20NonceSize
			for li, n := range lengths {
				if tr == "ws" && n > 16000 {
					n = 16000
				}
				var data []byte
				switch li % 3 {
				case 0, 1:
					data = rng.Bytes(n)
				case 2:
					data = make([]byte, n)
				}
				it := c11ConnItem{Kind: "garbage", Len: n}
				if n <= 64 {
					it.Hex = hex.EncodeToString(data)
				}
				d := data
				item(it, func() error { return link.send(d) }, method != EncryptionMethodPlain || n < minLen)
			}
			for _, k := range link.rawKinds {
				k := k
				item(c11ConnItem{Kind: "raw:" + k}, func() error { return link.raw(k) }, true)
			}
			if method != EncryptionMethodPlain { // tampered valid frames (not the unauthenticated header tail: known finding D3)
				for i := 0; i < 24; i++ {
					msg, err := c11Seal(method, key, 1, seq, closingNothing, kit.TokenBytes(7, 40), -1)
					if err != nil {
						break
					}
					pos := rng.Intn(len(msg))
					if i < 12 {
						pos = i
					} else if pos == 12 || pos == 13 {
						pos = 14
					}
					msg[pos] ^= 1 << rng.Intn(8)
					m := msg
					item(c11ConnItem{Kind: fmt.Sprintf("tampered(byte %d)", pos), Len: len(m), Hex: hex.EncodeToString(m)}, func() error { return link.send(m) }, true)
				}
			}
			link.close()
		}
	}
}

// c11CrossStage: after every garbage class has been received (and rejected), N valid first frames of DIFFERENT
// streams arrive concurrently on 2..4 connections (real deplex goroutines inside recvDataFromRemote). Every stream
// must read exactly its own payload. In the "backlog" variant the accept queue is full beforehand, so the first
// receiver parks while it holds its authenticated frame and the others overlap it for certain; the "free" variant
// has the application accepting all the time.
func c11CrossStage(res *kit.Result) {
	rng := kit.NewRng(kit.Seed()*271 + 11)
	probe := c11NewSession(Obfuscator{})
	maxPayload := probe.maxStreamUnitWrite
	type gclass struct {
		name string
		gen  func(valid []byte) []byte
	}
	classes := []gclass{
		{"empty", func([]byte) []byte { return []byte{} }},
		{"shorter-than-header", func([]byte) []byte { return rng.Bytes(1 + rng.Intn(13)) }},
		{"header-only", func([]byte) []byte { return rng.Bytes(frameHeaderLength) }},
		{"random-200", func([]byte) []byte { return rng.Bytes(200) }},
		{"random-wire-limit", func([]byte) []byte { return rng.Bytes(16401) }},
		{"tampered-valid-frame", func(v []byte) []byte {
			d := append([]byte{}, v...)
			d[frameHeaderLength+rng.Intn(len(d)-frameHeaderLength)] ^= 1 << rng.Intn(8)
			return d
		}},
	}
	repeats := 1
	if kit.Thorough() {
		repeats = 6
	}
	const vkey = "keeps-working:concurrent-streams-after-garbage"
	for method := byte(0); method < 4; method++ {
		mname := c11MethodNames[method]
		bad := 0
		for rep := 0; rep < repeats; rep++ {
			for ci, cl := range classes {
				if method == EncryptionMethodPlain && ci > 1 {
					continue // under plain only messages shorter than 22 bytes are rejected; longer junk is a "frame" by design
				}
				for _, backlog := range []bool{true, false} {
					if bad >= 3 {
						continue
					}
					var key [32]byte
					copy(key[:], rng.Bytes(32))
					o, err := MakeObfuscator(method, key)
					if err != nil {
						return
					}
					sesh := c11NewSession(o)
					k := 2 + rng.Intn(3)
					clis := make([]net.Conn, k)
					for c := 0; c < k; c++ {
						cli, srv := net.Pipe()
						clis[c] = cli
						sesh.AddConnection(srv)
					}
					closeAll := func() {
						for _, c := range clis {
							c.Close()
						}
					}
					send := func(c int, b []byte) error {
						clis[c].SetWriteDeadline(time.Now().Add(30 * time.Second))
						_, err := clis[c].Write(b)
						return err
					}
					abandon := func(why string) {
						res.Note("cross stage %s/%s: %s - round abandoned, no verdict", mname, cl.name, why)
						res.Stat("cross-stage:abandoned", 1)
						closeAll()
					}
					filler := 0
					if backlog { // fill the accept queue with streams the application has not accepted yet
						filler = acceptBacklog
						ok := true
						for id := 1; id <= filler && ok; id++ {
							m, err := c11Seal(method, key, uint32(id), 0, closingNothing, []byte{byte(id)}, -1)
							ok = err == nil && send(0, m) == nil
						}
						for dl := time.Now().Add(20 * time.Second); ok && len(sesh.acceptCh) < filler && time.Now().Before(dl); {
							time.Sleep(200 * time.Microsecond)
						}
						if !ok || len(sesh.acceptCh) < filler {
							abandon("could not fill the accept backlog")
							continue
						}
					}
					// the garbage class, a few items, on one or two of the connections
					valid, _ := c11Seal(method, key, 4000, 0, closingNothing, kit.TokenBytes(4000, 300), -1)
					gOK := true
					for g := 0; g < 3 && gOK; g++ {
						gOK = send(g%2, cl.gen(valid)) == nil
					}
					if !gOK {
						res.Violate("session-broken:conn-pipe", fmt.Sprintf("%s: writing garbage class %s to the connection fails (connection closed by the session)", mname, cl.name), nil)
						bad++
						closeAll()
						continue
					}
					// N valid first frames of different streams, concurrently over all connections
					n := 2 * k
					sizes := make([]int, n)
					msgs := make([][]byte, n)
					for i := range msgs {
						sizes[i] = 64 + rng.Intn(900)
						if method != EncryptionMethodPlain && i%2 == 0 {
							sizes[i] = maxPayload - rng.Intn(4000) // long authentication = long overlap
						}
						msgs[i], err = c11Seal(method, key, uint32(5000+i), 0, closingNothing, kit.TokenBytes(uint64(5000+i), sizes[i]), -1)
						if err != nil {
							break
						}
					}
					if err != nil {
						abandon("cannot seal")
						continue
					}
					start := make(chan struct{})
					var wg sync.WaitGroup
					werrs := make([]error, k)
					for c := 0; c < k; c++ {
						wg.Add(1)
						go func(c int) {
							defer wg.Done()
							<-start
							for i := c; i < n; i += k {
								if err := send(c, msgs[i]); err != nil {
									werrs[c] = err
									return
								}
							}
						}(c)
					}
					close(start)
					if backlog {
						time.Sleep(15 * time.Millisecond) // every connection's first frame is authenticated and waits
					}
					// the application accepts
					got := map[uint32]*Stream{}
					deadline := time.After(60 * time.Second)
					writersDone := make(chan struct{})
					go func() { wg.Wait(); close(writersDone) }()
					var grace <-chan time.Time // starts when every frame has been taken by the session's readers
					wd := writersDone
					timedOut := false
					for len(got) < n && !timedOut {
						select {
						case st := <-sesh.acceptCh:
							if st == nil {
								timedOut = true
								break
							}
							if st.id >= 5000 {
								got[st.id] = st
							}
						case <-wd:
							wd = nil
							grace = time.After(5 * time.Second)
						case <-grace:
							timedOut = true
						case <-deadline:
							timedOut = true
						}
					}
					if timedOut {
						closeAll() // releases writers that still wait for a parked reader
					}
					<-writersDone
					res.Count(fmt.Sprintf("cross|%s|%s|%v|%d", mname, cl.name, backlog, k), true)
					res.Stat("cross-stage:rounds", 1)
					what := ""
					for c, e := range werrs {
						if e != nil && what == "" {
							what = fmt.Sprintf("writing a valid frame on connection %d fails: %v (session closed=%v %q)", c, e, sesh.IsClosed(), sesh.TerminalMsg())
						}
					}
					for i := 0; i < n && what == ""; i++ {
						id := uint32(5000 + i)
						st := got[id]
						if st == nil {
							what = fmt.Sprintf("stream %d was never offered to Accept (%d of %d new streams arrived)", id, len(got), n)
							break
						}
						want := kit.TokenBytes(uint64(id), sizes[i])
						buf := make([]byte, len(want))
						st.SetReadDeadline(time.Now().Add(5 * time.Second))
						r, err := io.ReadFull(st, buf)
						if err != nil || !bytes.Equal(buf, want) {
							whose := "unrecognisable bytes"
							if r >= 9 && buf[0] == 0xA5 {
								whose = fmt.Sprintf("the payload of stream %d", binary.BigEndian.Uint64(buf[1:9]))
							}
							what = fmt.Sprintf("stream %d should deliver its own %d bytes but Read gave %d bytes, err=%v: %s", id, len(want), r, err, whose)
						}
					}
					if what == "" && sesh.IsClosed() {
						what = "the session is closed: " + sesh.TerminalMsg()
					}
					if what != "" {
						bad++
						variant := "application accepting freely"
						if backlog {
							variant = "accept backlog full while the frames arrive"
						}
						res.Violate(vkey, fmt.Sprintf("%s: after garbage class %s was rejected, %d valid first frames of different streams on %d connections (%s): %s", mname, cl.name, n, k, variant, what),
							map[string]any{"conn": true, "cross": true, "method": method, "class": cl.name, "backlog": backlog, "connections": k})
					}
					closeAll()
				}
			}
		}
	}
}

// TestVerifC11Conn runs only the connection-path stages.
func TestVerifC11Conn(t *testing.T) {
	log.SetOutput(io.Discard)
	log.StandardLogger().ExitFunc = func(int) {}
	res := kit.NewResult()
	defer func() { res.Save(true) }()
	c11ConnStage(res)
	c11CrossStage(res)
}

func c11ReplayFile(t *testing.T, path string) {
	var rf struct {
		Key    string    `json:"key"`
		What   string    `json:"what"`
		Replay c11Replay `json:"replay"`
	}
	raw, err := os.ReadFile(path)
	if err != nil {
		t.Fatal(err)
	}
	if err := json.Unmarshal(raw, &rf); err != nil {
		t.Fatal(err)
	}
	if strings.Contains(string(raw), `"conn": true`) || strings.Contains(string(raw), `"conn":true`) {
		// connection-path finding: re-run the stage (goroutine schedules are not replayable byte for byte)
		res := kit.NewResult()
		c11ConnStage(res)
		c11CrossStage(res)
		res.Save(false)
		for _, v := range res.Violations {
			fmt.Printf("key=%q what=%q\n", v.Key, v.What)
		}
		fmt.Printf("REPLAY-RESULT key=%q violations=%d\n", rf.Key, res.NumViolations())
		return
	}
	r := rf.Replay
	j := &c11Job{res: kit.NewResult(), method: byte(r.Method), mname: c11MethodNames[byte(r.Method)]}
	kb, _ := hex.DecodeString(r.Key)
	copy(j.key[:], kb)
	o, err := MakeObfuscator(j.method, j.key)
	if err != nil {
		t.Fatal(err)
	}
	j.o, j.sesh = o, c11NewSession(o)
	orig, _ := hex.DecodeString(r.Orig)
	data := r.Op.apply(orig)
	fmt.Printf("method=%s tamper=%s op=%s original %d bytes (sid=%d seq=%d payload=%d), delivered %d bytes\n", j.mname, r.Tamper, r.Op.Kind, len(orig), r.Sid, r.Seq, r.Len, len(data))
	if len(r.Op.Pos) > 0 {
		fmt.Printf("  positions %v masks %v\n", r.Op.Pos, r.Op.Mask)
	}
	accA, fr, panA := j.deobf(append([]byte{}, data...))
	fmt.Printf("deobfuscate: accepted=%v panic=%v frame sid=%d seq=%d closing=%d payload=%d bytes\n", accA, panA, fr.StreamID, fr.Seq, fr.Closing, len(fr.Payload))
	accB, effect, panB := j.recv(append([]byte{}, data...))
	fmt.Printf("recvDataFromRemote: processed=%v panic=%v %s\n", accB, panB, effect)
	fmt.Printf("REPLAY-RESULT key=%q accepted=%v\n", rf.Key, accA || accB || panA != nil || panB != nil)
}
