package multiplex

// Stress for the race "a frame of a not-yet-known stream is being taken in while the session closes"
// (Mux.tla: deviation RecvCheckThenAct; the ideal model decides closed + lookup + publish in one critical section).
// Real goroutines, no bubble: several receivers feed first frames of new streams (large chacha20 frames, so that
// decryption takes a while) into recvDataFromRemote while another goroutine closes the session. A panic kills the
// test binary: the round is persisted beforehand so the python side can attribute it. Afterwards no stream may be
// left open on the closed session and Accept must fail.

import (
	"fmt"
	"io"
	"sync"
	"testing"
	"time"

	kit "github.com/cbeuw/Cloak/internal/verifkit"
	log "github.com/sirupsen/logrus"
)

func TestVerifMuxRecvCloseRace(t *testing.T) {
	log.SetOutput(io.Discard)
	log.SetLevel(log.PanicLevel)
	res := kit.NewResult()
	defer func() { res.Save(true) }()
	rng := kit.NewRng(kit.Seed())
	rounds := 1500
	if kit.Thorough() {
		rounds = 20000
	}
	deadline := time.Now().Add(10 * time.Second)
	if kit.Thorough() {
		deadline = time.Now().Add(5 * time.Minute)
	}
	methods := []byte{EncryptionMethodChaha20Poly1305, EncryptionMethodAES256GCM, EncryptionMethodPlain, EncryptionMethodAES128GCM}
	done := 0
	for r := 0; r < rounds && time.Now().Before(deadline); r++ {
		method := methods[r%4]
		var key [32]byte
		copy(key[:], rng.Bytes(32))
		o, _ := MakeObfuscator(method, key)
		sesh := MakeSession(9, SessionConfig{Obfuscator: o, MsgOnWireSizeLimit: 16401, InactivityTimeout: time.Hour})
		nrecv := 2 + rng.Intn(3)
		frames := make([][]byte, nrecv)
		for i := range frames {
			buf := make([]byte, 17000)
			f := &Frame{StreamID: uint32(100 + i), Seq: 0, Payload: make([]byte, []int{1, 4000, 16000}[rng.Intn(3)])}
			n, err := sesh.obfuscate(f, buf, 0)
			if err != nil {
				t.Fatal(err)
			}
			frames[i] = buf[:n]
		}
		closeHow := rng.Intn(3)
		var notice []byte
		if closeHow == 2 {
			buf := make([]byte, 400)
			n, _ := sesh.obfuscate(&Frame{StreamID: 0xffffffff, Seq: 0, Closing: closingSession, Payload: []byte{1, 2, 3}}, buf, 0)
			notice = buf[:n]
		}
		res.SetRunning(map[string]any{"scenario": "recv-vs-close", "round": r, "method": method, "receivers": nrecv, "close": closeHow}, r%50 == 0)
		var wg sync.WaitGroup
		start := make(chan struct{})
		for i := 0; i < nrecv; i++ {
			wg.Add(1)
			go func(b []byte) {
				defer wg.Done()
				<-start
				sesh.recvDataFromRemote(b)
			}(frames[i])
		}
		wg.Add(1)
		delay := time.Duration(rng.Intn(40)) * time.Microsecond
		go func() {
			defer wg.Done()
			<-start
			time.Sleep(delay)
			switch closeHow {
			case 0:
				sesh.passiveClose()
			case 1:
				sesh.Close()
			default:
				sesh.recvDataFromRemote(notice)
			}
		}()
		close(start)
		wg.Wait()
		done++
		res.Count(fmt.Sprintf("m%d-r%d-c%d", method, nrecv, closeHow), true)
		if !sesh.IsClosed() {
			res.Violate("session-not-closed", fmt.Sprintf("round %d: session still open after its close", r), nil)
			continue
		}
		// no stream may be left open (unclosed, readable-forever) on the closed session
		sesh.streamsM.Lock()
		left := 0
		for _, st := range sesh.streams {
			if st != nil && !st.isClosed() {
				left++
			}
		}
		sesh.streamsM.Unlock()
		if left > 0 {
			res.Violate("open-stream-on-closed-session", fmt.Sprintf("round %d: %d stream(s) registered on the session after it was closed stay open: their Read would block forever", r, left),
				map[string]any{"round": r, "method": method, "receivers": nrecv, "close": closeHow})
		}
		if _, err := sesh.Accept(); err == nil {
			res.Violate("accept-on-closed", fmt.Sprintf("round %d: Accept returned a stream on a closed session", r), nil)
		}
		if r == 0 {
			res.Sample(map[string]any{"receivers": nrecv, "close_kind": closeHow, "method": method}, 1)
		}
	}
	res.Stat("rounds", int64(done))
}
