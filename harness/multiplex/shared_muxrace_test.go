package multiplex

// Stress for the race "a frame of a not-yet-known stream is being taken in while the session closes"
// (Mux.tla: deviation RecvCheckThenAct; the ideal model decides closed + lookup + publish in one critical section).
// Real goroutines, no bubble: several receivers feed first frames of new streams (large chacha20 frames, so that
// decryption takes a while) into recvDataFromRemote while another goroutine closes the session. A panic kills the
// test binary: the round is persisted beforehand so the python side can attribute it. Afterwards no stream may be
// left open on the closed session and Accept must fail.

import (
	"fmt"
	"io"
	"runtime"
	"sync"
	"sync/atomic"
	"testing"
	"time"

	kit "github.com/cbeuw/Cloak/internal/verifkit"
	log "github.com/sirupsen/logrus"
)

func TestVerifMuxRecvCloseRace(t *testing.T) {
	log.SetOutput(io.Discard)
	log.SetLevel(log.PanicLevel)
	res := kit.NewResult()
	defer func() { res.Save(true) }()
	rng := kit.NewRng(kit.Seed())
	rounds := 1500
	if kit.Thorough() {
		rounds = 20000
	}
	deadline := time.Now().Add(10 * time.Second)
	if kit.Thorough() {
		deadline = time.Now().Add(5 * time.Minute)
	}
	methods := []byte{EncryptionMethodChaha20Poly1305, EncryptionMethodAES256GCM, EncryptionMethodPlain, EncryptionMethodAES128GCM}
	done := 0
	for r := 0; r < rounds && time.Now().Before(deadline); r++ {
		method := methods[r%4]
		var key [32]byte
		copy(key[:], rng.Bytes(32))
		o, _ := MakeObfuscator(method, key)
		sesh := MakeSession(9, SessionConfig{Obfuscator: o, MsgOnWireSizeLimit: 16401, InactivityTimeout: time.Hour})
		nrecv := 2 + rng.Intn(3)
		frames := make([][]byte, nrecv)
		for i := range frames {
			buf := make([]byte, 17000)
			f := &Frame{StreamID: uint32(100 + i), Seq: 0, Payload: make([]byte, []int{1, 4000, 16000}[rng.Intn(3)])}
			n, err := sesh.obfuscate(f, buf, 0)
			if err != nil {
				t.Fatal(err)
			}
			frames[i] = buf[:n]
		}
		closeHow := rng.Intn(3)
		var notice []byte
		if closeHow == 2 {
			buf := make([]byte, 400)
			n, _ := sesh.obfuscate(&Frame{StreamID: 0xffffffff, Seq: 0, Closing: closingSession, Payload: []byte{1, 2, 3}}, buf, 0)
			notice = buf[:n]
		}
		res.SetRunning(map[string]any{"scenario": "recv-vs-close", "round": r, "method": method, "receivers": nrecv, "close": closeHow}, r%50 == 0)
		var wg sync.WaitGroup
		start := make(chan struct{})
		for i := 0; i < nrecv; i++ {
			wg.Add(1)
			go func(b []byte) {
				defer wg.Done()
				<-start
				sesh.recvDataFromRemote(b)
			}(frames[i])
		}
		wg.Add(1)
		delay := time.Duration(rng.Intn(40)) * time.Microsecond
		go func() {
			defer wg.Done()
			<-start
			time.Sleep(delay)
			switch closeHow {
			case 0:
				sesh.passiveClose()
			case 1:
				sesh.Close()
			default:
				sesh.recvDataFromRemote(notice)
			}
		}()
		close(start)
		wg.Wait()
		done++
		res.Count(fmt.Sprintf("m%d-r%d-c%d", method, nrecv, closeHow), true)
		if !sesh.IsClosed() {
			res.Violate("session-not-closed", fmt.Sprintf("round %d: session still open after its close", r), nil)
			continue
		}
		// no stream may be left open (unclosed, readable-forever) on the closed session
		sesh.streamsM.Lock()
		left := 0
		for _, st := range sesh.streams {
			if st != nil && !st.isClosed() {
				left++
			}
		}
		sesh.streamsM.Unlock()
		if left > 0 {
			res.Violate("open-stream-on-closed-session", fmt.Sprintf("round %d: %d stream(s) registered on the session after it was closed stay open: their Read would block forever", r, left),
				map[string]any{"round": r, "method": method, "receivers": nrecv, "close": closeHow})
		}
		if _, err := sesh.Accept(); err == nil {
			res.Violate("accept-on-closed", fmt.Sprintf("round %d: Accept returned a stream on a closed session", r), nil)
		}
		if r == 0 {
			res.Sample(map[string]any{"receivers": nrecv, "close_kind": closeHow, "method": method}, 1)
		}
	}
	res.Stat("rounds", int64(done))
}

// TestVerifMuxCloseVsCloseRace: a local Stream.Close and the peer's closing frame of the SAME stream processed at the
// same instant (Mux.tla: CloseStream and the passive close are each one step deciding on the stream's closed flag;
// exactly one of them wins). Real goroutines behind a spin barrier, no bubble. After every round, at rest: the active
// stream counter equals the number of open streams in the table (CountInv), and - the property-level consequence -
// a session that still has an open, healthy stream must survive several inactivity periods (StaysUp): a counter that
// reached zero too early lets the inactivity timer close the session under the stream that is in use.
func TestVerifMuxCloseVsCloseRace(t *testing.T) {
	log.SetOutput(io.Discard)
	log.SetLevel(log.PanicLevel)
	res := kit.NewResult()
	defer func() { res.Save(true) }()
	workers := 6
	// the window is a few instructions wide (about one hit per thousand rounds when the flag is decided non-atomically):
	// run a fixed number of rounds, bounded by a generous wall budget on a loaded machine
	target, budget := 10000, 45*time.Second
	if kit.Thorough() {
		target, budget = 150000, 300*time.Second
	}
	const idle = 150 * time.Millisecond
	deadline := time.Now().Add(budget)
	var wg sync.WaitGroup
	var mu sync.Mutex
	rounds, bad := 0, 0
	for wk := 0; wk < workers; wk++ {
		wg.Add(1)
		go func(wk int) {
			defer wg.Done()
			rng := kit.NewRng(kit.Seed()*1000 + int64(wk))
			for time.Now().Before(deadline) {
				mu.Lock()
				stop := bad > 2 || rounds >= target
				mu.Unlock()
				if stop {
					return
				}
				var key [32]byte
				o, _ := MakeObfuscator(EncryptionMethodPlain, key)
				sesh := MakeSession(uint32(wk), SessionConfig{Obfuscator: o, MsgOnWireSizeLimit: 16401, InactivityTimeout: idle})
				link := kit.NewVNet().NewLink(false, true)
				sesh.AddConnection(link.End(0))
				go func() {
					b := make([]byte, 20480)
					for {
						if _, err := link.End(1).Read(b); err != nil {
							return
						}
					}
				}()
				mk := func(f *Frame) []byte {
					buf := make([]byte, 600)
					n, _ := sesh.obfuscate(f, buf, 0)
					return buf[:n]
				}
				// the stream that stays in use for the whole life of this session
				keep, err := sesh.OpenStream()
				if err != nil {
					link.Fail()
					continue
				}
				n := 40
				for i := 0; i < n; i++ {
					st, err := sesh.OpenStream()
					if err != nil {
						break
					}
					closing := mk(&Frame{StreamID: st.id, Seq: 0, Closing: closingStream, Payload: []byte{7}})
					var start uint32
					var done sync.WaitGroup
					done.Add(2)
					spinA, spinB := rng.Intn(300), rng.Intn(300)
					go func() {
						defer done.Done()
						for atomic.LoadUint32(&start) == 0 {
						}
						for k := 0; k < spinA; k++ {
							_ = atomic.LoadUint32(&start)
						}
						st.Close()
					}()
					go func() {
						defer done.Done()
						for atomic.LoadUint32(&start) == 0 {
						}
						for k := 0; k < spinB; k++ {
							_ = atomic.LoadUint32(&start)
						}
						sesh.recvDataFromRemote(closing)
					}()
					runtime.Gosched()
					atomic.StoreUint32(&start, 1)
					done.Wait()
				}
				// at rest: counter vs table
				sesh.streamsM.Lock()
				open := 0
				for _, st := range sesh.streams {
					if st != nil && !st.isClosed() {
						open++
					}
				}
				cnt := int(int32(sesh.streamCount()))
				sesh.streamsM.Unlock()
				mu.Lock()
				rounds += n
				mu.Unlock()
				res.Count(fmt.Sprintf("w%d", wk), true)
				if cnt != open && !sesh.IsClosed() {
					mu.Lock()
					bad++
					mu.Unlock()
					res.Violate("count-mismatch", fmt.Sprintf("after %d rounds of a local Close racing the peer's closing frame of the same stream the session counts %d active streams while %d are open", n, cnt, open),
						map[string]any{"worker": wk, "count": cnt, "open": open})
				}
				// the kept stream is open and its connection healthy: the session must outlive the inactivity period
				time.Sleep(3 * idle)
				if sesh.IsClosed() && sesh.TerminalMsg() == "timeout" {
					mu.Lock()
					bad++
					mu.Unlock()
					res.Violate("session-died", fmt.Sprintf("a session with an open, healthy stream was closed by its inactivity timer (terminal message %q) after streams had been closed by both ends at once: the active-stream counter had reached zero with a stream in use", sesh.TerminalMsg()),
						map[string]any{"worker": wk, "count": cnt, "open": open})
				}
				keep.Close()
				sesh.Close()
				link.Fail()
			}
		}(wk)
	}
	wg.Wait()
	res.Stat("rounds", int64(rounds))
}
