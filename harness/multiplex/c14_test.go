package multiplex

// C14 (pipe part): behaviours of spec/DatagramPipeGen.tla stepped through the real datagramBufferedPipe.

import (
	"bytes"
	"encoding/json"
	"errors"
	"fmt"
	"io"
	"testing"

	kit "github.com/cbeuw/Cloak/internal/verifkit"
)

type c14Step struct {
	A       string `json:"a"`
	I       int    `json:"i"`
	Closing bool   `json:"closing"`
	Tbc     bool   `json:"tbc"`
	Err     any    `json:"err"`
	Cap     string `json:"cap"`
	Got     int    `json:"got"`
}

type c14Behaviour struct {
	N     int       `json:"n"`
	Steps []c14Step `json:"steps"`
}

func c14Size(i, class int) int {
	return [][]int{{1, 2, 3, 1}, {1500, 1, 8192, 2}, {2, 2, 2, 2}, {16132, 3, 1, 700}}[class%4][i%4]
}

func c14Run(b *c14Behaviour, class int) (key, what string, table []string) {
	p := NewDatagramBufferedPipe()
	var queue []int // harness's own view of what is queued, for sizing the read buffer
	for si, st := range b.Steps {
		switch st.A {
		case "W":
			f := &Frame{StreamID: 1, Seq: uint64(st.I), Payload: kit.TokenBytes(uint64(st.I), c14Size(st.I, class))}
			if st.Closing {
				f.Closing = closingStream
			}
			tbc, err := p.Write(f)
			table = append(table, fmt.Sprintf("step %d Write(%d closing=%v): expected tbc=%v observed tbc=%v err=%v", si, st.I, st.Closing, st.Tbc, tbc, err))
			if !st.Closing && !st.Tbc && err == nil {
				queue = append(queue, st.I)
			}
			if !st.Closing && !st.Tbc && err != nil {
				return "dgram-lost", fmt.Sprintf("step %d: datagram %d refused by an open pipe: %v", si, st.I, err), table
			}
		case "C":
			p.Close()
		case "R":
			head := 0
			if len(queue) > 0 {
				head = c14Size(queue[0], class)
			}
			var buf []byte
			switch st.Cap {
			case "small":
				if head <= 1 {
					buf = make([]byte, 0, 0)
					if head == 1 {
						// a 1-byte datagram: the only smaller buffer is empty; Read(empty) is not a short-buffer case of the statement
						table = append(table, fmt.Sprintf("step %d Read(small) skipped for a 1-byte datagram", si))
						continue
					}
				} else {
					buf = make([]byte, head-1)
				}
			case "exact":
				buf = make([]byte, head)
			default:
				buf = make([]byte, head+7)
			}
			if len(queue) == 0 {
				buf = make([]byte, 16)
			}
			n, err := p.Read(buf)
			table = append(table, fmt.Sprintf("step %d Read(%s, %d bytes): expected got=%d err=%v observed n=%d err=%v", si, st.Cap, len(buf), st.Got, st.Err, n, err))
			exp, _ := st.Err.(string)
			switch exp {
			case "eof":
				if n != 0 || err != io.EOF {
					if n > 0 {
						return "dgram-wrong", fmt.Sprintf("step %d: read %d bytes from a drained pipe", si, n), table
					}
					return "eof-missing", fmt.Sprintf("step %d: closed and drained pipe answered %v", si, err), table
				}
			case "short":
				if !errors.Is(err, io.ErrShortBuffer) || n != 0 {
					return "dgram-short-consumed", fmt.Sprintf("step %d: buffer of %d bytes for a %d-byte datagram: n=%d err=%v (must be an error without data)", si, len(buf), head, n, err), table
				}
			default:
				want := kit.TokenBytes(uint64(st.Got), c14Size(st.Got, class))
				if err != nil {
					return "dgram-lost", fmt.Sprintf("step %d: datagram %d not delivered: %v", si, st.Got, err), table
				}
				if !bytes.Equal(buf[:n], want) {
					k := "dgram-wrong"
					if n > len(want) || (n < len(want)) {
						k = "dgram-merged"
					}
					return k, fmt.Sprintf("step %d: read %d bytes, datagram %d has %d", si, n, st.Got, len(want)), table
				}
				queue = queue[1:]
			}
		}
	}
	return "", "", table
}

func TestVerifC14Pipe(t *testing.T) {
	res := kit.NewResult()
	defer func() { res.Save(true) }()
	idx := 0
	err := kit.ReadLines(kit.Env("VERIF_IN", ""), func(line []byte) error {
		var b c14Behaviour
		if err := json.Unmarshal(line, &b); err != nil {
			return err
		}
		idx++
		nontrivial := false
		for _, st := range b.Steps {
			if st.A == "C" || st.Closing || st.Cap == "small" {
				nontrivial = true
			}
		}
		for class := 0; class < 2; class++ {
			key, what, table := c14Run(&b, class+idx)
			res.Count(string(line), nontrivial)
			if key != "" {
				res.Violate(key, what, map[string]any{"behaviour": b, "size_class": class + idx, "table": table})
			}
		}
		if idx%499 == 1 {
			res.Sample(map[string]any{"behaviour": json.RawMessage(append([]byte{}, line...))}, 2)
		}
		return nil
	})
	if err != nil {
		t.Fatal(err)
	}
}
