package multiplex

// C14 (pipe part): behaviours of spec/DatagramPipeGen.tla stepped through the real datagramBufferedPipe.

import (
	"bytes"
	"encoding/json"
	"errors"
	"fmt"
	"io"
	"strings"
	"sync"
	"testing"
	"time"

	"github.com/cbeuw/Cloak/internal/common"
	kit "github.com/cbeuw/Cloak/internal/verifkit"
	log "github.com/sirupsen/logrus"
)

type c14Step struct {
	A       string `json:"a"`
	I       int    `json:"i"`
	Closing bool   `json:"closing"`
	Tbc     bool   `json:"tbc"`
	Err     any    `json:"err"`
	Cap     string `json:"cap"`
	Got     int    `json:"got"`
}

type c14Behaviour struct {
	N     int       `json:"n"`
	Steps []c14Step `json:"steps"`
}

func c14Size(i, class int) int {
	return [][]int{{1, 2, 3, 1}, {1500, 1, 8192, 2}, {2, 2, 2, 2}, {16132, 3, 1, 700}}[class%4][i%4]
}

func c14Run(b *c14Behaviour, class int) (key, what string, table []string) {
	p := NewDatagramBufferedPipe()
	arena := make([]byte, 40000)
	var queue []int // harness's own view of what is queued, for sizing the read buffer
	for si, st := range b.Steps {
		switch st.A {
		case "W":
			f := &Frame{StreamID: 1, Seq: uint64(st.I), Payload: kit.TokenBytes(uint64(st.I), c14Size(st.I, class))}
			if st.Closing {
				f.Closing = closingStream
			}
			tbc, err := p.Write(f)
			table = append(table, fmt.Sprintf("step %d Write(%d closing=%v): expected tbc=%v observed tbc=%v err=%v", si, st.I, st.Closing, st.Tbc, tbc, err))
			if !st.Closing && !st.Tbc && err == nil {
				queue = append(queue, st.I)
			}
			if !st.Closing && !st.Tbc && err != nil {
				return "dgram-lost", fmt.Sprintf("step %d: datagram %d refused by an open pipe: %v", si, st.I, err), table
			}
		case "C":
			p.Close()
		case "R":
			head := 0
			if len(queue) > 0 {
				head = c14Size(queue[0], class)
			}
			// the read buffer is a sub-slice of a larger, sentinel-filled array (the io.ReadFull(conn, b[:k]) pattern):
			// spare capacity behind it must never be written
			var want int
			switch st.Cap {
			case "small":
				if head <= 1 {
					// a 1-byte datagram: the only smaller buffer is empty; Read(empty) is not a short-buffer case of the statement
					table = append(table, fmt.Sprintf("step %d Read(small) skipped for a 1-byte datagram", si))
					continue
				}
				want = head - 1
			case "exact":
				want = head
			default:
				want = head + 7
			}
			if len(queue) == 0 {
				want = 16
			}
			for k := range arena {
				arena[k] = 0x5A
			}
			buf := arena[:want]
			n, err := p.Read(buf)
			table = append(table, fmt.Sprintf("step %d Read(%s, %d bytes): expected got=%d err=%v observed n=%d err=%v", si, st.Cap, len(buf), st.Got, st.Err, n, err))
			if n > len(buf) {
				return "dgram-short-consumed", fmt.Sprintf("step %d: Read into a %d-byte buffer returned n=%d: it wrote past the caller's buffer", si, len(buf), n), table
			}
			for k := len(buf); k < len(buf)+64 && k < len(arena); k++ {
				if arena[k] != 0x5A {
					return "dgram-short-consumed", fmt.Sprintf("step %d: Read into a %d-byte buffer wrote beyond it (byte %d)", si, len(buf), k), table
				}
			}
			exp, _ := st.Err.(string)
			switch exp {
			case "eof":
				if n != 0 || err != io.EOF {
					if n > 0 {
						return "dgram-wrong", fmt.Sprintf("step %d: read %d bytes from a drained pipe", si, n), table
					}
					return "eof-missing", fmt.Sprintf("step %d: closed and drained pipe answered %v", si, err), table
				}
			case "short":
				if !errors.Is(err, io.ErrShortBuffer) || n != 0 {
					return "dgram-short-consumed", fmt.Sprintf("step %d: buffer of %d bytes for a %d-byte datagram: n=%d err=%v (must be an error without data)", si, len(buf), head, n, err), table
				}
			default:
				want := kit.TokenBytes(uint64(st.Got), c14Size(st.Got, class))
				if err != nil {
					return "dgram-lost", fmt.Sprintf("step %d: datagram %d not delivered: %v", si, st.Got, err), table
				}
				if !bytes.Equal(buf[:n], want) {
					k := "dgram-wrong"
					if n > len(want) || (n < len(want)) {
						k = "dgram-merged"
					}
					return k, fmt.Sprintf("step %d: read %d bytes, datagram %d has %d", si, n, st.Got, len(want)), table
				}
				queue = queue[1:]
			}
		}
	}
	return "", "", table
}

func TestVerifC14Pipe(t *testing.T) {
	res := kit.NewResult()
	defer func() { res.Save(true) }()
	idx := 0
	err := kit.ReadLines(kit.Env("VERIF_IN", ""), func(line []byte) error {
		var b c14Behaviour
		if err := json.Unmarshal(line, &b); err != nil {
			return err
		}
		idx++
		nontrivial := false
		for _, st := range b.Steps {
			if st.A == "C" || st.Closing || st.Cap == "small" {
				nontrivial = true
			}
		}
		for class := 0; class < 2; class++ {
			key, what, table := c14Run(&b, class+idx)
			res.Count(string(line), nontrivial)
			if key != "" {
				res.Violate(key, what, map[string]any{"behaviour": b, "size_class": class + idx, "table": table})
			}
		}
		if idx%499 == 1 {
			res.Sample(map[string]any{"behaviour": json.RawMessage(append([]byte{}, line...))}, 2)
		}
		return nil
	})
	if err != nil {
		t.Fatal(err)
	}
}


// TestVerifC14Concurrent: several goroutines write datagrams on the SAME unordered stream at once (Mux.tla treats a
// datagram write as one step under the stream's write mutex); every datagram must arrive whole, at most once.
func TestVerifC14Concurrent(t *testing.T) {
	log.SetOutput(io.Discard)
	log.SetLevel(log.PanicLevel)
	res := kit.NewResult()
	defer func() { res.Save(true) }()
	methods := []byte{EncryptionMethodPlain, EncryptionMethodAES256GCM, EncryptionMethodChaha20Poly1305, EncryptionMethodAES128GCM}
	rounds := 4
	if kit.Thorough() {
		rounds = 24
	}
	for r := 0; r < rounds; r++ {
		vn := kit.NewVNet()
		var key [32]byte
		copy(key[:], kit.NewRng(kit.Seed()+int64(r)).Bytes(32))
		mk := func() *Session {
			o, _ := MakeObfuscator(methods[r%4], key)
			return MakeSession(8, SessionConfig{Obfuscator: o, Unordered: true, MsgOnWireSizeLimit: 16401, InactivityTimeout: time.Hour})
		}
		cs, ss := mk(), mk()
		for i := 0; i < 3; i++ {
			l := vn.NewLink(false, false)
			cs.AddConnection(common.NewTLSConn(l.End(0)))
			ss.AddConnection(common.NewTLSConn(l.End(1)))
		}
		st, err := cs.OpenStream()
		if err != nil {
			t.Fatal(err)
		}
		nw, per := 6, 400
		st.Write(c14Self(99, 0, 16))
		conn, err := ss.Accept()
		if err != nil {
			t.Fatal(err)
		}
		srv := conn.(*Stream)
		done := make(chan struct{})
		var got int
		go func() {
			defer close(done)
			seen := map[[2]int]bool{}
			buf := make([]byte, 20000)
			for got < nw*per+1 {
				srv.SetReadDeadline(time.Now().Add(15 * time.Second))
				n, err := srv.Read(buf)
				if err != nil {
					return
				}
				got++
				d := buf[:n]
				if n < 8 {
					res.Violate("dgram-wrong", fmt.Sprintf("a %d-byte datagram nobody sent arrived", n), nil)
					return
				}
				w, seq, size := int(d[0]), int(d[1])<<16|int(d[2])<<8|int(d[3]), int(d[4])<<8|int(d[5])
				if size != n || !bytes.Equal(d, c14Self(w, seq, size)) {
					res.Violate("dgram-wrong", fmt.Sprintf("concurrent senders on one stream: datagram (writer %d, seq %d) arrived altered, merged or split: %d bytes, sent %d", w, seq, n, size),
						map[string]any{"method": methods[r%4], "writers": nw})
					return
				}
				if seen[[2]int{w, seq}] {
					res.Violate("dgram-duplicate", fmt.Sprintf("concurrent senders on one stream: datagram (writer %d, seq %d) delivered twice", w, seq), map[string]any{"method": methods[r%4]})
					return
				}
				seen[[2]int{w, seq}] = true
			}
		}()
		var wg sync.WaitGroup
		for w := 0; w < nw; w++ {
			wg.Add(1)
			go func(w int) {
				defer wg.Done()
				for s := 0; s < per; s++ {
					size := []int{8, 100, 1200, 8192}[(s+w)%4]
					if _, err := st.Write(c14Self(w, s, size)); err != nil {
						return
					}
				}
			}(w)
		}
		wg.Wait()
		<-done
		res.Count(fmt.Sprintf("round%d-m%d", r, methods[r%4]), true)
		res.Stat("datagrams_received", int64(got))
		if r == 0 {
			res.Sample(map[string]any{"writers_on_one_stream": nw, "datagrams_each": per, "received": got}, 1)
		}
		if got < nw*per+1 && res.NumViolations() == 0 {
			res.Violate("dgram-lost", fmt.Sprintf("concurrent senders on one healthy open stream: only %d of %d datagrams arrived", got, nw*per+1), nil)
		}
		cs.Close()
		ss.Close()
	}
}

func c14Self(w, seq, size int) []byte {
	b := kit.TokenBytes(uint64(w)<<24|uint64(seq), size)
	b[0], b[1], b[2], b[3], b[4], b[5] = byte(w), byte(seq>>16), byte(seq>>8), byte(seq), byte(size>>8), byte(size)
	return b
}

// c14DgramSource behaves like a UDP socket handed to Stream.ReadFrom: one datagram per Read, whatever does not fit into
// the caller's buffer is discarded, io.EOF when there is nothing more.
type c14DgramSource struct {
	msgs [][]byte
}

func (s *c14DgramSource) Read(b []byte) (int, error) {
	if len(s.msgs) == 0 {
		return 0, io.EOF
	}
	m := s.msgs[0]
	s.msgs = s.msgs[1:]
	return copy(b, m), nil
}

// TestVerifC14ReadFrom: datagrams relayed with Stream.ReadFrom (what the server does for a UDP proxy target:
// common.Copy(stream, udpConn)). (A) every legal datagram size, in particular the sizes just under the per-frame
// maximum, is delivered whole with identical content; (B) after a ReadFrom has relayed messages and returned, many
// streams of the same session send concurrently: every datagram still arrives whole, once, on its own stream.
func TestVerifC14ReadFrom(t *testing.T) {
	log.SetOutput(io.Discard)
	log.SetLevel(log.PanicLevel)
	res := kit.NewResult()
	defer func() { res.Save(true) }()
	methods := []byte{EncryptionMethodPlain, EncryptionMethodAES256GCM, EncryptionMethodChaha20Poly1305, EncryptionMethodAES128GCM}
	nm := 2
	if kit.Thorough() {
		nm = 4
	}
	for mi := 0; mi < nm; mi++ {
		method := methods[(mi+int(kit.Seed()))%4]
		vn := kit.NewVNet()
		var key [32]byte
		copy(key[:], kit.NewRng(kit.Seed()*7+int64(mi)).Bytes(32))
		mk := func() *Session {
			o, _ := MakeObfuscator(method, key)
			return MakeSession(8, SessionConfig{Obfuscator: o, Unordered: true, MsgOnWireSizeLimit: 16401, InactivityTimeout: time.Hour})
		}
		cs, ss := mk(), mk()
		for i := 0; i < 4; i++ {
			l := vn.NewLink(false, false)
			cs.AddConnection(common.NewTLSConn(l.End(0)))
			ss.AddConnection(common.NewTLSConn(l.End(1)))
		}
		max := cs.maxStreamUnitWrite
		// (A) size sweep through ReadFrom
		sizes := []int{8, 9, 100, 1500, 8192, max / 2}
		for s := max - 40; s <= max; s++ {
			sizes = append(sizes, s)
		}
		st, err := cs.OpenStream()
		if err != nil {
			t.Fatal(err)
		}
		src := &c14DgramSource{}
		for i, s := range sizes {
			src.msgs = append(src.msgs, c14Self(1, i, s))
		}
		rfDone := make(chan error, 1)
		go func() { _, err := st.ReadFrom(src); rfDone <- err }()
		conn, err := ss.Accept()
		if err != nil {
			t.Fatal(err)
		}
		srv := conn.(*Stream)
		buf := make([]byte, 20000)
		seen := map[int]bool{}
		for range sizes {
			srv.SetReadDeadline(time.Now().Add(15 * time.Second))
			n, err := srv.Read(buf)
			if err != nil {
				break
			}
			d := buf[:n]
			if n < 8 {
				res.Violate("dgram-wrong", fmt.Sprintf("ReadFrom relay: a %d-byte datagram nobody sent arrived", n), nil)
				continue
			}
			seq, size := int(d[1])<<16|int(d[2])<<8|int(d[3]), int(d[4])<<8|int(d[5])
			res.Count(fmt.Sprintf("rf-size-%d", size), true)
			if size != n || !bytes.Equal(d, c14Self(1, seq, size)) {
				res.Violate("dgram-wrong", fmt.Sprintf("a datagram of %d bytes (per-frame maximum %d) relayed with Stream.ReadFrom was delivered as a message of %d bytes", size, max, n),
					map[string]any{"method": method, "size": size, "max": max, "delivered": n})
				continue
			}
			seen[seq] = true
		}
		if len(seen) < len(sizes) && res.NumViolations() == 0 {
			res.Violate("dgram-lost", fmt.Sprintf("ReadFrom relay on a healthy session: %d of %d datagrams arrived", len(seen), len(sizes)), map[string]any{"method": method})
		}
		select {
		case <-rfDone:
		case <-time.After(10 * time.Second):
			res.Note("ReadFrom did not return after its source ended")
		}
		// (B) now several streams send at once
		nst, per := 8, 250
		if kit.Thorough() {
			per = 1500
		}
		type rcv struct {
			got   int
			wrong string
		}
		results := make(chan rcv, nst)
		var streams []*Stream
		for k := 0; k < nst; k++ {
			s2, err := cs.OpenStream()
			if err != nil {
				t.Fatal(err)
			}
			s2.Write(c14Self(k+10, 1<<20, 16)) // announces the stream and tells the reader which writer it belongs to
			streams = append(streams, s2)
		}
		for k := 0; k < nst; k++ {
			conn, err := ss.Accept()
			if err != nil {
				t.Fatal(err)
			}
			go func(sv *Stream) {
				b := make([]byte, 20000)
				owner := -1
				seen := map[int]bool{}
				out := rcv{}
				for out.got < per+1 {
					sv.SetReadDeadline(time.Now().Add(8 * time.Second))
					n, err := sv.Read(b)
					if err != nil {
						break
					}
					d := b[:n]
					if n < 8 {
						out.wrong = fmt.Sprintf("a %d-byte datagram nobody sent", n)
						break
					}
					w, seq, size := int(d[0]), int(d[1])<<16|int(d[2])<<8|int(d[3]), int(d[4])<<8|int(d[5])
					if owner < 0 {
						owner = w
					}
					if size != n || !bytes.Equal(d, c14Self(w, seq, size)) {
						out.wrong = fmt.Sprintf("datagram (writer %d, seq %d) arrived altered: %d bytes, header says %d", w, seq, n, size)
						break
					}
					if w != owner {
						out.wrong = fmt.Sprintf("cross-stream: a datagram of writer %d arrived on the stream of writer %d", w, owner)
						break
					}
					if seen[seq] {
						out.wrong = fmt.Sprintf("datagram (writer %d, seq %d) delivered twice", w, seq)
						break
					}
					seen[seq] = true
					out.got++
				}
				results <- out
			}(conn.(*Stream))
		}
		var wg sync.WaitGroup
		for k, s2 := range streams {
			wg.Add(1)
			go func(k int, s2 *Stream) {
				defer wg.Done()
				for q := 0; q < per; q++ {
					size := []int{8, 100, 1200, 8192, 1500}[(q+k)%5]
					if _, err := s2.Write(c14Self(k+10, q, size)); err != nil {
						return
					}
				}
			}(k, s2)
		}
		wg.Wait()
		total := 0
		for k := 0; k < nst; k++ {
			o := <-results
			total += o.got
			if o.wrong != "" {
				key := "dgram-wrong"
				if strings.HasPrefix(o.wrong, "cross-stream") {
					key = "dgram-cross-stream"
				}
				res.Violate(key, "concurrent senders on several streams after a ReadFrom had returned: "+o.wrong, map[string]any{"method": method})
			}
		}
		res.Stat("datagrams_received", int64(total))
		if total < nst*(per+1) && res.NumViolations() == 0 {
			res.Violate("dgram-lost", fmt.Sprintf("concurrent senders on %d healthy streams after a ReadFrom had returned: only %d of %d datagrams arrived", nst, total, nst*(per+1)), map[string]any{"method": method})
		}
		if mi == 0 {
			res.Sample(map[string]any{"readfrom_sizes": len(sizes), "max": max, "streams": nst, "datagrams_each": per, "received": total}, 1)
		}
		cs.Close()
		ss.Close()
	}
}
