package multiplex

// C12, accept-backlog scenario (defect D13, spec/AcceptBacklog.tla): the peer opens more streams than the
// accept queue holds while the application does not call Accept; Session.Close must still return and close
// the connections. The verdict "blocked" needs evidence: the goroutine dump must show the deplex goroutine in
// a channel send inside recvDataFromRemote and the closer in sync.(*Mutex).Lock, twice in a row.

import (
	"fmt"
	"io"
	"strings"
	"sync"
	"testing"
	"time"

	"github.com/cbeuw/Cloak/internal/common"
	kit "github.com/cbeuw/Cloak/internal/verifkit"
	log "github.com/sirupsen/logrus"
)


func c12Evidence(dump string) (sendUnderLock, closerOnMutex bool) {
	for _, g := range strings.Split(dump, "\n\n") {
		if strings.Contains(g, "recvDataFromRemote") && strings.Contains(g, "[chan send") {
			sendUnderLock = true
		}
		if (strings.Contains(g, "closeStreams") || strings.Contains(g, "closeSession")) && strings.Contains(g, "sync.(*Mutex).Lock") {
			closerOnMutex = true
		}
	}
	return
}

func TestVerifC12Backlog(t *testing.T) {
	log.SetOutput(io.Discard)
	log.SetLevel(log.PanicLevel)
	res := kit.NewResult()
	defer func() { res.Save(true) }()
	for round, extra := range []int{6, 1} {
		vn := kit.NewVNet()
		var key [32]byte
		mk := func() *Session {
			o, _ := MakeObfuscator(EncryptionMethodPlain, key)
			return MakeSession(3, SessionConfig{Obfuscator: o, MsgOnWireSizeLimit: 16401, InactivityTimeout: time.Hour})
		}
		c, s := mk(), mk()
		var links []*kit.VLink
		for i := 0; i < 2; i++ {
			l := vn.NewLink(false, false)
			links = append(links, l)
			c.AddConnection(common.NewTLSConn(l.End(0)))
			s.AddConnection(common.NewTLSConn(l.End(1)))
		}
		backlog := cap(s.acceptCh)
		n := backlog + extra
		for i := 0; i < n; i++ {
			st, err := c.OpenStream()
			if err != nil {
				t.Fatalf("open %d: %v", i, err)
			}
			if _, err := st.Write([]byte{byte(i)}); err != nil {
				t.Fatalf("write %d: %v", i, err)
			}
		}
		// wait until the server side has taken in what it can
		deadline := time.Now().Add(10 * time.Second)
		for len(s.acceptCh) < backlog && time.Now().Before(deadline) {
			time.Sleep(5 * time.Millisecond)
		}
		time.Sleep(50 * time.Millisecond)
		done := make(chan error, 1)
		go func() { done <- s.Close() }()
		var blocked bool
		select {
		case <-done:
		case <-time.After(2 * time.Second):
			blocked = true
		}
		sig := fmt.Sprintf("backlog+%d", extra)
		res.Count(sig, true)
		if blocked {
			a1, b1 := c12Evidence(c12Dump())
			time.Sleep(300 * time.Millisecond)
			a2, b2 := c12Evidence(c12Dump())
			stillBlocked := true
			select {
			case <-done:
				stillBlocked = false
			default:
			}
			if stillBlocked && a1 && b1 && a2 && b2 {
				res.Violate("close-blocked:accept-backlog-full",
					fmt.Sprintf("%d un-accepted streams (accept queue %d): deplex blocks on the full accept queue while holding the stream table lock, Session.Close never returns and the connections stay open", n, backlog),
					map[string]any{"streams": n, "backlog": backlog, "deplex_in_chan_send_under_lock": a2, "closer_waiting_for_mutex": b2,
						"conn_closed_by_server": []bool{links[0].ClosedBy(1), links[1].ClosedBy(1)}})
			} else if stillBlocked {
				res.Note("round %d: Close has not returned after 2.3 s but the lock cycle is not visible in the goroutine dump (evidence %v %v %v %v): inconclusive", round, a1, b1, a2, b2)
				res.Stat("inconclusive", 1)
			}
		} else {
			time.Sleep(20 * time.Millisecond)
			for i, l := range links {
				if !l.ClosedBy(1) {
					res.Violate("conn-not-closed", fmt.Sprintf("Session.Close returned but connection %d is still open", i+1), map[string]any{"streams": n})
				}
			}
		}
		if round == 0 {
			res.Sample(map[string]any{"streams_opened_by_peer": n, "accept_backlog": backlog, "close_blocked": blocked}, 1)
		}
		// free whatever is stuck so the process can go on
		for i := 0; i < n+2; i++ {
			select {
			case <-s.acceptCh:
			default:
			}
			time.Sleep(20 * time.Microsecond)
		}
		for _, l := range links {
			l.Fail()
		}
		c.Close()
	}
}


// TestVerifC12Backlog2: a stream whose application does not read (tens of MiB buffered) and a second stream with a
// parked reader; then one connection ends. Everything must be torn down: sessions closed, every connection closed, the
// parked reader back with an error, and what was buffered remains a prefix of what was written.
func TestVerifC12StalledConsumer(t *testing.T) {
	log.SetOutput(io.Discard)
	log.SetLevel(log.PanicLevel)
	res := kit.NewResult()
	defer func() { res.Save(true) }()
	for round, mib := range []int{3, 20} {
		if kit.Thorough() && round == 1 {
			mib = 40
		}
		vn := kit.NewVNet()
		var key [32]byte
		mk := func() *Session {
			o, _ := MakeObfuscator(EncryptionMethodPlain, key)
			return MakeSession(6, SessionConfig{Obfuscator: o, MsgOnWireSizeLimit: 16401, InactivityTimeout: time.Hour})
		}
		c, s := mk(), mk()
		var links []*kit.VLink
		for i := 0; i < 2; i++ {
			l := vn.NewLink(false, false)
			links = append(links, l)
			c.AddConnection(common.NewTLSConn(l.End(0)))
			s.AddConnection(common.NewTLSConn(l.End(1)))
		}
		st1, _ := c.OpenStream()
		st2, _ := c.OpenStream()
		st1.Write([]byte{1})
		st2.Write([]byte{2})
		a1, err1 := s.Accept()
		a2, err2 := s.Accept()
		if err1 != nil || err2 != nil {
			t.Fatal("accept failed")
		}
		slow, parked := a1.(*Stream), a2.(*Stream)
		if slow.id != st1.id {
			slow, parked = parked, slow
		}
		one := make([]byte, 1)
		slow.Read(one)
		parked.Read(one)
		// the consumer of stream 1 stalls: everything the client writes piles up in its receive buffer
		chunk := make([]byte, 1<<20)
		for i := 0; i < mib; i++ {
			for k := range chunk {
				chunk[k] = byte(i + k)
			}
			if _, err := st1.Write(chunk); err != nil {
				res.Violate("write-refused", fmt.Sprintf("write %d MiB into a stalled stream failed: %v", i, err), nil)
				break
			}
		}
		rd := make(chan error, 1)
		go func() { _, err := parked.Read(make([]byte, 16)); rd <- err }()
		time.Sleep(100 * time.Millisecond) // let the backlog arrive
		links[1].End(0).Close()                // one connection ends (EOF for the server)
		verdict := ""
		select {
		case <-rd:
		case <-time.After(10 * time.Second):
			verdict = "the reader parked on the other stream was not woken"
		}
		deadline := time.Now().Add(10 * time.Second)
		for time.Now().Before(deadline) && !(s.IsClosed() && c.IsClosed() && links[0].ClosedBy(0) && links[0].ClosedBy(1)) {
			time.Sleep(10 * time.Millisecond)
		}
		if verdict == "" && !(s.IsClosed() && c.IsClosed()) {
			verdict = fmt.Sprintf("sessions closed: server=%v client=%v", s.IsClosed(), c.IsClosed())
		}
		if verdict == "" && !(links[0].ClosedBy(0) && links[0].ClosedBy(1)) {
			verdict = fmt.Sprintf("the surviving connection is still open (client end closed=%v, server end closed=%v)", links[0].ClosedBy(0), links[0].ClosedBy(1))
		}
		res.Count(fmt.Sprintf("stalled-%dMiB", mib), true)
		if verdict != "" {
			// evidence: some goroutine of the teardown is parked on a lock or in a buffer wait
			dump := c12Dump()
			ev := strings.Contains(dump, "closeStreams") || strings.Contains(dump, "streamBuffer).Close") || strings.Contains(dump, "passiveClose")
			if ev {
				res.Violate("teardown-stuck:stalled-consumer", fmt.Sprintf("%d MiB unread on one stream, then a connection ended: %s after 10 s; the teardown is parked behind the stalled stream's buffer", mib, verdict), map[string]any{"unread_mib": mib})
			} else {
				res.Note("stalled-consumer round %d: %s, but no teardown goroutine is visibly parked: not judged", round, verdict)
				res.Stat("inconclusive", 1)
			}
		}
		if round == 0 {
			res.Sample(map[string]any{"unread_mib": mib, "torn_down": verdict == ""}, 1)
		}
		for _, l := range links {
			l.Fail()
		}
		// the verdict is in: persist it before the clean-up, which can itself park behind the stuck teardown
		res.Save(false)
		done := make(chan struct{})
		go func() { c.Close(); s.Close(); close(done) }()
		select {
		case <-done:
		case <-time.After(5 * time.Second):
			// "nothing left blocked" includes a Close called after the teardown
			dump := c12Dump()
			if strings.Contains(dump, "(*Session).Close") || strings.Contains(dump, "closeSession") || strings.Contains(dump, "closeStreams") {
				res.Violate("call-blocked", fmt.Sprintf("%d MiB unread on one stream, a connection ended, both sessions report closed - and a Session.Close() called afterwards does not return within 5 s", mib), map[string]any{"unread_mib": mib})
			} else {
				res.Note("stalled-consumer round %d: closing the sessions afterwards did not return within 5 s (no Close frame in the dump: not judged)", round)
			}
			return
		}
	}
}

// TestVerifC12MultiFault: several of a session's connections fail at (almost) the same instant - resets and orderly
// closes mixed - while others stay healthy. Teardown (Mux.tla) must hold whatever the order in which the receiving
// goroutines notice: both sessions end up closed and EVERY pooled connection is closed by both session ends,
// including the ones that were healthy and the ones whose receiving goroutine had already closed its end itself.
func TestVerifC12MultiFault(t *testing.T) {
	log.SetOutput(io.Discard)
	log.SetLevel(log.PanicLevel)
	res := kit.NewResult()
	defer func() { res.Save(true) }()
	rng := kit.NewRng(kit.Seed())
	rounds := 150
	if kit.Thorough() {
		rounds = 3000
	}
	for r := 0; r < rounds && res.NumViolations() < 3; r++ {
		nconn := 3 + rng.Intn(6)
		p := c13NewPair(nconn, []byte{EncryptionMethodPlain, EncryptionMethodAES128GCM}[r%2], kit.Seed()*31+int64(r))
		// a little traffic so that every connection has been used
		st, err := p.c.OpenStream()
		if err == nil {
			st.Write(c13Fill(1+rng.Intn(3000), 9))
		}
		nfail := 2 + rng.Intn(nconn-2)
		perm := rng.Perm(nconn)[:nfail]
		how := make([]int, nfail)
		for i := range how {
			how[i] = rng.Intn(3)
		}
		var wg sync.WaitGroup
		start := make(chan struct{})
		for i, ci := range perm {
			wg.Add(1)
			go func(l *kit.VLink, how int) {
				defer wg.Done()
				<-start
				switch how {
				case 0:
					l.Fail() // reset
				case 1:
					l.End(1).Close() // the server's side of the path closes in an orderly way: the client reads EOF
				default:
					l.End(0).Close() // the client's end is closed under it (what its own receiving goroutine does when it gives up)
				}
			}(p.links[ci], how[i])
		}
		close(start)
		wg.Wait()
		deadline := time.Now().Add(10 * time.Second)
		settled := func() bool {
			if !p.c.IsClosed() || !p.s.IsClosed() {
				return false
			}
			for _, l := range p.links {
				if !l.ClosedBy(0) || !l.ClosedBy(1) {
					return false
				}
			}
			return true
		}
		for !settled() && time.Now().Before(deadline) {
			time.Sleep(2 * time.Millisecond)
		}
		res.Count(fmt.Sprintf("n%d-f%d", nconn, nfail), true)
		if !settled() {
			var open []string
			for i, l := range p.links {
				for side, name := range []string{"client", "server"} {
					if !l.ClosedBy(side) {
						open = append(open, fmt.Sprintf("connection %d not closed by the %s session", i+1, name))
					}
				}
			}
			key, what := "conn-not-closed", fmt.Sprintf("%d of %d connections failed together (kinds %v); 10 s later: client closed=%v server closed=%v; %v",
				nfail, nconn, how, p.c.IsClosed(), p.s.IsClosed(), open)
			if len(open) == 0 {
				key = "session-not-closed"
			}
			res.Violate(key, what, map[string]any{"round": r, "nconn": nconn, "failed": perm, "kinds": how})
		}
		if r < 1 {
			res.Sample(map[string]any{"nconn": nconn, "failed": perm, "kinds": how}, 1)
		}
		p.close()
	}
}
