package multiplex

// Replay of TLC behaviours of spec/MuxGen.tla on a real Session pair (shared by C01, C03, C12, C13, C14).
// The two sessions live in one testing/synctest bubble and are joined by gated in-memory connections
// (verifkit.VNet) wrapped in common.TLSConn, exactly as client and server wrap their TCP connections.
// Every environment step of the behaviour (API call, delivery of one record, fault, time) is executed,
// the bubble is brought to quiescence, and the API-visible observation is compared with the model's.

import (
	"bytes"
	"encoding/json"
	"errors"
	"fmt"
	"io"
	"os"
	"sync"
	"testing"
	"testing/synctest"
	"time"

	"github.com/cbeuw/Cloak/internal/common"
	"github.com/cbeuw/Cloak/internal/verifhook"
	kit "github.com/cbeuw/Cloak/internal/verifkit"
	log "github.com/sirupsen/logrus"
)

type muxEv struct {
	A    string `json:"a"`
	E    string `json:"e"`
	S    int    `json:"s"`
	C    int    `json:"c"`
	Ok   bool   `json:"ok"`
	Id   int    `json:"id"`
	Done bool   `json:"done"`
	Got  []int  `json:"got"`
	Eof  bool   `json:"eof"`
	Idle bool   `json:"idle"`
	Rf   bool   `json:"rf"` // the bytes go through Stream.ReadFrom
}

// muxChunkReader hands ReadFrom one chunk, then end-of-file
type muxChunkReader struct{ chunk []byte }

func (r *muxChunkReader) Read(b []byte) (int, error) {
	if len(r.chunk) == 0 {
		return 0, io.EOF
	}
	n := copy(b, r.chunk)
	r.chunk = r.chunk[n:]
	return n, nil
}

type muxObs struct {
	Closed   map[string]bool   `json:"closed"`
	Count    map[string]int    `json:"count"`
	Inflight []map[string]int  `json:"inflight"`
	Endc     []map[string]bool `json:"endc"`
	Rwait    map[string][]bool `json:"rwait"`
	Await    bool              `json:"await"`
	Timers   map[string]int    `json:"timers"`
}

type muxStep struct {
	Ev  muxEv  `json:"ev"`
	Obs muxObs `json:"obs"`
}

type muxBehaviour struct {
	Steps   []muxStep `json:"steps"`
	Settled bool      `json:"settled"`
}

// concretisation of the abstract constants
type muxConc struct {
	Method     byte   `json:"method"`
	Unordered  bool   `json:"unordered"`
	Singleplex bool   `json:"singleplex"`
	NC         int    `json:"nc"`
	SizeClass  int    `json:"size_class"` // selects unit sizes
	Key        string `json:"key_seed"`
	Gates      bool   `json:"gates"`    // park goroutines at the labelled schedule points
	TimerEp    string `json:"timer_ep"` // endpoint whose inactivity timer is live ("" = none)
	Late       int    `json:"late"`     // number of highest-numbered connections the client adds later
	FaultCut   int    `json:"fault_cut"` // byte-offset class at which a connection reset hits the record in flight
}

type muxCall struct {
	done  chan struct{}
	n     int
	data  []byte
	err   error
	strm  *Stream
	label string
}

func (c *muxCall) finished() bool {
	select {
	case <-c.done:
		return true
	default:
		return false
	}
}

type muxWorld struct {
	conc      muxConc
	vn        *kit.VNet
	links     []*kit.VLink
	sesh      map[string]*Session
	strm      map[string]map[int]*Stream
	unitSizes map[string]map[int][]int // sizes of units written by e on s
	readOff   map[string]map[int]int   // units consumed so far by e on s
	blockedR  map[string]map[int]*muxCall
	blockedA  *muxCall
	picks     []int
	pickMu    sync.Mutex
	pickMiss  int
	maxUnit   int
	table     []string
	diverged  string
	wire      map[string]map[uint32][]muxWireFrame // frames each endpoint put on the wire, per stream id, in wire order
	wireErr   string
	sendFail  map[string]map[int]bool // streams on which the model has a failed send (a number may be skipped)
	gateOn    bool
	gateCh    map[string]chan struct{} // one channel per schedule point; per (point, stream id) for sesh.recv.published
	gateMu    sync.Mutex
	openCall  *muxCall
	addCall   *muxCall
	timerQ    []time.Time
	prevTimer int
	poolSize  int // connections the model has in the client's pool
	curEp     string // endpoint whose call the harness is executing (the pick hook has no session identity)
	faultCut  int    // how much of the head record a failing connection still delivers: 0 none, 1 inside the header, 2 inside the body, 3 all but the tail
	leftover  muxVerdict
	closedOK  map[string]map[int]bool // Stream.Close returned nil at e for stream s
	closeAny  map[string]map[int]bool // Stream.Close was called at e for stream s
	closeWon  map[string]map[int]bool // ... and the stream was still open when it was called
	abnormal  bool                    // a session close, fault or timer step occurred
}

const muxIdle = 30 * time.Second

var muxGatePoints = []string{"sesh.open.checked", "sesh.open.registered", "sesh.recv.published", "sesh.timeout.decided", "sb.addConn.counted"}

// release lets the goroutine parked at a schedule point continue; false if nobody is parked there
func (w *muxWorld) gate(key string) chan struct{} {
	w.gateMu.Lock()
	defer w.gateMu.Unlock()
	ch, ok := w.gateCh[key]
	if !ok {
		ch = make(chan struct{})
		w.gateCh[key] = ch
	}
	return ch
}

func (w *muxWorld) release(key string) bool {
	select {
	case w.gate(key) <- struct{}{}:
		return true
	default:
		return false
	}
}

type muxWireFrame struct {
	Seq     uint64
	Closing uint8
	Len     int
	Conn    int
}

var muxSide = map[string]int{"c": 0, "s": 1}

func muxPeer(e string) string {
	if e == "c" {
		return "s"
	}
	return "c"
}

func muxTok(e string, s, u int) uint64 {
	return uint64(muxSide[e])<<40 | uint64(s)<<20 | uint64(u)
}

func (w *muxWorld) logf(f string, a ...any) { w.table = append(w.table, fmt.Sprintf(f, a...)) }

// unit sizes: every unit but the last of a multi-unit Write must fill a frame exactly so that the call is
// split into as many frames as the model says
func (w *muxWorld) unitSize(e string, s, u int, fill bool) int {
	if fill {
		return w.maxUnit
	}
	switch w.conc.SizeClass {
	case 0:
		return 1
	case 1:
		return []int{2, 1024, 17}[(u+s)%3]
	case 2:
		return []int{w.maxUnit - 1, 1, w.maxUnit}[(u+s)%3]
	default:
		return []int{w.maxUnit, 300, 5}[(u+s)%3]
	}
}

func muxNewWorld(conc muxConc) (*muxWorld, error) {
	w := &muxWorld{conc: conc, vn: kit.NewVNet(), sesh: map[string]*Session{}, strm: map[string]map[int]*Stream{"c": {}, "s": {}},
		unitSizes: map[string]map[int][]int{"c": {}, "s": {}}, readOff: map[string]map[int]int{"c": {}, "s": {}},
		blockedR: map[string]map[int]*muxCall{"c": {}, "s": {}}}
	var key [32]byte
	copy(key[:], kit.NewRng(int64(len(conc.Key))+7).Bytes(32))
	for _, e := range []string{"c", "s"} {
		obfs, err := MakeObfuscator(conc.Method, key)
		if err != nil {
			return nil, err
		}
		idle := 1000000 * time.Second
		if e == conc.TimerEp {
			idle = muxIdle
		}
		cfg := SessionConfig{Obfuscator: obfs, Unordered: conc.Unordered, Singleplex: conc.Singleplex && e == "c", // as deployed: only the client side
			MsgOnWireSizeLimit: 16401, InactivityTimeout: idle}
		w.sesh[e] = MakeSession(uint32(7), cfg)
	}
	w.maxUnit = w.sesh["c"].maxStreamUnitWrite
	w.wire = map[string]map[uint32][]muxWireFrame{"c": {}, "s": {}}
	w.sendFail = map[string]map[int]bool{"c": {}, "s": {}}
	// passive tap: every record accepted by the network is decoded with the session key, in wire order
	w.vn.Tap = func(ev kit.TapEvent) {
		if ev.Kind != "w" || len(ev.Data) < 5 {
			return
		}
		e := "c"
		if ev.From == 1 {
			e = "s"
		}
		var f Frame
		body := append([]byte(nil), ev.Data[5:]...)
		if err := w.sesh[e].deobfuscate(&f, body); err != nil {
			w.wireErr = fmt.Sprintf("a record written by %s on connection %d does not decode under the session key: %v", e, ev.Link+1, err)
			return
		}
		w.wire[e][f.StreamID] = append(w.wire[e][f.StreamID], muxWireFrame{Seq: f.Seq, Closing: f.Closing, Len: len(f.Payload), Conn: ev.Link + 1})
	}
	if conc.TimerEp != "" {
		w.timerQ = append(w.timerQ, time.Now().Add(muxIdle))
		w.prevTimer = 1
	}
	for c := 0; c < conc.NC; c++ {
		l := w.vn.NewLink(true, false)
		w.links = append(w.links, l)
		if c < conc.NC-conc.Late {
			w.sesh["c"].AddConnection(common.NewTLSConn(l.End(0)))
		}
		w.sesh["s"].AddConnection(common.NewTLSConn(l.End(1)))
	}
	w.poolSize = conc.NC - conc.Late
	w.closedOK = map[string]map[int]bool{"c": {}, "s": {}}
	w.closeAny = map[string]map[int]bool{"c": {}, "s": {}}
	w.closeWon = map[string]map[int]bool{"c": {}, "s": {}}
	w.gateCh = map[string]chan struct{}{}
	w.gateOn = conc.Gates
	gated := map[string]bool{}
	for _, p := range muxGatePoints {
		gated[p] = true
	}
	verifhook.Set(func(point string, args ...uint64) {
		if !w.gateOn || !gated[point] {
			return
		}
		key := point
		if point == "sesh.recv.published" && len(args) > 0 {
			// several deplex goroutines can be parked here at once, one per new stream: the stream id tells them apart
			key = fmt.Sprintf("%s:%d", point, args[0])
		}
		<-w.gate(key)
	})
	verifhook.SetPick(func(n uint32) (uint32, bool) {
		w.pickMu.Lock()
		defer w.pickMu.Unlock()
		if w.curEp == "c" && w.addCall != nil && !w.addCall.finished() && int(n) > w.poolSize {
			// an AddConnection is between its two steps and the code already offers more ids than the model
			// has connections: take the newest id, as the random draw eventually would
			if len(w.picks) > 0 {
				w.picks = w.picks[1:]
			}
			return n - 1, true
		}
		if len(w.picks) == 0 {
			w.pickMiss++
			return 0, false
		}
		p := w.picks[0]
		w.picks = w.picks[1:]
		if uint32(p-1) >= n {
			w.pickMiss++
			return 0, false
		}
		return uint32(p - 1), true
	})
	return w, nil
}

func (w *muxWorld) releaseAllGates() {
	w.gateOn = false
	for round := 0; round < 4; round++ {
		w.gateMu.Lock()
		keys := make([]string, 0, len(w.gateCh))
		for k := range w.gateCh {
			keys = append(keys, k)
		}
		w.gateMu.Unlock()
		for _, k := range keys {
			for w.release(k) {
			}
		}
		synctest.Wait()
	}
}

func (w *muxWorld) shutdown() {
	w.releaseAllGates()
	verifhook.Set(nil)
	verifhook.SetPick(nil)
	for _, l := range w.links {
		l.Fail()
	}
	for _, s := range w.sesh {
		s.Close()
	}
	for _, l := range w.links {
		l.End(0).Close()
		l.End(1).Close()
	}
	// both sessions are closed now: every call that was parked on them must have returned
	synctest.Wait()
	for _, e := range []string{"c", "s"} {
		for sid, call := range w.blockedR[e] {
			if !call.finished() {
				w.leftover = muxVerdict{"read-blocked", fmt.Sprintf("a Read parked on stream %d of %s is still blocked after both sessions were closed", sid, e)}
				w.strm[e][sid].SetReadDeadline(time.Now().Add(-time.Second)) // let the goroutine go so that the bubble can end
			}
		}
	}
	if w.blockedA != nil && !w.blockedA.finished() {
		w.leftover = muxVerdict{"accept-blocked", "an Accept is still blocked after the session was closed"}
	}
	synctest.Wait()
}

func (w *muxWorld) async(label string, f func(c *muxCall)) *muxCall {
	c := &muxCall{done: make(chan struct{}), label: label}
	go func() {
		defer close(c.done)
		f(c)
	}()
	return c
}

func (w *muxWorld) addPicks(steps []muxStep, i int) {
	// the connection choices of the call starting at step i: its own and those of the internal
	// continuation steps (WriteFrame, SessCloseB) that follow before the next environment step
	w.pickMu.Lock()
	defer w.pickMu.Unlock()
	w.picks = w.picks[:0]
	add := func(ev muxEv) {
		if ev.C > 0 {
			w.picks = append(w.picks, ev.C)
		}
	}
	add(steps[i].Ev)
	for j := i + 1; j < len(steps); j++ {
		a := steps[j].Ev.A
		if a == "Write" && steps[j-1].Ev.A == "Write" && !steps[j-1].Ev.Done && steps[j].Ev.E == steps[j-1].Ev.E && steps[j].Ev.S == steps[j-1].Ev.S {
			add(steps[j].Ev)
			continue
		}
		if a == "SessCloseB" {
			add(steps[j].Ev)
			continue
		}
		if a == "DeplexEnd" || a == "ReadWake" || a == "AcceptWake" || (!muxGatesOn && (a == "DeliverB" || a == "TimerClose" || a == "Open" || a == "OpenRegister" || a == "AddConn")) {
			continue
		}
		break
	}
}

// expected bytes of units got[] written by e's peer on s, as read by e
func (w *muxWorld) unitBytes(writer string, s int, units []int) []byte {
	var out []byte
	for _, u := range units {
		sz := w.unitSizes[writer][s][u-1]
		out = append(out, kit.TokenBytes(muxTok(writer, s, u), sz)...)
	}
	return out
}

// collect reads what is readable right now on a stream, up to want bytes, without letting virtual time pass: a Read is
// started, the bubble is brought to quiescence, and a Read that is still parked is called off through the read deadline
// (ErrTimeout). Must be called from the harness goroutine, not from inside another async call.
func (w *muxWorld) collect(st *Stream, have []byte, want int) ([]byte, error) {
	for len(have) < want {
		type rr struct {
			n   int
			err error
			buf []byte
		}
		ch := make(chan rr, 1)
		st.SetReadDeadline(time.Time{})
		go func() {
			buf := make([]byte, 1<<18)
			n, err := st.Read(buf)
			ch <- rr{n, err, buf}
		}()
		synctest.Wait()
		select {
		case r := <-ch:
			have = append(have, r.buf[:r.n]...)
			if r.err != nil {
				return have, r.err
			}
		default:
			st.SetReadDeadline(time.Now().Add(-time.Second)) // nothing there: call the parked Read off
			synctest.Wait()
			r := <-ch
			st.SetReadDeadline(time.Time{})
			have = append(have, r.buf[:r.n]...)
			if r.err == nil && r.n > 0 {
				continue
			}
			return have, ErrTimeout
		}
	}
	return have, nil
}

type muxVerdict struct {
	Key  string
	What string
}

// muxRun executes one behaviour. It returns a violation (Key != "") or a divergence note (model drift).
func muxRun(b *muxBehaviour, conc muxConc) (v muxVerdict, table []string, diverged string) {
	muxGatesOn = conc.Gates
	w, err := muxNewWorld(conc)
	if err != nil {
		return muxVerdict{}, nil, "setup: " + err.Error()
	}
	if conc.TimerEp != "" {
		time.Sleep(time.Second) // the check armed by MakeSession gets an instant of its own
	}
	defer func() {
		w.shutdown()
		if v.Key == "" && w.leftover.Key != "" {
			v = w.leftover
			table = append(w.table, "shutdown: "+w.leftover.What)
		}
	}()
	synctest.Wait()
	steps := b.Steps
	for i := 0; i < len(steps); i++ {
		ev := steps[i].Ev
		now := time.Now()
		if vv := w.step(steps, i); vv.Key != "" || w.diverged != "" {
			if vv.Key == "" {
				vv = w.judgeAfterDivergence()
			}
			return vv, w.table, w.diverged
		}
		if conc.TimerEp != "" {
			// every re-arming of the inactivity check (stream count back to zero) is due muxIdle after this instant
			fired := 0
			if ev.A == "TimerRead" {
				fired = 1
				now = time.Now()
			}
			armed := false
			for k := steps[i].Obs.Timers[conc.TimerEp] - (w.prevTimer - fired); k > 0; k-- {
				w.timerQ = append(w.timerQ, now.Add(muxIdle))
				armed = true
			}
			w.prevTimer = steps[i].Obs.Timers[conc.TimerEp]
			if armed {
				// Only arming moves the virtual clock (all other steps take no time): one second, so that every armed
				// check has its own instant and none fires before the behaviour says so.
				d := time.Second
				if len(w.timerQ) > 1 && time.Until(w.timerQ[0]) < 2*d {
					d = time.Until(w.timerQ[0]) / 2
				}
				if d > 0 {
					time.Sleep(d)
					synctest.Wait()
				}
			}
		}
		// compare the observation when the group (environment step + its internal continuations) is over
		// internal continuations have priority in MuxGen, so the state before the next environment step is quiescent
		last := (i+1 == len(steps) && b.Settled) || (i+1 < len(steps) && !muxInternal(steps[i+1].Ev.A, steps, i+1))
		if last {
			if vv := w.compareObs(i, ev, steps[i].Obs); vv.Key != "" || w.diverged != "" {
				if vv.Key == "" {
					vv = w.judgeAfterDivergence()
				}
				return vv, w.table, w.diverged
			}
		}
	}
	if vv := w.checkWire(); vv.Key != "" {
		return vv, w.table, ""
	}
	return muxVerdict{}, w.table, ""
}

// judgeAfterDivergence: the code has left the model's path (for instance it put a different number of records
// on the wire). Step alignment is lost, so only what the statements say about the END state is judged: deliver
// everything in flight, then every stream must yield a prefix of what the peer wrote on it - all of it if nothing
// abnormal happened - and, where the peer closed the stream successfully, the broken-stream error afterwards.
func (w *muxWorld) judgeAfterDivergence() muxVerdict {
	w.releaseAllGates()
	for _, l := range w.links {
		l.ReleaseAll()
	}
	synctest.Wait()
	// hand every queued stream to the application
	for n := len(w.sesh["s"].acceptCh); n > 0 && !w.sesh["s"].IsClosed(); n-- {
		if conn, err := w.sesh["s"].Accept(); err == nil {
			w.strm["s"][int(conn.(*Stream).id)] = conn.(*Stream)
		}
	}
	for _, e := range []string{"c", "s"} {
		peer := muxPeer(e)
		for sid, st := range w.strm[e] {
			if call := w.blockedR[e][sid]; call != nil {
				continue // a reader is parked there; its result was or will be judged by the shutdown check
			}
			all := w.unitSizes[peer][sid]
			off := w.readOff[e][sid]
			if off > len(all) {
				continue
			}
			var units []int
			for u := off + 1; u <= len(all); u++ {
				units = append(units, u)
			}
			want := w.unitBytes(peer, sid, units)
			var data []byte
			var err error
			data, err = w.collect(st, nil, len(want)+1)
			w.logf("judge %s/%d: %d bytes readable (err=%v), peer wrote %d more bytes", e, sid, len(data), err, len(want))
			if len(data) > len(want) || !bytes.Equal(data, want[:len(data)]) {
				return muxVerdict{"bytes-wrong", fmt.Sprintf("after delivering everything in flight, %s reads %d bytes on stream %d that are not a prefix of what the peer wrote", e, len(data), sid)}
			}
			clean := !w.abnormal && !w.sesh[e].IsClosed() && !w.sesh[peer].IsClosed() && !w.closeAny[e][sid] && !w.conc.Unordered
			if clean && len(data) < len(want) && !w.closeAny[peer][sid] {
				return muxVerdict{"bytes-missing", fmt.Sprintf("after delivering everything in flight, %s can read only %d of the %d bytes the peer wrote on stream %d", e, len(data), len(want), sid)}
			}
			if clean && w.closedOK[peer][sid] {
				if len(data) < len(want) {
					return muxVerdict{"bytes-missing", fmt.Sprintf("the peer wrote %d bytes on stream %d and closed it; %s can read only %d", len(want), sid, e, len(data))}
				}
				if !errors.Is(err, ErrBrokenStream) {
					return muxVerdict{"eof-missing", fmt.Sprintf("the peer closed stream %d after its data; %s reads all of it but then gets %v instead of the broken-stream error", sid, e, err)}
				}
			}
		}
	}
	for _, e := range []string{"c", "s"} {
		if vv := w.checkCloseFrames(e); vv.Key != "" {
			return vv
		}
	}
	return muxVerdict{}
}

// A Close call that found the stream open on a healthy session (it was the first close of that stream here, no
// injected send failure) puts a closing frame of that stream on the wire. A Close that lost against the peer's
// notice ("already closed") rightly sends nothing and is not judged.
func (w *muxWorld) checkCloseFrames(e string) muxVerdict {
	if w.wireErr != "" || w.abnormal {
		return muxVerdict{}
	}
	for sid, won := range w.closeWon[e] {
		if !won || w.sendFail[e][sid] {
			continue
		}
		n := 0
		for _, f := range w.wire[e][uint32(sid)] {
			if f.Closing == closingStream {
				n++
			}
		}
		if n == 0 {
			return muxVerdict{"close-frame-missing", fmt.Sprintf("%s closed stream %d (open until then) on a healthy session but no closing frame of that stream reached the wire", e, sid)}
		}
	}
	return muxVerdict{}
}

// C13 on the real bytes: per stream and direction the numbers on the wire are 0,1,2,... each used once
// (one may be skipped after a failed send), data frames carry the units in write order, and nothing
// follows the closing frame.
func (w *muxWorld) checkWire() muxVerdict {
	if w.wireErr != "" {
		return muxVerdict{"wire-undecodable", w.wireErr}
	}
	for _, e := range []string{"c", "s"} {
		if vv := w.checkCloseFrames(e); vv.Key != "" {
			return vv
		}
		for sid, frames := range w.wire[e] {
			if sid == 0xffffffff {
				continue
			}
			seen := map[uint64]bool{}
			next := uint64(0)
			unit := 0
			closed := false
			for k, f := range frames {
				if seen[f.Seq] {
					return muxVerdict{"seq-duplicate", fmt.Sprintf("%s put sequence number %d of stream %d on the wire twice (frame %d): the nonce (stream id, seq) is reused", e, f.Seq, sid, k)}
				}
				seen[f.Seq] = true
				if closed {
					return muxVerdict{"close-not-last", fmt.Sprintf("%s sent frame seq %d of stream %d after the stream's closing frame", e, f.Seq, sid)}
				}
				if f.Seq < next {
					return muxVerdict{"seq-order", fmt.Sprintf("%s sent seq %d of stream %d after seq %d", e, f.Seq, sid, next-1)}
				}
				if f.Seq > next && !w.sendFail[e][int(sid)] {
					return muxVerdict{"seq-gap", fmt.Sprintf("%s skipped sequence number(s) %d..%d of stream %d without a failed send", e, next, f.Seq-1, sid)}
				}
				next = f.Seq + 1
				if f.Closing == closingStream {
					closed = true
					continue
				}
				unit++
				if sizes := w.unitSizes[e][int(sid)]; unit <= len(sizes) && sizes[unit-1] != f.Len {
					return muxVerdict{"seq-order", fmt.Sprintf("%s: frame seq %d of stream %d carries %d bytes, unit %d written has %d", e, f.Seq, sid, f.Len, unit, sizes[unit-1])}
				}
			}
		}
	}
	return muxVerdict{}
}

var muxGatesOn bool // set per behaviour: with gates the continuation steps behind a hook are environment steps

func muxInternal(a string, steps []muxStep, j int) bool {
	switch a {
	case "DeplexEnd", "ReadWake", "AcceptWake", "SessCloseB":
		return true
	case "DeliverB", "TimerClose", "OpenRegister", "AddConn":
		return !muxGatesOn
	case "Open":
		return !muxGatesOn && j > 0 && (steps[j-1].Ev.A == "OpenCheck" || steps[j-1].Ev.A == "OpenRegister")
	case "Write":
		return j > 0 && steps[j-1].Ev.A == "Write" && !steps[j-1].Ev.Done && steps[j-1].Ev.E == steps[j].Ev.E && steps[j-1].Ev.S == steps[j].Ev.S
	}
	return false
}

func (w *muxWorld) step(steps []muxStep, i int) muxVerdict {
	ev := steps[i].Ev
	if muxInternal(ev.A, steps, i) {
		return w.internalStep(steps, i)
	}
	w.addPicks(steps, i)
	w.curEp = ev.E
	if ev.A == "TimerRead" || ev.A == "TimerClose" {
		w.curEp = w.conc.TimerEp
	}
	if ev.A == "TimerRead" || ev.A == "SessClose" || ev.A == "ConnFail" {
		w.abnormal = true
	}
	switch ev.A {
	case "OpenCheck":
		if w.conc.Gates {
			w.openCall = w.async("open", func(c *muxCall) { c.strm, c.err = w.sesh["c"].OpenStream() })
			synctest.Wait()
			if w.openCall.finished() {
				w.diverged = fmt.Sprintf("step %d: OpenStream returned (%v) instead of reaching its first schedule point", i, w.openCall.err)
			}
			return muxVerdict{}
		}
		// the call runs to completion; its result is the following "Open" entry (or this one if refused)
		exp := ev
		for j := i + 1; j < len(steps) && (steps[j].Ev.A == "OpenRegister" || steps[j].Ev.A == "Open"); j++ {
			exp = steps[j].Ev
		}
		return w.doOpen(i, exp)
	case "OpenRegister": // gates: let the parked OpenStream re-check, count and publish; it parks again
		if !w.release("sesh.open.checked") {
			w.diverged = fmt.Sprintf("step %d: nobody parked at sesh.open.checked", i)
			return muxVerdict{}
		}
		synctest.Wait()
		if w.openCall.finished() {
			if w.openCall.err != nil {
				return muxVerdict{"open-refused", fmt.Sprintf("step %d: OpenStream on a live session failed: %v", i, w.openCall.err)}
			}
			w.diverged = fmt.Sprintf("step %d: OpenStream returned without passing sesh.open.registered", i)
		}
	case "Open":
		if w.conc.Gates && w.openCall != nil {
			// the parked call finishes: refused after the re-check, or returning its stream
			pt := "sesh.open.registered"
			if i > 0 && steps[i-1].Ev.A == "OpenCheck" || !ev.Ok {
				pt = "sesh.open.checked"
			}
			if !w.release(pt) {
				w.diverged = fmt.Sprintf("step %d: nobody parked at %s", i, pt)
				return muxVerdict{}
			}
			synctest.Wait()
			call := w.openCall
			w.openCall = nil
			if !call.finished() {
				if ev.Ok {
					return muxVerdict{"call-blocked", fmt.Sprintf("step %d: OpenStream did not return", i)}
				}
				// the code went on to register a stream although the session is closed: finish the call
				w.release("sesh.open.registered")
				synctest.Wait()
				if call.finished() && call.err == nil {
					return muxVerdict{"open-on-closed", fmt.Sprintf("step %d: OpenStream registered a stream on a session that was closed in the meantime", i)}
				}
				return muxVerdict{"call-blocked", fmt.Sprintf("step %d: OpenStream did not return", i)}
			}
			return w.finishOpen(i, ev, call)
		}
		return w.doOpen(i, ev) // refused at the check
	case "DeliverB":
		if !w.release(fmt.Sprintf("sesh.recv.published:%d", ev.S)) {
			w.diverged = fmt.Sprintf("step %d: nobody parked at sesh.recv.published for stream %d", i, ev.S)
			return muxVerdict{}
		}
		synctest.Wait()
	case "TimerClose":
		if !w.release("sesh.timeout.decided") {
			w.diverged = fmt.Sprintf("step %d: nobody parked at sesh.timeout.decided", i)
			return muxVerdict{}
		}
		synctest.Wait()
	case "AddConnFirst":
		l := w.links[ev.C-1]
		w.addCall = w.async("addconn", func(c *muxCall) { w.sesh["c"].AddConnection(common.NewTLSConn(l.End(0))) })
		synctest.Wait()
		if w.conc.Gates == w.addCall.finished() {
			w.diverged = fmt.Sprintf("step %d: AddConnection finished=%v with gates=%v", i, w.addCall.finished(), w.conc.Gates)
		}
	case "AddConn":
		if !w.release("sb.addConn.counted") {
			w.diverged = fmt.Sprintf("step %d: nobody parked at sb.addConn.counted", i)
			return muxVerdict{}
		}
		synctest.Wait()
		w.pickMu.Lock()
		w.poolSize++
		w.pickMu.Unlock()
	case "Write":
		return w.doWrite(steps, i)
	case "CloseStream":
		st := w.strm[ev.E][ev.S]
		if ev.Ok && !st.isClosed() && !w.sesh[ev.E].IsClosed() {
			w.closeWon[ev.E][ev.S] = true
		}
		call := w.async("close", func(c *muxCall) { c.err = st.Close() })
		synctest.Wait()
		if !call.finished() {
			return muxVerdict{"call-blocked", fmt.Sprintf("step %d: Stream.Close on %s/%d did not return", i, ev.E, ev.S)}
		}
		w.logf("step %d CloseStream(%s,%d) expected ok=%v observed err=%v", i, ev.E, ev.S, ev.Ok, call.err)
		w.closeAny[ev.E][ev.S] = true
		if call.err == nil {
			w.closedOK[ev.E][ev.S] = true
		}
		if !ev.Ok && ev.C > 0 {
			w.sendFail[ev.E][ev.S] = true
		}
		if ev.Ok && call.err != nil {
			w.diverged = fmt.Sprintf("step %d: Stream.Close failed (%v) where the model succeeds", i, call.err)
		}
	case "Deliver":
		from := muxSide[muxPeer(ev.E)]
		if !w.links[ev.C-1].ReleaseChunk(from) {
			w.diverged = fmt.Sprintf("step %d: nothing in flight on connection %d towards %s", i, ev.C, ev.E)
			return muxVerdict{}
		}
		synctest.Wait()
		w.logf("step %d Deliver(conn %d -> %s)", i, ev.C, ev.E)
	case "Read":
		return w.doRead(i, ev)
	case "ReadBlock":
		st := w.strm[ev.E][ev.S]
		call := w.async("read", func(c *muxCall) {
			buf := make([]byte, 1<<18)
			c.n, c.err = st.Read(buf)
			c.data = buf[:c.n]
		})
		w.blockedR[ev.E][ev.S] = call
		synctest.Wait()
		w.logf("step %d ReadBlock(%s,%d) blocked=%v", i, ev.E, ev.S, !call.finished())
	case "Accept":
		call := w.async("accept", func(c *muxCall) {
			conn, err := w.sesh["s"].Accept()
			c.err = err
			if conn != nil {
				c.strm = conn.(*Stream)
			}
		})
		synctest.Wait()
		if !call.finished() {
			return muxVerdict{"call-blocked", fmt.Sprintf("step %d: Accept did not return although a stream is queued / the session is closed", i)}
		}
		return w.checkAccept(i, ev, call)
	case "AcceptBlock":
		w.blockedA = w.async("accept", func(c *muxCall) {
			conn, err := w.sesh["s"].Accept()
			c.err = err
			if conn != nil {
				c.strm = conn.(*Stream)
			}
		})
		synctest.Wait()
	case "SessClose":
		call := w.async("sessclose", func(c *muxCall) { c.err = w.sesh[ev.E].Close() })
		synctest.Wait()
		if !call.finished() {
			return muxVerdict{"call-blocked", fmt.Sprintf("step %d: Session.Close on %s did not return", i, ev.E)}
		}
		w.logf("step %d SessClose(%s) expected first=%v observed err=%v", i, ev.E, ev.Ok, call.err)
	case "ConnFail":
		// a reset may hit inside a record: the reader still gets part of the head record of each direction
		l := w.links[ev.C-1]
		if w.conc.FaultCut > 0 {
			for from := 0; from < 2; from++ {
				if n := l.PendingHeadLen(from); n > 8 {
					k := []int{0, 3, 5 + (n-5)/2, n - 3}[w.conc.FaultCut]
					if w.conc.FaultCut == 2 && n > 60 {
						k = 40
					}
					l.ReleaseBytes(from, k)
				}
			}
			synctest.Wait()
		}
		l.Fail()
		synctest.Wait()
		w.logf("step %d ConnFail(%d)", i, ev.C)
	case "TimerRead":
		// let virtual time pass until e's oldest armed inactivity check fires
		if len(w.timerQ) == 0 {
			w.diverged = fmt.Sprintf("step %d: the harness knows of no armed inactivity check", i)
			return muxVerdict{}
		}
		d := w.timerQ[0]
		w.timerQ = w.timerQ[1:]
		time.Sleep(time.Until(d))
		synctest.Wait()
		w.logf("step %d TimerRead(%s) idle=%v at %v", i, ev.E, ev.Idle, time.Now().Format("15:04:05.000"))
	default:
		w.diverged = fmt.Sprintf("step %d: harness does not know action %q", i, ev.A)
	}
	return muxVerdict{}
}

func (w *muxWorld) doOpen(i int, exp muxEv) muxVerdict {
	call := w.async("open", func(c *muxCall) { c.strm, c.err = w.sesh["c"].OpenStream() })
	synctest.Wait()
	if !call.finished() {
		return muxVerdict{"call-blocked", fmt.Sprintf("step %d: OpenStream did not return", i)}
	}
	return w.finishOpen(i, exp, call)
}

func (w *muxWorld) finishOpen(i int, exp muxEv, call *muxCall) muxVerdict {
	w.logf("step %d Open expected ok=%v id=%d observed err=%v", i, exp.Ok, exp.Id, call.err)
	if exp.Ok {
		if call.err != nil {
			return muxVerdict{"open-refused", fmt.Sprintf("step %d: OpenStream on a live session failed: %v", i, call.err)}
		}
		if int(call.strm.id) != exp.Id {
			w.diverged = fmt.Sprintf("step %d: stream id %d, model %d", i, call.strm.id, exp.Id)
			return muxVerdict{}
		}
		w.strm["c"][exp.Id] = call.strm
	} else if call.err == nil {
		if w.sesh["c"].IsClosed() {
			return muxVerdict{"open-on-closed", fmt.Sprintf("step %d: OpenStream succeeded on a closed session", i)}
		}
		w.diverged = fmt.Sprintf("step %d: OpenStream succeeded where the model refuses", i)
	}
	return muxVerdict{}
}

func (w *muxWorld) doWrite(steps []muxStep, i int) muxVerdict {
	ev := steps[i].Ev
	// number of units of this call = this frame + continuation frames; a refused call (c=0) carries one
	k := 1
	ok := ev.Ok
	for j := i + 1; j < len(steps) && muxInternal(steps[j].Ev.A, steps, j); j++ {
		if steps[j].Ev.A == "Write" {
			k++
			ok = ok && steps[j].Ev.Ok
		}
	}
	refusedShort := !ev.Ok && ev.C == 0 && w.conc.Unordered && !w.strm[ev.E][ev.S].isClosed()
	if refusedShort {
		k = 2 // a datagram larger than one frame
	}
	st := w.strm[ev.E][ev.S]
	first := len(w.unitSizes[ev.E][ev.S]) + 1
	var payload []byte
	var sizes []int
	for u := 0; u < k; u++ {
		sz := w.unitSize(ev.E, ev.S, first+u, u < k-1)
		if refusedShort && u == k-1 {
			sz = 1
		}
		sizes = append(sizes, sz)
		payload = append(payload, kit.TokenBytes(muxTok(ev.E, ev.S, first+u), sz)...)
	}
	call := w.async("write", func(c *muxCall) {
		if ev.Rf {
			n, err := st.ReadFrom(&muxChunkReader{chunk: payload})
			c.n = int(n)
			if err != io.EOF { // ReadFrom returns the reader's error once the source is drained
				c.err = err
			}
			return
		}
		c.n, c.err = st.Write(payload)
	})
	synctest.Wait()
	if !call.finished() {
		return muxVerdict{"call-blocked", fmt.Sprintf("step %d: Write on %s/%d did not return", i, ev.E, ev.S)}
	}
	w.logf("step %d Write(%s,%d,%d units %v) expected ok=%v observed n=%d err=%v", i, ev.E, ev.S, k, sizes, ok, call.n, call.err)
	// units whose frames reached the wire count as written
	sent := 0
	if ev.Ok && ev.C > 0 {
		sent = 1
		for j := i + 1; j < len(steps) && muxInternal(steps[j].Ev.A, steps, j); j++ {
			if steps[j].Ev.A == "Write" && steps[j].Ev.Ok {
				sent++
			}
		}
	}
	w.unitSizes[ev.E][ev.S] = append(w.unitSizes[ev.E][ev.S], sizes[:sent]...)
	if !ok && ev.C > 0 {
		w.sendFail[ev.E][ev.S] = true
	}
	if ok && call.err != nil {
		if errors.Is(call.err, ErrBrokenStream) || errors.Is(call.err, errBrokenSwitchboard) {
			return muxVerdict{"write-refused", fmt.Sprintf("step %d: Write on an open stream of a healthy session failed: %v", i, call.err)}
		}
		w.diverged = fmt.Sprintf("step %d: Write failed (%v) where the model succeeds", i, call.err)
	}
	if !ok && call.err == nil {
		if !ev.Ok && ev.C == 0 && !refusedShort {
			return muxVerdict{"write-after-close", fmt.Sprintf("step %d: Write on closed stream %s/%d was accepted", i, ev.E, ev.S)}
		}
		if refusedShort {
			return muxVerdict{"oversize-datagram-accepted", fmt.Sprintf("step %d: a datagram larger than one frame was accepted", i)}
		}
		w.diverged = fmt.Sprintf("step %d: Write succeeded where the model fails", i)
	}
	return muxVerdict{}
}

func (w *muxWorld) checkData(i int, e string, s int, got []int, data []byte, err error, eofExp bool) muxVerdict {
	writer := muxPeer(e)
	for _, u := range got {
		if u < 1 || u > len(w.unitSizes[writer][s]) {
			w.diverged = fmt.Sprintf("step %d: model reads unit %d that the harness never wrote", i, u)
			return muxVerdict{}
		}
	}
	want := w.unitBytes(writer, s, got)
	if bytes.Equal(data, want) {
		w.readOff[e][s] += len(got)
	}
	if !bytes.Equal(data, want) {
		kind := "bytes-wrong"
		if len(data) < len(want) && bytes.Equal(data, want[:len(data)]) {
			kind = "bytes-missing"
		}
		return muxVerdict{kind, fmt.Sprintf("step %d: %s read %d bytes on stream %d, the units owed are %v (%d bytes); err=%v", i, e, len(data), s, got, len(want), err)}
	}
	if eofExp && !errors.Is(err, ErrBrokenStream) {
		return muxVerdict{"eof-missing", fmt.Sprintf("step %d: %s/%d should report the broken-stream error, got %v", i, e, s, err)}
	}
	if !eofExp && err != nil && !errors.Is(err, ErrTimeout) {
		return muxVerdict{"eof-early", fmt.Sprintf("step %d: %s/%d reported %v although the model owes no end-of-stream yet", i, e, s, err)}
	}
	return muxVerdict{}
}

func (w *muxWorld) doRead(i int, ev muxEv) muxVerdict {
	st := w.strm[ev.E][ev.S]
	want := len(w.unitBytes(muxPeer(ev.E), ev.S, ev.Got))
	var data []byte
	var err error
	if ev.Eof {
		data, err = w.collect(st, nil, 1)
	} else {
		data, err = w.collect(st, nil, want)
	}
	w.logf("step %d Read(%s,%d) expected units %v eof=%v observed %d bytes err=%v", i, ev.E, ev.S, ev.Got, ev.Eof, len(data), err)
	if errors.Is(err, ErrTimeout) && len(data) < want {
		return muxVerdict{"bytes-missing", fmt.Sprintf("step %d: %s/%d has only %d of the %d bytes owed (units %v)", i, ev.E, ev.S, len(data), want, ev.Got)}
	}
	return w.checkData(i, ev.E, ev.S, ev.Got, data, err, ev.Eof)
}

func (w *muxWorld) checkAccept(i int, ev muxEv, call *muxCall) muxVerdict {
	w.logf("step %d Accept expected ok=%v id=%d observed err=%v", i, ev.Ok, ev.Id, call.err)
	if ev.Ok {
		if call.err != nil {
			return muxVerdict{"accept-failed", fmt.Sprintf("step %d: Accept failed (%v) although a stream is queued on a live session", i, call.err)}
		}
		if int(call.strm.id) != ev.Id {
			w.diverged = fmt.Sprintf("step %d: accepted stream %d, model %d", i, call.strm.id, ev.Id)
			return muxVerdict{}
		}
		w.strm["s"][ev.Id] = call.strm
	} else if call.err == nil {
		return muxVerdict{"accept-on-closed", fmt.Sprintf("step %d: Accept returned a stream on a closed session", i)}
	}
	return muxVerdict{}
}

func (w *muxWorld) internalStep(steps []muxStep, i int) muxVerdict {
	ev := steps[i].Ev
	switch ev.A {
	case "ReadWake":
		call := w.blockedR[ev.E][ev.S]
		if call == nil {
			w.diverged = fmt.Sprintf("step %d: ReadWake without a parked reader", i)
			return muxVerdict{}
		}
		if !call.finished() {
			return muxVerdict{"read-blocked", fmt.Sprintf("step %d: the parked Read on %s/%d did not return although data arrived / the stream was closed", i, ev.E, ev.S)}
		}
		delete(w.blockedR[ev.E], ev.S)
		data, err := call.data, call.err
		want := len(w.unitBytes(muxPeer(ev.E), ev.S, ev.Got))
		if err == nil && len(data) < want {
			// the reader may wake after the first of several drained frames: pick up the rest
			data, err = w.collect(w.strm[ev.E][ev.S], data, want)
			if errors.Is(err, ErrTimeout) {
				return muxVerdict{"bytes-missing", fmt.Sprintf("step %d: %s/%d has only %d of the %d bytes owed", i, ev.E, ev.S, len(data), want)}
			}
		}
		w.logf("step %d ReadWake(%s,%d) expected units %v eof=%v observed %d bytes err=%v", i, ev.E, ev.S, ev.Got, ev.Eof, len(data), err)
		return w.checkData(i, ev.E, ev.S, ev.Got, data, err, ev.Eof)
	case "AcceptWake":
		call := w.blockedA
		if call == nil || !call.finished() {
			return muxVerdict{"accept-blocked", fmt.Sprintf("step %d: the parked Accept did not return", i)}
		}
		w.blockedA = nil
		return w.checkAccept(i, ev, call)
	}
	return muxVerdict{}
}

func (w *muxWorld) compareObs(i int, ev muxEv, o muxObs) muxVerdict {
	for _, e := range []string{"c", "s"} {
		real := w.sesh[e].IsClosed()
		if real && !o.Closed[e] {
			return muxVerdict{"session-died", fmt.Sprintf("after step %d (%s): session %s is closed (%q) although every connection is healthy and nobody closed it", i, ev.A, e, w.sesh[e].TerminalMsg())}
		}
		if !real && o.Closed[e] {
			return muxVerdict{"session-not-closed", fmt.Sprintf("after step %d (%s): session %s is still open, the model has it closed", i, ev.A, e)}
		}
		if !real {
			if cnt := int(w.sesh[e].streamCount()); cnt != o.Count[e] {
				return muxVerdict{"count-mismatch", fmt.Sprintf("after step %d (%s): %s reports %d active streams, %d are open", i, ev.A, e, cnt, o.Count[e])}
			}
		}
	}
	for c, l := range w.links {
		for _, e := range []string{"c", "s"} {
			if got := l.Pending(muxSide[e]); got != o.Inflight[c][e] && !l.Failed() {
				w.diverged = fmt.Sprintf("after step %d (%s): %d records in flight from %s on connection %d, model %d", i, ev.A, got, e, c+1, o.Inflight[c][e])
				return muxVerdict{}
			}
			if got := l.ClosedBy(muxSide[e]); got != o.Endc[c][e] {
				if !got {
					return muxVerdict{"conn-not-closed", fmt.Sprintf("after step %d (%s): %s has not closed connection %d", i, ev.A, e, c+1)}
				}
				w.diverged = fmt.Sprintf("after step %d (%s): %s closed connection %d, the model keeps it open", i, ev.A, e, c+1)
				return muxVerdict{}
			}
		}
	}
	for _, e := range []string{"c", "s"} {
		for s, call := range w.blockedR[e] {
			if call.finished() && s-1 < len(o.Rwait[e]) && o.Rwait[e][s-1] {
				// returned although the model keeps it parked: what did it return?
				if call.err != nil {
					return muxVerdict{"eof-early", fmt.Sprintf("after step %d (%s): the parked Read on %s/%d returned %v", i, ev.A, e, s, call.err)}
				}
				return muxVerdict{"bytes-wrong", fmt.Sprintf("after step %d (%s): the parked Read on %s/%d returned %d bytes nobody wrote", i, ev.A, e, s, call.n)}
			}
		}
	}
	if w.blockedA != nil && w.blockedA.finished() && o.Await {
		if w.blockedA.err != nil {
			return muxVerdict{"accept-failed", fmt.Sprintf("after step %d: the parked Accept failed: %v", i, w.blockedA.err)}
		}
	}
	w.pickMu.Lock()
	miss := w.pickMiss
	w.pickMu.Unlock()
	if miss > 0 {
		w.diverged = fmt.Sprintf("after step %d (%s): the code chose a connection %d times more than the model", i, ev.A, miss)
	}
	return muxVerdict{}
}

// ------------------------------------------------------------------------------------------------

func muxNontrivial(b *muxBehaviour) bool {
	// non-trivial: a frame is delivered while an earlier-written frame of the same direction is still in
	// flight on another connection, or a close/fault/timer step occurs
	for _, st := range b.Steps {
		switch st.Ev.A {
		case "CloseStream", "SessClose", "ConnFail", "TimerRead", "ReadBlock", "AcceptBlock", "AddConnFirst", "OpenRegister", "DeliverB":
			return true
		case "Deliver":
			for c, m := range st.Obs.Inflight {
				if c+1 != st.Ev.C && m[muxPeer(st.Ev.E)] > 0 {
					return true
				}
			}
		}
	}
	return false
}

func muxConcretisations(idx int, all bool, base muxConc) []muxConc {
	unordered, singleplex, nc := base.Unordered, base.Singleplex, base.NC
	out := muxConcretisations0(idx, all, unordered, singleplex, nc)
	for i := range out {
		out[i].Gates, out[i].TimerEp, out[i].Late = base.Gates, base.TimerEp, base.Late
	}
	return out
}

func muxConcretisations0(idx int, all bool, unordered, singleplex bool, nc int) []muxConc {
	methods := []byte{EncryptionMethodPlain, EncryptionMethodAES256GCM, EncryptionMethodChaha20Poly1305, EncryptionMethodAES128GCM}
	var out []muxConc
	if all {
		for mi, m := range methods {
			out = append(out, muxConc{Method: m, Unordered: unordered, Singleplex: singleplex, NC: nc, SizeClass: (mi + idx) % 4, Key: "k", FaultCut: (mi + idx/4) % 4})
		}
		return out
	}
	out = append(out, muxConc{Method: methods[idx%4], Unordered: unordered, Singleplex: singleplex, NC: nc, SizeClass: (idx / 4) % 4, Key: "k", FaultCut: (idx / 2) % 4})
	return out
}

type muxJob struct {
	Name       string `json:"name"`
	File       string `json:"file"`
	NC         int    `json:"nc"`
	Unordered  bool   `json:"unordered"`
	Singleplex bool   `json:"singleplex"`
	AllConc    bool   `json:"allconc"`
	Gates      bool   `json:"gates"`
	TimerEp    string `json:"timerep"`
	Late       int    `json:"late"`
}

// TestVerifMuxReplay replays the behaviour files listed in the job file VERIF_JOBS (one process for all of
// them); per-job counts are reported as stats "<job>:behaviours|violations|diverged".
func TestVerifMuxReplay(t *testing.T) {
	log.SetOutput(io.Discard)
	log.SetLevel(log.PanicLevel)
	res := kit.NewResult()
	defer func() { res.Save(true) }()
	if rp := kit.Env("VERIF_REPLAY", ""); rp != "" {
		muxReplayFile(t, rp)
		return
	}
	raw, err := os.ReadFile(kit.Env("VERIF_JOBS", ""))
	if err != nil {
		t.Fatal(err)
	}
	var jobs []muxJob
	if err := json.Unmarshal(raw, &jobs); err != nil {
		t.Fatal(err)
	}
	for _, job := range jobs {
		muxReplayJob(t, res, job)
	}
}

func muxReplayJob(t *testing.T, res *kit.Result, job muxJob) {
	base := muxConc{Unordered: job.Unordered, Singleplex: job.Singleplex, NC: job.NC, Gates: job.Gates, TimerEp: job.TimerEp, Late: job.Late}
	idx := 0
	diverged := 0
	violations := 0
	err := kit.ReadLines(job.File, func(line []byte) error {
		var b muxBehaviour
		if err := json.Unmarshal(line, &b); err != nil {
			return err
		}
		idx++
		if violations > 10 || diverged > 10 {
			return nil
		}
		for _, conc := range muxConcretisations(idx, job.AllConc, base) {
			var v muxVerdict
			var table []string
			var dv string
			synctest.Test(t, func(t *testing.T) {
				v, table, dv = muxRun(&b, conc)
			})
			res.Count(job.Name+"|"+string(line), muxNontrivial(&b))
			res.Stat(job.Name+":evaluations", 1)
			if v.Key != "" {
				// deterministic scenario: run it once more and require the same verdict
				var v2 muxVerdict
				synctest.Test(t, func(t *testing.T) { v2, _, _ = muxRun(&b, conc) })
				if v2.Key == v.Key {
					violations++
					res.Stat(job.Name+":violations", 1)
					res.Violate(v.Key, v.What, map[string]any{"job": job.Name, "behaviour": b, "concretisation": conc, "table": table})
				} else {
					res.Note("%s: unstable verdict %q vs %q on behaviour %d", job.Name, v.Key, v2.Key, idx)
					res.Stat("unstable", 1)
				}
			} else if dv != "" {
				diverged++
				res.Stat("diverged", 1)
				res.Stat(job.Name+":diverged", 1)
				res.Note("%s: behaviour %d diverged: %s", job.Name, idx, dv)
				if diverged <= 2 {
					res.Sample(map[string]any{"job": job.Name, "diverged": dv, "table": table}, 12)
				}
			}
		}
		if idx%1499 == 1 {
			res.Sample(map[string]any{"job": job.Name, "behaviour": json.RawMessage(append([]byte{}, line...))}, 6)
		}
		return nil
	})
	if err != nil {
		t.Fatal(err)
	}
	res.Stat(job.Name+":behaviours", int64(idx))
}

func muxReplayFile(t *testing.T, path string) {
	var rf struct {
		Replay struct {
			Behaviour      muxBehaviour `json:"behaviour"`
			Concretisation muxConc      `json:"concretisation"`
		} `json:"replay"`
	}
	raw, err := os.ReadFile(path)
	if err != nil {
		t.Fatal(err)
	}
	if err := json.Unmarshal(raw, &rf); err != nil {
		t.Fatal(err)
	}
	synctest.Test(t, func(t *testing.T) {
		v, table, dv := muxRun(&rf.Replay.Behaviour, rf.Replay.Concretisation)
		for _, l := range table {
			fmt.Println(l)
		}
		fmt.Printf("REPLAY-RESULT key=%q what=%q diverged=%q\n", v.Key, v.What, dv)
	})
}
