package multiplex

// A pair of real Sessions over the in-memory network with a passive wire tap that decodes every record with the
// session key (shared by the C12 / C13 stress drivers).

import (
	"fmt"
	"sync"
	"time"

	"github.com/cbeuw/Cloak/internal/common"
	kit "github.com/cbeuw/Cloak/internal/verifkit"
)

type c13Wire struct {
	E       string
	Sid     uint32
	Seq     uint64
	Closing uint8
	Payload []byte
}

type c13Pair struct {
	vn    *kit.VNet
	links []*kit.VLink
	c, s  *Session
	mu    sync.Mutex
	wire  []c13Wire
	bad   string
}

func c13NewPair(nconn int, method byte, seed int64) *c13Pair {
	p := &c13Pair{vn: kit.NewVNet()}
	var key [32]byte
	copy(key[:], kit.NewRng(seed).Bytes(32))
	mk := func() *Session {
		o, err := MakeObfuscator(method, key)
		if err != nil {
			panic(err)
		}
		return MakeSession(11, SessionConfig{Obfuscator: o, MsgOnWireSizeLimit: 16401, InactivityTimeout: time.Hour})
	}
	p.c, p.s = mk(), mk()
	p.vn.Tap = func(ev kit.TapEvent) {
		if ev.Kind != "w" || len(ev.Data) < 5 {
			return
		}
		e, sesh := "c", p.c
		if ev.From == 1 {
			e, sesh = "s", p.s
		}
		var f Frame
		body := append([]byte(nil), ev.Data[5:]...)
		if err := sesh.deobfuscate(&f, body); err != nil {
			p.bad = fmt.Sprintf("record written by %s does not decode: %v", e, err)
			return
		}
		p.mu.Lock()
		p.wire = append(p.wire, c13Wire{E: e, Sid: f.StreamID, Seq: f.Seq, Closing: f.Closing, Payload: append([]byte(nil), f.Payload...)})
		p.mu.Unlock()
	}
	for i := 0; i < nconn; i++ {
		l := p.vn.NewLink(false, false)
		p.links = append(p.links, l)
		p.c.AddConnection(common.NewTLSConn(l.End(0)))
		p.s.AddConnection(common.NewTLSConn(l.End(1)))
	}
	return p
}

func (p *c13Pair) close() {
	p.c.Close()
	p.s.Close()
	for _, l := range p.links {
		l.Fail()
	}
}


func c13Fill(n int, tag byte) []byte {
	b := make([]byte, n)
	for i := range b {
		b[i] = tag
	}
	return b
}
