package multiplex

// C01, concurrent AddConnection (Mux.tla: AddConnFirst/AddConnSecond with two adders, deviation AddConnNoMutex).
// The server adds the connections of one session from one goroutine per incoming connection. One adder is parked
// at the schedule point inside addConn (between storing the entry and publishing the count), a second adder is
// started; when both have finished, frames are sent with the real random connection choice. The property-level
// observation: the session must stay up and deliver every byte, and every id the switchboard can draw must work.

import (
	"bytes"
	"fmt"
	"io"
	"sync"
	"sync/atomic"
	"testing"
	"time"

	"github.com/cbeuw/Cloak/internal/common"
	"github.com/cbeuw/Cloak/internal/verifhook"
	kit "github.com/cbeuw/Cloak/internal/verifkit"
	log "github.com/sirupsen/logrus"
)

func TestVerifC01AddConnRace(t *testing.T) {
	log.SetOutput(io.Discard)
	log.SetLevel(log.PanicLevel)
	res := kit.NewResult()
	defer func() { res.Save(true) }()
	rounds := 12
	if kit.Thorough() {
		rounds = 120
	}
	methods := []byte{EncryptionMethodPlain, EncryptionMethodAES256GCM, EncryptionMethodChaha20Poly1305, EncryptionMethodAES128GCM}
	for r := 0; r < rounds; r++ {
		nLate := 2 + r%3 // connections added concurrently on the adding side
		vn := kit.NewVNet()
		var key [32]byte
		copy(key[:], kit.NewRng(int64(r)+kit.Seed()).Bytes(32))
		mk := func() *Session {
			o, _ := MakeObfuscator(methods[r%4], key)
			return MakeSession(5, SessionConfig{Obfuscator: o, MsgOnWireSizeLimit: 16401, InactivityTimeout: time.Hour})
		}
		adder, peer := mk(), mk() // "adder" plays the side whose connections arrive concurrently (the server)
		var links []*kit.VLink
		l0 := vn.NewLink(false, false)
		links = append(links, l0)
		adder.AddConnection(common.NewTLSConn(l0.End(0)))
		peer.AddConnection(common.NewTLSConn(l0.End(1)))
		var arrivals atomic.Int32
		gate := make(chan struct{})
		var wg sync.WaitGroup
		for i := 0; i < nLate; i++ {
			l := vn.NewLink(false, false)
			links = append(links, l)
			peer.AddConnection(common.NewTLSConn(l.End(1)))
		}
		verifhook.Set(func(point string, args ...uint64) {
			if point == "sb.addConn.counted" && arrivals.Add(1) == 1 {
				<-gate
			}
		})
		arrivals.Store(0)
		for i := 0; i < nLate; i++ {
			wg.Add(1)
			l := links[1+i]
			go func() { defer wg.Done(); adder.AddConnection(common.NewTLSConn(l.End(0))) }()
			if i == 0 {
				deadline := time.Now().Add(3 * time.Second)
				for arrivals.Load() == 0 && time.Now().Before(deadline) {
					time.Sleep(time.Millisecond)
				}
			}
		}
		time.Sleep(40 * time.Millisecond) // the other adders run as far as the code lets them
		overlapped := arrivals.Load() > 1
		close(gate)
		wg.Wait()
		verifhook.Set(nil)
		// traffic from the adding side with the real random choice of connection
		st, err := peer.OpenStream()
		if err != nil {
			t.Fatal(err)
		}
		st.Write([]byte{1})
		conn, err := adder.Accept()
		if err != nil {
			res.Violate("session-died", fmt.Sprintf("round %d: Accept failed after concurrent AddConnection: %v", r, err), nil)
			continue
		}
		srv := conn.(*Stream)
		buf := make([]byte, 1)
		srv.Read(buf)
		want := []byte{}
		var werr error
		n := 120
		for i := 0; i < n && werr == nil; i++ {
			chunk := kit.TokenBytes(uint64(i), 40)
			want = append(want, chunk...)
			_, werr = srv.Write(chunk)
		}
		got := make([]byte, 0, len(want))
		rb := make([]byte, 4096)
		st.SetReadDeadline(time.Now().Add(3 * time.Second))
		for len(got) < len(want) && werr == nil {
			k, err := st.Read(rb)
			got = append(got, rb[:k]...)
			if err != nil {
				break
			}
		}
		sig := fmt.Sprintf("late%d-m%d", nLate, r%4)
		res.Count(sig, true)
		if overlapped {
			res.Stat("adders_overlapped", 1)
		}
		used := 0
		for _, l := range links {
			if _, chunks := l.Stats(0); chunks > 0 {
				used++
			}
		}
		if werr != nil || adder.IsClosed() {
			res.Violate("session-died", fmt.Sprintf("round %d: %d connections added concurrently, all healthy, then the session died on a send: %v (%q)", r, nLate, werr, adder.TerminalMsg()),
				map[string]any{"late": nLate, "adders_overlapped_at_gate": overlapped, "connections_that_carried_frames": used})
		} else if !bytes.Equal(got, want) {
			res.Violate("bytes-missing", fmt.Sprintf("round %d: %d of %d bytes arrived after concurrent AddConnection", r, len(got), len(want)), nil)
		} else if used < len(links) {
			// not a violation of the statement by itself (the session works), but it means an entry was lost
			res.Note("round %d: only %d of %d connections ever carried a frame in %d sends", r, used, len(links), n)
			res.Stat("unused_connection_rounds", 1)
		}
		if r == 0 {
			res.Sample(map[string]any{"late_connections": nLate, "adders_overlapped_at_gate": overlapped, "sends": n, "connections_used": used}, 1)
		}
		adder.Close()
		peer.Close()
		for _, l := range links {
			l.Fail()
		}
	}
}
