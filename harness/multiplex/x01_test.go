//go:build verif

package multiplex

// X01: the receive pipes of a stream (streamBufferedPipe / datagramBufferedPipe) against spec/StreamPipe.tla.
//
// TestVerifX01Replay  behaviours of spec/StreamPipeGen.tla (environment calls + the model's expected returns + the calls
//                     expected to be parked after every step) executed on the REAL pipe inside a testing/synctest bubble:
//                     every call in its own goroutine, synctest.Wait() after every step, virtual time for deadlines.
// TestVerifX01Stress  real goroutines, real clock: reader / writer / closer / deadline-setter racing; a lost wake-up is
//                     reported only on evidence (goroutine dump shows the reader in sync.(*Cond).Wait inside the pipe's
//                     Read while the pipe's own state, read under its lock, says it must return).
//
// Verdict keys (statements about the code): pipe-bytes-wrong, pipe-eof-early, pipe-eof-missing, pipe-timeout-wrong,
// pipe-lost-wakeup, pipe-write-blocked-wrong, pipe-write-result-wrong.  Everything the driver cannot follow is t.Fatal
// (no complete result -> inconclusive).

import (
	"bytes"
	"encoding/json"
	"errors"
	"fmt"
	"io"
	"os"
	"runtime"
	"strings"
	"sync"
	"sync/atomic"
	"testing"
	"testing/synctest"
	"time"

	kit "github.com/cbeuw/Cloak/internal/verifkit"
)

// x01SetLimit is set (by a generated file that x01.py overlays together with a copy of recvBuffer.go in which the
// CONSTANT recvBufferSizeLimit is turned into a variable) when the build allows lowering the back-pressure limit.
var x01SetLimit func(n int) (old int)

type x01Ret struct {
	K    string `json:"k"`
	ID   int    `json:"id"`
	N    int    `json:"n"`
	Data []int  `json:"data"`
	Err  string `json:"err"`
	Tbc  bool   `json:"tbc"`
}

type x01Step struct {
	A       string   `json:"a"`
	ID      int      `json:"id"`
	N       int      `json:"n"`
	Closing bool     `json:"closing"`
	D       int      `json:"d"`
	Pr      []int    `json:"pr"`
	Pw      []int    `json:"pw"`
	Rets    []x01Ret `json:"rets"`
}

type x01Behaviour struct {
	Mode  string    `json:"mode"`
	Limit int       `json:"limit"`
	Dev   []string  `json:"dev,omitempty"`
	Steps []x01Step `json:"steps"`
	Pr    []int     `json:"pr"`
	Pw    []int     `json:"pw"`
}

// the two pipes behind one face
type x01Pipe struct {
	s *streamBufferedPipe
	d *datagramBufferedPipe
}

func x01New(mode string) *x01Pipe {
	if mode == "datagram" {
		return &x01Pipe{d: NewDatagramBufferedPipe()}
	}
	return &x01Pipe{s: NewStreamBufferedPipe()}
}

func (p *x01Pipe) read(b []byte) (int, error) {
	if p.d != nil {
		return p.d.Read(b)
	}
	return p.s.Read(b)
}

func (p *x01Pipe) write(payload []byte, closing bool, id int) (tbc bool, n int, err error) {
	if p.d != nil {
		f := &Frame{StreamID: 1, Seq: uint64(id), Payload: payload}
		if closing {
			f.Closing = closingStream
		}
		tbc, err = p.d.Write(f)
		if err == nil && !tbc {
			n = len(payload)
		}
		return
	}
	n, err = p.s.Write(payload)
	return err != nil, n, err
}

func (p *x01Pipe) close() {
	if p.d != nil {
		p.d.Close()
	} else {
		p.s.Close()
	}
}

func (p *x01Pipe) setDeadline(t time.Time) {
	if p.d != nil {
		p.d.SetReadDeadline(t)
	} else {
		p.s.SetReadDeadline(t)
	}
}

func (p *x01Pipe) cond() *sync.Cond {
	if p.d != nil {
		return p.d.rwCond
	}
	return p.s.rwCond
}

// state read under the pipe's own lock (evidence for the stress verdicts)
func (p *x01Pipe) state() (closed bool, buffered int, msgs int, dl time.Time) {
	c := p.cond()
	c.L.Lock()
	defer c.L.Unlock()
	if p.d != nil {
		return p.d.closed, p.d.buf.Len(), len(p.d.pLens), p.d.rDeadline
	}
	return p.s.closed, p.s.buf.Len(), 0, p.s.rDeadline
}

type x01Call struct {
	kind string
	id   int
	done atomic.Bool
	seen bool // its return was already compared
	n    int
	data []byte
	err  error
	tbc  bool
}

func (c *x01Call) String() string {
	if !c.done.Load() {
		return fmt.Sprintf("%s#%d parked", c.kind, c.id)
	}
	if c.kind == "R" {
		return fmt.Sprintf("R#%d -> n=%d err=%v", c.id, c.n, c.err)
	}
	return fmt.Sprintf("W#%d -> n=%d tbc=%v err=%v", c.id, c.n, c.tbc, c.err)
}

func x01Units(units []int, u int) []byte {
	var out []byte
	for _, x := range units {
		out = append(out, kit.TokenBytes(uint64(x), u)...)
	}
	return out
}

func x01ErrName(err error) string {
	switch {
	case err == nil:
		return ""
	case err == io.EOF:
		return "eof"
	case err == ErrTimeout:
		return "timeout"
	case errors.Is(err, io.ErrShortBuffer):
		return "short"
	case errors.Is(err, io.ErrClosedPipe):
		return "closed"
	}
	return "other:" + err.Error()
}

// x01Judge compares one call with the model; exp == nil: the model has it parked. Returns "" when they agree.
func x01Judge(c *x01Call, exp *x01Ret, u int, mode string) (key, what string) {
	done := c.done.Load()
	if exp == nil {
		if !done {
			return "", ""
		}
		if c.kind == "W" {
			return "pipe-write-blocked-wrong", fmt.Sprintf("%v although the buffer holds more than the limit and the pipe is open: the model has this Write waiting", c)
		}
		switch x01ErrName(c.err) {
		case "eof":
			return "pipe-eof-early", fmt.Sprintf("%v although the pipe is not closed-and-drained: the model has this Read waiting", c)
		case "timeout":
			return "pipe-timeout-wrong", fmt.Sprintf("%v although no deadline has passed: the model has this Read waiting", c)
		}
		return "pipe-bytes-wrong", fmt.Sprintf("%v although nothing is buffered: the model has this Read waiting", c)
	}
	if !done {
		if c.kind == "W" {
			return "pipe-write-blocked-wrong", fmt.Sprintf("%v: the model lets this Write return (n=%d err=%q): buffer at or under the limit, or pipe closed", c, exp.N, exp.Err)
		}
		return "pipe-lost-wakeup", fmt.Sprintf("%v: the model lets this Read return (n=%d err=%q) - data buffered, pipe closed or deadline passed - and nothing else can wake it", c, exp.N, exp.Err)
	}
	got := x01ErrName(c.err)
	if c.kind == "W" {
		wantN := exp.N * u
		if got != exp.Err || c.tbc != exp.Tbc || (mode == "stream" && c.n != wantN) {
			return "pipe-write-result-wrong", fmt.Sprintf("%v, the model says n=%d tbc=%v err=%q", c, wantN, exp.Tbc, exp.Err)
		}
		return "", ""
	}
	switch exp.Err {
	case "eof":
		if got != "eof" || c.n != 0 {
			return "pipe-eof-missing", fmt.Sprintf("%v on a closed and drained pipe (io.EOF expected)", c)
		}
		return "", ""
	case "timeout":
		if got != "timeout" || c.n != 0 {
			return "pipe-timeout-wrong", fmt.Sprintf("%v although the read deadline had passed when the Read ran (ErrTimeout expected; the code tests the deadline before the data)", c)
		}
		return "", ""
	}
	switch got {
	case "eof":
		return "pipe-eof-early", fmt.Sprintf("%v, the model says n=%d err=%q (data still buffered or pipe open)", c, exp.N*u, exp.Err)
	case "timeout":
		return "pipe-timeout-wrong", fmt.Sprintf("%v although no deadline is set or it has not passed; the model says n=%d err=%q", c, exp.N*u, exp.Err)
	}
	want := x01Units(exp.Data, u)
	if got != exp.Err || c.n != len(want) || !bytes.Equal(c.data, want) {
		return "pipe-bytes-wrong", fmt.Sprintf("%v, the model says n=%d err=%q and other/these bytes (first difference at %d)", c, len(want), exp.Err, x01FirstDiff(c.data, want))
	}
	return "", ""
}

func x01FirstDiff(a, b []byte) int {
	for i := 0; i < len(a) && i < len(b); i++ {
		if a[i] != b[i] {
			return i
		}
	}
	if len(a) != len(b) {
		if len(a) < len(b) {
			return len(a)
		}
		return len(b)
	}
	return -1
}

const x01Tick = time.Second

// x01Run replays one behaviour inside a bubble. drift != "" : the driver could not follow (not a verdict).
func x01Run(t *testing.T, b *x01Behaviour, u int) (key, what, drift string, table []string) {
	if b.Limit < 1000 {
		if x01SetLimit == nil {
			return "", "", "behaviour needs a lowered recvBufferSizeLimit but this build has the constant", nil
		}
		old := x01SetLimit(b.Limit * u)
		defer x01SetLimit(old)
	}
	synctest.Test(t, func(t *testing.T) {
		p := x01New(b.Mode)
		calls := map[string]*x01Call{}
		var order []*x01Call
		parkedSets := func(si int) (pr, pw []int) {
			if si+1 < len(b.Steps) {
				return b.Steps[si+1].Pr, b.Steps[si+1].Pw
			}
			return b.Pr, b.Pw
		}
		defer func() {
			// let every goroutine of the bubble end: close, then wake whatever is still parked
			p.close()
			synctest.Wait()
			for i := 0; i < 3; i++ {
				p.setDeadline(time.Now().Add(-time.Hour))
				p.cond().Broadcast()
				synctest.Wait()
			}
		}()
		for si, st := range b.Steps {
			switch st.A {
			case "R":
				c := &x01Call{kind: "R", id: st.ID}
				calls[fmt.Sprintf("R%d", st.ID)] = c
				order = append(order, c)
				buf := make([]byte, st.N*u)
				go func() {
					n, err := p.read(buf)
					c.n, c.err = n, err
					if n >= 0 && n <= len(buf) {
						c.data = buf[:n]
					}
					c.done.Store(true)
				}()
			case "W":
				c := &x01Call{kind: "W", id: st.ID}
				calls[fmt.Sprintf("W%d", st.ID)] = c
				order = append(order, c)
				var units []int
				for j := 1; j <= st.N; j++ {
					units = append(units, st.ID*8+j)
				}
				payload := x01Units(units, u)
				go func() {
					c.tbc, c.n, c.err = p.write(payload, st.Closing, st.ID)
					c.done.Store(true)
				}()
			case "C":
				p.close()
			case "D":
				if st.D < 0 {
					p.setDeadline(time.Time{})
				} else {
					p.setDeadline(time.Now().Add(time.Duration(st.D) * x01Tick))
				}
			case "A":
				time.Sleep(x01Tick)
			default:
				drift = "unknown step " + st.A
				return
			}
			synctest.Wait()
			// what the model expects now: the returns of this step, everything else issued and not yet returned is parked
			exp := map[string]*x01Ret{}
			for i := range st.Rets {
				r := &st.Rets[i]
				exp[fmt.Sprintf("%s%d", r.K, r.ID)] = r
			}
			pr, pw := parkedSets(si)
			mparked := map[string]bool{}
			for _, id := range pr {
				mparked[fmt.Sprintf("R%d", id)] = true
			}
			for _, id := range pw {
				mparked[fmt.Sprintf("W%d", id)] = true
			}
			line := fmt.Sprintf("step %d %s id=%d n=%d closing=%v d=%d:", si, st.A, st.ID, st.N, st.Closing, st.D)
			for _, c := range order {
				if c.seen {
					continue
				}
				name := fmt.Sprintf("%s%d", c.kind, c.id)
				e := exp[name]
				if e == nil && !mparked[name] {
					drift = fmt.Sprintf("step %d: behaviour file neither returns nor parks call %s", si, name)
					return
				}
				line += " [" + c.String() + "]"
				if k, w := x01Judge(c, e, u, b.Mode); k != "" {
					table = append(table, line)
					key, what = k, fmt.Sprintf("step %d (%s): %s", si, st.A, w)
					return
				}
				if c.done.Load() {
					c.seen = true
				}
			}
			table = append(table, line)
		}
	})
	return
}

func x01Nontrivial(b *x01Behaviour) bool {
	for _, st := range b.Steps {
		if len(st.Pr)+len(st.Pw) > 0 {
			return true
		}
		for _, r := range st.Rets {
			if r.Err == "timeout" || r.Err == "short" {
				return true
			}
		}
	}
	return len(b.Pr)+len(b.Pw) > 0
}

var x01UnitClasses = []int{1, 3, 700, 4096, 2, 17}

func TestVerifX01Replay(t *testing.T) {
	res := kit.NewResult()
	defer func() { res.Save(true) }()
	if rp := kit.Env("VERIF_REPLAY", ""); rp != "" {
		x01ReplayFile(t, res, rp)
		return
	}
	idx := 0
	classes := 1
	if kit.Thorough() {
		classes = 2
	}
	err := kit.ReadLines(kit.Env("VERIF_IN", ""), func(line []byte) error {
		var b x01Behaviour
		if err := json.Unmarshal(line, &b); err != nil {
			return err
		}
		idx++
		for cl := 0; cl < classes; cl++ {
			u := x01UnitClasses[(idx+cl*3+int(kit.Seed()))%len(x01UnitClasses)]
			key, what, drift, table := x01Run(t, &b, u)
			if drift != "" {
				return fmt.Errorf("behaviour %d: %s", idx, drift)
			}
			res.Count(string(line), x01Nontrivial(&b))
			res.Stat("behaviours:"+b.Mode, 1)
			if key != "" {
				res.Violate(key, what, map[string]any{"behaviour": b, "unit": u, "table": table})
			}
		}
		if idx%997 == 1 {
			res.Sample(map[string]any{"behaviour": json.RawMessage(append([]byte{}, line...))}, 3)
		}
		return nil
	})
	if err != nil {
		t.Fatal(err)
	}
	if idx == 0 {
		t.Fatal("no behaviours")
	}
}

func x01ReplayFile(t *testing.T, res *kit.Result, path string) {
	raw, err := os.ReadFile(path)
	if err != nil {
		t.Fatal(err)
	}
	var f struct {
		Replay struct {
			Behaviour *x01Behaviour `json:"behaviour"`
			Unit      int           `json:"unit"`
			Stress    any           `json:"stress"`
		} `json:"replay"`
	}
	if err := json.Unmarshal(raw, &f); err != nil {
		t.Fatal(err)
	}
	if f.Replay.Behaviour == nil {
		fmt.Printf("REPLAY-RESULT key=\"\" what=\"this replay file is from the real-goroutine stress (%v): re-run the check, the race is not deterministic\"\n", f.Replay.Stress)
		return
	}
	if f.Replay.Unit == 0 {
		f.Replay.Unit = 1
	}
	key, what, drift, table := x01Run(t, f.Replay.Behaviour, f.Replay.Unit)
	for _, l := range table {
		fmt.Println(l)
	}
	if drift != "" {
		t.Fatal(drift)
	}
	if key != "" {
		res.Violate(key, what, nil)
	}
	fmt.Printf("REPLAY-RESULT key=%q what=%q\n", key, what)
}

// ---------------------------------------------------------------------------------------------------------------------

func x01Dump() string {
	buf := make([]byte, 1<<22)
	return string(buf[:runtime.Stack(buf, true)])
}

func x01Gid() string {
	buf := make([]byte, 64)
	f := strings.Fields(string(buf[:runtime.Stack(buf, false)]))
	if len(f) > 1 {
		return f[1]
	}
	return "?"
}

// x01ParkedInRead: does goroutine gid sit in sync.(*Cond).Wait called from a pipe's Read?
func x01ParkedInRead(dump, gid string) (bool, string) {
	for _, g := range strings.Split(dump, "\n\n") {
		if strings.HasPrefix(g, "goroutine "+gid+" [") && strings.Contains(g, "sync.(*Cond).Wait") &&
			(strings.Contains(g, "streamBufferedPipe).Read") || strings.Contains(g, "datagramBufferedPipe).Read")) {
			return true, g
		}
	}
	return false, ""
}

// x01Imminent is the targeted half of the stress (defect D19, StreamPipe.tla TimerUnlocked = TRUE): rounds of many readers at
// once, each on its own pipe, each entering Read a few microseconds before its deadline, so that the timer armed by
// broadcastAfter is due while the reader is still between arming it and rwCond.Wait(). Every Read must return ErrTimeout.
// A reader that has not returned 1.5 s later is judged on evidence only: its own goroutine (by id) in sync.(*Cond).Wait
// under the pipe's Read in two dumps in a row, the pipe (read under its lock) open, empty, deadline passed for > 1 s.
func x01Imminent(res *kit.Result, budget time.Duration) (trials, found int64) {
	type trial struct {
		p    *x01Pipe
		mode string
		gid  atomic.Value
		done atomic.Bool
		n    int
		err  error
	}
	rng := kit.NewRng(kit.Seed()*7919 + 5)
	stop := time.Now().Add(budget)
	per := 4 * runtime.GOMAXPROCS(0) // more readers than processors: a reader may also lose its processor inside the window
	// at least 4000 reads even on a crowded machine (the reverted tree loses about one wake-up in 100-250 of them)
	for (time.Now().Before(stop) || (trials < 4000 && time.Now().Before(stop.Add(15*time.Second)))) && found < 2 {
		trs := make([]*trial, per)
		var wg sync.WaitGroup
		for i := range trs {
			tr := &trial{mode: []string{"stream", "datagram"}[rng.Intn(2)]}
			tr.p = x01New(tr.mode)
			trs[i] = tr
			ahead := time.Duration(rng.Intn(40000)) * time.Nanosecond
			spin := rng.Intn(4000)
			wg.Add(1)
			go func() {
				defer wg.Done()
				tr.gid.Store(x01Gid())
				tr.p.setDeadline(time.Now().Add(ahead))
				for i := 0; i < spin; i++ {
					_ = tr.done.Load()
				}
				buf := make([]byte, 16)
				tr.n, tr.err = tr.p.read(buf)
				tr.done.Store(true)
			}()
		}
		all := make(chan struct{})
		go func() { wg.Wait(); close(all) }()
		select {
		case <-all:
		case <-time.After(1500 * time.Millisecond):
		}
		trials += int64(per)
		var late []*trial
		for _, tr := range trs {
			if !tr.done.Load() {
				late = append(late, tr)
			} else if tr.err != ErrTimeout || tr.n != 0 {
				res.Violate("pipe-timeout-wrong", fmt.Sprintf("%s pipe: Read on an empty open pipe whose deadline passes returned n=%d err=%v", tr.mode, tr.n, tr.err), map[string]any{"stress": "deadline-imminent-batch"})
			}
		}
		if len(late) == 0 {
			continue
		}
		d1 := x01Dump()
		time.Sleep(50 * time.Millisecond)
		d2 := x01Dump()
		for _, tr := range late {
			if tr.done.Load() {
				continue // it was merely slow
			}
			g, _ := tr.gid.Load().(string)
			p1, _ := x01ParkedInRead(d1, g)
			p2, stack := x01ParkedInRead(d2, g)
			closed, buffered, msgs, dl := tr.p.state()
			if p1 && p2 && !closed && buffered == 0 && msgs == 0 && !dl.IsZero() && time.Since(dl) > time.Second {
				found++
				res.Violate("pipe-lost-wakeup:timer-fires-before-wait", fmt.Sprintf("%s pipe: a Read entered just before its deadline is still parked in the condition wait %v after the deadline (pipe open and empty, no timer left to wake it): lost wake-up",
					tr.mode, time.Since(dl).Round(time.Millisecond)), map[string]any{"stress": "deadline-imminent-batch", "stack": stack})
			} else {
				res.Note("a reader of the batch did not return within 1.5 s but a lost wake-up is not evident (parked=%v/%v closed=%v buffered=%d): not judged", p1, p2, closed, buffered)
				res.Stat("unjudged", 1)
			}
		}
		for _, tr := range late {
			tr.p.close()
			tr.p.cond().Broadcast()
		}
		select {
		case <-all:
		case <-time.After(2 * time.Second):
		}
	}
	return
}

func TestVerifX01Stress(t *testing.T) {
	res := kit.NewResult()
	defer func() { res.Save(true) }()
	budget, targeted := 3*time.Second, 3*time.Second
	if kit.Thorough() {
		budget, targeted = 40*time.Second, 20*time.Second
	}
	itrials, ifound := x01Imminent(res, targeted)
	res.Stat("imminent_trials", itrials)
	res.Stat("imminent_stuck", ifound)
	stop := time.Now().Add(budget)
	var trials, stuck atomic.Int64
	trials.Add(itrials)
	// one worker at a time may hold the "somebody is being judged on a dump" token: a dump shows all goroutines
	var judge sync.Mutex
	var wg sync.WaitGroup
	for wk := 0; wk < 4; wk++ {
		wg.Add(1)
		go func(wk int) {
			defer wg.Done()
			rng := kit.NewRng(kit.Seed()*1000 + int64(wk))
			for time.Now().Before(stop) && stuck.Load() < 2 {
				mode := []string{"stream", "datagram"}[rng.Intn(2)]
				// 0: data then close; 1: deadline set while the reader enters its wait; 2: deadline shortened;
				// 3: Read entered just before the deadline passes (the timer armed by broadcastAfter is due at once)
				scen := rng.Intn(4)
				p := x01New(mode)
				nmsg := 1 + rng.Intn(6)
				var sent []byte
				type rr struct {
					got      []byte
					err      error
					timeouts int
				}
				out := make(chan rr, 1)
				var start atomic.Uint32
				var gid atomic.Value
				rspin, wspin := rng.Intn(2000), rng.Intn(2000)
				go func() {
					gid.Store(x01Gid())
					for start.Load() == 0 {
					}
					for i := 0; i < rspin; i++ {
						_ = start.Load()
					}
					var r rr
					buf := make([]byte, 64)
					for {
						n, err := p.read(buf)
						r.got = append(r.got, buf[:n]...)
						if err == ErrTimeout {
							r.timeouts++
							if scen != 0 {
								r.err = err
								out <- r
								return
							}
							p.setDeadline(time.Time{})
							continue
						}
						if err != nil {
							r.err = err
							out <- r
							return
						}
					}
				}()
				if scen == 3 {
					p.setDeadline(time.Now().Add(time.Duration(20+rng.Intn(400)) * time.Microsecond))
					rspin = rng.Intn(40000)
				}
				runtime.Gosched()
				start.Store(1)
				for i := 0; i < wspin; i++ {
					_ = start.Load()
				}
				switch scen {
				case 0:
					for m := 0; m < nmsg; m++ {
						chunk := kit.TokenBytes(uint64(trials.Load())<<8|uint64(m), 1+rng.Intn(40))
						if _, _, err := p.write(chunk, false, m); err != nil {
							res.Violate("pipe-write-result-wrong", fmt.Sprintf("Write on an open pipe failed: %v", err), map[string]any{"stress": "data-then-close"})
						}
						sent = append(sent, chunk...)
						if rng.Intn(3) == 0 {
							p.setDeadline(time.Now().Add(time.Duration(rng.Intn(300)) * time.Microsecond))
						}
						for i := rng.Intn(500); i > 0; i-- {
							_ = start.Load()
						}
					}
					p.close()
				case 1:
					p.setDeadline(time.Now().Add(time.Duration(rng.Intn(2000)) * time.Microsecond))
				case 2:
					p.setDeadline(time.Now().Add(time.Hour))
					for i := rng.Intn(3000); i > 0; i-- {
						_ = start.Load()
					}
					p.setDeadline(time.Now().Add(time.Duration(rng.Intn(2000)) * time.Microsecond))
				}
				trials.Add(1)
				select {
				case r := <-out:
					if scen == 0 {
						if r.err != io.EOF {
							res.Violate("pipe-eof-missing", fmt.Sprintf("%s pipe: reader ended with %v instead of io.EOF after Close", mode, r.err), map[string]any{"stress": "data-then-close"})
						} else if !bytes.Equal(r.got, sent) {
							res.Violate("pipe-bytes-wrong", fmt.Sprintf("%s pipe: reader got %d bytes before EOF, %d were accepted before Close (first difference at %d)", mode, len(r.got), len(sent), x01FirstDiff(r.got, sent)),
								map[string]any{"stress": "data-then-close"})
						}
					} else if r.err != ErrTimeout || len(r.got) != 0 {
						res.Violate("pipe-timeout-wrong", fmt.Sprintf("%s pipe: Read on an empty open pipe with a passed deadline returned %d bytes, %v", mode, len(r.got), r.err), map[string]any{"stress": "deadline"})
					}
				case <-time.After(3 * time.Second):
					judge.Lock()
					closed, buffered, msgs, dl := p.state()
					g, _ := gid.Load().(string)
					parked1, _ := x01ParkedInRead(x01Dump(), g)
					time.Sleep(50 * time.Millisecond)
					parked, stack := x01ParkedInRead(x01Dump(), g)
					parked = parked && parked1
					must := closed || buffered > 0 || msgs > 0 || (!dl.IsZero() && time.Since(dl) > time.Second)
					// evidence: THIS trial's reader goroutine sits in the condition wait in two dumps in a row, and the pipe's own
					// state (read under its lock; nobody else touches this pipe any more) says a Read must return
					if parked && must {
						stuck.Add(1)
						key := "pipe-lost-wakeup"
						if !closed && buffered == 0 && msgs == 0 {
							// only the deadline obliges it to return, and only the AfterFunc timer could have woken it: the timer's
							// Broadcast (run without the pipe's mutex) came before this Read reached Wait - StreamPipe.tla, TimerUnlocked
							key = "pipe-lost-wakeup:timer-fires-before-wait"
						}
						res.Violate(key, fmt.Sprintf("%s pipe: a Read is still parked in the condition wait 3 s after it had to return (closed=%v buffered=%d msgs=%d deadline passed=%v): lost wake-up",
							mode, closed, buffered, msgs, !dl.IsZero() && time.Since(dl) > 0), map[string]any{"stress": []string{"data-then-close", "deadline", "deadline-shortened", "deadline-imminent"}[scen], "stack": stack})
					} else {
						res.Note("a reader did not return within 3 s but a lost wake-up is not evident (parked=%v closed=%v buffered=%d): not judged", parked, closed, buffered)
						res.Stat("unjudged", 1)
					}
					judge.Unlock()
					p.close()
					p.cond().Broadcast()
					select {
					case <-out:
					case <-time.After(time.Second):
					}
				}
			}
		}(wk)
	}
	wg.Wait()
	res.Count("stress-data-then-close", true)
	res.Count("stress-deadline", true)
	res.Count("stress-deadline-shortened", true)
	res.Count("stress-deadline-imminent", true)
	res.Count("stress-deadline-imminent-batch", true)
	res.Stat("trials", trials.Load())
	res.Sample(map[string]any{"trials": trials.Load(), "stuck_readers": stuck.Load()}, 1)
}
