package multiplex

// C13, across streams (spec/StreamOpen.tla): OpenStream calls that overlap must each get a stream id of their own,
// or two streams number their frames (id, 0), (id, 1), ... under one session key and the cipher nonce is reused.
// ck-client's RouteTCP calls OpenStream from one goroutine per accepted connection. The driver releases G goroutines
// from a spin barrier, each opens streams and writes one message per stream; every record is decoded at the wire
// tap and the (stream id, seq) pairs must be pairwise distinct (c13CheckWire: seq-duplicate), the ids handed out
// must be pairwise distinct, and every message must arrive on a stream of its own at the peer.

import (
	"fmt"
	"io"
	"runtime"
	"sync"
	"sync/atomic"
	"testing"
	"time"

	kit "github.com/cbeuw/Cloak/internal/verifkit"
	log "github.com/sirupsen/logrus"
)

func TestVerifC13OpenRace(t *testing.T) {
	log.SetOutput(io.Discard)
	log.SetLevel(log.PanicLevel)
	res := kit.NewResult()
	defer func() { res.Save(true) }()
	methods := []byte{EncryptionMethodPlain, EncryptionMethodAES256GCM, EncryptionMethodChaha20Poly1305, EncryptionMethodAES128GCM}
	rounds, perG := 40, 60
	if kit.Thorough() {
		rounds, perG = 400, 100
	}
	for r := 0; r < rounds && res.NumViolations() == 0; r++ {
		g := []int{2, 3, 4, 8, 16, 32}[r%6]
		p := c13NewPair(1+r%3, methods[r%4], kit.Seed()*131+int64(r))
		// the peer accepts and drains
		var accepted atomic.Int64
		go func() {
			for {
				conn, err := p.s.Accept()
				if err != nil {
					return
				}
				accepted.Add(1)
				go func(st *Stream) {
					buf := make([]byte, 64)
					for {
						if _, err := st.Read(buf); err != nil {
							return
						}
					}
				}(conn.(*Stream))
			}
		}()
		var ready, goFlag atomic.Int32
		ids := make([][]uint32, g)
		var wg sync.WaitGroup
		for k := 0; k < g; k++ {
			wg.Add(1)
			go func(k int) {
				defer wg.Done()
				for j := 0; j < perG; j++ {
					if j%10 == 0 { // re-align the callers every few opens
						ready.Add(1)
						for goFlag.Load() <= int32(j/10) {
							runtime.Gosched()
						}
					}
					st, err := p.c.OpenStream()
					if err != nil {
						return
					}
					ids[k] = append(ids[k], st.id)
					st.Write([]byte{byte(k + 1), byte(j), 0x5A})
				}
			}(k)
		}
		for phase := 0; phase*10 < perG; phase++ {
			dl := time.Now().Add(10 * time.Second)
			for int(ready.Load()) < g*(phase+1) && time.Now().Before(dl) {
				runtime.Gosched()
			}
			goFlag.Store(int32(phase + 1))
		}
		wg.Wait()
		total := 0
		seen := map[uint32]int{}
		dup := uint32(0)
		for k := range ids {
			for _, id := range ids[k] {
				total++
				seen[id]++
				if seen[id] == 2 {
					dup = id
				}
			}
		}
		// everything written is on the wire once the calls have returned (the tap runs inside conn.Write)
		p.mu.Lock()
		wire := append([]c13Wire(nil), p.wire...)
		p.mu.Unlock()
		key, what := c13CheckWire(wire, map[string]bool{}, map[string]int{})
		res.Count(fmt.Sprintf("g=%d conns=%d method=%d", g, 1+r%3, methods[r%4]), true)
		res.Stat("open_race_rounds", 1)
		res.Stat("streams_opened", int64(total))
		if key != "" {
			res.Violate(key, fmt.Sprintf("%d goroutines opening streams at once: %s", g, what), map[string]any{"goroutines": g, "round": r, "wire_head": c13WireSummary(wire)})
		} else if dup != 0 {
			res.Violate("seq-duplicate", fmt.Sprintf("%d goroutines opening streams at once: stream id %d was handed to two OpenStream calls; both streams number their frames from 0 under one session key", g, dup),
				map[string]any{"goroutines": g, "round": r})
		}
		if r == 0 {
			res.Sample(map[string]any{"goroutines": g, "streams": total, "distinct_ids": len(seen)}, 1)
		}
		p.close()
	}
}
