package multiplex

// C13, across streams (spec/StreamOpen.tla): OpenStream calls that overlap must each get a stream id of their own,
// or two streams number their frames (id, 0), (id, 1), ... under one session key and the cipher nonce is reused.
// ck-client's RouteTCP calls OpenStream from one goroutine per accepted connection. The driver releases G goroutines
// from a spin barrier, each opens streams and writes one message per stream; every record is decoded at the wire
// tap and the (stream id, seq) pairs must be pairwise distinct (c13CheckWire: seq-duplicate), the ids handed out
// must be pairwise distinct, and every message must arrive on a stream of its own at the peer.

import (
	"fmt"
	"io"
	"net"
	"runtime"
	"sync"
	"sync/atomic"
	"testing"
	"time"

	kit "github.com/cbeuw/Cloak/internal/verifkit"
	log "github.com/sirupsen/logrus"
)

func TestVerifC13OpenRace(t *testing.T) {
	log.SetOutput(io.Discard)
	log.SetLevel(log.PanicLevel)
	res := kit.NewResult()
	defer func() { res.Save(true) }()
	methods := []byte{EncryptionMethodPlain, EncryptionMethodAES256GCM, EncryptionMethodChaha20Poly1305, EncryptionMethodAES128GCM}
	rounds, perG := 40, 60
	if kit.Thorough() {
		rounds, perG = 400, 100
	}
	for r := 0; r < rounds && res.NumViolations() == 0; r++ {
		g := []int{2, 3, 4, 8, 16, 32}[r%6]
		p := c13NewPair(1+r%3, methods[r%4], kit.Seed()*131+int64(r))
		// the peer accepts and drains
		var accepted atomic.Int64
		go func() {
			for {
				conn, err := p.s.Accept()
				if err != nil {
					return
				}
				accepted.Add(1)
				go func(st *Stream) {
					buf := make([]byte, 64)
					for {
						if _, err := st.Read(buf); err != nil {
							return
						}
					}
				}(conn.(*Stream))
			}
		}()
		var ready, goFlag atomic.Int32
		ids := make([][]uint32, g)
		var wg sync.WaitGroup
		for k := 0; k < g; k++ {
			wg.Add(1)
			go func(k int) {
				defer wg.Done()
				for j := 0; j < perG; j++ {
					if j%10 == 0 { // re-align the callers every few opens
						ready.Add(1)
						for goFlag.Load() <= int32(j/10) {
							runtime.Gosched()
						}
					}
					st, err := p.c.OpenStream()
					if err != nil {
						return
					}
					ids[k] = append(ids[k], st.id)
					st.Write([]byte{byte(k + 1), byte(j), 0x5A})
				}
			}(k)
		}
		for phase := 0; phase*10 < perG; phase++ {
			dl := time.Now().Add(10 * time.Second)
			for int(ready.Load()) < g*(phase+1) && time.Now().Before(dl) {
				runtime.Gosched()
			}
			goFlag.Store(int32(phase + 1))
		}
		wg.Wait()
		total := 0
		seen := map[uint32]int{}
		dup := uint32(0)
		for k := range ids {
			for _, id := range ids[k] {
				total++
				seen[id]++
				if seen[id] == 2 {
					dup = id
				}
			}
		}
		// everything written is on the wire once the calls have returned (the tap runs inside conn.Write)
		p.mu.Lock()
		wire := append([]c13Wire(nil), p.wire...)
		p.mu.Unlock()
		key, what := c13CheckWire(wire, map[string]bool{}, map[string]int{})
		res.Count(fmt.Sprintf("g=%d conns=%d method=%d", g, 1+r%3, methods[r%4]), true)
		res.Stat("open_race_rounds", 1)
		res.Stat("streams_opened", int64(total))
		if key != "" {
			res.Violate(key, fmt.Sprintf("%d goroutines opening streams at once: %s", g, what), map[string]any{"goroutines": g, "round": r, "wire_head": c13WireSummary(wire)})
		} else if dup != 0 {
			res.Violate("seq-duplicate", fmt.Sprintf("%d goroutines opening streams at once: stream id %d was handed to two OpenStream calls; both streams number their frames from 0 under one session key", g, dup),
				map[string]any{"goroutines": g, "round": r})
		}
		if r == 0 {
			res.Sample(map[string]any{"goroutines": g, "streams": total, "distinct_ids": len(seen)}, 1)
		}
		p.close()
	}
}

// c13Sink is a connection that swallows what is written and never delivers anything
type c13Sink struct {
	closed chan struct{}
	once   sync.Once
	n      atomic.Int64
}

func (c *c13Sink) Write(p []byte) (int, error) { c.n.Add(1); return len(p), nil }
func (c *c13Sink) Read(p []byte) (int, error)  { <-c.closed; return 0, io.EOF }
func (c *c13Sink) Close() error                { c.once.Do(func() { close(c.closed) }); return nil }
func (c *c13Sink) LocalAddr() net.Addr         { return &net.TCPAddr{IP: net.IPv4(127, 0, 0, 1), Port: 1} }
func (c *c13Sink) RemoteAddr() net.Addr        { return &net.TCPAddr{IP: net.IPv4(127, 0, 0, 1), Port: 2} }
func (c *c13Sink) SetDeadline(time.Time) error { return nil }
func (c *c13Sink) SetReadDeadline(time.Time) error  { return nil }
func (c *c13Sink) SetWriteDeadline(time.Time) error { return nil }

// TestVerifC13CloseBulk: whether a close reaches the wire must not depend on the random draws inside it (length of the
// closing frame's filler, padding of a stream's first frames): several hundred thousand closes of fresh streams on
// healthy sessions, after 0-4 small writes; every Close must succeed and must have handed exactly one more record to
// the connection. (The sweep above decodes every frame but is too slow for draws rarer than one in a few thousand.)
func TestVerifC13CloseBulk(t *testing.T) {
	log.SetOutput(io.Discard)
	log.SetLevel(log.PanicLevel)
	res := kit.NewResult()
	defer func() { res.Save(true) }()
	total := 480000
	if kit.Thorough() {
		total = 4000000
	}
	workers := runtime.GOMAXPROCS(0)
	methods := []byte{EncryptionMethodPlain, EncryptionMethodAES256GCM, EncryptionMethodChaha20Poly1305, EncryptionMethodAES128GCM}
	var wg sync.WaitGroup
	var done atomic.Int64
	for w := 0; w < workers; w++ {
		wg.Add(1)
		go func(w int) {
			defer wg.Done()
			rng := kit.NewRng(kit.Seed()*977 + int64(w))
			for done.Load() < int64(total) && res.NumViolations() == 0 {
				var key [32]byte
				copy(key[:], rng.Bytes(32))
				o, _ := MakeObfuscator(methods[w%4], key)
				sesh := MakeSession(9, SessionConfig{Obfuscator: o, MsgOnWireSizeLimit: 16401, InactivityTimeout: time.Hour})
				sink := &c13Sink{closed: make(chan struct{})}
				sesh.AddConnection(sink)
				for i := 0; i < 4000; i++ {
					st, err := sesh.OpenStream()
					if err != nil {
						res.Note("OpenStream: %v", err)
						break
					}
					nw := i % 5
					for k := 0; k < nw; k++ {
						st.Write([]byte{byte(k)})
					}
					before := sink.n.Load()
					err = st.Close()
					if err != nil || sink.n.Load() != before+1 {
						res.Violate("close-frame-missing", fmt.Sprintf("Close of a fresh stream (after %d one-byte writes, method %d) on a healthy session: returned %v and handed %d records to the connection, want nil and exactly 1 (the closing frame)",
							nw, methods[w%4], err, sink.n.Load()-before), map[string]any{"writes": nw, "method": methods[w%4], "err": fmt.Sprint(err)})
						break
					}
					done.Add(1)
				}
				sesh.Close()
			}
		}(w)
	}
	wg.Wait()
	res.Count(fmt.Sprintf("bulk-%d", total), true)
	res.Stat("bulk_closes", done.Load())
}
