package multiplex

import "runtime"

// c12Dump returns the stacks of all goroutines (evidence for "blocked" verdicts)
func c12Dump() string {
	buf := make([]byte, 1<<22)
	n := runtime.Stack(buf, true)
	return string(buf[:n])
}
