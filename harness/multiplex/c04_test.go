package multiplex

// C04 - frame encoding round-trips, respects the size limit and keeps the wire format.
// B1: the abstract cases exported by TLC from spec/FrameCodecGen.tla (method x side of the padding
// threshold x pad class x length class x closing x placement) are expanded to concrete calls of the
// real Obfuscator.obfuscate: every payload length of the class, boundary stream ids / sequence
// numbers, random keys, several padding draws. Each output is checked against the real deobfuscate
// and against the independent reference codec kit.RefEncode / kit.RefDecode (both directions).

import (
	"bytes"
	"encoding/hex"
	"encoding/json"
	"fmt"
	"io"
	"math"
	"net"
	"os"
	"runtime"
	"sync"
	"sync/atomic"
	"testing"
	"time"

	kit "github.com/cbeuw/Cloak/internal/verifkit"
	log "github.com/sirupsen/logrus"
)

type c04Case struct {
	Method     string `json:"method"`
	MethodByte int    `json:"methodByte"`
	Tag        int    `json:"tag"`
	Side       string `json:"side"`
	Closing    int    `json:"closing"`
	Place      string `json:"place"`
	LenClass   string `json:"lenClass"`
	PadClass   string `json:"padClass"`
	ExtraMin   int    `json:"extraMin"`
	ExtraMax   int    `json:"extraMax"`
}

func (c *c04Case) sig() string {
	return fmt.Sprintf("%s|%s|%d|%s|%s|%s", c.Method, c.Side, c.Closing, c.Place, c.LenClass, c.PadClass)
}

// c04Limits reads the on-wire limit, the per-frame payload maximum and the send buffer size from the
// code under test, for a session configured as client and server configure it.
func c04Limits() (limit, maxPayload, bufSize int) {
	wire := kit.EnvInt("VERIF_WIRE_LIMIT", 16401)
	sesh := MakeSession(0, SessionConfig{MsgOnWireSizeLimit: wire, InactivityTimeout: 24 * time.Hour})
	return sesh.MsgOnWireSizeLimit, sesh.maxStreamUnitWrite, sesh.streamSendBufferSize
}

func c04Lengths(class string, max int, rng *kit.Rng) []int {
	switch class {
	case "1":
		return []int{1}
	case "max":
		return []int{max}
	case "max-1":
		return []int{max - 1}
	}
	var out []int
	lo, hi := 2, max-2 // "small" = everything strictly between the boundary classes
	if kit.Thorough() || hi-lo < 1200 {
		for n := lo; n <= hi; n++ {
			out = append(out, n)
		}
		return out
	}
	for n := lo; n <= 300; n++ {
		out = append(out, n)
	}
	for n := hi - 300; n <= hi; n++ {
		out = append(out, n)
	}
	for i := 0; i < 500; i++ {
		out = append(out, 301+rng.Intn(hi-300-301))
	}
	return out
}

type c04Input struct {
	Case    c04Case `json:"case"`
	Key     string  `json:"key"`
	Sid     uint32  `json:"sid"`
	Seq     uint64  `json:"seq"`
	Len     int     `json:"len"`
	Tok     uint64  `json:"tok"`
	RefPad  int     `json:"refPad"`
	Limit   int     `json:"limit"`
	BufSize int     `json:"bufSize"`
}

type c04Env struct {
	buf, msg, tmp, pay []byte
	rng                *kit.Rng
	res                *kit.Result
}

func c04FrameEq(g *Frame, sid uint32, seq uint64, closing byte, payload []byte) string {
	if g.StreamID != sid || g.Seq != seq || g.Closing != closing {
		return fmt.Sprintf("decoded header (sid=%d seq=%d closing=%d) differs from the frame sent (sid=%d seq=%d closing=%d)", g.StreamID, g.Seq, g.Closing, sid, seq, closing)
	}
	if !bytes.Equal(g.Payload, payload) {
		return fmt.Sprintf("decoded payload (%d bytes) differs from the payload sent (%d bytes)", len(g.Payload), len(payload))
	}
	return ""
}

// c04One runs one concrete call and every comparison. It returns the violation key ("" = fine).
func c04One(env *c04Env, in *c04Input, verbose bool) (key, what string) {
	say := func(format string, a ...any) {
		if verbose {
			fmt.Printf(format+"\n", a...)
		}
	}
	keyBytes, _ := hex.DecodeString(in.Key)
	var sk [32]byte
	copy(sk[:], keyBytes)
	method := byte(in.Case.MethodByte)
	o, err := MakeObfuscator(method, sk)
	if err != nil {
		return "encode-error", "MakeObfuscator: " + err.Error()
	}
	closing := byte(in.Case.Closing)
	payload := env.pay[:in.Len]
	kit.FillToken(payload, in.Tok)
	buf := env.buf[:in.BufSize]
	for i := range buf {
		buf[i] = 0xEE
	}
	f := &Frame{StreamID: in.Sid, Seq: in.Seq, Closing: closing}
	off := 0
	if in.Case.Place == "in" {
		copy(buf[frameHeaderLength:], payload)
		f.Payload = buf[frameHeaderLength : frameHeaderLength+in.Len]
		off = frameHeaderLength
	} else {
		f.Payload = payload
	}
	n, err := o.obfuscate(f, buf, off)
	say("obfuscate(len=%d, %s) -> n=%d err=%v (limit %d)", in.Len, in.Case.Place, n, err, in.Limit)
	if err != nil {
		return "encode-error", fmt.Sprintf("obfuscate refused a legal frame (payload %d of max, buffer %d): %v", in.Len, in.BufSize, err)
	}
	if n > in.Limit {
		return "size-limit", fmt.Sprintf("encoded message is %d bytes, the on-wire limit is %d (payload %d)", n, in.Limit, in.Len)
	}
	msg := append(env.msg[:0], buf[:n]...)
	// Cloak decodes what Cloak produced
	var g Frame
	tmp := append(env.tmp[:0], msg...)
	if err := o.deobfuscate(&g, tmp); err != nil {
		return "roundtrip:" + in.Case.Place, fmt.Sprintf("deobfuscate rejects obfuscate's own output: %v", err)
	}
	if d := c04FrameEq(&g, in.Sid, in.Seq, closing, payload); d != "" {
		return "roundtrip:" + in.Case.Place, d
	}
	// reference peer decodes what Cloak produced
	rf, err := kit.RefDecodeFull(method, keyBytes, msg)
	if err != nil {
		return "interop:ref-decode", fmt.Sprintf("independent decoder rejects Cloak's message (n=%d, payload %d): %v", n, in.Len, err)
	}
	say("reference decode: sid=%d seq=%d closing=%d extra=%d payload=%d pad=%d", rf.Sid, rf.Seq, rf.Closing, rf.Extra, len(rf.Payload), len(rf.Pad))
	if d := c04FrameEq(&Frame{StreamID: rf.Sid, Seq: rf.Seq, Closing: rf.Closing, Payload: rf.Payload}, in.Sid, in.Seq, closing, payload); d != "" {
		return "interop:ref-decode", "independent decoder: " + d + fmt.Sprintf(" (n=%d extra byte=%d)", n, rf.Extra)
	}
	if int(rf.Extra) < in.Case.ExtraMin || int(rf.Extra) > in.Case.ExtraMax || n != frameHeaderLength+in.Len+int(rf.Extra) {
		return "layout:length", fmt.Sprintf("n=%d, payload %d, extra byte %d: spec demands n = 14+len+extra, %d <= extra <= %d", n, in.Len, rf.Extra, in.Case.ExtraMin, in.Case.ExtraMax)
	}
	// reference peer, given the same padding and nonce bytes, produces the same bytes
	re, err := kit.RefEncode(method, keyBytes, in.Sid, in.Seq, closing, payload, rf.Pad, rf.Trailing)
	if err != nil || !bytes.Equal(re, msg) {
		return "interop:ref-encode", fmt.Sprintf("independent encoder with the same padding/nonce bytes gives different bytes (err=%v, n=%d vs %d)", err, len(re), n)
	}
	say("reference re-encode: identical %d bytes", len(re))
	// Cloak decodes what the reference peer produced with the pad class of the abstract case
	pad := env.rng.Bytes(in.RefPad)
	re2, err := kit.RefEncode(method, keyBytes, in.Sid, in.Seq, closing, payload, pad, env.rng.Bytes(8))
	if err != nil {
		return "", "" // pad class does not fit this method: harness input error, never a verdict
	}
	var g2 Frame
	tmp = append(env.tmp[:0], re2...)
	if err := o.deobfuscate(&g2, tmp); err != nil {
		return "interop:real-decode", fmt.Sprintf("deobfuscate rejects the reference peer's message (pad %d): %v", in.RefPad, err)
	}
	if d := c04FrameEq(&g2, in.Sid, in.Seq, closing, payload); d != "" {
		return "interop:real-decode", fmt.Sprintf("reference peer's message (pad %d): ", in.RefPad) + d
	}
	say("deobfuscate(reference message with pad %d): identical frame", in.RefPad)
	// logged, never decides: where the implementation pads and how much
	padObs := len(rf.Pad)
	cls := "mid"
	if padObs == 0 {
		cls = "0"
	} else if padObs == kit.RefMaxExtra-in.Case.Tag {
		cls = "max"
	}
	env.res.Stat("observed-pad:"+in.Case.Side+":"+cls, 1)
	return "", ""
}

var c04Sids = []uint32{0, 4, 5, math.MaxUint32, 1, 1 << 31}
var c04SeqBelow = []uint64{0, 4, 1, 3}
var c04SeqAbove = []uint64{5, math.MaxUint32, 1 << 32, math.MaxUint64, 6, 1 << 63}

func TestVerifC04Replay(t *testing.T) {
	log.SetOutput(io.Discard)
	res := kit.NewResult()
	defer func() { res.Save(true) }()
	if rp := kit.Env("VERIF_REPLAY", ""); rp != "" {
		c04ReplayFile(t, rp)
		return
	}
	limit, maxPayload, bufSize := c04Limits()
	res.Stat("code:MsgOnWireSizeLimit", int64(limit))
	res.Stat("code:maxStreamUnitWrite", int64(maxPayload))
	res.Stat("code:streamSendBufferSize", int64(bufSize))
	if maxPayload < 8 || bufSize < frameHeaderLength+maxPayload {
		t.Fatalf("implausible constants read from the code: limit=%d max=%d buf=%d", limit, maxPayload, bufSize)
	}
	var cases []c04Case
	err := kit.ReadLines(kit.Env("VERIF_IN", ""), func(line []byte) error {
		var c c04Case
		if err := json.Unmarshal(line, &c); err != nil {
			return err
		}
		cases = append(cases, c)
		return nil
	})
	if err != nil || len(cases) == 0 {
		t.Fatalf("no cases: %v", err)
	}
	type job struct {
		ci   int
		lens []int
	}
	master := kit.NewRng(kit.Seed())
	var jobs []job
	for ci := range cases {
		lens := c04Lengths(cases[ci].LenClass, maxPayload, master)
		for len(lens) > 0 {
			k := 256
			if k > len(lens) {
				k = len(lens)
			}
			jobs = append(jobs, job{ci, lens[:k]})
			lens = lens[k:]
		}
	}
	draws := 3
	ch := make(chan int, len(jobs))
	for i := range jobs {
		ch <- i
	}
	close(ch)
	var wg sync.WaitGroup
	for w := 0; w < runtime.GOMAXPROCS(0); w++ {
		wg.Add(1)
		go func() {
			defer wg.Done()
			env := &c04Env{buf: make([]byte, bufSize), msg: make([]byte, 0, bufSize+512), tmp: make([]byte, 0, bufSize+512),
				pay: make([]byte, maxPayload), res: res}
			for ji := range ch {
				if res.NumViolations() > 60 {
					continue // enough evidence
				}
				j := jobs[ji]
				c := cases[j.ci]
				rng := kit.NewRng(kit.Seed()*1000003 + int64(ji))
				env.rng = rng
				key := hex.EncodeToString(rng.Bytes(32)) // a fresh random session key per job
				refPad := map[string]int{"0": 0, "mid": (kit.RefMaxExtra - c.Tag) / 2, "max": kit.RefMaxExtra - c.Tag}[c.PadClass]
				for li, n := range j.lens {
					for d := 0; d < draws; d++ {
						x := li*draws + d + ji
						in := c04Input{Case: c, Key: key, Len: n, Tok: rng.Uint64(), RefPad: refPad, Limit: limit, BufSize: bufSize}
						in.Sid = c04Sids[x%len(c04Sids)]
						if x%7 == 6 {
							in.Sid = uint32(rng.Uint64())
						}
						if c.Side == "below" {
							in.Seq = c04SeqBelow[x%len(c04SeqBelow)]
						} else {
							in.Seq = c04SeqAbove[x%len(c04SeqAbove)]
							if x%5 == 4 {
								in.Seq = 5 + rng.Uint64()%(math.MaxUint64-5)
							}
						}
						k, what := c04One(env, &in, false)
						res.Count(fmt.Sprintf("%s|%d", c.sig(), n), true)
						if k != "" {
							res.Violate(k, what, in)
						}
					}
				}
				if ji%97 == 0 {
					res.Sample(map[string]any{"case": c, "lengths": fmt.Sprintf("%d..%d (%d)", j.lens[0], j.lens[len(j.lens)-1], len(j.lens)), "draws": draws}, 4)
				}
			}
		}()
	}
	wg.Wait()
	c04ConcurrentStage(res, limit, maxPayload, bufSize, kit.EnvInt("VERIF_C04_ROUNDS", 0), -1)
	c04MixedPlacementStage(res, limit, maxPayload)
	res.Stat("abstract_cases", int64(len(cases)))
	res.Stat("jobs", int64(len(jobs)))
}

// ------------------------------------------------------------------ concurrent first use of a fresh codec

// c04ConcRound is one round: a FRESH Obfuscator (every 16th round the one embedded in a fresh Session, as the
// streams of a session share it) whose first frames are encoded by k goroutines released together.
type c04ConcRound struct {
	o       *Obfuscator
	k       int
	arrived atomic.Int32
	done    sync.WaitGroup
	frames  [8]Frame
	off     [8]int
	n       [8]int
	err     [8]error
}

type c04ConcReplay struct {
	Concurrent bool   `json:"concurrent"`
	Method     int    `json:"method"`
	K          int    `json:"k"`
	Round      int    `json:"round"`
	Worker     int    `json:"worker"`
	Place      string `json:"place"`
	Sid        uint32 `json:"sid"`
	Seq        uint64 `json:"seq"`
	Len        int    `json:"len"`
	N          int    `json:"n"`
	Key        string `json:"key"`
	Msg        string `json:"msg_prefix"`
}

// c04ConcurrentStage: for each method, many fresh codecs x k = 2..8 goroutines encoding their first frame at the
// same instant (spin barrier, persistent workers). Every message must respect the limit and decode to the
// identical frame with the code's own deobfuscate and with the independent reference codec. onlyMethod < 0 = all.
func c04ConcurrentStage(res *kit.Result, limit, maxPayload, bufSize, rounds int, onlyMethod int) {
	if rounds <= 0 {
		rounds = 6000
		if kit.Thorough() {
			rounds = 60000
		}
	}
	const K = 8
	// persistent workers sleep on their channel between rounds (no idle spinning on a shared machine); once woken
	// they meet at a short bounded spin barrier so that they enter obfuscate within nanoseconds of each other
	var chans [K]chan *c04ConcRound
	var wg sync.WaitGroup
	for w := 0; w < K; w++ {
		chans[w] = make(chan *c04ConcRound, 1)
		wg.Add(1)
		go func(w int) {
			defer wg.Done()
			for r := range chans[w] {
				r.arrived.Add(1)
				for spins := 0; r.arrived.Load() < int32(r.k) && spins < 50000; spins++ {
				}
				r.n[w], r.err[w] = r.o.obfuscate(&r.frames[w], c04ConcBufs[w][:bufSize], r.off[w])
				r.done.Done()
			}
		}(w)
	}
	defer func() {
		for w := 0; w < K; w++ {
			close(chans[w])
		}
		wg.Wait()
	}()
	for w := 0; w < K; w++ {
		if len(c04ConcBufs[w]) < bufSize {
			c04ConcBufs[w] = make([]byte, bufSize)
			c04ConcPays[w] = make([]byte, bufSize)
		}
	}
	rng := kit.NewRng(kit.Seed()*31 + 5)
	lens := []int{1, 2, 15, 16, 17, 100, 255, 256, 1024, maxPayload / 2, maxPayload - 1, maxPayload}
	tmp := make([]byte, 0, bufSize+512)
	for method := byte(0); method < 4; method++ {
		if onlyMethod >= 0 && int(method) != onlyMethod {
			continue
		}
		mname := map[byte]string{0: "plain", 1: "aes-256-gcm", 2: "chacha20-poly1305", 3: "aes-128-gcm"}[method]
		bad := 0
		for round := 0; round < rounds && bad < 20; round++ {
			var key [32]byte
			copy(key[:], rng.Bytes(32))
			r := &c04ConcRound{k: 2 + rng.Intn(K-1)}
			if round%4 == 0 {
				r.k = 2 // the narrowest window is between two encoders
			}
			o, err := MakeObfuscator(method, key)
			if err != nil {
				res.Note("concurrent stage: %v", err)
				return
			}
			if round%16 == 15 { // the codec as the streams of a session see it
				sesh := MakeSession(0, SessionConfig{Obfuscator: o, MsgOnWireSizeLimit: limit, InactivityTimeout: 24 * time.Hour})
				r.o = &sesh.Obfuscator
			} else {
				r.o = &o
			}
			for w := 0; w < r.k; w++ {
				n := lens[rng.Intn(len(lens))]
				if rng.Intn(4) > 0 {
					n = lens[rng.Intn(6)] // mostly short frames: the encoders reach the shared state together
				}
				pay := c04ConcPays[w][:n]
				kit.FillToken(pay, uint64(round)<<8|uint64(w))
				seq := uint64(0) // the first frame of a stream
				if rng.Intn(4) == 0 {
					seq = c04SeqAbove[rng.Intn(len(c04SeqAbove))]
				}
				r.frames[w] = Frame{StreamID: uint32(w + 1), Seq: seq, Closing: byte(rng.Intn(3))}
				if (round+w)%2 == 0 { // in place
					copy(c04ConcBufs[w][frameHeaderLength:], pay)
					r.frames[w].Payload = c04ConcBufs[w][frameHeaderLength : frameHeaderLength+n]
					r.off[w] = frameHeaderLength
				} else {
					r.frames[w].Payload = pay
					r.off[w] = 0
				}
			}
			r.done.Add(r.k)
			for w := 0; w < r.k; w++ {
				chans[w] <- r
			}
			r.done.Wait()
			if int(r.arrived.Load()) == r.k {
				res.Stat("concurrent-first-use:rounds-with-all-arrived", 1)
			}
			for w := 0; w < r.k; w++ {
				f := &r.frames[w]
				pay := c04ConcPays[w][:len(f.Payload)]
				place := map[int]string{frameHeaderLength: "in", 0: "out"}[r.off[w]]
				res.Count(fmt.Sprintf("conc|%s|%d|%d|%s", mname, r.k, len(pay), place), true)
				res.Stat("concurrent-first-use:encodes", 1)
				key2, what := "", ""
				msg := c04ConcBufs[w][:max(0, min(r.n[w], bufSize))]
				switch {
				case r.err[w] != nil:
					key2, what = "encode-error", fmt.Sprintf("obfuscate refused a legal first frame: %v", r.err[w])
				case r.n[w] > limit:
					key2, what = "size-limit", fmt.Sprintf("encoded message is %d bytes, the limit is %d", r.n[w], limit)
				default:
					var g Frame
					if err := r.o.deobfuscate(&g, append(tmp[:0], msg...)); err != nil {
						key2, what = "roundtrip:concurrent-first-use", fmt.Sprintf("deobfuscate rejects the message (%d bytes for payload %d): %v", r.n[w], len(pay), err)
					} else if d := c04FrameEq(&g, f.StreamID, f.Seq, f.Closing, pay); d != "" {
						key2, what = "roundtrip:concurrent-first-use", d
					} else if rf, err := kit.RefDecodeFull(method, key[:], msg); err != nil {
						key2, what = "interop:concurrent-first-use", fmt.Sprintf("independent decoder rejects the message (%d bytes for payload %d): %v", r.n[w], len(pay), err)
					} else if d := c04FrameEq(&Frame{StreamID: rf.Sid, Seq: rf.Seq, Closing: rf.Closing, Payload: rf.Payload}, f.StreamID, f.Seq, f.Closing, pay); d != "" {
						key2, what = "interop:concurrent-first-use", "independent decoder: "+d
					}
				}
				if key2 != "" {
					bad++
					what = fmt.Sprintf("%s, fresh codec, %d goroutines encoding their first frame concurrently (round %d, worker %d, %s-place): %s", mname, r.k, round, w, place, what)
					res.Violate(key2, what, c04ConcReplay{Concurrent: true, Method: int(method), K: r.k, Round: round, Worker: w, Place: place, Sid: f.StreamID,
						Seq: f.Seq, Len: len(pay), N: r.n[w], Key: hex.EncodeToString(key[:]), Msg: hex.EncodeToString(msg[:min(len(msg), 64)])})
				}
			}
		}
		res.Stat("concurrent-first-use:rounds:"+mname, int64(rounds))
	}
}

var c04ConcBufs, c04ConcPays [8][]byte

// ------------------------------------------------ both placements used concurrently on ONE stream (Write + ReadFrom)

// c04GateConn is the underlying connection of the sending session: it records every message and can park the
// first Write call until released, which fixes the interleaving "Write holds the stream's write lock while
// ReadFrom receives its data".
type c04GateConn struct {
	parkFirst bool
	entered   chan struct{}
	gate      chan struct{}
	closed    chan struct{}
	once      sync.Once
	mu        sync.Mutex
	calls     int
	msgs      [][]byte
}

func c04NewGateConn(parkFirst bool) *c04GateConn {
	return &c04GateConn{parkFirst: parkFirst, entered: make(chan struct{}, 1), gate: make(chan struct{}), closed: make(chan struct{})}
}

func (c *c04GateConn) Write(b []byte) (int, error) {
	c.mu.Lock()
	c.calls++
	park := c.parkFirst && c.calls == 1
	c.mu.Unlock()
	if park {
		c.entered <- struct{}{}
		select {
		case <-c.gate:
		case <-c.closed:
			return 0, io.ErrClosedPipe
		case <-time.After(30 * time.Second):
		}
	}
	c.mu.Lock()
	c.msgs = append(c.msgs, append([]byte(nil), b...))
	c.mu.Unlock()
	return len(b), nil
}
func (c *c04GateConn) Read(b []byte) (int, error)         { <-c.closed; return 0, io.EOF }
func (c *c04GateConn) Close() error                       { c.once.Do(func() { close(c.closed) }); return nil }
func (c *c04GateConn) LocalAddr() net.Addr                { return &net.TCPAddr{} }
func (c *c04GateConn) RemoteAddr() net.Addr               { return &net.TCPAddr{} }
func (c *c04GateConn) SetDeadline(t time.Time) error      { return nil }
func (c *c04GateConn) SetReadDeadline(t time.Time) error  { return nil }
func (c *c04GateConn) SetWriteDeadline(t time.Time) error { return nil }

// c04ChunkReader hands out one chunk per Read (what ReadFrom encodes in place), io.EOF when the channel is closed.
type c04ChunkReader struct {
	ch        chan []byte
	delivered chan struct{}
}

func (r *c04ChunkReader) Read(p []byte) (int, error) {
	b, ok := <-r.ch
	if !ok {
		return 0, io.EOF
	}
	n := copy(p, b)
	select {
	case r.delivered <- struct{}{}:
	default:
	}
	return n, nil
}

// c04VerifyMixed decodes every wire message with the reference codec and matches the frames, in sequence order,
// against what the calls handed over: Write's bytes (all have the top bit set) cut at the per-frame maximum, and
// ReadFrom's chunks (top bit clear), one frame each.
func c04VerifyMixed(method byte, key []byte, msgs [][]byte, w []byte, chunks [][]byte, max int) (vkey, what string) {
	type fr struct {
		seq uint64
		p   []byte
	}
	var frs []fr
	for i, m := range msgs {
		rf, err := kit.RefDecodeFull(method, key, m)
		if err != nil {
			return "interop:concurrent-write-readfrom", fmt.Sprintf("wire message %d of %d bytes is not decodable by the independent codec: %v", i, len(m), err)
		}
		if rf.Closing != 0 {
			continue
		}
		frs = append(frs, fr{rf.Seq, rf.Payload})
	}
	for i := range frs { // insertion sort by sequence number
		for j := i; j > 0 && frs[j].seq < frs[j-1].seq; j-- {
			frs[j], frs[j-1] = frs[j-1], frs[j]
		}
	}
	wOff, rIdx := 0, 0
	for _, f := range frs {
		p := f.p
		if wOff < len(w) && len(p) <= len(w)-wOff && bytes.Equal(p, w[wOff:wOff+len(p)]) && (len(p) == max || wOff+len(p) == len(w)) {
			wOff += len(p)
			continue
		}
		if rIdx < len(chunks) && bytes.Equal(p, chunks[rIdx]) {
			rIdx++
			continue
		}
		hi := 0
		for _, b := range p {
			if b&0x80 != 0 {
				hi++
			}
		}
		nextR := -1
		if rIdx < len(chunks) {
			nextR = len(chunks[rIdx])
		}
		pre := 0
		if rIdx < len(chunks) {
			for pre < len(p) && pre < len(chunks[rIdx]) && p[pre] == chunks[rIdx][pre] {
				pre++
			}
		}
		return "placement:concurrent-write-readfrom", fmt.Sprintf("frame seq %d decodes to %d bytes (%d look like Write's data, %d like ReadFrom's/stale; first %d bytes match ReadFrom's next chunk) "+
			"but the calls handed over: next part of Write's buffer (%d of %d bytes sent so far) or ReadFrom's next chunk of %d bytes", f.seq, len(p), hi, len(p)-hi, pre, wOff, len(w), nextR)
	}
	if wOff != len(w) || rIdx != len(chunks) {
		return "placement:concurrent-write-readfrom", fmt.Sprintf("not everything handed over is on the wire: %d of %d bytes of Write's data, %d of %d ReadFrom chunks (%d frames)", wOff, len(w), rIdx, len(chunks), len(frs))
	}
	return "", ""
}

// c04MixedPlacementStage: on ONE stream a multi-frame Write (encoded from the caller's buffer) and a ReadFrom
// (encoded in place) run concurrently - once with the interleaving forced by the gated connection, then
// free-running. Every wire message must decode, with the independent codec, to what the calls handed over.
func c04MixedPlacementStage(res *kit.Result, limit, maxPayload int) {
	rng := kit.NewRng(kit.Seed()*977 + 3)
	rounds := 40
	if kit.Thorough() {
		rounds = 400
	}
	tagged := func(n int, hi bool) []byte {
		b := rng.Bytes(n)
		for i := range b {
			if hi {
				b[i] |= 0x80
			} else {
				b[i] &= 0x7f
			}
		}
		return b
	}
	for method := byte(0); method < 4; method++ {
		mname := map[byte]string{0: "plain", 1: "aes-256-gcm", 2: "chacha20-poly1305", 3: "aes-128-gcm"}[method]
		bad := 0
		for round := 0; round <= rounds && bad < 3; round++ {
			gated := round == 0
			var key [32]byte
			copy(key[:], rng.Bytes(32))
			o, err := MakeObfuscator(method, key)
			if err != nil {
				return
			}
			sesh := MakeSession(0, SessionConfig{Obfuscator: o, MsgOnWireSizeLimit: limit, InactivityTimeout: 24 * time.Hour})
			conn := c04NewGateConn(gated)
			sesh.AddConnection(conn)
			st, err := sesh.OpenStream()
			if err != nil {
				res.Note("mixed stage: %v", err)
				return
			}
			var w []byte
			var chunks [][]byte
			if gated {
				w = tagged(maxPayload+800, true)
				chunks = [][]byte{tagged(500, false)}
			} else {
				w = tagged((1+rng.Intn(5))*maxPayload+1+rng.Intn(3000), true)
				for i := 2 + rng.Intn(6); i > 0; i-- {
					n := 1 + rng.Intn(2000)
					if rng.Intn(5) == 0 {
						n = maxPayload - rng.Intn(3)
					}
					chunks = append(chunks, tagged(n, false))
				}
			}
			rd := &c04ChunkReader{ch: make(chan []byte, len(chunks)), delivered: make(chan struct{}, len(chunks))}
			wDone, rDone := make(chan error, 1), make(chan error, 1)
			timeout := func(what string) {
				res.Note("mixed stage (%s, round %d): timed out waiting for %s - stage abandoned, no verdict", mname, round, what)
				res.Stat("mixed-placement:timeouts", 1)
				conn.Close()
			}
			go func() { _, err := st.Write(w); wDone <- err }()
			if gated {
				select {
				case <-conn.entered: // Write's first frame is parked in the connection; Write holds the write lock
				case <-time.After(20 * time.Second):
					timeout("the first frame of Write")
					return
				}
			}
			go func() {
				_, err := st.ReadFrom(rd)
				if err == io.EOF {
					err = nil
				}
				rDone <- err
			}()
			for _, c := range chunks {
				rd.ch <- c
			}
			if gated {
				select {
				case <-rd.delivered: // ReadFrom has its data and now needs the write lock
				case <-time.After(20 * time.Second):
					timeout("ReadFrom to take its data")
					return
				}
				time.Sleep(30 * time.Millisecond)
				close(conn.gate)
			}
			var wErr, rErr error
			select {
			case wErr = <-wDone:
			case <-time.After(30 * time.Second):
				timeout("Write to return")
				return
			}
			// all chunks must have been taken before the reader reports EOF
			for deadline := time.Now().Add(30 * time.Second); len(rd.ch) > 0 && time.Now().Before(deadline); {
				time.Sleep(200 * time.Microsecond)
			}
			close(rd.ch)
			select {
			case rErr = <-rDone:
			case <-time.After(30 * time.Second):
				timeout("ReadFrom to return")
				return
			}
			conn.mu.Lock()
			msgs := conn.msgs
			conn.mu.Unlock()
			conn.Close()
			res.Count(fmt.Sprintf("mixed|%s|%v|%d|%d", mname, gated, len(w)/maxPayload, len(chunks)), true)
			res.Stat("mixed-placement:rounds", 1)
			res.Stat("mixed-placement:wire-messages", int64(len(msgs)))
			if wErr != nil || rErr != nil {
				res.Note("mixed stage (%s, round %d): Write err=%v ReadFrom err=%v", mname, round, wErr, rErr)
				res.Stat("mixed-placement:call-errors", 1)
				continue
			}
			if k, what := c04VerifyMixed(method, key[:], msgs, w, chunks, maxPayload); k != "" {
				bad++
				mode := "free-running"
				if gated {
					mode = "Write's first frame parked in the connection while ReadFrom took its data"
				}
				lens := []int{}
				for _, c := range chunks {
					lens = append(lens, len(c))
				}
				res.Violate(k, fmt.Sprintf("%s, one stream, Write(%d bytes) and ReadFrom(chunks %v) concurrently (%s): %s", mname, len(w), lens, mode, what),
					c04ConcReplay{Concurrent: true, Method: int(method), Round: round, Place: "mixed", Len: len(w), Key: hex.EncodeToString(key[:])})
			}
		}
	}
}

// TestVerifC04Concurrent runs only the concurrent first-use stage (used for the -race run).
func TestVerifC04Concurrent(t *testing.T) {
	log.SetOutput(io.Discard)
	res := kit.NewResult()
	defer func() { res.Save(true) }()
	limit, maxPayload, bufSize := c04Limits()
	c04ConcurrentStage(res, limit, maxPayload, bufSize, kit.EnvInt("VERIF_C04_ROUNDS", 0), -1)
	c04MixedPlacementStage(res, limit, maxPayload)
}

func c04ReplayFile(t *testing.T, path string) {
	var cr struct {
		Replay c04ConcReplay `json:"replay"`
	}
	if raw, err := os.ReadFile(path); err == nil && json.Unmarshal(raw, &cr) == nil && cr.Replay.Concurrent {
		// a schedule cannot be replayed: re-run the stage for that method until the failure shows again
		limit, maxPayload, bufSize := c04Limits()
		res := kit.NewResult()
		fmt.Printf("recorded: method %d, %d goroutines, payload %d, %s-place, message of %d bytes: %s...\n", cr.Replay.Method, cr.Replay.K, cr.Replay.Len, cr.Replay.Place, cr.Replay.N, cr.Replay.Msg)
		if cr.Replay.Place == "mixed" {
			c04MixedPlacementStage(res, limit, maxPayload)
		} else {
			c04ConcurrentStage(res, limit, maxPayload, bufSize, 200000, cr.Replay.Method)
		}
		res.Save(false)
		for _, v := range res.Violations {
			fmt.Printf("key=%q what=%q\n", v.Key, v.What)
		}
		fmt.Printf("REPLAY-RESULT violations=%d\n", res.NumViolations())
		return
	}

	var rf struct {
		Replay c04Input `json:"replay"`
	}
	raw, err := os.ReadFile(path)
	if err != nil {
		t.Fatal(err)
	}
	if err := json.Unmarshal(raw, &rf); err != nil {
		t.Fatal(err)
	}
	in := rf.Replay
	limit, maxPayload, bufSize := c04Limits()
	fmt.Printf("constants read from the code: limit=%d maxPayload=%d sendBuffer=%d\n", limit, maxPayload, bufSize)
	in.Limit, in.BufSize = limit, bufSize
	if in.Len > bufSize {
		t.Fatalf("payload length %d does not fit", in.Len)
	}
	env := &c04Env{buf: make([]byte, bufSize), msg: make([]byte, 0, bufSize+512), tmp: make([]byte, 0, bufSize+512),
		pay: make([]byte, bufSize), res: kit.NewResult(), rng: kit.NewRng(kit.Seed())}
	last := ""
	for d := 0; d < 200; d++ { // the padding is drawn inside obfuscate: repeat until the failure shows
		k, what := c04One(env, &in, d == 0)
		if k != "" {
			fmt.Printf("draw %d: key=%q what=%q\n", d, k, what)
			last = k
			break
		}
	}
	fmt.Printf("REPLAY-RESULT key=%q\n", last)
}
