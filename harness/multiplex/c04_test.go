package multiplex

// C04 - frame encoding round-trips, respects the size limit and keeps the wire format.
// B1: the abstract cases exported by TLC from spec/FrameCodecGen.tla (method x side of the padding
// threshold x pad class x length class x closing x placement) are expanded to concrete calls of the
// real Obfuscator.obfuscate: every payload length of the class, boundary stream ids / sequence
// numbers, random keys, several padding draws. Each output is checked against the real deobfuscate
// and against the independent reference codec kit.RefEncode / kit.RefDecode (both directions).

import (
	"bytes"
	"encoding/hex"
	"encoding/json"
	"fmt"
	"io"
	"math"
	"os"
	"runtime"
	"sync"
	"testing"
	"time"

	kit "github.com/cbeuw/Cloak/internal/verifkit"
	log "github.com/sirupsen/logrus"
)

type c04Case struct {
	Method     string `json:"method"`
	MethodByte int    `json:"methodByte"`
	Tag        int    `json:"tag"`
	Side       string `json:"side"`
	Closing    int    `json:"closing"`
	Place      string `json:"place"`
	LenClass   string `json:"lenClass"`
	PadClass   string `json:"padClass"`
	ExtraMin   int    `json:"extraMin"`
	ExtraMax   int    `json:"extraMax"`
}

func (c *c04Case) sig() string {
	return fmt.Sprintf("%s|%s|%d|%s|%s|%s", c.Method, c.Side, c.Closing, c.Place, c.LenClass, c.PadClass)
}

// c04Limits reads the on-wire limit, the per-frame payload maximum and the send buffer size from the
// code under test, for a session configured as client and server configure it.
func c04Limits() (limit, maxPayload, bufSize int) {
	wire := kit.EnvInt("VERIF_WIRE_LIMIT", 16401)
	sesh := MakeSession(0, SessionConfig{MsgOnWireSizeLimit: wire, InactivityTimeout: 24 * time.Hour})
	return sesh.MsgOnWireSizeLimit, sesh.maxStreamUnitWrite, sesh.streamSendBufferSize
}

func c04Lengths(class string, max int, rng *kit.Rng) []int {
	switch class {
	case "1":
		return []int{1}
	case "max":
		return []int{max}
	case "max-1":
		return []int{max - 1}
	}
	var out []int
	lo, hi := 2, max-2 // "small" = everything strictly between the boundary classes
	if kit.Thorough() || hi-lo < 1200 {
		for n := lo; n <= hi; n++ {
			out = append(out, n)
		}
		return out
	}
	for n := lo; n <= 300; n++ {
		out = append(out, n)
	}
	for n := hi - 300; n <= hi; n++ {
		out = append(out, n)
	}
	for i := 0; i < 500; i++ {
		out = append(out, 301+rng.Intn(hi-300-301))
	}
	return out
}

type c04Input struct {
	Case    c04Case `json:"case"`
	Key     string  `json:"key"`
	Sid     uint32  `json:"sid"`
	Seq     uint64  `json:"seq"`
	Len     int     `json:"len"`
	Tok     uint64  `json:"tok"`
	RefPad  int     `json:"refPad"`
	Limit   int     `json:"limit"`
	BufSize int     `json:"bufSize"`
}

type c04Env struct {
	buf, msg, tmp, pay []byte
	rng                *kit.Rng
	res                *kit.Result
}

func c04FrameEq(g *Frame, sid uint32, seq uint64, closing byte, payload []byte) string {
	if g.StreamID != sid || g.Seq != seq || g.Closing != closing {
		return fmt.Sprintf("decoded header (sid=%d seq=%d closing=%d) differs from the frame sent (sid=%d seq=%d closing=%d)", g.StreamID, g.Seq, g.Closing, sid, seq, closing)
	}
	if !bytes.Equal(g.Payload, payload) {
		return fmt.Sprintf("decoded payload (%d bytes) differs from the payload sent (%d bytes)", len(g.Payload), len(payload))
	}
	return ""
}

// c04One runs one concrete call and every comparison. It returns the violation key ("" = fine).
func c04One(env *c04Env, in *c04Input, verbose bool) (key, what string) {
	say := func(format string, a ...any) {
		if verbose {
			fmt.Printf(format+"\n", a...)
		}
	}
	keyBytes, _ := hex.DecodeString(in.Key)
	var sk [32]byte
	copy(sk[:], keyBytes)
	method := byte(in.Case.MethodByte)
	o, err := MakeObfuscator(method, sk)
	if err != nil {
		return "encode-error", "MakeObfuscator: " + err.Error()
	}
	closing := byte(in.Case.Closing)
	payload := env.pay[:in.Len]
	kit.FillToken(payload, in.Tok)
	buf := env.buf[:in.BufSize]
	for i := range buf {
		buf[i] = 0xEE
	}
	f := &Frame{StreamID: in.Sid, Seq: in.Seq, Closing: closing}
	off := 0
	if in.Case.Place == "in" {
		copy(buf[frameHeaderLength:], payload)
		f.Payload = buf[frameHeaderLength : frameHeaderLength+in.Len]
		off = frameHeaderLength
	} else {
		f.Payload = payload
	}
	n, err := o.obfuscate(f, buf, off)
	say("obfuscate(len=%d, %s) -> n=%d err=%v (limit %d)", in.Len, in.Case.Place, n, err, in.Limit)
	if err != nil {
		return "encode-error", fmt.Sprintf("obfuscate refused a legal frame (payload %d of max, buffer %d): %v", in.Len, in.BufSize, err)
	}
	if n > in.Limit {
		return "size-limit", fmt.Sprintf("encoded message is %d bytes, the on-wire limit is %d (payload %d)", n, in.Limit, in.Len)
	}
	msg := append(env.msg[:0], buf[:n]...)
	// Cloak decodes what Cloak produced
	var g Frame
	tmp := append(env.tmp[:0], msg...)
	if err := o.deobfuscate(&g, tmp); err != nil {
		return "roundtrip:" + in.Case.Place, fmt.Sprintf("deobfuscate rejects obfuscate's own output: %v", err)
	}
	if d := c04FrameEq(&g, in.Sid, in.Seq, closing, payload); d != "" {
		return "roundtrip:" + in.Case.Place, d
	}
	// reference peer decodes what Cloak produced
	rf, err := kit.RefDecodeFull(method, keyBytes, msg)
	if err != nil {
		return "interop:ref-decode", fmt.Sprintf("independent decoder rejects Cloak's message (n=%d, payload %d): %v", n, in.Len, err)
	}
	say("reference decode: sid=%d seq=%d closing=%d extra=%d payload=%d pad=%d", rf.Sid, rf.Seq, rf.Closing, rf.Extra, len(rf.Payload), len(rf.Pad))
	if d := c04FrameEq(&Frame{StreamID: rf.Sid, Seq: rf.Seq, Closing: rf.Closing, Payload: rf.Payload}, in.Sid, in.Seq, closing, payload); d != "" {
		return "interop:ref-decode", "independent decoder: " + d + fmt.Sprintf(" (n=%d extra byte=%d)", n, rf.Extra)
	}
	if int(rf.Extra) < in.Case.ExtraMin || int(rf.Extra) > in.Case.ExtraMax || n != frameHeaderLength+in.Len+int(rf.Extra) {
		return "layout:length", fmt.Sprintf("n=%d, payload %d, extra byte %d: spec demands n = 14+len+extra, %d <= extra <= %d", n, in.Len, rf.Extra, in.Case.ExtraMin, in.Case.ExtraMax)
	}
	// reference peer, given the same padding and nonce bytes, produces the same bytes
	re, err := kit.RefEncode(method, keyBytes, in.Sid, in.Seq, closing, payload, rf.Pad, rf.Trailing)
	if err != nil || !bytes.Equal(re, msg) {
		return "interop:ref-encode", fmt.Sprintf("independent encoder with the same padding/nonce bytes gives different bytes (err=%v, n=%d vs %d)", err, len(re), n)
	}
	say("reference re-encode: identical %d bytes", len(re))
	// Cloak decodes what the reference peer produced with the pad class of the abstract case
	pad := env.rng.Bytes(in.RefPad)
	re2, err := kit.RefEncode(method, keyBytes, in.Sid, in.Seq, closing, payload, pad, env.rng.Bytes(8))
	if err != nil {
		return "", "" // pad class does not fit this method: harness input error, never a verdict
	}
	var g2 Frame
	tmp = append(env.tmp[:0], re2...)
	if err := o.deobfuscate(&g2, tmp); err != nil {
		return "interop:real-decode", fmt.Sprintf("deobfuscate rejects the reference peer's message (pad %d): %v", in.RefPad, err)
	}
	if d := c04FrameEq(&g2, in.Sid, in.Seq, closing, payload); d != "" {
		return "interop:real-decode", fmt.Sprintf("reference peer's message (pad %d): ", in.RefPad) + d
	}
	say("deobfuscate(reference message with pad %d): identical frame", in.RefPad)
	// logged, never decides: where the implementation pads and how much
	padObs := len(rf.Pad)
	cls := "mid"
	if padObs == 0 {
		cls = "0"
	} else if padObs == kit.RefMaxExtra-in.Case.Tag {
		cls = "max"
	}
	env.res.Stat("observed-pad:"+in.Case.Side+":"+cls, 1)
	return "", ""
}

var c04Sids = []uint32{0, 4, 5, math.MaxUint32, 1, 1 << 31}
var c04SeqBelow = []uint64{0, 4, 1, 3}
var c04SeqAbove = []uint64{5, math.MaxUint32, 1 << 32, math.MaxUint64, 6, 1 << 63}

func TestVerifC04Replay(t *testing.T) {
	log.SetOutput(io.Discard)
	res := kit.NewResult()
	defer func() { res.Save(true) }()
	if rp := kit.Env("VERIF_REPLAY", ""); rp != "" {
		c04ReplayFile(t, rp)
		return
	}
	limit, maxPayload, bufSize := c04Limits()
	res.Stat("code:MsgOnWireSizeLimit", int64(limit))
	res.Stat("code:maxStreamUnitWrite", int64(maxPayload))
	res.Stat("code:streamSendBufferSize", int64(bufSize))
	if maxPayload < 8 || bufSize < frameHeaderLength+maxPayload {
		t.Fatalf("implausible constants read from the code: limit=%d max=%d buf=%d", limit, maxPayload, bufSize)
	}
	var cases []c04Case
	err := kit.ReadLines(kit.Env("VERIF_IN", ""), func(line []byte) error {
		var c c04Case
		if err := json.Unmarshal(line, &c); err != nil {
			return err
		}
		cases = append(cases, c)
		return nil
	})
	if err != nil || len(cases) == 0 {
		t.Fatalf("no cases: %v", err)
	}
	type job struct {
		ci   int
		lens []int
	}
	master := kit.NewRng(kit.Seed())
	var jobs []job
	for ci := range cases {
		lens := c04Lengths(cases[ci].LenClass, maxPayload, master)
		for len(lens) > 0 {
			k := 256
			if k > len(lens) {
				k = len(lens)
			}
			jobs = append(jobs, job{ci, lens[:k]})
			lens = lens[k:]
		}
	}
	draws := 3
	ch := make(chan int, len(jobs))
	for i := range jobs {
		ch <- i
	}
	close(ch)
	var wg sync.WaitGroup
	for w := 0; w < runtime.GOMAXPROCS(0); w++ {
		wg.Add(1)
		go func() {
			defer wg.Done()
			env := &c04Env{buf: make([]byte, bufSize), msg: make([]byte, 0, bufSize+512), tmp: make([]byte, 0, bufSize+512),
				pay: make([]byte, maxPayload), res: res}
			for ji := range ch {
				if res.NumViolations() > 60 {
					continue // enough evidence
				}
				j := jobs[ji]
				c := cases[j.ci]
				rng := kit.NewRng(kit.Seed()*1000003 + int64(ji))
				env.rng = rng
				key := hex.EncodeToString(rng.Bytes(32)) // a fresh random session key per job
				refPad := map[string]int{"0": 0, "mid": (kit.RefMaxExtra - c.Tag) / 2, "max": kit.RefMaxExtra - c.Tag}[c.PadClass]
				for li, n := range j.lens {
					for d := 0; d < draws; d++ {
						x := li*draws + d + ji
						in := c04Input{Case: c, Key: key, Len: n, Tok: rng.Uint64(), RefPad: refPad, Limit: limit, BufSize: bufSize}
						in.Sid = c04Sids[x%len(c04Sids)]
						if x%7 == 6 {
							in.Sid = uint32(rng.Uint64())
						}
						if c.Side == "below" {
							in.Seq = c04SeqBelow[x%len(c04SeqBelow)]
						} else {
							in.Seq = c04SeqAbove[x%len(c04SeqAbove)]
							if x%5 == 4 {
								in.Seq = 5 + rng.Uint64()%(math.MaxUint64-5)
							}
						}
						k, what := c04One(env, &in, false)
						res.Count(fmt.Sprintf("%s|%d", c.sig(), n), true)
						if k != "" {
							res.Violate(k, what, in)
						}
					}
				}
				if ji%97 == 0 {
					res.Sample(map[string]any{"case": c, "lengths": fmt.Sprintf("%d..%d (%d)", j.lens[0], j.lens[len(j.lens)-1], len(j.lens)), "draws": draws}, 4)
				}
			}
		}()
	}
	wg.Wait()
	res.Stat("abstract_cases", int64(len(cases)))
	res.Stat("jobs", int64(len(jobs)))
}

func c04ReplayFile(t *testing.T, path string) {
	var rf struct {
		Replay c04Input `json:"replay"`
	}
	raw, err := os.ReadFile(path)
	if err != nil {
		t.Fatal(err)
	}
	if err := json.Unmarshal(raw, &rf); err != nil {
		t.Fatal(err)
	}
	in := rf.Replay
	limit, maxPayload, bufSize := c04Limits()
	fmt.Printf("constants read from the code: limit=%d maxPayload=%d sendBuffer=%d\n", limit, maxPayload, bufSize)
	in.Limit, in.BufSize = limit, bufSize
	if in.Len > bufSize {
		t.Fatalf("payload length %d does not fit", in.Len)
	}
	env := &c04Env{buf: make([]byte, bufSize), msg: make([]byte, 0, bufSize+512), tmp: make([]byte, 0, bufSize+512),
		pay: make([]byte, bufSize), res: kit.NewResult(), rng: kit.NewRng(kit.Seed())}
	last := ""
	for d := 0; d < 200; d++ { // the padding is drawn inside obfuscate: repeat until the failure shows
		k, what := c04One(env, &in, d == 0)
		if k != "" {
			fmt.Printf("draw %d: key=%q what=%q\n", d, k, what)
			last = k
			break
		}
	}
	fmt.Printf("REPLAY-RESULT key=%q\n", last)
}
