package multiplex

// C03, wake-up race (B2): "once a side has processed the peer's close, its blocked reads return". Mux.tla's ReadWake is
// immediate; in the code it depends on the reader's check-then-wait and the closer's flag-then-broadcast excluding each
// other. Real goroutines: a reader enters Read on an empty stream while the closing frame (or a local Close) is
// processed at a swept offset around that instant; the reader must return the data written before and then the error.

import (
	"bytes"
	"errors"
	"fmt"
	"io"
	"net"
	"runtime"
	"strings"
	"sync"
	"sync/atomic"
	"testing"
	"time"

	kit "github.com/cbeuw/Cloak/internal/verifkit"
	log "github.com/sirupsen/logrus"
)

func TestVerifC03WakeRace(t *testing.T) {
	log.SetOutput(io.Discard)
	log.SetLevel(log.PanicLevel)
	res := kit.NewResult()
	defer func() { res.Save(true) }()
	budget := 8 * time.Second
	if kit.Thorough() {
		budget = 90 * time.Second
	}
	deadline := time.Now().Add(budget)
	workers := 6
	var wg sync.WaitGroup
	var mu sync.Mutex
	trials, stuck := 0, 0
	for wk := 0; wk < workers; wk++ {
		wg.Add(1)
		go func(wk int) {
			defer wg.Done()
			rng := kit.NewRng(kit.Seed()*100 + int64(wk))
			var key [32]byte
			o, _ := MakeObfuscator(EncryptionMethodPlain, key)
			sesh := MakeSession(4, SessionConfig{Obfuscator: o, MsgOnWireSizeLimit: 16401, InactivityTimeout: time.Hour, Unordered: wk%3 == 2})
			// one connection into the void, so that a local Close can send its closing frame
			link := kit.NewVNet().NewLink(false, true)
			sesh.AddConnection(link.End(0))
			go func() {
				b := make([]byte, 20480)
				for {
					if _, err := link.End(1).Read(b); err != nil {
						return
					}
				}
			}()
			defer link.Fail()
			mkFrame := func(f *Frame) []byte {
				buf := make([]byte, 600)
				n, _ := sesh.obfuscate(f, buf, 0)
				return buf[:n]
			}
			for id := uint32(1); time.Now().Before(deadline); id++ {
				mu.Lock()
				if stuck > 2 {
					mu.Unlock()
					return
				}
				mu.Unlock()
				data := mkFrame(&Frame{StreamID: id, Seq: 0, Payload: []byte("hello")})
				closing := mkFrame(&Frame{StreamID: id, Seq: 1, Closing: closingStream, Payload: []byte{9}})
				sesh.recvDataFromRemote(data)
				conn, err := sesh.Accept()
				if err != nil {
					return
				}
				st := conn.(*Stream)
				local := rng.Intn(3) == 0 // a local Close instead of the peer's closing frame
				type rr struct {
					got []byte
					err error
				}
				out := make(chan rr, 1)
				var start atomic.Uint32
				readerSpin, closerSpin := rng.Intn(3000), rng.Intn(3000)
				go func() {
					for start.Load() == 0 {
					}
					for i := 0; i < readerSpin; i++ {
						_ = start.Load()
					}
					var got []byte
					buf := make([]byte, 64)
					for {
						n, err := st.Read(buf) // first the buffered data, then into the wait
						got = append(got, buf[:n]...)
						if err != nil {
							out <- rr{got, err}
							return
						}
					}
				}()
				runtime.Gosched()
				start.Store(1)
				for i := 0; i < closerSpin; i++ {
					_ = start.Load()
				}
				if local {
					st.Close()
				} else {
					sesh.recvDataFromRemote(closing)
				}
				mu.Lock()
				trials++
				mu.Unlock()
				select {
				case r := <-out:
					if !errors.Is(r.err, ErrBrokenStream) {
						res.Violate("eof-missing", fmt.Sprintf("reader got %v instead of the broken-stream error after the close", r.err), nil)
					} else if !local && string(r.got) != "hello" {
						res.Violate("bytes-missing", fmt.Sprintf("reader got %q before the end of the stream, the peer wrote \"hello\" before closing", r.got), nil)
					}
				case <-time.After(3 * time.Second):
					// evidence, not a timer: the stream is closed and the reader sits in the pipe's condition wait
					dump := c12Dump()
					parked := false
					for _, g := range strings.Split(dump, "\n\n") {
						if strings.Contains(g, "sync.(*Cond).Wait") && (strings.Contains(g, "streamBufferedPipe).Read") || strings.Contains(g, "datagramBufferedPipe).Read")) {
							parked = true
						}
					}
					if !st.isClosed() || !parked {
						res.Note("a reader did not return within 3 s but the lost wake-up is not evident (closed=%v parked=%v): not judged", st.isClosed(), parked)
						res.Stat("unjudged", 1)
						st.SetReadDeadline(time.Now().Add(-time.Second))
						continue
					}
					mu.Lock()
					stuck++
					mu.Unlock()
					res.Violate("read-blocked", fmt.Sprintf("a Read that was entering its wait while the close (local=%v) was processed is still parked in the buffer's condition wait 3 s after the stream was closed: lost wake-up", local),
						map[string]any{"local_close": local, "unordered": sesh.Unordered})
					st.SetReadDeadline(time.Now().Add(-time.Second))
				}
			}
			sesh.Close()
		}(wk)
	}
	wg.Wait()
	res.Count("wake-race", true)
	res.Count("wake-race-local", true)
	res.Stat("trials", int64(trials))
	res.Sample(map[string]any{"trials": trials, "stuck_readers": stuck}, 1)
}

// c03GateConn wraps a connection; while its gate is shut, Write parks (a full socket buffer: back-pressure).
type c03GateConn struct {
	net.Conn
	mu   sync.Mutex
	shut chan struct{} // non-nil and open while the gate is shut
	in   atomic.Int32  // writers parked at the gate
}

func (g *c03GateConn) Write(b []byte) (int, error) {
	g.mu.Lock()
	ch := g.shut
	g.mu.Unlock()
	if ch != nil {
		g.in.Add(1)
		<-ch
		g.in.Add(-1)
	}
	return g.Conn.Write(b)
}
func (g *c03GateConn) Shut() { g.mu.Lock(); g.shut = make(chan struct{}); g.mu.Unlock() }
func (g *c03GateConn) Open() {
	g.mu.Lock()
	if g.shut != nil {
		close(g.shut)
		g.shut = nil
	}
	g.mu.Unlock()
}

// TestVerifC03Queued: two schedules around one stream that need a sender stalled in the connection.
//
//	(A) acknowledged write behind a close: W1 = Write(A) is stalled in the connection (it holds the stream's write
//	    critical section), Close is called and queues up, then W2 = Write(B) is called and queues up behind it. When
//	    the connection drains: whatever W2 returned, the peer must read A, then B if and only if W2 reported success,
//	    then the end of the stream. A Write that reports success for bytes the peer never gets is the violation.
//	(B) the peer's close arrives while a local Write on that stream is stalled in the connection: the local reader
//	    parked in Read must still be released (the receiving side does not need the sender's critical section), and
//	    frames of other streams arriving on that connection afterwards must still be delivered.
//
// Real goroutines, no bubble; a reader that does not return is only a verdict with a goroutine dump showing the
// receiving goroutine waiting for a lock inside the stream's close path (otherwise "unjudged").
func TestVerifC03Queued(t *testing.T) {
	log.SetOutput(io.Discard)
	log.SetLevel(log.PanicLevel)
	res := kit.NewResult()
	defer func() { res.Save(true) }()
	rounds := 12
	if kit.Thorough() {
		rounds = 120
	}
	methods := []byte{EncryptionMethodPlain, EncryptionMethodAES256GCM, EncryptionMethodChaha20Poly1305, EncryptionMethodAES128GCM}
	mkPair := func(r int) (*Session, *Session, *c03GateConn, func()) {
		var key [32]byte
		copy(key[:], kit.NewRng(kit.Seed()*13+int64(r)).Bytes(32))
		mk := func() *Session {
			o, _ := MakeObfuscator(methods[r%4], key)
			return MakeSession(5, SessionConfig{Obfuscator: o, MsgOnWireSizeLimit: 16401, InactivityTimeout: time.Hour})
		}
		a, b := mk(), mk()
		l := kit.NewVNet().NewLink(false, true) // message mode: one Write = one Read, as the record layer provides
		g := &c03GateConn{Conn: l.End(0)}
		a.AddConnection(g)
		b.AddConnection(l.End(1))
		return a, b, g, func() { g.Open(); a.Close(); b.Close(); l.Fail() }
	}
	waitParked := func(g *c03GateConn, n int32) bool {
		for i := 0; i < 2000; i++ {
			if g.in.Load() >= n {
				return true
			}
			time.Sleep(time.Millisecond)
		}
		return false
	}
	for r := 0; r < rounds && res.NumViolations() < 3; r++ {
		// ---------------------------------------------------------------- (A)
		a, b, g, done := mkPair(r)
		st, err := a.OpenStream()
		if err != nil {
			t.Fatal(err)
		}
		st.Write([]byte("0"))
		conn, err := b.Accept()
		if err != nil {
			t.Fatal(err)
		}
		peer := conn.(*Stream)
		type rd struct {
			data []byte
			err  error
		}
		got := make(chan rd, 1)
		go func() {
			var all []byte
			buf := make([]byte, 65536)
			for {
				peer.SetReadDeadline(time.Now().Add(20 * time.Second))
				n, err := peer.Read(buf)
				all = append(all, buf[:n]...)
				if err != nil {
					got <- rd{all, err}
					return
				}
			}
		}()
		A := bytes.Repeat([]byte{'A'}, 100+r)
		B := bytes.Repeat([]byte{'B'}, 50+r)
		g.Shut()
		w1 := make(chan error, 1)
		go func() { _, err := st.Write(A); w1 <- err }()
		if !waitParked(g, 1) {
			res.Stat("unjudged", 1)
			done()
			continue
		}
		cl := make(chan error, 1)
		go func() { cl <- st.Close() }()
		time.Sleep(15 * time.Millisecond) // Close is now waiting for the write critical section
		w2 := make(chan error, 1)
		go func() { _, err := st.Write(B); w2 <- err }()
		time.Sleep(15 * time.Millisecond) // W2 is waiting behind it (or has failed at once)
		g.Open()
		e1, ec, e2 := <-w1, <-cl, <-w2
		out := <-got
		want := append([]byte("0"), A...)
		if e2 == nil {
			want = append(want, B...)
		}
		res.Count(fmt.Sprintf("A-w2ok=%v", e2 == nil), true)
		if e1 != nil || ec != nil {
			res.Stat("unjudged", 1)
		} else if !bytes.Equal(out.data, want) {
			key := "bytes-missing"
			if len(out.data) > len(want) || !bytes.HasPrefix(want, out.data) {
				key = "bytes-wrong"
			}
			res.Violate(key, fmt.Sprintf("Write(A) stalled in the connection, Close queued, Write(B) queued behind it: Write(B) returned %v, the peer read %d bytes then %v; "+
				"what the two writes reported implies exactly %d bytes before the end of the stream", e2, len(out.data), out.err, len(want)),
				map[string]any{"round": r, "w2_err": fmt.Sprint(e2), "peer_read": len(out.data), "want": len(want)})
		} else if !errors.Is(out.err, ErrBrokenStream) {
			res.Violate("eof-missing", fmt.Sprintf("after the close the peer read everything but then got %v instead of the end of the stream", out.err), nil)
		}
		done()

		// ---------------------------------------------------------------- (B)
		a, b, g, done = mkPair(r + 1000)
		st, err = a.OpenStream()
		if err != nil {
			t.Fatal(err)
		}
		other, _ := a.OpenStream()
		st.Write([]byte("0"))
		other.Write([]byte("1"))
		c1, _ := b.Accept()
		c2, _ := b.Accept()
		p1, p2 := c1.(*Stream), c2.(*Stream)
		if p1.id != st.id {
			p1, p2 = p2, p1
		}
		// a's reader on st is parked; a's writer on st is stalled in the connection
		rdone := make(chan error, 1)
		go func() {
			buf := make([]byte, 100)
			for {
				if _, err := st.Read(buf); err != nil {
					rdone <- err
					return
				}
			}
		}()
		g.Shut()
		wdone := make(chan error, 1)
		go func() { _, err := st.Write(A); wdone <- err }()
		if !waitParked(g, 1) {
			res.Stat("unjudged", 1)
			done()
			continue
		}
		// the peer closes st (its closing frame travels b -> a, that direction is not gated), then sends on the other stream
		p1.Close()
		p2.Write([]byte("after"))
		res.Count("B", true)
		released := false
		select {
		case err := <-rdone:
			released = true
			if !errors.Is(err, ErrBrokenStream) {
				res.Violate("eof-missing", fmt.Sprintf("the peer closed the stream; the parked reader got %v instead of the end of the stream", err), nil)
			}
		case <-time.After(5 * time.Second):
		}
		if !released {
			dump := c12Dump()
			if strings.Contains(dump, "passiveClose") && (strings.Contains(dump, "sync.(*Mutex).Lock") || strings.Contains(dump, "sync.(*RWMutex).Lock")) {
				res.Violate("read-blocked", "the peer's closing frame arrived while a local Write on that stream was stalled in the connection: 5 s later the reader parked in Read has not been released; "+
					"the goroutine dump shows the receiving goroutine waiting for a lock inside the stream's passive close", map[string]any{"round": r})
			} else {
				res.Stat("unjudged", 1)
			}
		} else {
			// frames of other streams behind the closing frame on the same connection must still get through
			ob := make(chan int, 1)
			go func() {
				buf := make([]byte, 100)
				other.SetReadDeadline(time.Now().Add(5 * time.Second))
				n, _ := other.Read(buf)
				ob <- n
			}()
			if n := <-ob; n != len("after") {
				res.Violate("bytes-missing", fmt.Sprintf("after the peer's close of one stream was processed, %d of 5 bytes sent on another stream of the same connection arrived", n), nil)
			}
		}
		g.Open()
		<-wdone
		done()
	}
}
