package multiplex

// C03, wake-up race (B2): "once a side has processed the peer's close, its blocked reads return". Mux.tla's ReadWake is
// immediate; in the code it depends on the reader's check-then-wait and the closer's flag-then-broadcast excluding each
// other. Real goroutines: a reader enters Read on an empty stream while the closing frame (or a local Close) is
// processed at a swept offset around that instant; the reader must return the data written before and then the error.

import (
	"errors"
	"fmt"
	"io"
	"runtime"
	"strings"
	"sync"
	"sync/atomic"
	"testing"
	"time"

	kit "github.com/cbeuw/Cloak/internal/verifkit"
	log "github.com/sirupsen/logrus"
)

func TestVerifC03WakeRace(t *testing.T) {
	log.SetOutput(io.Discard)
	log.SetLevel(log.PanicLevel)
	res := kit.NewResult()
	defer func() { res.Save(true) }()
	budget := 8 * time.Second
	if kit.Thorough() {
		budget = 90 * time.Second
	}
	deadline := time.Now().Add(budget)
	workers := 6
	var wg sync.WaitGroup
	var mu sync.Mutex
	trials, stuck := 0, 0
	for wk := 0; wk < workers; wk++ {
		wg.Add(1)
		go func(wk int) {
			defer wg.Done()
			rng := kit.NewRng(kit.Seed()*100 + int64(wk))
			var key [32]byte
			o, _ := MakeObfuscator(EncryptionMethodPlain, key)
			sesh := MakeSession(4, SessionConfig{Obfuscator: o, MsgOnWireSizeLimit: 16401, InactivityTimeout: time.Hour, Unordered: wk%3 == 2})
			// one connection into the void, so that a local Close can send its closing frame
			link := kit.NewVNet().NewLink(false, true)
			sesh.AddConnection(link.End(0))
			go func() {
				b := make([]byte, 20480)
				for {
					if _, err := link.End(1).Read(b); err != nil {
						return
					}
				}
			}()
			defer link.Fail()
			mkFrame := func(f *Frame) []byte {
				buf := make([]byte, 600)
				n, _ := sesh.obfuscate(f, buf, 0)
				return buf[:n]
			}
			for id := uint32(1); time.Now().Before(deadline); id++ {
				mu.Lock()
				if stuck > 2 {
					mu.Unlock()
					return
				}
				mu.Unlock()
				data := mkFrame(&Frame{StreamID: id, Seq: 0, Payload: []byte("hello")})
				closing := mkFrame(&Frame{StreamID: id, Seq: 1, Closing: closingStream, Payload: []byte{9}})
				sesh.recvDataFromRemote(data)
				conn, err := sesh.Accept()
				if err != nil {
					return
				}
				st := conn.(*Stream)
				local := rng.Intn(3) == 0 // a local Close instead of the peer's closing frame
				type rr struct {
					got []byte
					err error
				}
				out := make(chan rr, 1)
				var start atomic.Uint32
				readerSpin, closerSpin := rng.Intn(3000), rng.Intn(3000)
				go func() {
					for start.Load() == 0 {
					}
					for i := 0; i < readerSpin; i++ {
						_ = start.Load()
					}
					var got []byte
					buf := make([]byte, 64)
					for {
						n, err := st.Read(buf) // first the buffered data, then into the wait
						got = append(got, buf[:n]...)
						if err != nil {
							out <- rr{got, err}
							return
						}
					}
				}()
				runtime.Gosched()
				start.Store(1)
				for i := 0; i < closerSpin; i++ {
					_ = start.Load()
				}
				if local {
					st.Close()
				} else {
					sesh.recvDataFromRemote(closing)
				}
				mu.Lock()
				trials++
				mu.Unlock()
				select {
				case r := <-out:
					if !errors.Is(r.err, ErrBrokenStream) {
						res.Violate("eof-missing", fmt.Sprintf("reader got %v instead of the broken-stream error after the close", r.err), nil)
					} else if !local && string(r.got) != "hello" {
						res.Violate("bytes-missing", fmt.Sprintf("reader got %q before the end of the stream, the peer wrote \"hello\" before closing", r.got), nil)
					}
				case <-time.After(3 * time.Second):
					// evidence, not a timer: the stream is closed and the reader sits in the pipe's condition wait
					dump := c12Dump()
					parked := false
					for _, g := range strings.Split(dump, "\n\n") {
						if strings.Contains(g, "sync.(*Cond).Wait") && (strings.Contains(g, "streamBufferedPipe).Read") || strings.Contains(g, "datagramBufferedPipe).Read")) {
							parked = true
						}
					}
					if !st.isClosed() || !parked {
						res.Note("a reader did not return within 3 s but the lost wake-up is not evident (closed=%v parked=%v): not judged", st.isClosed(), parked)
						res.Stat("unjudged", 1)
						st.SetReadDeadline(time.Now().Add(-time.Second))
						continue
					}
					mu.Lock()
					stuck++
					mu.Unlock()
					res.Violate("read-blocked", fmt.Sprintf("a Read that was entering its wait while the close (local=%v) was processed is still parked in the buffer's condition wait 3 s after the stream was closed: lost wake-up", local),
						map[string]any{"local_close": local, "unordered": sesh.Unordered})
					st.SetReadDeadline(time.Now().Add(-time.Second))
				}
			}
			sesh.Close()
		}(wk)
	}
	wg.Wait()
	res.Count("wake-race", true)
	res.Count("wake-race-local", true)
	res.Stat("trials", int64(trials))
	res.Sample(map[string]any{"trials": trials, "stuck_readers": stuck}, 1)
}
